#!/bin/bash
# usage: ./seeds_all.sh [seeded/<name> ...]   (default: all)
# apply every kept seeded change to /repo in turn, run the check of the property it breaks (quick), undo; one line per seed.
cd "$(dirname "$0")"
git -C /repo status --short | grep -q . && { echo "/repo is not clean"; exit 2; }
for d in ${@:-seeded/*/}; do
  d=${d%/}/
  name=$(basename $d); pid=$(python3 -c "import json; print(json.load(open('$d/meta.json'))['breaks_property'])")
  git -C /repo apply /verif/$d/patch.diff || { echo "$name DOES-NOT-APPLY"; continue; }
  out=$(./check.sh $pid quick 2>&1); rc=$?
  git -C /repo checkout -- .
  echo "$name $pid rc=$rc violations=$(echo "$out" | grep -c '^VIOLATION') with-input=$(echo "$out" | grep '^VIOLATION' | grep -vc 'no-failing-input-found')"
done
./setup.sh > /dev/null 2>&1
