# encoding: utf-8
"""
hunt_C08.py - inputs on which the UNCHANGED library violates property C08 today:

  "Every value returned by parse, under every combination of dialect and options, consists solely of
   dict, list, str, int, float and bool (None only where null=None was requested): it survives
   json.dumps / json.loads unchanged and never contains a library-internal object, NaN or infinity.
   The tree is in the documented simplified form: no empty list, no one-element list, no None-valued
   entry; a property is a value, a list of at least two values, or absent."

Run with   PYTHONPATH=<checkout> python hunt_C08.py
Exit code 1 if at least one violation reproduces, 0 otherwise.
"""
import json
import math
import os
import sys

# PYTHONPATH decides which library is imported, not the location of this script
_here = os.path.dirname(os.path.abspath(__file__))
if sys.path and os.path.abspath(sys.path[0] or ".") == _here:
    del sys.path[0]

import mo_sql_parsing  # noqa: E402
from mo_sql_parsing import (  # noqa: E402
    parse,
    parse_mysql,
    parse_sqlserver,
    parse_bigquery,
    normal_op,
    simple_op,
)

PLAIN = (dict, list, str, int, float, bool)


def census(tree, null_is_none=False, normal_form=False):
    """
    return the list of C08 violations in the tree: (path, description)
    normal_form=True: calls=normal_op was requested; "args" of an {"op":..} node is a list by design
    """
    out = []

    def walk(v, path, parent_is_normal_call=False, key=None):
        if v is None:
            if not null_is_none:
                out.append((path, "None value"))
            return
        t = type(v)
        if t is dict:
            is_call = normal_form and "op" in v
            for k, x in v.items():
                if type(k) is not str:
                    out.append((path, "non-str key %r" % (k,)))
                walk(x, "%s.%s" % (path, k), is_call, k)
            return
        if t is list:
            if len(v) == 0:
                out.append((path, "empty list"))
            elif len(v) == 1 and not (parent_is_normal_call and key == "args"):
                out.append((path, "one-element list"))
            for i, x in enumerate(v):
                walk(x, "%s[%d]" % (path, i))
            return
        if t is float:
            if math.isnan(v) or math.isinf(v):
                out.append((path, "non-finite float %r" % v))
            return
        if t in (str, int, bool):
            return
        out.append((path, "library-internal / foreign object %s.%s" % (t.__module__, t.__name__)))

    walk(tree, "$")
    try:
        text = json.dumps(tree, allow_nan=False)
        if json.loads(text) != tree:
            out.append(("$", "json round trip differs"))
    except Exception as cause:
        out.append(("$", "json.dumps(allow_nan=False) raised %s: %s" % (type(cause).__name__, cause)))
    return out


def normal_shape(tree):
    """
    under calls=normal_op a call is documented (README) as {"op": op, "args": [..], "kwargs": {..}}
    report nodes that are calls in the simple_op shape, and normal calls whose args is not a list
    """
    out = []
    SIMPLE_CALL_KEYS = {"neg", "mul", "add", "sub", "div", "not"}

    def walk(v, path):
        if isinstance(v, dict):
            if "op" in v and "args" in v and not isinstance(v["args"], list):
                out.append((path, "normal_op node whose args is not a list: %r" % (v,)))
            for k, x in v.items():
                if k in SIMPLE_CALL_KEYS:
                    out.append((path, "simple_op shaped call {%r: ...} inside a calls=normal_op tree" % k))
                walk(x, "%s.%s" % (path, k))
        elif isinstance(v, list):
            for i, x in enumerate(v):
                walk(x, "%s[%d]" % (path, i))

    walk(tree, "$")
    return out


# ------------------------------------------------------------------------------------------------
# custom calls= callbacks, all of them ordinary ways to write the documented hook (op, args, kwargs)
# ------------------------------------------------------------------------------------------------
def copying_op(op, args, kwargs):
    """a callback that builds its own containers (does not keep the lists/dicts it was handed)"""
    out = {"call": op}
    if args is not None:
        out["args"] = list(args) if isinstance(args, list) else args
    if kwargs:
        out["kwargs"] = dict(kwargs)
    return out


def wrapped_simple_op(op, args, kwargs):
    """exactly simple_op, but not the same function object"""
    return simple_op(op, args, kwargs)


CASES = []


def case(root_cause, description, requires, thunk, checker=census, **checker_kw):
    CASES.append((root_cause, description, requires, thunk, checker, checker_kw))


# ---- ROOT CAUSE 1: float() of a literal that overflows gives inf / -inf ------------------------
R1 = "R1 real_num/real_pos use float(text): overflowing literal becomes inf"
REQ1 = "no NaN / infinity in the result; json.dumps(allow_nan=False) must succeed"
case(R1, "parse('select 1.5e400')", REQ1, lambda: parse("select 1.5e400"))
case(R1, "parse('select -1.5e400 from t')", REQ1, lambda: parse("select -1.5e400 from t"))
case(
    R1,
    "parse_mysql('select a from t limit 1.0e999', calls=normal_op, null=None)",
    REQ1,
    lambda: parse_mysql("select a from t limit 1.0e999", calls=normal_op, null=None),
    null_is_none=True,
    normal_form=True,
)
case(
    R1,
    "parse(\"select interval '1.5e400' day\")",
    REQ1,
    lambda: parse("select interval '1.5e400' day"),
)
case(
    R1,
    "parse('select a from t tablesample (1.5e400m)')   (bytes_constraint multiplies inf)",
    REQ1,
    lambda: parse("select a from t tablesample (1.5e400m)"),
)
case(
    R1,
    "parse_bigquery('select sum(x) over (order by y range between 1.5e400 preceding and current row)', all_columns='*')",
    REQ1,
    lambda: parse_bigquery(
        "select sum(x) over (order by y range between 1.5e400 preceding and current row)", all_columns="*"
    ),
)

# ---- ROOT CAUSE 2: deferred NULL substitution works by container identity ----------------------
R2 = "R2 calls= callback is handed the internal SQL_NULL Call marker; substitution after scrub only patches the containers scrub made"
REQ2 = "no library-internal object in the result (NULL must be the requested null value)"
case(R2, "parse('select f(null, 1)', calls=copying_op)", REQ2, lambda: parse("select f(null, 1)", calls=copying_op))
case(R2, "parse('select f(null)', calls=copying_op)", REQ2, lambda: parse("select f(null)", calls=copying_op))
case(
    R2,
    "parse('select case when a then null end', calls=copying_op, null=None)",
    REQ2,
    lambda: parse("select case when a then null end", calls=copying_op, null=None),
    null_is_none=True,
)
case(
    R2,
    "parse_sqlserver('select a from t where coalesce(b, null) = 1', calls=copying_op, null='NULL', all_columns='*')",
    REQ2,
    lambda: parse_sqlserver(
        "select a from t where coalesce(b, null) = 1", calls=copying_op, null="NULL", all_columns="*"
    ),
)

# ---- ROOT CAUSE 3: `scrub_op is simple_op` identity test, otherwise args=[SQL_NULL] ------------
R3 = "R3 scrub(): a single NULL argument is handed to every callback except the simple_op object itself as the one-element list [NULL]; any other single argument is handed bare"
REQ3 = "no one-element list: {'f': {'null': {}}} as for calls=simple_op (f(x) gives {'f': 'x'} with the same callback)"
case(
    R3,
    "parse('select f(null)', calls=wrapped_simple_op)      [parse('select f(x)', calls=wrapped_simple_op) -> %r]"
    % (parse("select f(x)", calls=wrapped_simple_op),),
    REQ3,
    lambda: parse("select f(null)", calls=wrapped_simple_op),
)
case(
    R3,
    "parse('select a from t where not null', calls=wrapped_simple_op, null='NULL')",
    REQ3,
    lambda: parse("select a from t where not null", calls=wrapped_simple_op, null="NULL"),
)

# ---- ROOT CAUSE 4: accepted input with no content returns None --------------------------------
R4 = "R4 _parse(): `if not output: continue` ... `if not acc: return None`"
REQ4 = "None only where null=None was requested (null is the default here); an accepted statement must give a JSON container"
case(R4, "parse('begin end')", REQ4, lambda: parse("begin end"))
case(R4, "parse('-- nothing here')", REQ4, lambda: parse("-- nothing here"))
case(R4, "parse_mysql(';', calls=normal_op)", REQ4, lambda: parse_mysql(";", calls=normal_op), normal_form=True)

# ---- ROOT CAUSE 5: parse actions that build {op: args} dicts themselves / scrub at parse time --
R5 = "R5 windows._to_bound_call scrubs at parse time and wraps in a literal {'neg': ..}; sql_parser.scale returns a literal {'mul': ..}: the calls= hook is bypassed and the normal_op node is scrubbed twice"
REQ5 = "under calls=normal_op every call is {'op':..,'args':[..],'kwargs':{..}} (README); parse('select f(z)', calls=normal_op) gives args ['z']"
case(
    R5,
    "parse('select sum(x) over (order by y range between f(z) preceding and current row)', calls=normal_op)",
    REQ5,
    lambda: parse("select sum(x) over (order by y range between f(z) preceding and current row)", calls=normal_op),
    checker=normal_shape,
)
case(
    R5,
    "parse('select 2x, 2*x', calls=normal_op)",
    REQ5,
    lambda: parse("select 2x, 2*x", calls=normal_op),
    checker=normal_shape,
)


def main():
    reproduced = 0
    seen_roots = set()
    for root, description, requires, thunk, checker, kw in CASES:
        if root not in seen_roots:
            seen_roots.add(root)
            print("=" * 100)
            print(root)
            print("=" * 100)
        print("input    :", description)
        try:
            result = thunk()
        except Exception as cause:
            print("returned : RAISED %s: %s" % (type(cause).__name__, str(cause)[:200]))
            print("requires :", requires)
            print("verdict  : not reproduced (raises instead of returning)")
            print()
            continue
        print("returned : %r" % (result,))
        print("requires :", requires)
        problems = checker(result, **kw)
        if problems:
            reproduced += 1
            for path, msg in problems:
                print("VIOLATION: at %s: %s" % (path, msg))
        else:
            print("verdict  : ok (not reproduced)")
        print()
    print("%d of %d cases reproduce a violation" % (reproduced, len(CASES)))
    return 1 if reproduced else 0


if __name__ == "__main__":
    sys.exit(main())
