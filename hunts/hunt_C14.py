# encoding: utf-8
"""
Hunt script for property C14 (malformed input is rejected with ParseException,
never answered or crashed on).

Run:  PYTHONPATH=/tmp/wt5/C14 /venv/bin/python /tmp/wt5/C14/hunt_C14.py

Every case below was observed on the unchanged library.  For each case the
script prints the input, what the library did today, and what C14 requires.
Exit status 1 if at least one NEW violation reproduces, else 0.

Kinds of violation
  crash     parse raised something that is not a ParseException
  answered  input that is certainly not a complete statement came back as a tree
  not-tree  parse returned an object that is not a JSON tree
"""
import json
import sys

from mo_parsing import ParseException

from mo_sql_parsing import parse, parse_bigquery, parse_mysql, parse_sqlserver

DIALECT = {"common": parse, "mysql": parse_mysql, "sqlserver": parse_sqlserver, "bigquery": parse_bigquery}


def observe(sql, dialect="common", **kwargs):
    """RETURN (kind, detail) WHERE kind IN tree / parse_exception / other_exception"""
    try:
        result = DIALECT[dialect](sql, **kwargs)
        return "tree", result
    except ParseException as cause:
        return "parse_exception", "ParseException at char %s: %s" % (cause.loc, str(cause)[:90].replace("\n", " "))
    except BaseException as cause:  # RecursionError, mo_logs Except, ...
        root = cause
        while root.__cause__ is not None or root.__context__ is not None:
            root = root.__cause__ or root.__context__
        t = type(cause)
        outer = "%s.%s" % (t.__module__, t.__name__)
        first_line = str(cause).split("\n")[0][:110]
        if root is cause:
            return "other_exception", "%s: %s" % (outer, first_line)
        return (
            "other_exception",
            "%s: %s  [root: %s: %s]" % (outer, first_line, type(root).__name__, str(root)[:90]),
        )


def is_json_tree(value):
    try:
        json.dumps(value)
        return True
    except Exception:
        return False


def nest(prefix, core, suffix, depth):
    return "select " + prefix * depth + core + suffix * depth


# (root cause id, title, where, kind, dialect, sql)
NEW = [
    # ---------------------------------------------------------------- crashes
    (1, "MERGE ... WHEN MATCHED AND <cond>: to_match_expr builds Call() without kwargs",
     "utils.py:500-503 to_match_expr", "crash", "common",
     "MERGE INTO t USING s ON t.a = s.a WHEN MATCHED AND s.x = 1 THEN DELETE"),
    (1, "same, NOT MATCHED branch",
     "utils.py:500-503 to_match_expr", "crash", "common",
     "MERGE INTO t USING s ON t.a = s.a WHEN NOT MATCHED AND s.x = 1 THEN INSERT VALUES (1)"),

    (2, "DATE/TIME/TIMESTAMP followed by now/today/tomorrow/eod: lambda calls .lower() on a ParseResults",
     "sql_parser.py:229 timestamp (lambda t: t.lower())", "crash", "common",
     "select date today"),
    (2, "same", "sql_parser.py:229", "crash", "common", "select timestamp now from t"),

    (3, "PIVOT aggregate written in parentheses: to_pivot_column returns an inner ParseResults, engine refuses ('roll back')",
     "utils.py:660-665 to_pivot_column", "crash", "common",
     "SELECT a FROM t PIVOT ((a) FOR b IN (1))"),
    (3, "UNPIVOT IN-list member written in parentheses: same in to_unpivot_column",
     "utils.py:652-657 to_unpivot_column", "crash", "common",
     "SELECT a FROM t UNPIVOT (a FOR b IN ((c)))"),

    (4, "r'..' regex string where the action assumes a {'literal': ..} string: UNPIVOT ... AS r'x'",
     "utils.py:657 to_unpivot_column name['literal']", "crash", "common",
     "SELECT a FROM t UNPIVOT (a FOR b IN (c AS r'x'))"),
    (4, "same assumption in CACHE TABLE ... OPTIONS",
     "sql_parser.py:765 cache_options lambda tokens[0]['literal']", "crash", "common",
     "cache table t options (r'x' = y)"),

    (5, "EXPLAIN INTO <name> <file source>: to_option does dict([tokens]) on three tokens",
     "utils.py:355-356 to_option / sql_parser.py:1009 explain_into", "crash", "common",
     "explain into x @y select 1"),

    (6, "RecursionError escapes for valid SQL nested 20 deep (interval over scalar sub-query)",
     "__init__.py:110 parser.parse_string (about 50 Python frames per level)", "crash", "common",
     nest("interval (select ", "a", ") day", 20)),
    (6, "RecursionError escapes for valid SQL nested 25 deep (array(select ...))",
     "__init__.py:110", "crash", "common",
     nest("array(select ", "a", ")", 25)),
    (6, "RecursionError instead of ParseException for the same text with one ')' missing",
     "__init__.py:110", "crash", "common",
     nest("array(select ", "a", ")", 25)[:-1]),

    # ------------------------------------------------- answered with a tree
    (7, "dangling operator: a reserved word is taken as the missing operand (bare column fallback only excludes UNION/FROM/WHERE/SELECT)",
     "sql_parser.py:375 Combine(function_name + Optional('.*')), function_name at :61", "answered", "common",
     "select a from t where a = and"),
    (7, "same: AND with no right operand", "sql_parser.py:375", "answered", "common",
     "select a from t where a and or"),
    (7, "same: GROUP BY with no key, HAVING with no condition", "sql_parser.py:375", "answered", "common",
     "select a from t group by having"),
    (7, "same: LIKE without pattern", "sql_parser.py:375", "answered", "common",
     "select a from t where a like like"),
    (7, "same: unary + with no operand swallows ELSE", "sql_parser.py:375", "answered", "common",
     "select case when 1 = 1 then + else - 1 end from t"),
    (7, "same: SELECT list member missing before AS", "sql_parser.py:375", "answered", "common",
     "select a, as from t"),
    (7, "same: DISTINCT with no select list", "sql_parser.py:375", "answered", "common",
     "select distinct from t"),
    (7, "same: ORDER BY with no sort key", "sql_parser.py:375", "answered", "common",
     "select a from t order by limit"),

    (8, "CASE with no WHEN branch (ZeroOrMore)", "sql_parser.py:75 case", "answered", "common",
     "select case end from t"),
    (8, "CASE ELSE without WHEN", "sql_parser.py:75 case", "answered", "common",
     "select case else 1 end from t"),
    (8, "simple CASE with no WHEN branch", "sql_parser.py:83 switch", "answered", "common",
     "select case x end from t"),

    (9, "FOREIGN KEY with nothing after it (whole body is Optional) - accepted and dropped",
     "sql_parser.py:646-651 table_def_foreign_key", "answered", "common",
     "create table t (a int, foreign key)"),
    (10, "ALTER TABLE ... ADD with nothing to add (ZeroOrMore)",
     "sql_parser.py:1032-1042 alter / add", "answered", "common",
     "alter table t add"),
    (11, "MERGE without any WHEN clause (Many with min 0)",
     "sql_parser.py:878 merge", "answered", "common",
     "merge into t using s on a = b"),
    (12, "f(DISTINCT) with no argument",
     "sql_parser.py:317-318 call_function", "answered", "common",
     "select count(distinct) from t"),
    (13, "extra tokens after a complete CREATE INDEX are swallowed by index_options and dropped",
     "sql_parser.py:653 index_options", "answered", "common",
     "create index i on t (a) x y z"),
    (13, "same inside a PRIMARY KEY constraint",
     "sql_parser.py:653 index_options", "answered", "common",
     "create table t (primary key (a) x y z)"),
    (14, "DELIMITER with no delimiter (only blanks after it)",
     "__init__.py:157 delimiter_pattern + sql_parser.py:1154 delimiter_command", "answered", "common",
     "delimiter  "),
    (15, "trailing comma after the select list (comma = Optional(',') after selection); pinned by tests/test_bigquery.py::test_issue_155_trailing_comma, applies to every dialect",
     "sql_parser.py:471 / :485 selection ... + comma", "answered", "common",
     "select a,"),
    (15, "same", "sql_parser.py:485", "answered", "mysql", "select a, from t"),

    # ------------------------------------------------------------ not a tree
    (16, "returned dict has a parser object as a key (result named with (INDEX | KEY))",
     "sql_parser.py:738 create_index and :751 create_schema", "not-tree", "common",
     "create schema or replace s"),
    (16, "same", "sql_parser.py:738", "not-tree", "common",
     "create index or replace i on t (a)"),
]

# Same mechanism as findings already recorded for C14 (literal_eval on token text,
# _to_bound_call negating a non-number); listed because the trigger is new.
VARIANTS = [
    ("literal_eval", "a plain line break inside an r\"..\" regex string (fix 5bf6dea covered identifiers and double-quoted strings only)",
     "utils.py:806-813 single_regex / literal_regex", "crash", "common", 'select r"a\nb" from t'),
    ("literal_eval", "string ending in backslash + double quote: 'a\\\"'",
     "utils.py:789-797 single_literal", "crash", "common", "select 'a\\\"' from t"),
    ("literal_eval", "lone surrogate inside a string literal",
     "utils.py:789-797 single_literal", "crash", "common", "select 'a\ud800b' from t"),
    ("frame offset", "RANGE frame offset that is a tuple",
     "windows.py:31 _to_bound_call", "crash", "common",
     "select sum(a) over (order by b range between (1, 2) preceding and current row) from t"),
    ("frame offset", "RANGE frame offset NULL",
     "windows.py:31 _to_bound_call", "crash", "common",
     "select sum(a) over (order by b range between null preceding and current row) from t"),
]

REQUIRE = {
    "crash": "a tree or a ParseException - never another exception type",
    "answered": "ParseException with a position inside the input (the text is not a complete statement)",
    "not-tree": "a JSON tree (dict / list / str / number with string keys) or a ParseException",
}


def run_case(kind, dialect, sql):
    outcome, detail = observe(sql, dialect)
    if kind == "crash":
        bad = outcome == "other_exception"
    elif kind == "answered":
        bad = outcome == "tree"
    else:
        bad = outcome == "tree" and not is_json_tree(detail)
    return bad, outcome, detail


def main():
    reproduced = set()
    total = 0
    print("=" * 100)
    print("NEW ROOT CAUSES")
    print("=" * 100)
    for rc, title, where, kind, dialect, sql in NEW:
        bad, outcome, detail = run_case(kind, dialect, sql)
        total += 1
        shown = sql if len(sql) <= 160 else sql[:75] + " ... " + sql[-75:] + "  (%d chars)" % len(sql)
        print("[RC%02d] %s" % (rc, title))
        print("   where    : %s" % where)
        print("   input    : (%s) %r" % (dialect, shown))
        print("   returned : %s" % (detail if outcome != "tree" else "TREE " + repr(detail)[:300]))
        print("   required : %s" % REQUIRE[kind])
        print("   verdict  : %s" % ("VIOLATION REPRODUCED" if bad else "not reproduced"))
        print()
        if bad:
            reproduced.add(rc)

    print("=" * 100)
    print("NEW TRIGGERS OF ALREADY RECORDED C14 MECHANISMS (not counted in the exit status)")
    print("=" * 100)
    for mech, title, where, kind, dialect, sql in VARIANTS:
        bad, outcome, detail = run_case(kind, dialect, sql)
        print("[%s] %s" % (mech, title))
        print("   where    : %s" % where)
        print("   input    : (%s) %r" % (dialect, sql))
        print("   returned : %s" % (detail if outcome != "tree" else "TREE " + repr(detail)[:300]))
        print("   required : %s" % REQUIRE[kind])
        print("   verdict  : %s" % ("VIOLATION REPRODUCED" if bad else "not reproduced"))
        print()

    # the parser must still work after all of the above
    after = observe("select a from t")
    print("sanity: parse('select a from t') afterwards ->", after)
    print()
    print("root causes reproduced: %s of %s (cases run: %d)" % (
        sorted(reproduced), sorted({c[0] for c in NEW}), total,
    ))
    return 1 if reproduced else 0


if __name__ == "__main__":
    sys.exit(main())
