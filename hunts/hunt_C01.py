# encoding: utf-8
"""
hunt_C01.py - inputs on which the UNCHANGED mo_sql_parsing violates property C01
("expression trees honour operator precedence, associativity and operand order;
evaluating the tree with the documented meaning of each operator name gives the
value SQLite computes for the text").

Run:  PYTHONPATH=<library checkout> python hunt_C01.py
Exit status 1 if at least one violation reproduces, 0 otherwise.
"""
import os
import sys

_here = os.path.dirname(os.path.abspath(__file__))
# drop only the entry python added for the script's own directory (sys.path[0]); an identical
# entry that comes from PYTHONPATH stays, so PYTHONPATH decides which library is imported
if sys.path and os.path.abspath(sys.path[0] or os.getcwd()) == _here:
    del sys.path[0]

import json
import re
import sqlite3

from mo_sql_parsing import parse

# --------------------------------------------------------------------------------------
# helpers
# --------------------------------------------------------------------------------------


def tree(expr):
    """parse 'SELECT <expr> FROM env' and return the expression tree (or the exception)"""
    try:
        result = parse("SELECT " + expr + " FROM env")["select"]
    except Exception as cause:
        return cause
    if isinstance(result, dict) and set(result.keys()) == {"value"}:
        return result["value"]
    return result


def show(value):
    if isinstance(value, Exception):
        return type(value).__name__ + ": " + str(value).strip().split("\n")[0][:110]
    try:
        return json.dumps(value)
    except Exception:
        return repr(value)


# the documented meaning of each operator name, as fully parenthesised SQLite text
NARY = {"add": "+", "mul": "*", "concat": "||", "binary_and": "&", "binary_or": "|", "and": "AND", "or": "OR"}
BINARY = {
    "sub": "-",
    "div": "/",
    "mod": "%",
    "lt": "<",
    "lte": "<=",
    "gt": ">",
    "gte": ">=",
    "eq": "=",  # conservative equality (NULL if either side is NULL)
    "neq": "<>",
    "eq!": "IS",  # "decisive equality" (keywords.py: DEQ) - NULL-safe equality
    "ne!": "IS NOT",  # "decisive" inequality
    "like": "LIKE",
    "regexp": "REGEXP",
}
UNARY = {"neg": "-", "pos": "+", "binary_not": "~", "not": "NOT "}


def to_sqlite(t):
    if t is True:
        return "1"
    if t is False:
        return "0"
    if isinstance(t, (int, float)):
        return repr(t)
    if isinstance(t, str):
        return t
    if isinstance(t, list):
        return "(" + ", ".join(to_sqlite(v) for v in t) + ")"
    if isinstance(t, dict):
        if set(t) == {"literal"}:
            v = t["literal"]
            if isinstance(v, list):
                return "(" + ", ".join(to_sqlite(x if not isinstance(x, str) else {"literal": x}) for x in v) + ")"
            return "'" + str(v).replace("'", "''") + "'"
        if set(t) == {"null"}:
            return "NULL"
        (op, args), = [(k, v) for k, v in t.items()]
        if op in NARY:
            return "(" + (" " + NARY[op] + " ").join(to_sqlite(a) for a in args) + ")"
        if op in BINARY:
            return "(" + to_sqlite(args[0]) + " " + BINARY[op] + " " + to_sqlite(args[1]) + ")"
        if op in UNARY:
            return "(" + UNARY[op] + to_sqlite(args) + ")"
        if op == "missing":
            return "(" + to_sqlite(args) + " IS NULL)"
        if op == "exists":
            return "(" + to_sqlite(args) + " IS NOT NULL)"
        if op == "in":
            rhs = to_sqlite(args[1])
            if not rhs.startswith("("):
                rhs = "(" + rhs + ")"
            return "(" + to_sqlite(args[0]) + " IN " + rhs + ")"
    raise Exception("no SQLite rendering for " + show(t))


ROWS = [
    (1, 2, 4, "xa", None),
    (5, 3, 1, "ya", None),
    (None, 2, 7, None, None),
    (None, None, 0, "x", None),
    (0, None, 3, "", None),
    (-3, 6, 6, "1x", None),
    (2, 2, 2, "xx", None),
]


def connect():
    db = sqlite3.connect(":memory:")
    db.create_function("regexp", 2, lambda p, s: None if p is None or s is None else int(re.search(p, str(s)) is not None))
    db.execute("CREATE TABLE env (a, b, c, s, n)")
    db.executemany("INSERT INTO env VALUES (?,?,?,?,?)", ROWS)
    return db


DB = connect()


def column(expr):
    try:
        return [(r[0], type(r[0]).__name__) for r in DB.execute("SELECT " + expr + " FROM env ORDER BY rowid")]
    except Exception as cause:
        return "sqlite error: " + str(cause)


def values(col):
    if isinstance(col, str):
        return col
    return "[" + ", ".join(repr(v) for v, _ in col) + "]"


FOUND = []


def report(ident, title, text, got, required, violated):
    print("-" * 100)
    print(("VIOLATION " if violated else "ok        ") + ident + " : " + title)
    print("  input    : " + text)
    print("  returned : " + got)
    print("  required : " + required)
    if violated:
        FOUND.append(ident)


def check_tree(ident, title, expr, expected, semantic=True):
    """the tree must equal `expected`; show SQLite values of text and of the returned tree as evidence"""
    got = tree(expr)
    violated = isinstance(got, Exception) or got != expected
    got_txt = show(got)
    req_txt = show(expected)
    if semantic and violated and not isinstance(got, Exception):
        try:
            rendered = to_sqlite(got)
            got_txt += "\n             which means " + rendered + " = " + values(column(rendered))
        except Exception as cause:
            got_txt += "\n             (" + str(cause) + ")"
        req_txt += "\n             SQLite computes for the text  " + values(column(expr))
    report(ident, title, expr, got_txt, req_txt, violated)


def check_semantic(ident, title, expr):
    """the value of the returned tree (documented meaning of its names) must equal SQLite's value of the text"""
    got = tree(expr)
    if isinstance(got, Exception):
        report(ident, title, expr, show(got), "a tree", True)
        return
    rendered = to_sqlite(got)
    mine, theirs = column(rendered), column(expr)
    report(
        ident,
        title,
        expr,
        show(got) + "\n             which means " + rendered + " = " + values(mine),
        "a tree whose value on every row is what SQLite computes for the text: " + values(theirs),
        mine != theirs,
    )


def check_same_tree(ident, title, expr_a, expr_b, why="redundant parentheses"):
    """two spellings that differ only in redundant parentheses / a comment must give the same tree"""
    a, b = tree(expr_a), tree(expr_b)
    report(
        ident,
        title,
        expr_a + "      versus      " + expr_b,
        show(a) + "      versus      " + show(b),
        "the same tree for both (they differ only in " + why + ")",
        isinstance(a, Exception) or isinstance(b, Exception) or a != b,
    )


def check_distinguished(ident, title, expr_a, expr_b, table_note=""):
    """two texts that SQLite evaluates differently must not get the same tree"""
    a, b = tree(expr_a), tree(expr_b)
    va, vb = column(expr_a), column(expr_b)
    same_tree = not isinstance(a, Exception) and not isinstance(b, Exception) and a == b
    report(
        ident,
        title,
        expr_a + "      versus      " + expr_b,
        show(a) + "      versus      " + show(b),
        "different trees: SQLite computes " + values(va) + " versus " + values(vb) + table_note,
        same_tree and va != vb,
    )


# --------------------------------------------------------------------------------------
# 1. unary + - ~ sit BELOW COLLATE, || (and the JSON operators) in KNOWN_OPS; ~ sits below * / % + -
#    (this is the operator on the LEFT: nothing is dropped, the tree is simply nested the wrong way)
# --------------------------------------------------------------------------------------
check_tree(
    "R1a",
    "unary minus binds looser than ||",
    "-1 || 'x'",
    {"concat": [-1, {"literal": "x"}]},
)
check_tree(
    "R1b", "unary minus binds looser than || (column operand)", "-a || b", {"concat": [{"neg": "a"}, "b"]},
)
check_tree("R1c", "~ binds looser than + - * / %", "~a + b", {"add": [{"binary_not": "a"}, "b"]})
check_tree("R1d", "~ binds looser than *", "~a * b", {"mul": [{"binary_not": "a"}, "b"]})

# --------------------------------------------------------------------------------------
# 2. & and | are two separate levels (& tighter); SQLite has them on ONE left-associative level
# --------------------------------------------------------------------------------------
check_tree("R2", "& and | are not on one level", "a | b & c", {"binary_and": [{"binary_or": ["a", "b"]}, "c"]})

# --------------------------------------------------------------------------------------
# 3. REGEXP / NOT REGEXP / ~ / !~ / ~* / !~* are appended at the END of KNOWN_OPS: they bind looser than
#    NOT, AND, OR (keywords.precedence says level 7, next to eq)
# --------------------------------------------------------------------------------------
check_tree(
    "R3a",
    "REGEXP binds looser than AND",
    "a = 1 AND s REGEXP '^x'",
    {"and": [{"eq": ["a", 1]}, {"regexp": ["s", {"literal": "^x"}]}]},
)
check_tree(
    "R3b",
    "REGEXP binds looser than OR (operator on the left)",
    "s REGEXP '^x' OR a = 5",
    {"or": [{"regexp": ["s", {"literal": "^x"}]}, {"eq": ["a", 5]}]},
)
check_tree(
    "R3c", "REGEXP binds looser than NOT", "NOT s REGEXP '^x'", {"not": {"regexp": ["s", {"literal": "^x"}]}},
)

# --------------------------------------------------------------------------------------
# 4. IS DISTINCT FROM is named "eq!" (the name of NULL-safe EQUALITY, also given to MySQL's <=>),
#    IS NOT DISTINCT FROM is named "ne!": the two names are swapped; the NULL folding follows the swap
# --------------------------------------------------------------------------------------
t1, t2 = tree("a IS NOT DISTINCT FROM b"), tree("a <=> b")
t3 = tree("a IS DISTINCT FROM b")
report(
    "R4a",
    "IS DISTINCT FROM gets the same operator name as <=> (its negation)",
    "a IS DISTINCT FROM b   /   a <=> b   /   a IS NOT DISTINCT FROM b",
    show(t3) + "   /   " + show(t2) + "   /   " + show(t1),
    "<=> and IS NOT DISTINCT FROM are the same operator (NULL-safe equality) and must share a name; "
    "IS DISTINCT FROM is its negation. SQLite: a IS DISTINCT FROM b = "
    + values(column("a IS DISTINCT FROM b"))
    + ", a IS NOT DISTINCT FROM b = "
    + values(column("a IS NOT DISTINCT FROM b")),
    show(t3) == show(t2) or show(t1) != show(t2),
)
check_semantic("R4b", "IS DISTINCT FROM NULL is folded to 'missing' (IS NULL)", "a IS DISTINCT FROM NULL")
check_semantic("R4c", "IS NOT DISTINCT FROM NULL is folded to 'exists' (IS NOT NULL)", "a IS NOT DISTINCT FROM NULL")
check_semantic("R4d", "IS DISTINCT FROM evaluated as decisive equality", "a IS DISTINCT FROM b")

# --------------------------------------------------------------------------------------
# 5. IS / IS NOT with a right operand other than the bare NULL are renamed to the NULL-unsafe eq / neq
#    (binary_ops maps "is" -> "eq" BEFORE the `elif op == "is"` branch, which is therefore dead code)
# --------------------------------------------------------------------------------------
check_semantic("R5a", "a IS b becomes conservative eq", "a IS b")
check_semantic("R5b", "a IS NOT b becomes neq", "a IS NOT b")
check_semantic("R5c", "a IS TRUE becomes a = TRUE", "a IS TRUE")

# --------------------------------------------------------------------------------------
# 6. parse actions test the RAW token (identity / type), so redundant parentheses change the tree
# --------------------------------------------------------------------------------------
check_same_tree("R6a", "NULL folding is defeated by parentheses", "a = NULL", "a = (NULL)")
check_same_tree("R6b", "IS NULL folding is defeated by parentheses", "a IS NULL", "a IS (NULL)")
check_same_tree("R6c", "sign folding is defeated by parentheses", "-1", "-(1)")
check_same_tree("R6d", "tuple of numbers changes shape with parentheses", "a IN (1, 2)", "a IN ((1), 2)")

# --------------------------------------------------------------------------------------
# 7. = NULL / <> NULL are folded to IS NULL / IS NOT NULL; SQLite computes NULL for both
# --------------------------------------------------------------------------------------
check_semantic("R7a", "a = NULL folded to missing", "a = NULL")
check_semantic("R7b", "a <> NULL folded to exists", "a <> NULL")
check_semantic("R7c", "folding inside a chain", "a = NULL = b")

# --------------------------------------------------------------------------------------
# 8. numeric literals with an exponent and no decimal point
# --------------------------------------------------------------------------------------
check_tree("R8a", "negative exponent without a decimal point is not one literal", "a * 1e-3", {"mul": ["a", 0.001]})
got = tree("1e2 / 3")
report(
    "R8b",
    "1e2 is returned as the integer 100 (SQLite: the real 100.0)",
    "1e2 / 3",
    show(got) + "\n             which means (100 / 3) = " + values(column("100 / 3")),
    "a real operand: SQLite computes " + values(column("1e2 / 3")),
    not isinstance(got, Exception) and isinstance(got["div"][0], int),
)
got = tree("1e400")
report(
    "R8c",
    "a large exponent raises a bare Exception (wrapped OverflowError), not a ParseException / a value",
    "1e400",
    show(got),
    "a tree (SQLite computes " + values(column("1e400")) + ") or a ParseException",
    isinstance(got, Exception) and type(got).__name__ != "ParseException",
)

# --------------------------------------------------------------------------------------
# 9. operator names and function names share one namespace
# --------------------------------------------------------------------------------------
DB.execute("CREATE TABLE t1 (x)")
DB.execute("INSERT INTO t1 VALUES (NULL)")
check_distinguished(
    "R9a",
    "EXISTS (subquery) and (subquery) IS NOT NULL are both named 'exists'",
    "EXISTS (SELECT x FROM t1)",
    "(SELECT x FROM t1) IS NOT NULL",
    "   (t1 holds one row, x = NULL)",
)
got = tree("concat(a, b) || c")
report(
    "R9b",
    "a call of a function whose name is an operator name is flattened into the operator chain",
    "concat(a, b) || c        (also add(a, b) + c, and(a, b) AND c, ...)",
    show(got),
    show({"concat": [{"concat": ["a", "b"]}, "c"]})
    + "  - a call node kept apart from the || chain (SQLite >= 3.44 / Postgres / MySQL concat() skips NULLs, || does not)",
    got == {"concat": ["a", "b", "c"]},
)

# --------------------------------------------------------------------------------------
# 10. a parenthesised single value is indistinguishable from the bare value / one tuple argument from many
# --------------------------------------------------------------------------------------
DB.execute("CREATE TABLE b (v)")
DB.execute("INSERT INTO b VALUES (1), (5)")
check_distinguished(
    "R10a",
    "x IN (y) (a one-element list) and x IN y (a table) give one tree",
    "a IN (b)",
    "a IN b",
    "   (a table named b holds 1 and 5)",
)
a, b = tree("coalesce((a, b))"), tree("coalesce(a, b)")
report(
    "R10b",
    "a call with ONE row-value argument and a call with TWO arguments give one tree",
    "coalesce((a, b))      versus      coalesce(a, b)",
    show(a) + "      versus      " + show(b),
    "different trees (arity 1 and arity 2)",
    show(a) == show(b),
)

# --------------------------------------------------------------------------------------
# 11. a comment between the words of a multi-word operator is not skipped (the compound keywords are built at
#     import time in keywords.py, outside the parser's Whitespace() context that registers the comment rules)
# --------------------------------------------------------------------------------------
check_same_tree("R11a", "comment inside IS NOT: silently a different tree", "a IS NOT NULL", "a IS /* c */ NOT NULL", why="a comment")
check_same_tree("R11b", "line comment inside IS NOT", "a IS NOT NULL", "a IS -- c\n NOT NULL", why="a comment")
check_same_tree("R11c", "comment inside NOT IN: rejected", "a NOT IN (1, 2)", "a NOT /* c */ IN (1, 2)", why="a comment")
check_same_tree("R11d", "comment inside NOT BETWEEN: rejected", "a NOT BETWEEN 1 AND 2", "a NOT /* c */ BETWEEN 1 AND 2", why="a comment")
check_same_tree("R11e", "comment after ::", "a::int", "a:: /* c */ int", why="a comment")

# --------------------------------------------------------------------------------------
# 12. further instances of the KNOWN mechanism (a prefix operator that sits lower in KNOWN_OPS than the
#     operator on its left is replaced by its token and its operand is dropped) that need no '~'
# --------------------------------------------------------------------------------------
check_tree("K1", "[known mechanism] || followed by a signed number", "s || -1", {"concat": ["s", -1]})
check_tree("K2", "[known mechanism] + followed by -", "+ -a", {"pos": {"neg": "a"}}, semantic=False)
check_tree(
    "K3",
    "[known mechanism] BETWEEN ... AND NOT c",
    "a BETWEEN b AND NOT c",
    {"between": ["a", "b", {"not": "c"}]},
    semantic=False,
)

print("=" * 100)
print(str(len(FOUND)) + " violations reproduced: " + " ".join(FOUND))
sys.exit(1 if FOUND else 0)
