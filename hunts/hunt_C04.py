# Hunt for existing violations of property C04:
#   "format preserves meaning for every well-formed tree, not only parser output"
#
# Every case below is an ordinary tree T (mostly obtained as parse(<sql with explicit parentheses>)).
# The property requires
#   (RT)     parse(format(T)) == T, and
#   (SQLITE) SQLite evaluates format(T) to the same values as a fully parenthesised rendering of T.
# The script prints, for each case, the input, what the library returned, and what is required.
# Exit status: 1 if at least one violation reproduces, 0 otherwise.
import os
import sys

_here = os.path.dirname(os.path.abspath(__file__))
# python puts the script's directory first; drop that entry only (PYTHONPATH may legitimately name the same directory)
if sys.path and os.path.abspath(sys.path[0] or os.getcwd()) == _here:
    del sys.path[0]

import copy
import sqlite3

from mo_sql_parsing import parse, format

con = sqlite3.connect(":memory:")
con.execute("create table t(a, b, c, d)")
_vals = [None, 0, 1, 2, -3, 5, "x", ""]
_rows = []
_n = 0
for _a in _vals:
    for _b in _vals:
        _n += 1
        _rows.append((_a, _b, _vals[_n % len(_vals)], _vals[(_n * 3 + 1) % len(_vals)]))
con.executemany("insert into t values (?,?,?,?)", _rows)
con.execute("create table u(x)")
con.executemany("insert into u values (?)", [(None,), (None,)])


def sqlite_eval(sql):
    try:
        return con.execute(sql).fetchall()
    except Exception as cause:
        return "sqlite error: " + str(cause)


violations = 0


def report(root, shown_input, returned, required, violated):
    global violations
    print("[%s] %s" % ("VIOLATION" if violated else "ok (does not reproduce)", root))
    print("    input    :", shown_input)
    print("    returned :", returned)
    print("    required :", required)
    if violated:
        violations += 1


def rt_tree(root, tree, shown=None):
    """round trip observation: parse(format(T)) == T"""
    before = copy.deepcopy(tree)
    shown = shown or "format(%r)" % (tree,)
    required = "text that parses back to the same tree %r" % (before,)
    try:
        sql = format(tree)
    except Exception as cause:
        report(root, shown, "format raised %s: %s" % (type(cause).__name__, str(cause)[:100]), required, True)
        return
    if tree != before:
        report(root, shown, "format mutated its argument", "argument unchanged", True)
        return
    flat = sql.replace("\n", " ")
    try:
        again = parse(sql)
    except Exception as cause:
        report(root, shown, "%s   -- which does not parse (%s)" % (flat, str(cause)[:60]), required, True)
        return
    if again != before:
        report(root, shown, "%s   -- which parses to %r" % (flat, again), required, True)
    else:
        report(root, shown, flat, required, False)


def rt_sql(root, sql):
    try:
        tree = parse(sql)
    except Exception as cause:
        report(root, sql, "parse of the input failed: " + str(cause)[:80], "n/a", False)
        return
    rt_tree(root, tree, shown="T = parse(%r) = %r" % (sql, tree))


def sqlite_sql(root, sql):
    """SQLite observation; `sql` is itself the fully parenthesised rendering of T = parse(sql)"""
    try:
        tree = parse(sql)
    except Exception as cause:
        report(root, sql, "parse of the input failed: " + str(cause)[:80], "n/a", False)
        return
    expected = sqlite_eval(sql)
    try:
        emitted = format(tree)
    except Exception as cause:
        report(root, sql, "format raised %s" % type(cause).__name__, "SQL with SQLite values %r" % (expected[:6],), True)
        return
    got = sqlite_eval(emitted)
    flat = emitted.replace("\n", " ")
    if got != expected:
        if isinstance(got, list) and isinstance(expected, list) and len(got) == len(expected):
            diff = [i for i, (x, y) in enumerate(zip(got, expected)) if x != y]
            n_diff = len(diff)
            got_show = [got[i] for i in diff[:4]]
            exp_show = [expected[i] for i in diff[:4]]
        else:
            n_diff, got_show, exp_show = "all", got if isinstance(got, str) else got[:4], expected[:4]
        report(
            root,
            "T = parse(%r) = %r" % (sql, tree),
            "%s   -- SQLite gives %s (%s of %s rows differ; first differing rows shown)"
            % (flat, got_show, n_diff, len(expected)),
            "the SQLite values of the fully parenthesised input, on those rows: %r" % (exp_show,),
            True,
        )
    else:
        report(root, sql, flat, "same SQLite values", False)


# ---------------------------------------------------------------------------------------------------------------------
R = "R1 _not: operand rendered at prec 100 and never parenthesised; parentheses put round the operand instead of NOT"
rt_sql(R, "select * from t where not (a and b)")
rt_sql(R, "select * from t where c and not (a = 1 or b = 2)")
rt_sql(R, "select * from t where (not a) = b")
rt_sql(R, "select f(not (a or b)) from t")
sqlite_sql(R, "select a, b from t where not ((a = 1) or (b = 1))")

R = "R2 renderers that ignore their prec argument (_between/_not_between/_missing/_exists/_binary_not/_regexp/_collate)"
rt_sql(R, "select a = (b between c and d) from t")
rt_sql(R, "select a + (b is null) from t")
rt_sql(R, "select (a is null) in (1, 2) from t")
rt_sql(R, "select ~(a & b) from t")
rt_sql(R, "select (~a) + b from t")
rt_sql(R, "select a or (b regexp c) from t")
rt_sql(R, "select a between b and (not c) from t")

R = "R3 precedence numbers (known family, one line each): gt=6 vs lt=5; 14 parser levels share number 8; in uses '<'"
rt_sql(R, "select d > (a < b) from t")
rt_sql(R, "select (a not like b) like c from t")
rt_sql(R, "select (a not in (1, 2)) in (1, 2) from t")

R = "R4 formatter table and parser agree with each other but not with SQLite (~ looser than + ; = tighter than LIKE/BETWEEN)"
sqlite_sql(R, "select ~(a + b) from t")
sqlite_sql(R, "select a like (b = c) from t")
sqlite_sql(R, "select a between b and (c = d) from t")

R = "R5 scalar sub-query operand not parenthesised where dispatch() is called with prec > precedence['from']"
rt_sql(R, "select case when a then (select max(x) from u) else 0 end from t")
rt_sql(R, "select a from t where not (select x from u)")
rt_sql(R, "select a from t where (select x from u)")
rt_sql(R, "select a from t order by (select 1)")
rt_sql(R, "select a from t join u on (select 1)")
rt_sql(R, "select cast((select 1) as int) from t")
rt_sql(R, "select a from t where a in ((select x from u), 2)")
rt_sql(R, "select ~(select x from u) from t")
rt_sql(R, "select a[(select 1)] from t")

R = "R6 operator without a renderer falls through to FUNCTION(args) spelling (neg, pos, concat, eq!, ne!)"
sqlite_sql(R, "select -a from t")
sqlite_sql(R, "select a || b from t")
rt_sql(R, "select a is distinct from b from t")
rt_sql(R, "select a <=> b from t")

R = "R7 operator that carries a keyword argument: op() raises 'Operators should have only one key!'"
rt_sql(R, "select a ~* b from t")
rt_sql(R, "select filter(a, (x, y) -> x > y) from t")

R = "R8 dispatch()/op() choose the renderer from the key name alone: calls named like clauses or renderers"
rt_sql(R, "select a[offset(1)] from t")
rt_sql(R, "select insert(a, 1, 2, 'x') from t")
rt_sql(R, "select value(a) + 1 from t")
rt_sql(R, "select limit(a) from t")
rt_sql(R, "select get(a, b, c) from t")

R = "R9 _get unpacks exactly two operands but to_offset builds get[expr, k1, k2, ...]"
rt_sql(R, "select a:b.c from t")

R = "R10 _substring with FROM/FOR interpolates the raw operands and requires both keys"
rt_sql(R, "select substring(a || b from 1 for 2) from t")
rt_sql(R, "select substring(a from b + 1 for 2) from t")
rt_sql(R, "select substring(a from 2) from t")
rt_sql(R, "select substring(a for 2) from t")

R = "R11 falsy values: casting() 'if not params' drops a 0 type parameter; _trim 'if c' drops characters 0"
rt_sql(R, "select cast(a as timestamp(0)) from t")
rt_sql(R, "select cast(a as decimal(0)) + 1 from t")
rt_sql(R, "select trim(0 from a) from t")

R = "R12 casting() renders only the first key of the type and prints it as NAME(params)"
rt_sql(R, "select cast(a as double precision) from t")
rt_sql(R, "select cast(a as timestamp with time zone) from t")
rt_sql(R, "select cast(a as unsigned) from t")
rt_sql(R, "select cast(a as char(10) character set utf8) from t")
rt_sql(R, "select cast(a as array<int>) from t")

R = "R13 _exists decides between EXISTS(...) and IS NOT NULL by '\"from\" in value'"
sqlite_sql(R, "select exists (select x from u union select x from u) from t")
sqlite_sql(R, "select exists (select null) from t")

R = "R14 _literal doubles quotes but leaves backslashes, which the parser un-escapes"
rt_sql(R, r"select a = 'C:\\' from t")
rt_sql(R, r"select a = '\\n' from t")

R = "R15 eq/neq with a NULL operand (tree produced by CASE x WHEN NULL) has no spelling that parses back"
rt_sql(R, "select case a when null then b end from t")

R = "R16 _interval quotes a numeric amount; the quoted path of the parser mishandles 0"
rt_sql(R, "select a + interval 0 day from t")

R = "R17 negative numeric literal printed bare under an operator that binds tighter than unary minus"
rt_sql(R, "select (-1) collate nocase from t")
rt_sql(R, "select (-1)[0] from t")

R = "R18 _should_quote consults RESERVED only: identifier operands 'interval' and 'top' are emitted bare"
rt_sql(R, 'select "interval" + 1 from t')
rt_sql(R, 'select "top" + 1 from t')

print()
print("%d violation(s) reproduced" % violations)
sys.exit(1 if violations else 0)
