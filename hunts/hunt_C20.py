"""
Hunt script for property C20 (window specifications and aggregate modifiers are
recorded and rendered exactly) against the unchanged mo-sql-parsing checkout.

Run:  PYTHONPATH=/tmp/wt5/C20 /venv/bin/python /tmp/wt5/C20/hunt_C20.py
Exit: 1 if at least one violation reproduces, 0 otherwise.

Not reported here (named by the property text as known): the FOLLOWING branch
for expression offsets, the dropped UNBOUNDED..UNBOUNDED frame, FILTER followed
by OVER.
"""
import json
import sys

from mo_sql_parsing import format, parse

reproduced = []
not_reproduced = []


def j(x):
    return json.dumps(x, sort_keys=True)


def try_parse(sql):
    try:
        return parse(sql), None
    except Exception as e:
        return None, f"{type(e).__name__}: {str(e).strip().splitlines()[0][:140]}"


def try_format(tree):
    try:
        return format(tree), None
    except Exception as e:
        return None, f"{type(e).__name__}: {str(e).strip().splitlines()[0][:140]}"


def report(rc, title, sql, returned, required, violated):
    print("=" * 100)
    print(f"[RC{rc}] {title}")
    print(f"  input    : {sql}")
    print(f"  returned : {returned}")
    print(f"  required : {required}")
    print(f"  => {'VIOLATION REPRODUCED' if violated else 'not reproduced'}")
    (reproduced if violated else not_reproduced).append((rc, sql))


def find_over(node):
    if isinstance(node, dict):
        if "over" in node:
            yield node
        for v in node.values():
            yield from find_over(v)
    elif isinstance(node, list):
        for v in node:
            yield from find_over(v)


def roundtrip_case(rc, title, sql, required):
    """format(parse(sql)) must parse back to parse(sql)"""
    tree, err = try_parse(sql)
    if err:
        report(rc, title, sql, "parse raised " + err, required, True)
        return
    out, err = try_format(tree)
    if err:
        report(rc, title, sql, f"tree {j(tree)}; format raised {err}", required, True)
        return
    tree2, err = try_parse(out)
    if err:
        report(rc, title, sql, f"tree {j(tree)}; format -> {out!r}; re-parse raised {err}", required, True)
        return
    report(
        rc, title, sql, f"tree {j(tree)}; format -> {out!r}; re-parse -> {j(tree2)}", required, tree2 != tree,
    )


# ---------------------------------------------------------------------------------------------
# RC1  a window that has ONLY a frame (0 partition expressions, 0 sort items) loses the "range"
#      key: the frame's min/max are spliced into "over" itself, and format then prints OVER ().
# ---------------------------------------------------------------------------------------------
for sql, frame in [
    ("SELECT sum(x) OVER (ROWS 1 PRECEDING) FROM t", {"min": -1, "max": 0}),
    ("SELECT sum(x) OVER (ROWS BETWEEN UNBOUNDED PRECEDING AND CURRENT ROW) AS s FROM t", {"max": 0}),
    ("SELECT 1 + sum(x) OVER (RANGE BETWEEN 2 PRECEDING AND 17 FOLLOWING) FROM t", {"min": -2, "max": 17}),
]:
    tree, err = try_parse(sql)
    nodes = list(find_over(tree)) if tree else []
    got = nodes[0]["over"] if nodes else None
    out, ferr = try_format(tree) if tree else (None, None)
    report(
        1,
        "frame-only window: 'range' key lost at parse, frame dropped by format",
        sql,
        f"over = {j(got)}; format -> {out!r}",
        f"over = {j({'range': frame})} and a format that keeps the frame",
        got != {"range": frame},
    )

# ---------------------------------------------------------------------------------------------
# RC2  named window reference is rendered as an empty window specification
# ---------------------------------------------------------------------------------------------
roundtrip_case(
    2,
    "named window: OVER w is rendered as OVER ()",
    "SELECT sum(x) OVER w AS s FROM t",
    "format must print 'OVER w' so that over == 'w' survives the round trip",
)

# ---------------------------------------------------------------------------------------------
# RC3  the WINDOW clause (definitions of named windows) is dropped by format
# ---------------------------------------------------------------------------------------------
sql = "SELECT sum(x) OVER w FROM t WINDOW w AS (PARTITION BY a ORDER BY b ROWS 1 PRECEDING)"
tree, err = try_parse(sql)
out, ferr = try_format(tree) if tree else (None, None)
report(
    3,
    "WINDOW clause is not rendered at all",
    sql,
    f"tree has window = {j(tree.get('window')) if tree else err}; format -> {out!r}",
    "format output contains 'WINDOW w AS (PARTITION BY a ORDER BY b ROWS 1 PRECEDING)'",
    out is None or "WINDOW" not in out.upper().replace("OVER", ""),
)

# ---------------------------------------------------------------------------------------------
# RC4  WITHIN GROUP + OVER rendered in the wrong order (OVER first); the re-parse nests OVER
#      under WITHIN GROUP, a different tree (and SQL no engine accepts)
# ---------------------------------------------------------------------------------------------
roundtrip_case(
    4,
    "WITHIN GROUP followed by OVER is rendered as OVER ... WITHIN GROUP ...",
    "SELECT percentile_cont(0.5) WITHIN GROUP (ORDER BY x) OVER (PARTITION BY a) AS p FROM t",
    "format must print WITHIN GROUP (...) before OVER (...); same tree after re-parse",
)

# ---------------------------------------------------------------------------------------------
# RC5  the frame unit is not recorded: RANGE is always rendered as ROWS.
#      (a) non-integer RANGE offsets: the ROWS text does not even parse back
#      (b) integer offsets: RANGE silently becomes ROWS (different SQL semantics; the two
#          statements are indistinguishable in the tree)
# ---------------------------------------------------------------------------------------------
roundtrip_case(
    5,
    "RANGE rendered as ROWS (a): output is unparsable for non-integer offsets",
    "SELECT sum(x) OVER (ORDER BY y RANGE BETWEEN 1.5 PRECEDING AND 2.5 FOLLOWING) FROM t",
    "format must print RANGE BETWEEN 1.5 PRECEDING AND 2.5 FOLLOWING (ROWS only takes integers)",
)
sql_range = "SELECT sum(x) OVER (ORDER BY y RANGE BETWEEN 2 PRECEDING AND CURRENT ROW) FROM t"
sql_rows = "SELECT sum(x) OVER (ORDER BY y ROWS BETWEEN 2 PRECEDING AND CURRENT ROW) FROM t"
t_range, _ = try_parse(sql_range)
t_rows, _ = try_parse(sql_rows)
out, _ = try_format(t_range)
report(
    5,
    "RANGE rendered as ROWS (b): unit not recorded, RANGE statement comes back as ROWS",
    sql_range,
    f"tree {j(t_range)} (identical to the ROWS tree: {t_range == t_rows}); format -> {out!r}",
    "a frame recorded 'exactly' keeps its unit; format(parse(RANGE ...)) must still say RANGE",
    t_range == t_rows and out is not None and "RANGE" not in out,
)

# ---------------------------------------------------------------------------------------------
# RC6  n PRECEDING where the offset is an identifier / parameter: parse action raises
#      (-limit on a str in _to_bound_call)
# ---------------------------------------------------------------------------------------------
sql = "SELECT sum(x) OVER (ORDER BY y RANGE BETWEEN n PRECEDING AND CURRENT ROW) FROM t"
tree, err = try_parse(sql)
report(
    6,
    "identifier offset with PRECEDING crashes the parser",
    sql,
    f"parse raised {err}" if err else f"tree {j(tree)}",
    "a tree whose frame is {min: {neg: 'n'}, max: 0} (as is done for other expression offsets)",
    err is not None,
)

# ---------------------------------------------------------------------------------------------
# RC7  expression offset with PRECEDING parses to {min: {neg: expr}} but format crashes on it
# ---------------------------------------------------------------------------------------------
for sql in [
    "SELECT sum(x) OVER (ORDER BY y RANGE BETWEEN INTERVAL 1 DAY PRECEDING AND CURRENT ROW) FROM t",
    "SELECT sum(x) OVER (ORDER BY y RANGE BETWEEN 1+1 PRECEDING AND 2 FOLLOWING) FROM t",
]:
    roundtrip_case(
        7,
        "expression offset with PRECEDING: format raises TypeError",
        sql,
        "format must render '<expr> PRECEDING' and the result must parse back to the same tree",
    )

# ---------------------------------------------------------------------------------------------
# RC8  NULLS FIRST / NULLS LAST of a window sort item is recorded but not rendered
# ---------------------------------------------------------------------------------------------
roundtrip_case(
    8,
    "NULLS FIRST/LAST in the window ORDER BY is dropped by format",
    "SELECT sum(x) OVER (ORDER BY b DESC NULLS FIRST ROWS 1 PRECEDING) FROM t",
    "format must print 'ORDER BY b DESC NULLS FIRST'; same tree after re-parse",
)

# ---------------------------------------------------------------------------------------------
# RC9  a stray identifier at the END of a window spec is accepted and silently discarded, while
#      the valid form with the base window name FIRST is rejected
# ---------------------------------------------------------------------------------------------
sql = "SELECT sum(x) OVER (PARTITION BY a w) FROM t"
tree, err = try_parse(sql)
report(
    9,
    "trailing identifier inside OVER (...) is swallowed (grammar has Optional(var_name) last, unnamed)",
    sql,
    f"tree {j(tree)}" if tree else f"parse raised {err}",
    "either a parse error, or a tree that records 'w'; nothing written may vanish",
    tree is not None and "w" not in j(tree).replace('"window"', ""),
)
sql = "SELECT sum(x) OVER (w ORDER BY b) FROM t WINDOW w AS (PARTITION BY a)"
tree, err = try_parse(sql)
report(
    9,
    "valid spec with base window name first is rejected",
    sql,
    f"parse raised {err}" if err else f"tree {j(tree)}",
    "a tree that records base window w and orderby b",
    err is not None,
)

# ---------------------------------------------------------------------------------------------
# RC10 parenthesised windowed select item gets a nested tree that format cannot reproduce
# ---------------------------------------------------------------------------------------------
roundtrip_case(
    10,
    "(f(x) OVER (...)) as select item: nested {value:{value,over}} is rendered without parens",
    "SELECT (sum(x) OVER (PARTITION BY a)) AS s FROM t",
    "parse(format(tree)) == tree (either parse flattens the parenthesised item, or format keeps it)",
)

# ---------------------------------------------------------------------------------------------
# RC11 sub-query as partition / sort expression loses its parentheses
# ---------------------------------------------------------------------------------------------
roundtrip_case(
    11,
    "sub-query in PARTITION BY / ORDER BY of a window is rendered without parentheses",
    "SELECT sum(x) OVER (PARTITION BY (SELECT 1)) FROM t",
    "format must print PARTITION BY (SELECT 1)",
)

# ---------------------------------------------------------------------------------------------
# Observations (printed, not counted): literal property holds or outside the property's scope
# ---------------------------------------------------------------------------------------------
print("=" * 100)
print("OBSERVATIONS (not counted)")
for sql in [
    "SELECT string_agg(x, ',' ORDER BY y) OVER (PARTITION BY a) FROM t",
    "SELECT lag(x, 1 IGNORE NULLS) OVER (ORDER BY b) FROM t",
    "SELECT count(DISTINCT a, b) OVER () FROM t",
]:
    tree, _ = try_parse(sql)
    out, _ = try_format(tree)
    t2, _ = try_parse(out)
    print(f"  multi-argument call with an in-call modifier is rendered with a tuple: {sql!r} -> {out!r}")
    print(f"     (tree round trip holds only because the parser conflates f((a, b)) with f(a, b): {t2 == tree})")
sql = "SELECT a FROM t QUALIFY row_number() OVER (PARTITION BY a ORDER BY b) = 1"
tree, _ = try_parse(sql)
out, _ = try_format(tree)
print(f"  QUALIFY (with its window function) is dropped by format: {sql!r} -> {out!r}")

print("=" * 100)
rcs = sorted({rc for rc, _ in reproduced})
print(f"reproduced: {len(reproduced)} inputs over {len(rcs)} root causes {rcs}; not reproduced: {len(not_reproduced)}")
sys.exit(1 if reproduced else 0)
