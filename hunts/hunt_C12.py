# encoding: utf-8
"""
Reproducer for violations of property C12 of mo-sql-parsing:

    calls= and fmap= change how applications are written, never what is written

Run:  PYTHONPATH=/tmp/wt5/C12 /venv/bin/python /tmp/wt5/C12/hunt_C12.py
Exit status 1 if at least one violation reproduces on the unchanged library, 0 otherwise.
"""
import sys
import warnings

warnings.simplefilter("ignore")

from mo_sql_parsing import parse, normal_op, parse_mysql

NORMAL_KEYS = {"op", "args", "kwargs"}


def is_normal(t):
    return isinstance(t, dict) and "op" in t and isinstance(t["op"], str) and set(t) <= NORMAL_KEYS


def shape_errors(t, path="$"):
    """every normal-form node: args (when present) is a list, kwargs (when present) a non-empty dict"""
    acc = []
    if isinstance(t, dict):
        if is_normal(t):
            if "args" in t and not isinstance(t["args"], list):
                acc.append(f"{path}: args of op {t['op']!r} is {t['args']!r}, not a list")
            if "kwargs" in t and not (isinstance(t["kwargs"], dict) and t["kwargs"]):
                acc.append(f"{path}: kwargs of op {t['op']!r} is {t['kwargs']!r}, not a non-empty dict")
        for k, v in t.items():
            acc.extend(shape_errors(v, f"{path}.{k}"))
    elif isinstance(t, list):
        for i, v in enumerate(t):
            acc.extend(shape_errors(v, f"{path}[{i}]"))
    return acc


def to_simple(t):
    """{"op","args","kwargs"} -> {op: args, **kwargs}; one argument unwrapped, no argument as {}"""
    if isinstance(t, dict):
        if is_normal(t):
            args = [to_simple(a) for a in t.get("args", [])]
            kwargs = {k: to_simple(v) for k, v in t.get("kwargs", {}).items()}
            a = {} if not args else (args[0] if len(args) == 1 else args)
            return {t["op"]: a, **kwargs}
        return {k: to_simple(v) for k, v in t.items()}
    if isinstance(t, list):
        return [to_simple(v) for v in t]
    return t


def normal_ops(t, acc=None):
    acc = set() if acc is None else acc
    if isinstance(t, dict):
        if is_normal(t):
            acc.add(t["op"])
        for v in t.values():
            normal_ops(v, acc)
    elif isinstance(t, list):
        for v in t:
            normal_ops(v, acc)
    return acc


def has_key(t, key):
    if isinstance(t, dict):
        return key in t or any(has_key(v, key) for v in t.values())
    if isinstance(t, list):
        return any(has_key(v, key) for v in t)
    return False


reproduced = []
not_reproduced = []


def report(cause, title, sql, options, returned, required, violated):
    print("=" * 100)
    print(f"[{cause}] {title}")
    print(f"  input    : {sql!r}   options: {options}")
    print(f"  returned : {returned}")
    print(f"  required : {required}")
    print(f"  VIOLATED : {violated}")
    (reproduced if violated else not_reproduced).append(cause)


def crossings():
    for null_kw in ({}, {"null": None}):
        for ac_kw in ({}, {"all_columns": "*"}):
            yield {**null_kw, **ac_kw}


# ----------------------------------------------------------------------------------------------------------------------
# ROOT CAUSE 1: sub-trees that are scrubbed DURING parsing (utils.to_query:773, windows._to_bound_call:23-24,
# windows._to_between_call:42-43) are scrubbed a second time by _parse(); the callback's result {"op","args":[x]} is then
# an ordinary dict and scrub()'s list branch (utils.py:92-93) collapses the one-element args list to a scalar.
# ----------------------------------------------------------------------------------------------------------------------
def cause_1():
    reference = parse("select f(x)", calls=normal_op)["select"]["value"]  # {'op': 'f', 'args': ['x']}
    cases = [
        ("1a WITH on both levels (utils.to_query)", "with a as (select f(x)) (with b as (select 1) select 2)"),
        ("1b RANGE bound with an expression (windows._to_bound_call)", "select sum(a) over (order by b range f(x) preceding)"),
        (
            "1b RANGE BETWEEN bounds (windows._to_between_call)",
            "select sum(a) over (order by b range between f(x) preceding and g(y) following)",
        ),
        ("1a sole NULL argument", "with a as (select f(null)) (with b as (select 1) select 2)"),
        ("1c nested column type", "with recursive a as (select cast(y as varchar(3))) (with recursive b as (select 1) select 2)"),
    ]
    for title, sql in cases:
        for kw in crossings():
            default = parse(sql, **kw)
            normal = parse(sql, calls=normal_op, **kw)
            errs = shape_errors(normal)
            report(
                "RC1",
                title,
                sql,
                {"calls": "normal_op", **kw},
                normal,
                f"args of every normal-form node is a list (as in {reference} for the same call outside); errors: {errs}",
                bool(errs),
            )
            if not errs and to_simple(normal) != default:
                report("RC1", title + " (to_simple)", sql, kw, to_simple(normal), default, True)


# ----------------------------------------------------------------------------------------------------------------------
# ROOT CAUSE 2: some parse actions write an application as a literal {op: args} dict instead of a Call, so neither the
# calls= callback nor fmap= ever sees it.  The same operation is a Call everywhere else.
# ----------------------------------------------------------------------------------------------------------------------
def cause_2():
    # 2a  scale()  sql_parser.py:340-341  -> {"mul": [n, x]}
    twin, sql = "select 2*x", "select 2x"
    same_default = parse(twin) == parse(sql)
    n_twin, n_sql = parse(twin, calls=normal_op), parse(sql, calls=normal_op)
    report(
        "RC2",
        f"2a implicit multiplication: default trees of {twin!r} and {sql!r} are equal ({same_default})",
        sql,
        {"calls": "normal_op"},
        n_sql,
        f"the same tree as for {twin!r}: {n_twin}  (mul is an application, so it is written in normal form)",
        same_default and n_twin != n_sql,
    )
    for kw in crossings():
        got = parse(sql, fmap={"mul": "times"}, **kw)
        want = parse(twin, fmap={"mul": "times"}, **kw)
        report("RC2", "2a implicit multiplication ignores fmap", sql, {"fmap": {"mul": "times"}, **kw}, got, want, got != want)
    sql = "select 2f(a)"
    got = parse(sql, calls=normal_op, fmap={"mul": "times", "f": "g"})
    report(
        "RC2",
        "2a scale_function: number glued to a call",
        sql,
        {"calls": "normal_op", "fmap": {"mul": "times", "f": "g"}},
        got,
        {"select": {"value": {"op": "times", "args": [2, {"op": "g", "args": ["a"]}]}}},
        got != {"select": {"value": {"op": "times", "args": [2, {"op": "g", "args": ["a"]}]}}},
    )

    # 2b  windows._to_bound_call  windows.py:29,36  -> {"neg": limit}
    sql = "select sum(a) over (order by b range interval 1 day preceding)"
    for kw in crossings():
        normal = parse(sql, calls=normal_op, **kw)
        bound = normal["select"]["over"]["range"]["min"]
        neg_ref = parse("select - interval 1 day", calls=normal_op, **kw)["select"]["value"]
        report(
            "RC2",
            "2b negated window bound is a hand-written {'neg': ...}",
            sql,
            {"calls": "normal_op", **kw},
            bound,
            f"{neg_ref}  (what 'select - interval 1 day' gives)",
            bound != neg_ref,
        )
        got = parse(sql, fmap={"neg": "minus"}, **kw)
        report(
            "RC2",
            "2b negated window bound ignores fmap",
            sql,
            {"fmap": {"neg": "minus"}, **kw},
            got["select"]["over"]["range"]["min"],
            {"minus": {"interval": [1, "day"]}},
            has_key(got, "neg") or not has_key(got, "minus"),
        )

    # 2c  MERGE ... THEN DELETE / THEN UPDATE SET  sql_parser.py:884-886
    for sql, op in [
        ("merge into t using u on t.a = u.a when matched then delete", "delete"),
        ("merge into t using u on t.a = u.a when matched then update set a = 1", "update"),
    ]:
        standalone = "delete from t" if op == "delete" else "update t set a = 1"
        normal = parse(sql, calls=normal_op)
        then = normal["args"][0]["kwargs"]["then"]
        report(
            "RC2",
            f"2c {op} inside MERGE is a hand-written dict (stand-alone {standalone!r} gives "
            f"{parse(standalone, calls=normal_op)})",
            sql,
            {"calls": "normal_op"},
            then,
            f"a normal-form node with op {op!r}",
            not is_normal(then),
        )
        got = parse(sql, fmap={op: op.upper()})
        report(
            "RC2",
            f"2c {op} inside MERGE ignores fmap (stand-alone: {parse(standalone, fmap={op: op.upper()})})",
            sql,
            {"fmap": {op: op.upper()}},
            got,
            f"key {op!r} renamed to {op.upper()!r}",
            has_key(got, op) or not has_key(got, op.upper()),
        )

    # 2d  utils.to_interval_type  utils.py:373-397  (and assign("enum")/assign("set") in types.py:238-239):
    #     a type with a size is a Call everywhere (time(3), varchar(3), ...) except interval field types
    sql, twin = "select extract(day(2) from x)", "select cast(x as time(2))"
    normal = parse(sql, calls=normal_op)
    arg = normal["select"]["value"]["args"][0]
    report(
        "RC2",
        f"2d interval field type with precision is a hand-written dict ({twin!r} gives "
        f"{parse(twin, calls=normal_op)['select']['value']['args'][1]})",
        sql,
        {"calls": "normal_op"},
        arg,
        {"op": "day", "args": [2]},
        not is_normal(arg),
    )
    got = parse(sql, fmap={"day": "D"})
    report("RC2", "2d interval field type ignores fmap", sql, {"fmap": {"day": "D"}}, got, {"select": {"value": {"extract": [{"D": 2}, "x"]}}}, has_key(got, "day"))


# ----------------------------------------------------------------------------------------------------------------------
# ROOT CAUSE 3: simple_op (__init__.py:139-144) stores the arguments with kwargs[op] = args; a keyword argument with the
# same name as the operation (also after fmap renamed the operation) is overwritten.  The default tree then says less
# than the normal_op tree, so the two representations do not say the same thing.
# ----------------------------------------------------------------------------------------------------------------------
def cause_3():
    for sql, lost in [
        ("select f(x, f => 1)", ("f", 1)),
        ("select f(f => 1)", ("f", 1)),
        ("select nulls(a ignore nulls)", ("nulls", "ignore")),
    ]:
        for kw in crossings():
            default = parse(sql, **kw)
            normal = parse(sql, calls=normal_op, **kw)
            node = normal["select"]["value"]
            literal = {node["op"]: (node.get("args") or [{}])[0], **node.get("kwargs", {})}  # {op: args, **kwargs}
            report(
                "RC3",
                f"keyword argument named like the function: {lost[0]} => {lost[1]!r} is missing from the default tree",
                sql,
                kw,
                f"default {default}   normal_op {normal}",
                f"default tree == rewrite of the normal_op tree == {{'select': {{'value': {literal}}}}} "
                f"(or any tree that still contains the keyword argument)",
                default["select"]["value"] != literal,
            )
    sql, m = "select case when a then b end", {"when": "then"}
    got = parse(sql, fmap=m)
    normal = parse(sql, calls=normal_op, fmap=m)
    report(
        "RC3",
        "fmap renames an operation onto the name of one of its keyword arguments: THEN branch b disappears",
        sql,
        {"fmap": m},
        f"default {got}   normal_op {normal}",
        "operand b still present in the default tree (it is present in the normal_op tree)",
        "'b'" not in repr(got) and "'b'" in repr(normal),
    )


# ----------------------------------------------------------------------------------------------------------------------
# NOTES: reproduced, but debatable / pinned by the test-suite; printed, not counted in the exit status
# ----------------------------------------------------------------------------------------------------------------------
def notes():
    print("=" * 100)
    print("NOTES (not counted)")
    print(
        "  N1 NULL is always written {'null': {}} (__init__.py:113), never through calls=/fmap=:",
        parse("select f(null, 1)", calls=normal_op, fmap={"null": "nil"}),
        " -- pinned by tests/test_simple_using_operators.py:1110",
    )
    print(
        "  N2 data dicts keyed by user identifiers can look like normal-form nodes (args not a list):",
        parse("update t set op = 'f', args = 1", calls=normal_op),
    )
    print(
        "  N3 parse_mysql/parse_sqlserver/parse_bigquery have no fmap= (docstring promises it); their is_null= is"
        " forwarded as the rename map:",
        parse_mysql("select f(x)", is_null={"f": "g"}),
    )
    try:
        parse_mysql("select f(x)", fmap={"f": "g"})
    except TypeError as e:
        print("     parse_mysql(..., fmap=...) ->", repr(e))


if __name__ == "__main__":
    for step in (cause_1, cause_2, cause_3):
        try:
            step()
        except Exception as cause:  # a crash of the probe itself is not a reproduction
            print(f"probe {step.__name__} failed: {cause!r}")
    notes()
    print("=" * 100)
    print("reproduced checks per root cause:", {c: reproduced.count(c) for c in sorted(set(reproduced))})
    print("checks that did NOT reproduce   :", {c: not_reproduced.count(c) for c in sorted(set(not_reproduced))})
    sys.exit(1 if reproduced else 0)
