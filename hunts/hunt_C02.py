# Hunt for violations of property C02 ("every query clause lands under its own key with the written
# grouping") in the UNCHANGED library.  Run with:
#     PYTHONPATH=/tmp/wt4/C02 /venv/bin/python hunt_C02.py
# Exit status 1 when at least one violation reproduces, 0 otherwise.
import json
import os
import sys

_here = os.path.dirname(os.path.abspath(__file__))
# drop only the entry python added for the script's own directory (always the first one);
# a PYTHONPATH entry naming the same directory comes later and is kept, so PYTHONPATH decides
if sys.path and os.path.abspath(sys.path[0] or os.getcwd()) == _here:
    del sys.path[0]

from mo_sql_parsing import parse  # noqa: E402


def run(sql):
    try:
        return parse(sql)
    except Exception as cause:  # report the exception as the "result"
        return "%s: %s" % (type(cause).__name__, str(cause).replace("\n", " ")[:160])


def show(value):
    return value if isinstance(value, str) else json.dumps(value)


def sel(col, table, **more):
    return {"select": {"value": col}, "from": table, **more}


CASES = []


def case(title):
    def reg(fn):
        CASES.append((title, fn))
        return fn

    return reg


# ---------------------------------------------------------------------------------------------------------
@case("R1 to_query: the WITH of a parenthesised query is overwritten by the WITH written in front of it")
def r1():
    sql = "with x as (select 1) (with y as (select 2) select b from y)"
    got = run(sql)
    need = "both CTEs kept: x on the outer level and y on the parenthesised query (or one list [x, y]); the CTE y that the body reads FROM must not vanish"
    bad = isinstance(got, str) or '"y"' not in json.dumps(got.get("with"))
    return [(sql, got, need, bad)]


# ---------------------------------------------------------------------------------------------------------
@case("R2 to_join_call: a nested join (t LEFT JOIN u JOIN v ON .. ON ..) is flattened, the written grouping is lost")
def r2():
    nested = "select a from t left join u join v on u.x=v.x on t.x=u.x"
    flat = "select a from t left join u on t.x=u.x join v on u.x=v.x"
    paren = "select a from t left join (u join v on u.x=v.x) on t.x=u.x"
    g_nested, g_flat, g_paren = run(nested), run(flat), run(paren)
    need = (
        "t LEFT JOIN (u JOIN v ON u.x=v.x) ON t.x=u.x - the same grouping as the explicitly parenthesised spelling, which gives "
        + show(g_paren)
        + "; it must differ from the (not equivalent) query "
        + repr(flat)
    )
    bad = g_nested == g_flat or g_nested != g_paren
    return [(nested, g_nested, need, bad)]


# ---------------------------------------------------------------------------------------------------------
@case("R3 joins grammar: a comma written after an explicit JOIN is turned into 'cross join' and regrouped")
def r3():
    comma = "select a from t join u on t.x=u.x, v right join w on v.y=w.y"
    cross = "select a from t join u on t.x=u.x cross join v right join w on v.y=w.y"
    g_comma, g_cross = run(comma), run(cross)
    need = (
        "two FROM items, (t JOIN u ON ..) and (v RIGHT JOIN w ON ..), as for 'from t, u' which gives [\"t\", \"u\"]; "
        "must not be identical to the parse of the different query with CROSS JOIN (where RIGHT JOIN w covers everything on its left)"
    )
    out = [(comma, g_comma, need, g_comma == g_cross)]
    sql2 = "select a from (t, u) join v on 1=1"
    g2 = run(sql2)
    need2 = "the parenthesised comma list keeps its two items [\"t\", \"u\"] exactly as the unparenthesised 'from t, u' does"
    bad2 = isinstance(g2, str) or "cross join" in json.dumps(g2)
    out.append((sql2, g2, need2, bad2))
    return out


# ---------------------------------------------------------------------------------------------------------
@case("R4 selection grammar: star forms under SELECT DISTINCT (and DISTINCT ON) are shaped differently from plain SELECT")
def r4():
    out = []
    for items in ["*", "t.*", "*, a", "t.*, u.*"]:
        plain = run("select %s from t" % items)
        dist = run("select distinct %s from t" % items)
        need = "select_distinct holds the same items as select does for the same list: " + show(plain.get("select"))
        bad = isinstance(dist, str) or dist.get("select_distinct") != plain.get("select")
        out.append(("select distinct %s from t" % items, dist, need, bad))
    sql = "select distinct on (a) *, t.* from t"
    got = run(sql)
    plain = run("select *, t.* from t")
    need = "select holds " + show(plain.get("select"))
    out.append((sql, got, need, isinstance(got, str) or got.get("select") != plain.get("select")))
    return out


# ---------------------------------------------------------------------------------------------------------
@case("R5 selection grammar: SELECT ALL is not known; ALL becomes a column and the first item becomes its alias")
def r5():
    out = []
    sql = "select all a, b from t"
    got = run(sql)
    need = "select holds the items a and b (no alias on either); ALL is the default quantifier"
    bad = isinstance(got, str) or got.get("select") != [{"value": "a"}, {"value": "b"}]
    out.append((sql, got, need, bad))
    sql = "select a from t union all select all b from u"
    got = run(sql)
    need = "second operand is select b from u, b has no alias"
    bad = isinstance(got, str) or got.get("union_all", [None, None])[1] != sel("b", "u")
    out.append((sql, got, need, bad))
    return out


# ---------------------------------------------------------------------------------------------------------
@case("R6 selection grammar: TOP is only accepted directly after SELECT, so SELECT DISTINCT TOP n is lost or rejected")
def r6():
    out = []
    sql = "select distinct top (5) a from t"
    got = run(sql)
    need = "top 5 under its own key and select_distinct holding the single item a without alias"
    bad = isinstance(got, str) or got.get("top") != 5 or got.get("select_distinct") != {"value": "a"}
    out.append((sql, got, need, bad))
    sql = "select distinct top 5 a, b from t"
    got = run(sql)
    need = "top 5 under its own key and select_distinct holding a and b (valid T-SQL, must not raise)"
    bad = isinstance(got, str) or got.get("top") != 5
    out.append((sql, got, need, bad))
    return out


# ---------------------------------------------------------------------------------------------------------
@case("R7 call_function: EXISTS/ANY/ALL argument is tried as an expression list first, so a sub-query that starts with '(' is mis-read")
def r7():
    out = []
    union = {"union": [{"select": {"value": 1}}, {"select": {"value": 2}}]}
    sql = "select a from t where exists ((select 1) union (select 2))"
    got = run(sql)
    need = "where = {\"exists\": %s} (the same text is accepted after IN and in FROM)" % show(union)
    bad = isinstance(got, str) or got.get("where") != {"exists": union}
    out.append((sql, got, need, bad))

    sql = "select a from t where a = any ((select b from u) union (select c from v))"
    got = run(sql)
    need = "where = {eq: [a, {any: {union: [select b from u, select c from v]}}]}"
    bad = isinstance(got, str)
    out.append((sql, got, need, bad))

    ref = run("select a from t where a in ((select b from u) order by b limit 1)")
    inner = ref["where"]["in"][1]
    sql = "select a from t where exists ((select b from u) order by b limit 1)"
    got = run(sql)
    need = (
        "ORDER BY / LIMIT belong to the sub-query: where = {\"exists\": %s}; they must not become keys beside \"exists\" in WHERE"
        % show(inner)
    )
    bad = isinstance(got, str) or got.get("where") != {"exists": inner}
    out.append((sql, got, need, bad))
    return out


# ---------------------------------------------------------------------------------------------------------
@case("R8 joins grammar: NATURAL cannot be combined with LEFT/RIGHT/FULL/INNER")
def r8():
    out = []
    for kind in ["natural left join", "natural inner join", "natural full outer join"]:
        sql = "select a from t %s u" % kind
        got = run(sql)
        need = 'from = ["t", {"%s": "u"}]' % kind
        bad = isinstance(got, str) or got.get("from") != ["t", {kind: "u"}]
        out.append((sql, got, need, bad))
    return out


# ---------------------------------------------------------------------------------------------------------
@case("R9 limit grammar (adjacent: FETCH): FETCH FIRST ROW ONLY reads the noise word ROW as the row count; repeated LIMITs are merged")
def r9():
    out = []
    sql = "select a from t order by a fetch first row only"
    got = run(sql)
    need = "fetch = 1 (the count is optional and defaults to 1), or a ParseException; never the column name \"row\""
    bad = not isinstance(got, str) and got.get("fetch") == "row"
    out.append((sql, got, need, bad))
    sql = "select a from t limit 1 limit 2"
    got = run(sql)
    need = "a ParseException (a query has one LIMIT); not limit = {\"value\": [1, 2]}"
    bad = not isinstance(got, str)
    out.append((sql, got, need, bad))
    return out


# ---------------------------------------------------------------------------------------------------------
def main():
    reproduced = 0
    for title, fn in CASES:
        print("=" * 110)
        print(title)
        hit = False
        for sql, got, need, bad in fn():
            print("  input   :", sql)
            print("  returned:", show(got))
            print("  required:", need)
            print("  verdict :", "VIOLATION" if bad else "ok (does not reproduce)")
            print()
            hit = hit or bad
        if hit:
            reproduced += 1
    print("=" * 110)
    print("%d of %d root causes reproduce" % (reproduced, len(CASES)))
    return 1 if reproduced else 0


if __name__ == "__main__":
    sys.exit(main())
