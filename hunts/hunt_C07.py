# Hunt for violations of property C07 in the library as it is:
#   "Identifiers survive every quoting style, and format quotes whatever needs it"
#
# Run with:  PYTHONPATH=<checkout> python hunt_C07.py
# Exit status 1 if at least one violation reproduces, 0 otherwise.
import os
import sys
import warnings

_here = os.path.dirname(os.path.abspath(__file__))
# sys.path[0] is the directory of this script; drop that one entry (and only that one) so PYTHONPATH decides
if sys.path and os.path.abspath(sys.path[0] or os.getcwd()) == _here:
    del sys.path[0]

warnings.simplefilter("ignore")  # the library's ast.literal_eval emits SyntaxWarning for some inputs

from mo_sql_parsing import format, parse, parse_sqlserver  # noqa: E402

found = 0
checked = 0


def call(f, *args, **kwargs):
    try:
        return f(*args, **kwargs)
    except Exception as cause:
        text = str(cause).strip().split("\n")[0][:110]
        return f"<<raised {type(cause).__module__}.{type(cause).__name__}: {text}>>"


def report(group, input_, returned, required, violated, counts=True):
    global found, checked
    checked += 1
    if violated and counts:
        found += 1
    status = "VIOLATION" if violated else "ok (not reproduced)"
    if violated and not counts:
        status = "VIOLATION (informational, not counted)"
    print(f"[{group}] {status}")
    print(f"    input   : {input_}")
    print(f"    returned: {returned}")
    print(f"    required: {required}")


def parse_name(group, sql, required_tree, parser=parse, counts=True):
    """parse(sql) must give required_tree"""
    got = call(parser, sql)
    report(group, f"{parser.__name__}({sql!r})", repr(got), repr(required_tree), got != required_tree, counts)


def round_trip_tree(group, tree, ansi_quotes=True, counts=True):
    """parse(format(tree)) must give tree back"""
    sql = call(format, tree, ansi_quotes=ansi_quotes)
    back = call(parse, sql) if not sql.startswith("<<raised") else None
    report(
        group,
        f"format({tree!r}, ansi_quotes={ansi_quotes}) then parse",
        f"format -> {sql!r} ; parse -> {back!r}",
        f"parse(format(tree)) == {tree!r}",
        back != tree,
        counts,
    )


def round_trip_sql(group, sql, ansi_quotes=True, counts=True):
    """tree = parse(sql) (a tree the library itself produced); parse(format(tree)) must give it back"""
    tree = call(parse, sql)
    if isinstance(tree, str):
        report(group, sql, tree, "a parse tree", True, counts)
        return
    out = call(format, tree, ansi_quotes=ansi_quotes)
    back = call(parse, out) if not out.startswith("<<raised") else None
    report(
        group,
        f"tree = parse({sql!r}) = {tree!r} ; format(tree, ansi_quotes={ansi_quotes}) then parse",
        f"format -> {out!r} ; parse -> {back!r}",
        "parse(format(tree)) == tree  (every name survives unchanged)",
        back != tree,
        counts,
    )


# ---------------------------------------------------------------------------------------------------------------------
# R1  backslash inside a quoted identifier is run through Python's ast.literal_eval
#     utils.py double_column / backtick_column / square_column
# ---------------------------------------------------------------------------------------------------------------------
G = "R1 backslash decoded as a Python escape"
parse_name(G, 'SELECT "a\\b" FROM t', {"select": {"value": "a\\b"}, "from": "t"})
parse_name(G, "SELECT `C:\\temp` FROM t", {"select": {"value": "C:\\temp"}, "from": "t"})
parse_name(G, "SELECT x AS [a\\nb] FROM t", {"select": {"value": "x", "name": "a\\nb"}, "from": "t"}, parse_sqlserver)
parse_name(G, 'SELECT "a\\" FROM t', {"select": {"value": "a\\"}, "from": "t"})
parse_name(G, 'SELECT x FROM "dom\\user"', {"select": {"value": "x"}, "from": "dom\\user"})
round_trip_tree(G, {"select": {"value": "a\\b"}, "from": "t"}, ansi_quotes=True)
round_trip_tree(G, {"select": {"value": "x"}, "from": {"value": "t", "name": "a\\"}}, ansi_quotes=False)

# ---------------------------------------------------------------------------------------------------------------------
# R2  formatting.VALID uses the Unicode-aware \w, the parser's bare alphabet (utils.IDENT_CHAR) stops at U+01BF
# ---------------------------------------------------------------------------------------------------------------------
G = "R2 non-ASCII letter left bare by format, rejected bare by parse"
for name in ["a\u03b1", "a\u044f", "a\u65e5", "a\u00b5"]:
    round_trip_tree(G, {"select": {"value": name}, "from": "t"}, ansi_quotes=True)
round_trip_tree(G, {"select": {"value": "x", "name": "n\u03b1me"}, "from": {"value": "t", "name": "t\u0436"}}, ansi_quotes=False)

# ---------------------------------------------------------------------------------------------------------------------
# R3  Formatter methods that paste a name into the SQL without escape()
#     with_, all_columns, delete, insert, _pivot, _substring, _collate
# ---------------------------------------------------------------------------------------------------------------------
G = "R3 name printed without escape()"
round_trip_sql(G + " [with_: CTE name]", 'WITH "a b" AS (SELECT 1) SELECT x FROM "a b"')
round_trip_sql(G + " [with_: CTE name, reserved word]", 'WITH "select" AS (SELECT 1) SELECT x FROM "select"')
round_trip_sql(G + " [all_columns: qualifier of .*]", 'SELECT "a b".* FROM "a b"')
round_trip_sql(G + " [all_columns: qualifier with a dot]", 'SELECT "a.b".* FROM t', ansi_quotes=False)
round_trip_sql(G + " [delete: table]", 'DELETE FROM "a b" WHERE x = 1')
round_trip_sql(G + " [insert: table]", 'INSERT INTO "a b" (x) VALUES (1)')
round_trip_sql(G + " [_pivot: alias]", 'SELECT * FROM t PIVOT (SUM(x) FOR y IN (1, 2)) AS "p q"')
round_trip_sql(G + " [_substring: function argument]", 'SELECT SUBSTRING("a b" FROM 1 FOR 2) FROM t')
round_trip_sql(G + " [_collate: collation name]", 'SELECT x COLLATE "a b" FROM t')

# ---------------------------------------------------------------------------------------------------------------------
# R4  an alias with a column list, {"name": {alias: columns}}, is formatted as a function call by Formatter.op:
#     the alias is upper-cased and never quoted; aliases called "literal", "value", ... hit other dispatch branches
# ---------------------------------------------------------------------------------------------------------------------
G = "R4 alias with column list formatted as a function call"
round_trip_sql(G, "SELECT x FROM (VALUES (1, 2)) AS v (a, b)")
round_trip_sql(G, 'SELECT x FROM t AS "a b" (c, d)')
round_trip_sql(G, 'SELECT x FROM t AS "from" (a, b)', ansi_quotes=False)
round_trip_sql(G, "SELECT x FROM t AS literal (a, b)")
round_trip_sql(G + " [CTE with column list: Python repr of a dict]", "WITH w (c, d) AS (SELECT 1, 2) SELECT c FROM w")

# ---------------------------------------------------------------------------------------------------------------------
# R5  utils.to_json_operator asks is_number(name) of the operand of unary minus / plus: a name for which float(name)
#     works ("1", "1e3", " 1", inf, infinity) is negated as a number -> TypeError wrapped in a generic exception
# ---------------------------------------------------------------------------------------------------------------------
G = "R5 numeric-looking name after unary minus/plus"
parse_name(G, 'SELECT -"1" FROM t', {"select": {"value": {"neg": "1"}}, "from": "t"})
parse_name(G, "SELECT -`1e3` FROM t", {"select": {"value": {"neg": "1e3"}}, "from": "t"})
parse_name(G, "SELECT -[1] FROM t", {"select": {"value": {"neg": "1"}}, "from": "t"}, parse_sqlserver)
parse_name(G, "SELECT -inf FROM t", {"select": {"value": {"neg": "inf"}}, "from": "t"})
parse_name(G, 'SELECT +"1" FROM t', {"select": {"value": {"pos": "1"}}, "from": "t"})

# ---------------------------------------------------------------------------------------------------------------------
# R6  the fourth accepted quoting style for aliases, '...', skips literal_field: dots are not escaped, so the same
#     alias text gives a different name than with "..." / `...` (sql_parser.single_quote_name)
# ---------------------------------------------------------------------------------------------------------------------
G = "R6 single-quoted alias: embedded dot not escaped"
parse_name(G, "SELECT a AS 'b.c' FROM t", call(parse, 'SELECT a AS "b.c" FROM t'))
parse_name(G, "SELECT a FROM t AS 'b.c'", call(parse, "SELECT a FROM t AS `b.c`"))

# ---------------------------------------------------------------------------------------------------------------------
# informational: same root cause as the known interval / top (is_keyword only knows RESERVED), another word+position
# ---------------------------------------------------------------------------------------------------------------------
G = "K  same class as the known interval/top: 'array' followed by [..]"
round_trip_tree(G, {"select": {"value": {"get": ["array", 1]}}, "from": "t"}, counts=False)

# informational: '*' is outside the property's alphabet
G = 'K  quoted "*" is taken for the star'
round_trip_sql(G, 'SELECT t."*" FROM t', counts=False)

print()
print(f"{found} violation(s) reproduced out of {checked} checks")
sys.exit(1 if found else 0)
