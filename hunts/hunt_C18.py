# Hunt script for property C18:
#   "Dialect entry points differ only in the documented quoting rules"
#
# Run:  PYTHONPATH=/tmp/wt5/C18 /venv/bin/python /tmp/wt5/C18/hunt_C18.py
# Exit code 1 if at least one violation reproduces, 0 otherwise.
import json
import re
import sys
import warnings

warnings.simplefilter("ignore")

from mo_sql_parsing import parse, parse_mysql, parse_sqlserver, parse_bigquery

EPS = [
    ("parse", parse),
    ("parse_mysql", parse_mysql),
    ("parse_sqlserver", parse_sqlserver),
    ("parse_bigquery", parse_bigquery),
]
REJECT = "<rejected>"


def call(f, sql, ac):
    try:
        return f(sql, all_columns=ac)
    except Exception as e:  # ParseException or the engine's wrapped exception
        return REJECT + " " + type(e).__name__ + ": " + str(e).split("\n")[0][:100]


def rejected(r):
    return isinstance(r, str) and r.startswith(REJECT)


def all4(sql, ac=None):
    return {n: call(f, sql, ac) for n, f in EPS}


def dump(r):
    return r if rejected(r) else json.dumps(r, sort_keys=True)


SENSITIVE = re.compile(r'["\[\]`@]|[A-Za-z0-9_$À-ƿ]-[A-Za-z0-9_$À-ƿ]')

found = []


def report(rc, sql, ac, results, requires):
    found.append(rc)
    print("-" * 78)
    print("VIOLATION (root cause %s)" % rc)
    print("  input       : %r   all_columns=%r" % (sql, ac))
    for n, r in results.items():
        print("  %-16s: %s" % (n, dump(r)))
    print("  required    : %s" % requires)


# ---------------------------------------------------------------------------
# RC1  ident_w_dash accepts a dash that is NOT between two name characters
#      (utils.py: Regex "(?<=[^ 0-9])\-(?=[^ 0-9])" - the look-around accepts
#      any character that is not a blank or digit: ( newline tab ' - > + ...).
#      parse_bigquery swallows the dash into the identifier, parse_mysql
#      raises its "Ambiguity" error, parse / parse_sqlserver see a subtraction
#      (or a line comment, or the JSON -> operator).
# ---------------------------------------------------------------------------
def neutral_check(rc, sql):
    assert not SENSITIVE.search(sql), sql  # no dialect-sensitive spelling
    for ac in (None, "*"):
        res = all4(sql, ac)
        vals = set(REJECT if rejected(r) else dump(r) for r in res.values())
        if len(vals) > 1:
            report(
                rc, sql, ac, res,
                "dialect-neutral SQL: identical trees from all four entry points, or all reject",
            )
            return True
    return False


for sql in [
    "select a-(b) from t",       # a minus parenthesised b  -> bigquery: call of function "a-"
    "select a-\nb from t",       # dash followed by newline -> bigquery: column "a-" aliased b
    "select a--c\n from t",      # column a, then line comment -> bigquery: column "a--c"
    "select a->b from t",        # JSON operator -> bigquery: "a-" > b
    "select a-'x' from t",       # minus string literal -> bigquery: column "a-" aliased x
    "select x from t where a-(select 1)>0",
]:
    neutral_check(1, sql)

# ---------------------------------------------------------------------------
# RC2  parse_bigquery: ansi_ident is part of bigquery_parser's atomic_ident
#      (sql_parser.py:42), so a double-quoted text is an IDENTIFIER wherever
#      only an identifier can stand (FROM, alias, qualifier, "a".*), although
#      the documented rule (and parse_mysql) says it is a string literal.
# ---------------------------------------------------------------------------
for sql, where, as_identifier in [
    ('select x from "t"', "from", lambda r: r.get("from") == "t"),
    ('select "a" "b" from t', "alias", lambda r: r["select"].get("name") == "b"),
    ('select "a".* from t', "qualifier", lambda r: r["select"] == {"all_columns": "a"}),
    ('select t."b" from t', "member", lambda r: r["select"].get("value") == "t.b"),
]:
    res = all4(sql)
    bq = res["parse_bigquery"]
    # a string literal cannot stand in these positions: parse_mysql rejects.
    if not rejected(bq) and as_identifier(bq):
        report(
            2, sql, None, res,
            "double-quoted text is a string literal for parse_bigquery (as for parse_mysql): "
            "reject, or a tree holding {'literal': ...}; it must not be read as an identifier (%s position)" % where,
        )

# ---------------------------------------------------------------------------
# RC3  quoted text goes through ast.literal_eval (utils.py double_column /
#      double_literal / backtick_column / square_column): a content that ends
#      with a backslash makes the parse action crash; no entry point returns
#      the documented identifier / literal.
# ---------------------------------------------------------------------------
for sql, eps, kind in [
    ('select "a\\" from t', ["parse", "parse_sqlserver"], "identifier a\\"),
    ("select [a\\] from t", ["parse_sqlserver"], "identifier a\\"),
    ("select `a\\` from t", ["parse", "parse_mysql", "parse_sqlserver", "parse_bigquery"], "identifier a\\"),
]:
    res = all4(sql)
    bad = [n for n in eps if rejected(res[n])]
    if bad:
        report(
            3, sql, None, {n: res[n] for n in eps},
            "the quoted text is the %s for %s (every content); today the parse action raises"
            % (kind, ", ".join(eps)),
        )

# ---------------------------------------------------------------------------
# RC4  to_select_call (utils.py:638) compares the select expression with "*":
#      a QUOTED identifier whose content is * is returned as the bare star of
#      the old all_columns style, and its alias is dropped.
# ---------------------------------------------------------------------------
for sql, eps in [
    ('select "*" as x from t', ["parse", "parse_sqlserver"]),
    ("select [*] as x from t", ["parse_sqlserver"]),
    ("select `*` as x from t", ["parse", "parse_mysql", "parse_sqlserver", "parse_bigquery"]),
]:
    res = all4(sql)
    bad = [n for n in eps if not rejected(res[n]) and res[n].get("select") == "*"]
    if bad:
        report(
            4, sql, None, {n: res[n] for n in eps},
            "the quoted text is an identifier (a column named *): {'select': {'value': '*', 'name': 'x'}}; "
            "today it is the star of all columns and the alias x is lost",
        )

# ---------------------------------------------------------------------------
# RC5  parse_sqlserver keeps the [..] alternatives of create_array / create_map
#      (sql_parser.py:269-283): after a column called array or map, [x] is not
#      an identifier (alias) as it is after any other column name.
# ---------------------------------------------------------------------------
for sql, ref, plain_sql in [
    ("select array [x] from t", "select a [x] from t", "select array x from t"),
    ("select map[a,b] from t", "select a[a,b] from t", "select map x from t"),
]:
    got = call(parse_sqlserver, sql, None)
    other = call(parse_sqlserver, ref, None)
    plain = call(parse_sqlserver, plain_sql, None)
    if not rejected(got) and ("create_array" in dump(got) or "create_map" in dump(got)):
        report(
            5, sql, None,
            {"parse_sqlserver": got, "reference %r" % ref: other, "and %r" % plain_sql: plain},
            "[x] is an identifier for parse_sqlserver: an alias, as in the reference statement "
            "(array / map are ordinary column names for parse_sqlserver)",
        )

print("=" * 78)
if found:
    print("reproduced violations for root causes:", sorted(set(found)))
    sys.exit(1)
print("no violation reproduced")
sys.exit(0)
