# Hunt for violations of property C16 (concurrent calls behave as if run one at a time,
# and ALL CALLS COMPLETE).
#
# Run:  PYTHONPATH=/tmp/wt5/C16 /venv/bin/python /tmp/wt5/C16/hunt_C16.py
# Exit status 1 if at least one violation reproduces, 0 otherwise.
#
# Every scenario runs in a fresh child interpreter (cold start matters, and a deadlocked
# thread cannot be killed), with daemon threads and join timeouts; the child reports JSON.
import json
import os
import subprocess
import sys

HANG = 6  # seconds a call is given before it is declared hung (a normal call takes < 0.1 s warm, < 5 s cold build)

PRELUDE = r"""
import sys, threading, json, os, time
sys.setswitchinterval(1e-6)
import mo_sql_parsing as m
from mo_sql_parsing import parse, parse_mysql, parse_sqlserver, parse_bigquery, format

def timed(fn, seconds):
    box = []
    def body():
        try:
            box.append(["returned", fn()])
        except BaseException as e:
            box.append(["raised", type(e).__name__ + ": " + str(e)[:200]])
    t = threading.Thread(target=body, daemon=True)
    t.start(); t.join(seconds)
    if t.is_alive():
        return ["HUNG (no return after %s s)" % seconds, None]
    return box[0]

def where_is(thread_name_part):
    # stack of the blocked thread, innermost frames
    import traceback
    out = []
    for ident, frame in sys._current_frames().items():
        st = traceback.extract_stack(frame)
        txt = ["%s:%s %s" % (os.path.basename(f.filename), f.lineno, f.name) for f in st[-4:]]
        if any("mo_sql_parsing" in f.filename for f in st):
            out.append(txt)
    return out

def finish(obj):
    print("RESULT " + json.dumps(obj, default=str), flush=True)
    os._exit(0)
"""

# ---------------------------------------------------------------------------------------
# Root cause 1: parse_locker is a non re-entrant threading.Lock that is HELD while the user's
# calls= callback runs (scrub runs inside `with parse_locker`).  format()'s cold path
# (formatting.is_keyword, first use) takes the same lock.  A callback that renders with
# format() therefore blocks on the lock its own thread holds - but only when no format() has
# run in the process yet.  The lock is never released, so every other thread's parse*/first
# format hangs too.
# ---------------------------------------------------------------------------------------
RC1_COLD = PRELUDE + r"""
def cb(op, args, kwargs):
    return {"sql": format({op: args})}          # render each call as SQL text

victim = timed(lambda: parse("select f(a) from t", calls=cb), %(HANG)d)
stacks = where_is("")
# bystanders in other threads, different dialect / options, no callback at all
by1 = timed(lambda: parse_mysql("select 1", null=None), 3)
by2 = timed(lambda: format({"select": "b"}), 3)
finish({"victim": victim, "bystander parse_mysql('select 1')": by1, "bystander format({'select':'b'})": by2, "stacks": stacks})
"""

RC1_WARM = PRELUDE + r"""
format({"select": "zz"})                         # any earlier format() call builds the keyword probe
def cb(op, args, kwargs):
    return {"sql": format({op: args})}
victim = timed(lambda: parse("select f(a) from t", calls=cb), %(HANG)d)
by1 = timed(lambda: parse_mysql("select 1", null=None), 3)
finish({"victim": victim, "bystander parse_mysql('select 1')": by1})
"""

# Same root cause, schedule variant: the callback does not call format itself; it only waits
# for a format() issued by ANOTHER thread (a worker pool rendering fragments).  Pure
# two-thread deadlock: T1 holds parse_locker in the callback and waits for T2; T2's first
# format() waits for parse_locker.
RC1_TWO_THREADS = PRELUDE + r"""
from concurrent.futures import ThreadPoolExecutor
pool = ThreadPoolExecutor(2)
def cb(op, args, kwargs):
    return {"sql": pool.submit(format, {op: args}).result()}
victim = timed(lambda: parse("select f(a) from t", calls=cb), %(HANG)d)
finish({"victim": victim})
"""

# ---------------------------------------------------------------------------------------
# Root cause 2: same lock, re-entered through a parse entry point.  A calls= callback that
# itself calls any parse* function (e.g. to parse SQL text embedded in an argument) blocks
# for ever, warm or cold, and takes every other thread with it.
# ---------------------------------------------------------------------------------------
RC2 = PRELUDE + r"""
parse("select 1"); parse_mysql("select 1"); format({"select": "zz"})   # everything warm
def cb(op, args, kwargs):
    if op == "f":
        return {"inner": parse_mysql("select 1")}     # other dialect, default options
    return {op: args}
victim = timed(lambda: parse("select f(a) from t", calls=cb), %(HANG)d)
stacks = where_is("")
by1 = timed(lambda: parse_bigquery("select 2"), 3)
finish({"victim": victim, "bystander parse_bigquery('select 2')": by1, "stacks": stacks})
"""

# What RC2's victim returns when the lock is merely made re-entrant (monkey-patched in the
# child only, the library source is untouched): it completes, but the outer call now observes
# the inner call's callback - shown to qualify the "small fix" column of the report.
RC2_WITH_RLOCK = PRELUDE + r"""
m.parse_locker = threading.RLock()
def cb(op, args, kwargs):
    if op == "f":
        return {"inner": parse_mysql("select 1")}
    return {"CB": op, "args": args}
got = timed(lambda: parse("select f(a), h(b) from t", calls=cb), %(HANG)d)
finish({"victim": got})
"""

# ---------------------------------------------------------------------------------------
# Adjacent observation (NOT counted: the property quantifies over threads of one process):
# os.fork() while another thread is inside parse copies the held lock into the child, where
# no thread will ever release it; the child's first parse hangs.
# ---------------------------------------------------------------------------------------
FORK = PRELUDE + r"""
import warnings; warnings.simplefilter("ignore")
parse("select 1")
big = "select " + ",".join("a%d+b%d*c%d" % (i, i, i) for i in range(3000)) + " from t"
t = threading.Thread(target=lambda: parse(big), daemon=True); t.start(); time.sleep(0.3)
r, w = os.pipe()
pid = os.fork()
if pid == 0:
    got = timed(lambda: parse("select 2"), 5)
    os.write(w, json.dumps(got).encode()); os._exit(0)
os.waitpid(pid, 0)
finish({"child": json.loads(os.read(r, 10000).decode())})
"""


def child(code):
    code = code.replace("%(HANG)d", str(HANG))
    p = subprocess.run([sys.executable, "-c", code], capture_output=True, text=True, timeout=180, env=os.environ.copy())
    for line in p.stdout.splitlines():
        if line.startswith("RESULT "):
            return json.loads(line[7:])
    raise RuntimeError("child gave no result\n" + p.stdout + p.stderr)


def hung(x):
    return isinstance(x, list) and isinstance(x[0], str) and x[0].startswith("HUNG")


def main():
    found = 0

    print("=" * 100)
    print("ROOT CAUSE 1  calls= callback that calls format(), cold start (no format() yet in the process)")
    print("  input     : parse('select f(a) from t', calls=lambda op, args, kw: {'sql': format({op: args})})")
    warm = child(RC1_WARM)
    cold = child(RC1_COLD)
    print("  warm start (format() called once before)      :", warm["victim"])
    print("  cold start (identical call, first in process) :", cold["victim"])
    for k, v in cold.items():
        if k.startswith("bystander"):
            print("  cold,", k, "in another thread :", v)
    for st in cold.get("stacks", []):
        print("  blocked at:", " <- ".join(reversed(st)))
    print("  required  : the call completes and returns what it returns alone with a warm formatter:",
          warm["victim"][1], "; the other threads' calls complete")
    if hung(cold["victim"]) and not hung(warm["victim"]):
        found += 1
        print("  => VIOLATION REPRODUCED (self-deadlock on parse_locker; every later parse*/first format in any thread hangs)")
    else:
        print("  => not reproduced")

    print("-" * 100)
    print("ROOT CAUSE 1, two-thread schedule: callback waits for a format() run by a pool thread, cold start")
    print("  input     : parse('select f(a) from t', calls=lambda op, args, kw: {'sql': pool.submit(format, {op: args}).result()})")
    two = child(RC1_TWO_THREADS)
    print("  returned  :", two["victim"])
    print("  required  :", warm["victim"][1])
    if hung(two["victim"]):
        found += 1
        print("  => VIOLATION REPRODUCED (T1 holds parse_locker in the callback, T2's first format() waits for it)")
    else:
        print("  => not reproduced")

    print("=" * 100)
    print("ROOT CAUSE 2  calls= callback that calls a parse entry point (warm start)")
    print("  input     : parse('select f(a) from t', calls=cb)  with cb('f', ...) -> {'inner': parse_mysql('select 1')}")
    r2 = child(RC2)
    print("  returned  :", r2["victim"])
    for k, v in r2.items():
        if k.startswith("bystander"):
            print(" ", k, "in another thread :", v)
    for st in r2.get("stacks", []):
        print("  blocked at:", " <- ".join(reversed(st)))
    print("  required  : all calls complete; victim returns {'select': {'value': {'inner': {'select': {'value': 1}}}}, 'from': 't'}")
    if hung(r2["victim"]):
        found += 1
        print("  => VIOLATION REPRODUCED")
    else:
        print("  => not reproduced")
    rl = child(RC2_WITH_RLOCK)
    print("  note      : with parse_locker swapped for an RLock (in the child only) the call completes, but")
    print("              parse('select f(a), h(b) from t', calls=cb) with cb -> {'CB': op, ...} returns", rl["victim"][1])
    print("              i.e. h(b) was built by the INNER call's callback (simple_op), so RLock alone is not a fix for RC2")

    print("=" * 100)
    print("ADJACENT (not counted, outside the property's quantification): fork while a thread is parsing")
    try:
        fk = child(FORK)
        print("  child process parse('select 2') :", fk["child"])
    except Exception as e:  # informational only
        print("  could not run:", e)

    print("=" * 100)
    print("violations reproduced:", found)
    return 1 if found else 0


if __name__ == "__main__":
    sys.exit(main())
