# Reproduces the violations of property C19 (DDL and DML trees keep every column,
# option, assignment and row in place) found on the unchanged library.
#
#   PYTHONPATH=/tmp/wt5/C19 /venv/bin/python /tmp/wt5/C19/hunt_C19.py
#
# exit status 1 if at least one violation reproduces, 0 otherwise.
import json
import sys
import warnings

warnings.simplefilter("ignore")

from mo_sql_parsing import parse


def show(tree):
    try:
        return json.dumps(tree)
    except Exception:
        return repr(tree)  # RC8 returns a tree that is not JSON


def listwrap(v):
    if v is None:
        return []
    return v if isinstance(v, list) else [v]


def columns_of(tree):
    return listwrap(tree["create table"].get("columns"))


def column(tree, name):
    for c in columns_of(tree):
        if isinstance(c, dict) and c.get("name") == name:
            return c
    return None


def contains(tree, word):
    """word appears somewhere in the tree (as a key or as a string value)"""
    if isinstance(tree, dict):
        return any(k == word or contains(v, word) for k, v in tree.items())
    if isinstance(tree, list):
        return any(contains(v, word) for v in tree)
    return tree == word


CASES = []


def case(rc, sql, requires):
    def decorator(violated):
        CASES.append((rc, sql, requires, violated))
        return violated

    return decorator


# ---------------------------------------------------------------------------
# RC1  the RETURNING keyword is not in the grammar:
#      sql_parser.py:788  returning = Optional(delimited_list(select_column)("returning"))
#      "returning" is read as a column (or as the alias of the table) and the
#      first returned column as its alias; any trailing word is accepted.
# ---------------------------------------------------------------------------
@case(
    "RC1 RETURNING keyword missing",
    "insert into t (a, b) values (1, 2) returning a",
    'returning records the column a: {"returning": {"value": "a"}}; no column called "returning"',
)
def _(t):
    return t.get("returning") != {"value": "a"}


@case(
    "RC1 RETURNING keyword missing",
    "delete from t returning a, b",
    'the table is recorded with its exact name: {"delete": "t"}; it has no alias in the source',
)
def _(t):
    return t.get("delete") != "t"


@case(
    "RC1 RETURNING keyword missing",
    "update t set a = 1, b = 2 returning a, b",
    'returning is [{"value": "a"}, {"value": "b"}]',
)
def _(t):
    return t.get("returning") != [{"value": "a"}, {"value": "b"}]


@case(
    "RC1 RETURNING keyword missing",
    "update t set a = 1 junk",
    "a parse error (or at least no invented returning clause): the statement has no RETURNING",
)
def _(t):
    return "returning" in t


# ---------------------------------------------------------------------------
# RC2  index options are dropped:
#      sql_parser.py:653  index_options = ZeroOrMore(identifier / (lambda t: {t[0]: True}))
#      the dict produced by the action carries no results name, scrub() drops it
# ---------------------------------------------------------------------------
@case(
    "RC2 index options dropped",
    "create index i on s.t using btree (a) visible",
    "the option VISIBLE written on the index is recorded somewhere in the tree",
)
def _(t):
    return not contains(t, "visible")


@case(
    "RC2 index options dropped",
    "create table t (x int, key k (x) invisible, primary key (x) visible)",
    "INVISIBLE is recorded on index k and VISIBLE on the primary key",
)
def _(t):
    return not contains(t, "invisible") or not contains(t, "visible")


# ---------------------------------------------------------------------------
# RC3  utils.py:359 to_flat_column_type: when the type carries CHARACTER SET the
#      column is rebuilt with dict(tokens), which reshapes the other options
#      (identity loses its "generated" label; repeated options are nested)
# ---------------------------------------------------------------------------
@case(
    "RC3 to_flat_column_type reshapes the options of a column whose type has CHARACTER SET",
    "create table t (a varchar(9) character set utf8 generated always as identity, b varchar(9) generated always as identity)",
    'both columns record the same option the same way: "identity": {"generated": "always"}',
)
def _(t):
    a, b = column(t, "a"), column(t, "b")
    return a.get("identity") != b.get("identity") or a.get("identity") != {"generated": "always"}


@case(
    "RC3 to_flat_column_type reshapes the options of a column whose type has CHARACTER SET",
    "create table t (a text character set utf8 check (a > 'a') check (a < 'z'), b text check (b > 'a') check (b < 'z'))",
    'both columns record the two checks the same way: "check": [<first>, <second>]',
)
def _(t):
    a, b = column(t, "a"), column(t, "b")
    return not isinstance(a.get("check"), list) or not isinstance(b.get("check"), list)


# ---------------------------------------------------------------------------
# RC4  utils.py:572 get_literal keeps only the "literal" key of a string value,
#      so the character-set introducer / N prefix is lost, but only when the
#      VALUES list has two or more all-truthy rows (the compact "values" shape)
# ---------------------------------------------------------------------------
@case(
    "RC4 get_literal drops the encoding of a string value in multi-row VALUES",
    "insert into t (a, b) values (_utf8'x', 1), (N'y', 2)",
    "the values keep their encoding (_utf8 / n), as the one-row form "
    "\"insert into t (a, b) values (_utf8'x', 1)\" does",
)
def _(t):
    one_row = parse("insert into t (a, b) values (_utf8'x', 1)")
    return contains(one_row, "_utf8") and not contains(t, "_utf8")


# ---------------------------------------------------------------------------
# RC5  utils.py:717 to_insert_call zips the column list with each row without
#      looking at the counts; a lone column name is zipped character by
#      character.  (The inputs are not executable SQL, but the tree silently
#      drops a column / a value / renames the column instead of keeping them.)
# ---------------------------------------------------------------------------
@case(
    "RC5 to_insert_call zips columns and rows of different lengths",
    "insert into t (ab) values (1, 2), (3, 4)",
    'the column is called "ab"; the tree names columns "a" and "b" that are not in the source',
)
def _(t):
    return not contains(t, "ab")


@case(
    "RC5 to_insert_call zips columns and rows of different lengths",
    "insert into t (a, b, c) values (1, 2), (3, 4)",
    "column c is recorded (every column of the list, in order)",
)
def _(t):
    return not contains(t, "c")


@case(
    "RC5 to_insert_call zips columns and rows of different lengths",
    "insert into t (a, b) values (1, 2, 9), (3, 4, 9)",
    "the third value 9 of every row is recorded",
)
def _(t):
    return "9" not in show(t)


# ---------------------------------------------------------------------------
# RC6  sql_parser.py:668-676,683  the table-constraint alternative is tried before
#      the column definition and KEY / INDEX are not reserved: a column named
#      key / index whose type is array(...) / map(...) becomes an index
# ---------------------------------------------------------------------------
@case(
    "RC6 column named key / index with an array(...) / map(...) type is read as an index",
    "create table t (a int, key map(int, varchar(3)))",
    'two columns, the second {"name": "key", "type": {"map": [{"int": {}}, {"varchar": 3}]}}; no constraint',
)
def _(t):
    return column(t, "key") is None or "constraint" in t["create table"]


@case(
    "RC6 column named key / index with an array(...) / map(...) type is read as an index",
    "create table t (index array(int), a int)",
    'two columns, the first {"name": "index", "type": {"array": {"int": {}}}}; no constraint',
)
def _(t):
    return column(t, "index") is None or "constraint" in t["create table"]


# ---------------------------------------------------------------------------
# RC7  types.py:263,268-269  DEFAULT / ON UPDATE take a full expression and COLLATE is
#      a binary operator of the expression grammar: the column option COLLATE
#      written after them is swallowed into the default value
# ---------------------------------------------------------------------------
@case(
    "RC7 COLLATE option after DEFAULT / ON UPDATE is swallowed by the expression",
    "create table t (a varchar(10) default 'a' collate utf8_bin not null, b varchar(10) collate utf8_bin default 'a' not null)",
    'both columns: "default": {"literal": "a"}, "collate": "utf8_bin" (the order of options must not matter)',
)
def _(t):
    a, b = column(t, "a"), column(t, "b")
    return a.get("collate") != b.get("collate") or a.get("default") != b.get("default")


@case(
    "RC7 COLLATE option after DEFAULT / ON UPDATE is swallowed by the expression",
    "create table t (a timestamp on update current_timestamp collate utf8_bin)",
    '"on_update": "current_timestamp", "collate": "utf8_bin"',
)
def _(t):
    a = column(t, "a")
    return a.get("collate") != "utf8_bin" or a.get("on_update") != "current_timestamp"


# ---------------------------------------------------------------------------
# RC8  sql_parser.py:738,751  Optional(keyword("or") + flag("replace"))(INDEX | KEY)
#      names the result with a parser object: the option is filed under a key
#      that is not a string and the tree is not JSON
# ---------------------------------------------------------------------------
@case(
    "RC8 OR REPLACE of CREATE INDEX / CREATE SCHEMA is filed under a parser object",
    "create schema or replace s",
    'the option is recorded by name: {"create_schema": {"replace": true, "name": "s"}}',
)
def _(t):
    body = t["create_schema"]
    return body.get("replace") is not True or any(not isinstance(k, str) for k in body)


@case(
    "RC8 OR REPLACE of CREATE INDEX / CREATE SCHEMA is filed under a parser object",
    "create index or replace i on t (a)",
    'the option is recorded by name: "replace": true next to name / table / columns',
)
def _(t):
    body = t["create index"]
    return body.get("replace") is not True or any(not isinstance(k, str) for k in body)


def main():
    reproduced = 0
    for rc, sql, requires, violated in CASES:
        try:
            tree = parse(sql)
        except Exception as cause:
            print(f"[not reproduced] {rc}\n  input   : {sql}\n  raised  : {type(cause).__name__}: {str(cause)[:120]}\n")
            continue
        try:
            bad = bool(violated(tree))
        except Exception as cause:
            bad = True
            print(f"  (check raised {type(cause).__name__}: {cause})")
        if bad:
            reproduced += 1
        print(
            f"[{'VIOLATION' if bad else 'ok'}] {rc}\n"
            f"  input   : {sql}\n"
            f"  returned: {show(tree)}\n"
            f"  requires: {requires}\n"
        )
    print(f"{reproduced} of {len(CASES)} cases reproduce a violation")
    return 1 if reproduced else 0


if __name__ == "__main__":
    sys.exit(main())
