# Hunt script for property C17:
#   "Returned trees belong to the caller; format does not touch its argument"
#
# Run:  PYTHONPATH=/tmp/wt5/C17 /venv/bin/python /tmp/wt5/C17/hunt_C17.py
# Exit code 1 if at least one violation reproduces, 0 otherwise.
import copy
import json
import sys

from mo_sql_parsing import parse, format

reproduced = []


def reorder(tree, key_order):
    """equal tree (==) whose dicts list their keys in another order"""
    if isinstance(tree, dict):
        return {k: reorder(v, key_order) for k, v in key_order(list(tree.items()))}
    if isinstance(tree, list):
        return [reorder(v, key_order) for v in tree]
    return tree


def report(cause, title, input_, returned, required, violated):
    print("=" * 78)
    print(f"ROOT CAUSE {cause}: {title}")
    print(f"  input    : {input_}")
    print(f"  returned : {returned}")
    print(f"  required : {required}")
    print(f"  status   : {'VIOLATION REPRODUCED' if violated else 'not reproduced'}")
    if violated:
        reproduced.append(cause)


# ---------------------------------------------------------------------------
# ROOT CAUSE 1
# format() returns different text for equal trees: Formatter.casting() takes
# the FIRST key of the type dict (formatting.py:426  first(type.items())) as the
# type name, so the text depends on dict key order.  The parser emits type
# modifiers (unsigned / zerofill / character_set / the TO-unit of an interval)
# as sibling keys of the type name, so every such tree has an equal twin (same
# ==, same JSON object) that formats differently.
# ---------------------------------------------------------------------------
for sql in [
    "select cast(a as bigint unsigned)",
    "select cast(a as decimal(10,2) unsigned)",
    "select cast(a as char character set utf8)",
    "select try_cast(a as double(5,2) unsigned zerofill)",
    "select interval '1:1' minute to second",
]:
    tree = parse(sql)
    frozen = copy.deepcopy(tree)
    text_a = format(tree)
    assert tree == frozen, "format modified its argument"
    twins = {
        "keys reversed": reorder(tree, lambda items: list(reversed(items))),
        "json.loads(json.dumps(tree, sort_keys=True))": json.loads(json.dumps(tree, sort_keys=True)),
    }
    for how, twin in twins.items():
        assert twin == tree  # EQUAL TREES
        text_b = format(twin)
        if text_a != text_b:
            report(
                1,
                "format() text depends on dict key order of a CAST / interval type (casting: first(type.items()))",
                f"format(parse({sql!r})) vs format(<equal tree, {how}>)   tree={tree}   twin={twin}",
                f"{text_a!r}   versus   {text_b!r}",
                "the same text for equal trees (tree == twin is True)",
                True,
            )
            break
    else:
        report(1, "format() key order in casting", sql, text_a, "same text for equal trees", False)


# ---------------------------------------------------------------------------
# ROOT CAUSE 2 (weaker / arguable: the shared object is the one the caller
# passed in; README: "replace nulls with None (or anything else for that
# matter)").  A non-default `null` container is assigned BY REFERENCE into
# every NULL slot (__init__.py:113  o[n] = ... else null): only the default got
# the fresh-object-per-slot treatment.  So (a) two NULL nodes of ONE returned
# tree are the same object - editing one node of the tree edits the other - and
# (b) editing a returned tree changes what a later parse() with the same
# argument returns.
# ---------------------------------------------------------------------------
MY_NULL = {"NUL": {}}
sql = "select null as a, null as b"
tree = parse(sql, null=MY_NULL)
expected = copy.deepcopy(tree)
tree["select"][0]["value"]["touched"] = 1  # THE CALLER EDITS ONE NODE OF ITS OWN TREE
other_node = tree["select"][1]["value"]
report(
    2,
    "custom null container is shared by every NULL slot (same tree) - o[n] = null",
    f"t = parse({sql!r}, null={{'NUL': {{}}}}); t['select'][0]['value']['touched'] = 1",
    f"t['select'][1]['value'] == {other_node}   (column b changed too); format-relevant tree now {tree}",
    f"only the edited node changes; column b stays {expected['select'][1]['value']}",
    other_node != expected["select"][1]["value"],
)

later = parse("select null", null=MY_NULL)
report(
    2,
    "custom null container is shared across calls - editing an earlier result changes a later parse()",
    "after the edit above: parse('select null', null=<the same object that was passed before>)",
    f"{later}",
    "{'select': {'value': {'NUL': {}}}}  (what the same call returned before the earlier tree was edited)",
    later != {"select": {"value": {"NUL": {}}}},
)

# the same with a falsy list container
MY_LIST = []
t1 = parse("select a from t where b in (null, null)", null=MY_LIST)
t1["where"]["in"][1][0].append("x")
report(
    2,
    "custom null container (falsy list []) is shared",
    "t = parse('select a from t where b in (null, null)', null=[]); t['where']['in'][1][0].append('x')",
    f"t['where']['in'][1] == {t1['where']['in'][1]}",
    "[['x'], []]  (only the first slot edited)",
    t1["where"]["in"][1][1] == ["x"],
)

# ---------------------------------------------------------------------------
# CONTROL: the violations named in the property text are fixed in this checkout
# (fresh {"null": {}} per slot, fresh {} for all_columns, fresh {'delete': {}}).
# These are not counted; they are printed to show the probes do bite.
# ---------------------------------------------------------------------------
print("=" * 78)
print("CONTROL (not counted): default NULL / all_columns / merge-delete constants")
t = parse("select null, null, * from t")
t["select"][0]["value"]["null"]["x"] = 1
t["select"][0]["value"]["y"] = 1
t["select"][2]["all_columns"]["z"] = 1
again = parse("select null, null, * from t")
print("  second parse after editing first:", again)
ok1 = again == {"select": [{"value": {"null": {}}}, {"value": {"null": {}}}, {"all_columns": {}}], "from": "t"}
m1 = parse("merge into t using s on t.a = s.a when matched then delete")
copy_m1 = copy.deepcopy(m1)


def containers(x):
    if isinstance(x, dict):
        yield x
        for v in list(x.values()):
            yield from containers(v)
    elif isinstance(x, list):
        yield x
        for v in list(x):
            yield from containers(v)


for c in list(containers(m1)):
    if isinstance(c, dict):
        c["__edit__"] = 1
    else:
        c.append("__edit__")
m2 = parse("merge into t using s on t.a = s.a when matched then delete")
ok2 = m2 == copy_m1
print("  default constants are private to each result:", ok1 and ok2)

print("=" * 78)
if reproduced:
    print(f"{len(reproduced)} violating observations, root causes: {sorted(set(reproduced))}")
    sys.exit(1)
print("no violation reproduced")
sys.exit(0)
