# encoding: utf-8
"""
hunt_C03.py - existing violations of property C03
    "parse -> format -> parse is the identity on the formatter-supported fragment;
     format never raises"

Run with:   PYTHONPATH=<library checkout> python hunt_C03.py
Exit status 1 when at least one violation reproduces, 0 otherwise.
"""
import json
import os
import sys

# let PYTHONPATH decide which mo_sql_parsing is imported, not the directory of this script
_here = os.path.dirname(os.path.abspath(__file__))
# (only the entry the interpreter put in front for the script; a PYTHONPATH entry naming the same directory stays)
if sys.path and os.path.abspath(sys.path[0] or os.getcwd()) == _here:
    del sys.path[0]

from mo_sql_parsing import parse, format  # noqa: E402


def strict_eq(a, b):
    """same structure, same keys, same value types (int distinct from float and bool)"""
    if type(a) is not type(b):
        return False
    if isinstance(a, dict):
        return set(a.keys()) == set(b.keys()) and all(strict_eq(a[k], b[k]) for k in a)
    if isinstance(a, list):
        return len(a) == len(b) and all(strict_eq(x, y) for x, y in zip(a, b))
    return a == b


REQUIRE = "format(parse(sql)) must not raise, and parse(format(parse(sql))) must be strictly identical to parse(sql)"

# (root cause id, short description of the root cause, sql)
CASES = [
    # ---- expressions -------------------------------------------------------------------------------------------
    ("R01", "scalar sub-query printed without parentheses (callers use dispatch() default prec=100)",
     "select case when a then (select b from u) end from t"),
    ("R01", "same, WHERE", "select a from t where (select b from u)"),
    ("R01", "same, ORDER BY", "select a from t order by (select 1)"),
    ("R01", "same, LIMIT", "select a from t limit (select 1)"),
    ("R01", "same, PARTITION BY of a window", "select sum(a) over (partition by (select 1)) from t"),
    ("R01", "same, CAST operand (re-parses, but to another tree)", "select cast((select b from u) as int) from t"),
    ("R02", "_literal does not re-escape backslashes that single_literal un-escapes",
     r"select 'C:\\temp' from t"),
    ("R02", "same, trailing backslash makes the output unparsable", r"select 'a\\' from t"),
    ("R03", "precedence table: gt=6 but lt/lte/gte=5; the parser has one level for all four",
     "select a > (b < c) from t"),
    ("R04", "precedence table: like/ilike/not_like/rlike/in/nin/between/is all 8, the parser orders them strictly",
     "select (a ilike b) like c from t"),
    ("R04", "same, NOT IN under IN", "select (a not in (1, 2)) in (b, c) from t"),
    ("R04", "same, IN under BETWEEN", "select (a in (1, 2)) between b and c from t"),
    ("R04", "same, IS NULL under IS NOT NULL", "select (a is null) is not null from t"),
    ("R05", "_regexp/_not_regexp ignore prec; table says 7, the parser puts REGEXP below OR",
     "select (a regexp b) and c from t"),
    ("R05", "same", "select not (a regexp b) from t"),
    ("R06", "_binary_not never parenthesises (operand nor itself)", "select ~(a & b) from t"),
    ("R06", "same, outer direction", "select (~a) + b from t"),
    ("R07", "_not parenthesises its operand where the whole NOT needs parentheses", "select (not a) = b from t"),
    ("R07", "same through _missing/_in/_between (they pass prec 8, _not then prints bare)", "select (not a) is null from t"),
    ("R07", "same", "select (not a) in (1, 2) from t"),
    ("R08", "_between/_not_between/_exists ignore the incoming prec (same pattern as the known _missing case)",
     "select (a between 1 and 2) = b from t"),
    ("R08", "same", "select (a between 1 and 2) + 1 from t"),
    ("R08", "same, _exists", "select a + (b is not null) from t"),
    ("R26", "IS [NOT] DISTINCT FROM / <=> have op names 'eq!'/'ne!' with no renderer", "select a is distinct from b from t"),
    ("R24", "casting(): multi-word / flagged / nested type names are printed from their tree spelling",
     "select cast(a as double precision) from t"),
    ("R24", "same", "select cast(a as unsigned) from t"),
    ("R24", "same", "select cast(a as timestamp with time zone) from t"),
    ("R25", "dispatch()/op() key on names: a call whose name is a clause key takes the clause renderer",
     "select insert(a, 1, 2, 'x') from t"),
    ("R25", "same (BigQuery a[offset(0)])", "select a[offset(0)] from t"),
    ("R25", "same, silently drops the call", "select value(a) from t"),
    ("R25", "same family: a call/operator tree with a second key raises 'Operators should have only one key!'",
     "select f(a, x => 1) from t"),
    ("R25", "same ('~*' gives {'regexp':..,'ignore_case':True})", "select a ~* b from t"),
    ("R27", "_should_quote only knows RESERVED; interval/top/array are grammar words too",
     'select "interval" + 1 from t'),
    ("R27", "same", 'select "top" + 1 from t'),
    ("R27", "same", 'select "array"[1] from t'),
    ("R28", "_substring assumes both FROM and FOR and does not dispatch its operands", "select substring(a from 2) from t"),
    ("R28", "same", "select substring('abc' from 1 for 2) from t"),
    # ---- window functions --------------------------------------------------------------------------------------
    ("R09", "orderby() ignores the 'nulls' key", "select a from t order by b desc nulls first"),
    ("R09", "same in a window", "select rank() over (order by c nulls last) from t"),
    ("R10", "value(): OVER <window name> (a string) is treated as a dict; WINDOW / QUALIFY are not in the clause lists",
     "select sum(a) over w from t window w as (partition by b)"),
    ("R10", "same, QUALIFY", "select a from t qualify row_number() over (order by a) = 1"),
    ("R11", "value(): frame with both ends unbounded ({}) is dropped",
     "select sum(a) over (order by d rows between unbounded preceding and unbounded following) from t"),
    ("R11", "value(): wordy() compares the bound with 0, an expression bound raises TypeError",
     "select sum(a) over (order by d range between interval '1' day preceding and current row) from t"),
    ("R11", "value(): always prints ROWS, a fractional RANGE bound cannot be read back",
     "select sum(a) over (order by d range between 1.5 preceding and current row) from t"),
    ("R12", "value(): prints OVER before WITHIN GROUP",
     "select percentile_cont(0.5) within group (order by a) over (partition by b) from t"),
    # ---- query clauses -----------------------------------------------------------------------------------------
    ("R13", "alias with a column list {'x': [cols]} goes through op(): upper-cased like a function",
     "select * from t as x(a, b)"),
    ("R13", "same in WITH: the dict is interpolated as text", "with x(a) as (select 1) select * from x"),
    ("R14", "identifier interpolated without escape(): CTE name", 'with "my cte" as (select 1) select * from "my cte"'),
    ("R14", "same: qualifier of .*", 'select "my t".* from "my t"'),
    ("R14", "same: DELETE table", 'delete from "my t" where a = 1'),
    ("R14", "same: INSERT table", 'insert into "my t" values (1, 2)'),
    ("R15", "all_columns(): dispatch(list) already adds parentheses", "select * except (a, b) from t"),
    ("R16", "select(): TOP handled as a plain value, WITH TIES lost", "select top 10 with ties a from t order by a"),
    ("R17", "from_/_join_on: a parenthesised join (a list) is printed as a comma list / breaks set(v)",
     "select * from a join (b join c on b.y = c.y) on a.x = b.x"),
    ("R17", "same", "select * from (a join b on a.x = b.x) join c on c.y = a.y"),
    ("R17b", "join_keywords lacks natural join / straight_join / ... lateral", "select * from a natural join b"),
    ("R18", "'with_recursive' is not in unordered_clauses",
     "with recursive x as (select 1 union all select a + 1 from x) select * from x"),
    ("R19", "union()/union_all() dispatch operands at prec 100: an operand's own ORDER BY/LIMIT loses its parentheses",
     "(select a from t limit 1) union all select b from u"),
    ("R19", "same, silently re-attaches the LIMIT to the whole union", "select a from t union all (select b from u limit 1)"),
    ("R20", "UNION DISTINCT / INTERSECT ALL / EXCEPT ALL have no renderer", "select a from t except all select b from u"),
    ("R20", "same", "select a from t union distinct select b from u"),
    ("R21", "ordered_query(): WITH + set operation + ORDER BY takes the 'regular query' branch",
     "with x as (select 1) select a from x union all select b from u order by 1"),
    # ---- DML ---------------------------------------------------------------------------------------------------
    ("R22", "insert(): OVERWRITE printed without TABLE", "insert overwrite table t select a from u"),
    ("R22", "insert(): IGNORE dropped", "insert ignore into t values (1, 2)"),
    ("R22", "insert(): looks for 'if exists', the parser writes 'if_exists'", "insert into t if exists select a from u"),
    ("R22", "insert(): a leading WITH is dropped", "with x as (select 1) insert into t select * from x"),
    ("R23", "delete(): assumes the table is a plain string", "delete from t as x where x.a = 1"),
    ("R23", "delete(): USING / multi-table form printed as DELETE FROM t FROM u", "delete from t using u where t.a = u.a"),
    ("R23", "delete(): the rest is printed only when WHERE is present; ORDER BY / LIMIT alone and the flags are dropped", "delete from t order by a limit 5"),
    ("R23", "same", "delete low_priority from t where a = 1"),
]


def check(sql):
    """return (violated, what was returned)"""
    t1 = parse(sql)
    try:
        text = format(t1)
    except Exception as cause:
        return True, "parse -> %s\n      format RAISED %s: %s" % (json.dumps(t1), type(cause).__name__, str(cause)[:120])
    try:
        t2 = parse(text)
    except Exception as cause:
        return (
            True,
            "parse -> %s\n      format -> %r\n      which does NOT PARSE: %s"
            % (json.dumps(t1), text, str(cause).split("\n")[0][:120]),
        )
    if not strict_eq(t1, t2):
        return (
            True,
            "parse -> %s\n      format -> %r\n      re-parse -> %s   (DIFFERENT TREE)" % (json.dumps(t1), text, json.dumps(t2)),
        )
    return False, "format -> %r (round trip is the identity)" % (text,)


def main():
    reproduced = 0
    causes = set()
    for cause_id, description, sql in CASES:
        try:
            violated, returned = check(sql)
        except Exception as cause:
            print("[%s] input does not parse any more: %r (%s)" % (cause_id, sql, str(cause).split("\n")[0][:100]))
            continue
        print("[%s] %s" % (cause_id, description))
        print("   input   : %s" % (sql,))
        print("   returned: %s" % (returned,))
        print("   required: %s" % (REQUIRE,))
        print("   => %s" % ("VIOLATION" if violated else "ok"))
        print()
        if violated:
            reproduced += 1
            causes.add(cause_id)
    print("%d of %d inputs violate C03; %d distinct root causes: %s" % (reproduced, len(CASES), len(causes), ", ".join(sorted(causes))))
    return 1 if reproduced else 0


if __name__ == "__main__":
    sys.exit(main())
