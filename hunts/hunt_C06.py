# encoding: utf-8
"""
hunt_C06.py - inputs on which the unchanged library violates property C06
("String and numeric literals survive parse and format exactly").

Run with:   PYTHONPATH=<checkout> python hunt_C06.py
Exit code:  1 if at least one violation reproduces, 0 otherwise.

The behaviours the property text already lists as known (backslash
re-interpretation, trailing backslash crash, 1e25 via float, 1e-3 parsed as an
expression, repr(float) such as 1e-05 re-parsing as an expression) are NOT
repeated here.
"""
import os
import sys

# let PYTHONPATH decide which mo_sql_parsing is imported, not this file's directory
# (only the entry python adds for the script itself, sys.path[0], is removed; an equal entry that
# comes from PYTHONPATH stays)
_here = os.path.dirname(os.path.abspath(__file__))
if sys.path and os.path.abspath(sys.path[0] or os.getcwd()) == _here:
    del sys.path[0]

from mo_sql_parsing import parse, parse_mysql, parse_bigquery, parse_sqlserver, format  # noqa: E402


def attempt(fn, *args, **kwargs):
    """run fn; return its value, or a short 'EXC <type>: <msg>' string"""
    try:
        return fn(*args, **kwargs)
    except Exception as cause:  # noqa
        msg = str(cause).replace("\n", " ").replace("\t", " ")
        return f"EXC {type(cause).__name__}: {msg[:110]}"


def is_exc(value):
    return isinstance(value, str) and value.startswith("EXC ")


def select_value(result):
    if is_exc(result):
        return result
    try:
        return result["select"]["value"]
    except Exception:  # noqa
        return result


def same_number(a, b):
    return type(a) is type(b) and a == b


CASES = []


def case(group, title):
    def decorator(func):
        CASES.append((group, title, func))
        return func

    return decorator


# --------------------------------------------------------------------------------------
# A. literal decoding applies Python *source text* rules that have nothing to do with
#    backslashes: CR / CRLF are normalised to LF, NUL (and lone surrogates) crash
#    utils.single_literal / utils.double_literal  (ast.literal_eval of '"""' + body + '"""')
# --------------------------------------------------------------------------------------
@case("A", "CRLF inside a single-quoted literal becomes LF (all four dialect entry points)")
def _():
    sql = "SELECT 'line1\r\nline2'"
    out = []
    bad = False
    for fn in (parse, parse_mysql, parse_bigquery, parse_sqlserver):
        got = select_value(attempt(fn, sql))
        out.append(f"{fn.__name__}: {got!r}")
        bad |= got != {"literal": "line1\r\nline2"}
    return sql, "; ".join(out), "{'literal': 'line1\\r\\nline2'}", bad


@case("A", "lone CR inside a literal becomes LF, in a WHERE comparison / IN list / function argument / VALUES row")
def _():
    sqls = [
        ("SELECT a FROM t WHERE x = 'a\rb'", lambda r: r["where"]["eq"][1]),
        ("SELECT a FROM t WHERE x IN ('a\rb', 'c')", lambda r: {"literal": r["where"]["in"][1]["literal"][0]}),
        ("SELECT f('a\rb')", lambda r: r["select"]["value"]["f"]),
        ("INSERT INTO t VALUES ('a\rb')", lambda r: r["query"]["select"]["value"]),
    ]
    out, bad = [], False
    for sql, get in sqls:
        r = attempt(parse, sql)
        got = r if is_exc(r) else get(r)
        out.append(repr(got))
        bad |= got != {"literal": "a\rb"}
    return [s for s, _ in sqls], "; ".join(out), "{'literal': 'a\\rb'} in every context", bad


@case("A", "CR inside a double-quoted literal (MySQL, BigQuery) becomes LF")
def _():
    sql = 'SELECT "a\rb"'
    got_m = select_value(attempt(parse_mysql, sql))
    got_b = select_value(attempt(parse_bigquery, sql))
    bad = got_m != {"literal": "a\rb"} or got_b != {"literal": "a\rb"}
    return sql, f"parse_mysql: {got_m!r}; parse_bigquery: {got_b!r}", "{'literal': 'a\\rb'}", bad


@case("A", "format({'literal': 'a\\r\\nb'}) does not parse back to the same string")
def _():
    tree = {"select": {"value": {"literal": "a\r\nb"}}}
    sql = attempt(format, tree)
    back = select_value(attempt(parse, sql)) if not is_exc(sql) else sql
    return tree, f"format -> {sql!r}; parse(format) -> {back!r}", "{'literal': 'a\\r\\nb'}", back != tree["select"]["value"]


@case("A", "a NUL character inside a literal crashes the parse action (not a ParseException, not a value)")
def _():
    sql = "SELECT 'a\x00b'"
    got = select_value(attempt(parse, sql))
    got_m = select_value(attempt(parse_mysql, 'SELECT "a\x00b"'))
    bad = got != {"literal": "a\x00b"} or got_m != {"literal": "a\x00b"}
    return sql, f"parse: {got!r}; parse_mysql (double quoted): {got_m!r}", "{'literal': 'a\\x00b'}", bad


# --------------------------------------------------------------------------------------
# B. parse_delimiters() scans the raw text with a MULTILINE regex for "DELIMITER xxx" lines
#    before any tokenising, so such a line *inside a string literal* cuts the statement
#    mo_sql_parsing/__init__.py  delimiter_pattern / parse_delimiters
# --------------------------------------------------------------------------------------
@case("B", "a multi-line string literal with a line that starts with the word 'delimiter'")
def _():
    s = "fields:\ndelimiter is comma\nquote is none"
    sql = "SELECT '" + s + "'"
    out, bad = [], False
    for fn in (parse, parse_mysql, parse_bigquery, parse_sqlserver):
        got = select_value(attempt(fn, sql))
        out.append(f"{fn.__name__}: {got!r}")
        bad |= got != {"literal": s}
    return sql, "; ".join(out), repr({"literal": s}), bad


@case("B", "same, in a WHERE comparison and with 'DELIMITER ;'")
def _():
    s = "x\nDELIMITER ;\ny"
    sql = "SELECT a FROM t WHERE note = '" + s + "'"
    r = attempt(parse, sql)
    got = r if is_exc(r) else r["where"]["eq"][1]
    return sql, repr(got), repr({"literal": s}), got != {"literal": s}


@case("B", "format({'literal': s}) for such an s yields text that does not parse back")
def _():
    s = "a\ndelimiter x\nb"
    tree = {"select": {"value": {"literal": s}}}
    sql = attempt(format, tree)
    back = select_value(attempt(parse, sql)) if not is_exc(sql) else sql
    return tree, f"format -> {sql!r}; parse(format) -> {back!r}", repr({"literal": s}), back != {"literal": s}


# --------------------------------------------------------------------------------------
# C. stacked prefix operators: the higher-precedence prefix operator (+) takes the *operator
#    token* that follows it as its operand and the number is silently dropped
#    sql_parser KNOWN_OPS (POS and NEG on different precedence levels) + mo_parsing.infix.make_tree
# --------------------------------------------------------------------------------------
def _numeric_value(tree):
    """evaluate number / {'neg': x} / {'pos': x}; None when it is not such a tree"""
    if isinstance(tree, bool):
        return None
    if isinstance(tree, (int, float)):
        return tree
    if isinstance(tree, dict) and len(tree) == 1:
        (k, v), = tree.items()
        inner = _numeric_value(v)
        if inner is None:
            return None
        if k == "neg":
            return -inner
        if k == "pos":
            return inner
    return None


@case("C", "SELECT +-1 : the minus directly before the number is not folded, the number vanishes")
def _():
    out, bad = [], False
    for sql, want in [("SELECT +-1", -1), ("SELECT + -1.5", -1.5), ("SELECT a FROM t WHERE x = +-2", -2)]:
        r = attempt(parse, sql)
        if is_exc(r):
            got = r
        elif "where" in r:
            got = r["where"]["eq"][1]
        else:
            got = r["select"]["value"]
        out.append(f"{sql!r} -> {got!r}")
        bad |= _numeric_value(got) != want
    return "SELECT +-1 / SELECT + -1.5 / ... WHERE x = +-2", "; ".join(out), "-1 / -1.5 / -2 (possibly wrapped in {'pos': ...})", bad


@case("C", "same in a function argument and an IN list; compare with -+1 which keeps the number")
def _():
    out, bad = [], False
    r = attempt(parse, "SELECT f(+-3)")
    got = r if is_exc(r) else r["select"]["value"].get("f")
    out.append(f"f(+-3) -> {got!r}")
    bad |= _numeric_value(got) != -3
    r = attempt(parse, "SELECT a FROM t WHERE x IN (+-3, 4)")
    got = r if is_exc(r) else r["where"]["in"][1]
    out.append(f"IN (+-3, 4) -> {got!r}")
    first = got[0] if isinstance(got, list) else (got.get("literal") or [None])[0] if isinstance(got, dict) else None
    bad |= _numeric_value(first) != -3
    r = select_value(attempt(parse, "SELECT -+3"))
    out.append(f"(for comparison) SELECT -+3 -> {r!r}")
    return "SELECT f(+-3) ; ... x IN (+-3, 4)", "; ".join(out), "-3 must be present in the tree", bad


# --------------------------------------------------------------------------------------
# D. character-set introducer: format() upper-cases it, the token regex is case sensitive,
#    so the formatted literal parses back as  <column _UTF8> AS <alias 'a'>
#    formatting._literal (encoding.upper())  vs  utils.ansi_string prefix alternatives
# --------------------------------------------------------------------------------------
@case("D", "SELECT _utf8'a' -> format -> parse : the string literal turns into an alias")
def _():
    sql = "SELECT _utf8'a'"
    first = attempt(parse, sql)
    text = attempt(format, first) if not is_exc(first) else first
    back = attempt(parse, text) if not is_exc(text) else text
    bad = back != first
    return sql, f"parse -> {first!r}; format -> {text!r}; parse again -> {back!r}", "the same tree, literal 'a'", bad


@case("D", "SELECT _UTF8'a' / _Latin1'a' written directly (MySQL introducers are case-insensitive)")
def _():
    out, bad = [], False
    for sql in ("SELECT _UTF8'a'", "SELECT _Latin1'a'"):
        got = select_value(attempt(parse_mysql, sql))
        out.append(f"{sql!r} -> {attempt(parse_mysql, sql)!r}")
        bad |= not (isinstance(got, dict) and got.get("literal") == "a")
    return "SELECT _UTF8'a'", "; ".join(out), "{'literal': 'a', 'encoding': '_utf8'}", bad


# --------------------------------------------------------------------------------------
# E. format() of a float whose repr has a *positive* exponent and no dot (1e+16, 1e+22 ...)
#    parses back silently as an int (int_num accepts an exponent and always returns int)
#    formatting.dispatch -> text(json)  /  utils.int_num + parse_int
# --------------------------------------------------------------------------------------
@case("E", "format(1e16) -> 'SELECT 1e+16' -> parse gives int 10000000000000000, not float")
def _():
    out, bad = [], False
    for v in (1e16, 1e22, -1e20):
        text = attempt(format, {"select": {"value": v}})
        back = select_value(attempt(parse, text)) if not is_exc(text) else text
        out.append(f"{v!r} -> {text!r} -> {back!r} ({type(back).__name__})")
        bad |= not same_number(back, v)
    return "{'select': {'value': 1e16}} (also 1e22, -1e20)", "; ".join(out), "identical value AND type (float)", bad


@case("E", "same through a WHERE comparison, an IN list and a VALUES row")
def _():
    v = 1e16
    trees = [
        ({"select": {"value": "a"}, "from": "t", "where": {"eq": ["x", v]}}, lambda r: r["where"]["eq"][1]),
        ({"select": {"value": "a"}, "from": "t", "where": {"in": ["x", [v, 2.5]]}}, lambda r: r["where"]["in"][1][0]),
        ({"insert": "t", "values": [[1, v], [2, v]]}, lambda r: r["values"][0][1]),
    ]
    out, bad = [], False
    for tree, get in trees:
        text = attempt(format, tree)
        r = attempt(parse, text) if not is_exc(text) else text
        got = r if is_exc(r) else attempt(get, r)
        out.append(f"{text!r} -> {got!r} ({type(got).__name__})")
        bad |= not same_number(got, v)
    return "1e16 in WHERE / IN / VALUES", "; ".join(out), "float 1e+16", bad


# --------------------------------------------------------------------------------------
# F. MySQL entry point: '--' is a comment only when followed by whitespace, so 5--1 is 5-(-1);
#    parse_mysql uses the common comment rule and drops the rest of the line
#    sql_parser.parser: white.add_ignore(Literal("--") + rest_of_line) for every dialect
# --------------------------------------------------------------------------------------
@case("F", "parse_mysql('SELECT 5--1') : the minus directly before 1 is not folded, '-1' is eaten as a comment")
def _():
    sql = "SELECT 5--1"
    got = select_value(attempt(parse_mysql, sql))
    spaced = select_value(attempt(parse_mysql, "SELECT 5- -1"))
    bad = got != {"sub": [5, -1]}
    return sql, f"{got!r}   (with a space, 'SELECT 5- -1' -> {spaced!r})", "{'sub': [5, -1]} in the MySQL dialect", bad


# --------------------------------------------------------------------------------------
# G. formatter: numbers / bools wrapped as {"literal": v} crash with AttributeError; the
#    formatter itself creates that wrapping for its {op: {variable: value}} shorthand
#    formatting.Operator.func ({VARIABLE: VALUE} FORM)  +  formatting._literal dict branch
# --------------------------------------------------------------------------------------
@case("G", "format of a WHERE comparison given in the {op: {variable: value}} form, value an int/float/bool")
def _():
    out, bad = [], False
    for v in (5, 0, 1.5, True):
        tree = {"select": {"value": "a"}, "from": "t", "where": {"eq": {"x": v}}}
        text = attempt(format, tree)
        r = attempt(parse, text) if not is_exc(text) else text
        got = r if is_exc(r) else r["where"]["eq"][1]
        out.append(f"{v!r} -> {text if is_exc(text) else repr(text)} -> {got!r}")
        bad |= not same_number(got, v)
    s_text = attempt(format, {"select": {"value": "a"}, "from": "t", "where": {"eq": {"x": "abc"}}})
    out.append(f"(a string value works: {s_text!r})")
    return "{'where': {'eq': {'x': 5}}}", "; ".join(out), "text that parses back to the same number / bool", bad


@case("G", "format({'literal': 5}) crashes although format({'literal': [5, 'a']}) works")
def _():
    one = attempt(format, {"select": {"value": {"literal": 5}}})
    many = attempt(format, {"select": {"value": {"literal": [5, "a"]}}})
    return "{'select': {'value': {'literal': 5}}}", f"{one}   (list form: {many!r})", "'SELECT 5'", is_exc(one)


# --------------------------------------------------------------------------------------
# H. formatter special cases that interpolate operands with an f-string instead of dispatching
#    them: a string literal argument is printed as a Python dict repr
#    formatting._substring (FROM/FOR form), formatting._collate
# --------------------------------------------------------------------------------------
@case("H", "string literal as the argument of SUBSTRING(... FROM ... FOR ...) does not survive format")
def _():
    sql = "SELECT SUBSTRING('it''s' FROM 1 FOR 2)"
    first = attempt(parse, sql)
    text = attempt(format, first) if not is_exc(first) else first
    back = attempt(parse, text) if not is_exc(text) else text
    return sql, f"parse -> {first!r}; format -> {text!r}; parse again -> {back!r}", "the same tree", back != first


@case("H", "SUBSTRING('abc' FROM 2) (no FOR) and  x COLLATE 'utf8'")
def _():
    out, bad = [], False
    for sql in ("SELECT SUBSTRING('abc' FROM 2)", "SELECT x COLLATE 'utf8'"):
        first = attempt(parse, sql)
        text = attempt(format, first) if not is_exc(first) else first
        back = attempt(parse, text) if not is_exc(text) else text
        out.append(f"{sql!r}: format -> {text!r}; parse again -> {back!r}")
        bad |= back != first
    return "SELECT SUBSTRING('abc' FROM 2) ; SELECT x COLLATE 'utf8'", "; ".join(out), "the same tree", bad


# --------------------------------------------------------------------------------------
# I. multi-row VALUES: get_literal() tests  "literal" in value  on a *string* (substring test),
#    so a column reference whose name contains "literal" crashes the parse action (TypeError)
#    utils.get_literal / utils.to_values
# --------------------------------------------------------------------------------------
@case("I", "VALUES rows holding literals next to a column reference whose name contains 'literal'")
def _():
    sql = "INSERT INTO t (a, b) VALUES (1, 'x'), (2, is_literal)"
    got = attempt(parse, sql)
    ok_shape = not is_exc(got)
    other = attempt(parse, "INSERT INTO t (a, b) VALUES (1, 'x'), (2, is_other)")
    return sql, f"{got!r}   (with is_other instead: {other!r})", "a tree holding 1, {'literal': 'x'}, 2 and is_literal", not ok_shape


# --------------------------------------------------------------------------------------
# J. (adjacent to the property: numeric literal inside INTERVAL) zero is treated as "missing"
#    sql_parser interval / utils cast_interval_call, to_interval_call falsy tests
# --------------------------------------------------------------------------------------
@case("J", "INTERVAL '0' DAY parses differently from INTERVAL '1' DAY; INTERVAL 0 DAY does not round trip")
def _():
    zero = select_value(attempt(parse, "SELECT INTERVAL '0' DAY"))
    one = select_value(attempt(parse, "SELECT INTERVAL '1' DAY"))
    first = attempt(parse, "SELECT INTERVAL 0 DAY")
    text = attempt(format, first) if not is_exc(first) else first
    back = attempt(parse, text) if not is_exc(text) else text
    bad = zero != {"interval": [0, "day"]} or back != first
    return (
        "SELECT INTERVAL '0' DAY",
        f"'0' -> {zero!r}; '1' -> {one!r}; INTERVAL 0 DAY -> format {text!r} -> {back!r}",
        "{'interval': [0, 'day']} and a stable round trip",
        bad,
    )


def main():
    reproduced = 0
    groups = set()
    for group, title, func in CASES:
        try:
            given, returned, required, bad = func()
        except Exception as cause:  # a case itself must never hide a result
            given, returned, required, bad = "?", f"case raised {type(cause).__name__}: {cause}", "?", True
        print("=" * 100)
        print(f"[{group}] {title}")
        print(f"  input    : {given!r}" if not isinstance(given, str) else f"  input    : {given!r}")
        print(f"  returned : {returned}")
        print(f"  required : {required}")
        print(f"  status   : {'VIOLATION reproduces' if bad else 'ok (does not reproduce)'}")
        if bad:
            reproduced += 1
            groups.add(group)
    print("=" * 100)
    print(f"{reproduced} of {len(CASES)} cases reproduce; distinct root causes hit: {', '.join(sorted(groups)) or 'none'}")
    return 1 if reproduced else 0


if __name__ == "__main__":
    sys.exit(main())
