# encoding: utf-8
"""
hunt_C09.py - existing violations of property C09
("whitespace, comments, keyword case and optional AS never change the tree").

Run with:   PYTHONPATH=/tmp/wt4/C09 /venv/bin/python /tmp/wt4/C09/hunt_C09.py

Every case is a pair (original, variant).  The variant differs from the original
only by a change the property declares insignificant (layout / comment / keyword
case / optional AS).  A case is a reproduced violation when the original is accepted
and parse(variant) is not equal to parse(original) (different tree, or an exception).
Exit status 1 if at least one violation reproduces, 0 otherwise.
"""
import json
import os
import sys

_here = os.path.dirname(os.path.abspath(__file__))
# drop only the entry python added for the script's own directory (sys.path[0]);
# a PYTHONPATH entry that happens to name the same directory is kept
if sys.path and os.path.abspath(sys.path[0] or os.getcwd()) == _here:
    del sys.path[0]

import mo_sql_parsing  # noqa: E402
from mo_sql_parsing import parse, parse_mysql, parse_bigquery  # noqa: E402


def run(f, sql):
    try:
        return True, f(sql)
    except Exception as e:  # noqa
        return False, "%s: %s" % (type(e).__name__, str(e).split("\n")[0][:160])


CASES = [
    # (id, change applied, parser, original, variant)
    # 1 -- keyword case: EXPLAIN option values ON / OFF are matched case-sensitively
    ("01a explain ON/OFF case", "keyword case", parse,
     "explain (analyze on) select 1",
     "EXPLAIN (ANALYZE ON) SELECT 1"),
    ("01b explain ON/OFF case", "keyword case", parse,
     "explain analyze off select 1",
     "explain analyze OFF select 1"),
    # 2 -- optional AS: interval unit names are CaselessLiteral (no word boundary) and eat the head of the alias
    ("02a interval unit prefix eats alias", "optional AS omitted", parse,
     "select now() - interval '1 day' as yesterday",
     "select now() - interval '1 day' yesterday"),
    ("02b interval unit prefix eats alias", "optional AS omitted", parse,
     "select interval '1 hour' as duration from t",
     "select interval '1 hour' duration from t"),
    ("02c interval unit prefix eats whole alias", "optional AS omitted", parse,
     "select interval 1 day as d from t",
     "select interval 1 day d from t"),
    ("02d interval 'ago' literal eats alias", "optional AS omitted", parse,
     "select interval 3 days as agony from t",
     "select interval 3 days agony from t"),
    # 3 -- optional AS: date/time types take an optional quoted 'format' that swallows a quoted alias
    ("03a ::date swallows quoted alias", "optional AS omitted", parse,
     'select a::date as "d" from t',
     'select a::date "d" from t'),
    ("03b ::timestamp swallows quoted alias", "optional AS omitted", parse,
     "select a::timestamp as 'ts' from t",
     "select a::timestamp 'ts' from t"),
    # 4 -- layout: the '#' line comment shadows the operators #> #>> #-, so a line break moves the comment end
    ("04a '#' comment shadows #>", "space -> newline", parse,
     "select a #> b from t",
     "select a #> b\nfrom t"),
    ("04b '#' comment shadows #-", "space -> newline", parse,
     "select a #- b from t where c = 1",
     "select a #- b from t\nwhere c = 1"),
    # 5 -- layout: text-level DELIMITER pre-pass (regex on lines) runs before the grammar
    ("05a delimiter pre-pass, column named delimiter", "space -> newline", parse,
     "select name, delimiter from file_formats",
     "select name,\ndelimiter from file_formats"),
    ("05b delimiter pre-pass, comment line", "space -> block comment", parse,
     "select a from t",
     "select a /* columns\ndelimiter is a comma */ from t"),
    # 6 -- keyword case / AS: there is no RETURNING keyword; the word is read as a column and the real column as its alias
    ("06a RETURNING is not a keyword", "keyword case", parse,
     "insert into t (a) values (1) returning a",
     "insert into t (a) values (1) RETURNING a"),
    ("06b RETURNING is not a keyword", "optional AS omitted", parse,
     "insert into t (a) values (1) returning a as b",
     "insert into t (a) values (1) returning a b"),
    # 7 -- type-name case: a type that is not in the built-in list is kept as the identifier that was typed
    ("07a unknown type name keeps its case", "type-name case", parse,
     "create table t (id serial, amount money)",
     "create table t (id SERIAL, amount MONEY)"),
    # 7' -- keyword case: niladic functions / option keywords are read as plain identifiers
    ("07b CURRENT_TIMESTAMP keeps its case", "keyword case", parse,
     "create table t (a timestamp default current_timestamp)",
     "create table t (a timestamp default CURRENT_TIMESTAMP)"),
    ("07c index method keeps its case", "keyword case", parse,
     "create index i on t using btree (a)",
     "create index i on t using BTREE (a)"),
    # 8 -- layout (BigQuery / MySQL): dashed-identifier regex only treats ' ' as a boundary, not tab / newline / comment
    ("08a dashed identifier, bigquery", "space -> newline", parse_bigquery,
     "select total- discount from t",
     "select total-\ndiscount from t"),
    ("08b dashed identifier, mysql", "space -> tab", parse_mysql,
     "select total- discount from t",
     "select total-\tdiscount from t"),
    # 9 -- layout: whitespace set is ' \t\r\n' only; '--' comments end only at \n
    ("09a form feed is not whitespace", "space -> form feed", parse,
     "select a from t",
     "select\x0ca from t"),
    ("09b CR does not end a -- comment", "newline -> carriage return after comment", parse,
     "select a -- c\n from t",
     "select a -- c\r from t"),
    # 10 -- comment inside a qualified name (ident is built before the comment-aware block; silent tree change)
    ("10 comment around the dot of a qualified name", "space -> block comment", parse,
     "select a . b from t",
     "select a /* c */ . /* c */ b from t"),
    # 11 -- '.*' is one literal: 't .*' is accepted, 't. *' is not
    ("11 whitespace between '.' and '*'", "whitespace inserted between two tokens", parse,
     "select t .* from t",
     "select t . * from t"),
]

REQUIRE = "parse(variant) == parse(original)  (the change is insignificant under C09)"


def main():
    reproduced = 0
    for cid, change, f, original, variant in CASES:
        ok_o, out_o = run(f, original)
        ok_v, out_v = run(f, variant)
        violated = ok_o and (not ok_v or out_v != out_o)
        print("=" * 100)
        print("case      :", cid, "  [%s, %s]" % (f.__name__, change))
        print("original  :", repr(original))
        print("  returned:", json.dumps(out_o, default=str) if ok_o else "EXCEPTION " + out_o)
        print("variant   :", repr(variant))
        print("  returned:", json.dumps(out_v, default=str) if ok_v else "EXCEPTION " + out_v)
        print("required  :", REQUIRE)
        print("verdict   :", "VIOLATION" if violated else ("not reproduced" if ok_o else "original rejected - not applicable"))
        reproduced += 1 if violated else 0
    print("=" * 100)
    print("%d of %d cases reproduce a violation (library: %s)" % (reproduced, len(CASES), os.path.dirname(mo_sql_parsing.__file__)))
    return 1 if reproduced else 0


if __name__ == "__main__":
    sys.exit(main())
