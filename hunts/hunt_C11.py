# Hunt script for property C11:
#   parse(sql, null=X, ...) == parse(sql, ...) with every {"null": {}} node replaced by X
#
# Run:  PYTHONPATH=/tmp/wt5/C11 /venv/bin/python /tmp/wt5/C11/hunt_C11.py
# Exit status 1 if at least one violation reproduces, 0 otherwise.
#
# Only one (weak) root cause was found: with the default calls=simple_op a zero-argument call of a
# function whose (quoted / renamed) name is "null" is rendered as {"null": {}}, which is byte-for-byte the
# rendering of the NULL keyword.  Such a node is not a recorded NULL slot, so null=X leaves it alone,
# and the literal equation of the property fails.  Everything else that was tried satisfied the property.
import copy
import sys

from mo_sql_parsing import parse, parse_mysql, parse_sqlserver, parse_bigquery, normal_op

NULL_NODE = {"null": {}}


def substitute(tree, x):
    """the oracle of the property: every {"null": {}} node becomes x, nothing else changes"""
    if isinstance(tree, dict):
        if tree == NULL_NODE:
            return copy.deepcopy(x)
        return {k: substitute(v, x) for k, v in tree.items()}
    if isinstance(tree, list):
        return [substitute(v, x) for v in tree]
    return tree


XS = [None, 0, "", "NULL", [], {"a": {"b": [1]}}]

CASES = [
    # (label, function, sql, extra options)
    ("quoted function named null, generic dialect", parse, 'SELECT "null"()', {}),
    ("upper-case quoted name is lower-cased to null", parse, 'SELECT "NULL"()', {}),
    ("next to a real NULL: one is replaced, the other is not", parse, 'SELECT "null"(), NULL', {}),
    ("backtick name, MySQL dialect", parse_mysql, "SELECT `null`()", {}),
    ("bracket name, SQL Server dialect", parse_sqlserver, "SELECT [null]()", {}),
    ("backtick name, BigQuery dialect", parse_bigquery, "SELECT `null`()", {}),
    ("all_columns='*'", parse, 'SELECT "null"() FROM t', {"all_columns": "*"}),
    ("function renamed to null by fmap", parse, "SELECT f()", {"fmap": {"f": "null"}}),
]

# controls that must satisfy the property (they do today); a failure here would also be reported
CONTROLS = [
    ("control: calls=normal_op keeps the call distinct", parse, 'SELECT "null"(), NULL', {"calls": normal_op}),
    ("control: sole NULL argument with normal_op", parse, "SELECT f(NULL)", {"calls": normal_op}),
    ("control: NULL everywhere", parse, "INSERT INTO t (a, b) VALUES (NULL, f(x => NULL))", {}),
]


def run(label, fn, sql, opts):
    found = 0
    base = fn(sql, **opts)
    for x in XS:
        got = fn(sql, null=copy.deepcopy(x), **opts)
        want = substitute(base, x)
        if got != want:
            if not found:
                print("VIOLATION:", label)
                print("   input              :", fn.__name__, repr(sql), {k: getattr(v, "__name__", v) for k, v in opts.items()})
                print("   parse(sql)         :", base)
            if not found:
                print("   null=%r" % (x,))
                print("      library returned   :", got)
                print("      property requires  :", want)
            found += 1
    if found:
        print("   (differs for %d of the %d values of X tried)" % (found, len(XS)))
    return found


def main():
    violations = 0
    for case in CASES:
        if run(*case):
            violations += 1
    print()
    for case in CONTROLS:
        if run(*case):
            violations += 1
        else:
            print("ok (no violation):", case[0], "-", repr(case[2]))
    print()
    print("cases violating C11:", violations)
    return 1 if violations else 0


if __name__ == "__main__":
    sys.exit(main())
