# encoding: utf-8
"""
hunt_C05.py - inputs on which the UNCHANGED library violates property C05 today
("an accepted statement loses no identifier, number or string").

Every case is an accepted statement; the listed atoms are written in the SQL
outside comments and must be reachable in the tree returned by parse().

Run:  PYTHONPATH=<library checkout> python hunt_C05.py
Exit status 1 if at least one violation reproduces, 0 otherwise.
"""
import json
import os
import re
import sys

# PYTHONPATH decides which library is imported, not the location of this file
# (python puts the script's directory at sys.path[0]; remove only that entry, a PYTHONPATH entry
# that happens to name the same directory stays)
_here = os.path.dirname(os.path.abspath(__file__))
if sys.path and os.path.abspath(sys.path[0] or ".") == _here:
    del sys.path[0]

import mo_sql_parsing  # noqa: E402
from mo_sql_parsing import parse  # noqa: E402


def leaves(tree, acc):
    """every key, string and number reachable in the tree (lower-cased text)"""
    if isinstance(tree, dict):
        for k, v in tree.items():
            acc.append(str(k).lower())
            leaves(v, acc)
    elif isinstance(tree, (list, tuple)):
        for v in tree:
            leaves(v, acc)
    elif isinstance(tree, bool) or tree is None:
        pass
    elif isinstance(tree, (int, float)):
        acc.append(repr(tree))
        acc.append(repr(-tree))  # PRECEDING offsets are negated: accept either sign
        if float(tree) == int(tree):
            acc.append(str(int(tree)))
            acc.append(str(-int(tree)))
    else:
        acc.append(str(tree).lower())
    return acc


def found(atom, tree):
    """
    atom is an identifier, a number (as text) or the exact text of a string literal.
    identifiers may be part of a joined dotted path, so substring match on leaves.
    numbers must be a whole leaf.
    """
    lv = leaves(tree, [])
    if re.fullmatch(r"\d+(\.\d+)?", atom):
        return atom in lv or repr(float(atom)) in lv
    a = atom.lower()
    return any(a in leaf for leaf in lv)


# (root cause id, parse function, sql, atoms that must be in the tree, what the property requires)
CASES = [
    # R1 - postfix operators are reduced by precedence level, not left to right; when the
    #      reduction gets stuck infix make_tree returns the first operand and drops the rest
    ("R1 postfix-operator order", parse,
     "select xa1[5].xb2[7] from xt9", ["xa1", "5", "xb2", "7"],
     "get(get(get(xa1,5),'xb2'),7), or a rejection"),
    ("R1 postfix-operator order", parse,
     "select xf1(xa2).xb3[5] from xt9", ["xf1", "xa2", "xb3", "5"],
     "field xb3 and index 5 kept, or a rejection"),
    ("R1 postfix-operator order", parse,
     "select xf1(xa5)::int over (partition by xp4) from xt3", ["xa5", "xp4"],
     "the OVER clause (xp4) kept, or a rejection"),
    ("R1 postfix-operator order", parse,
     "select xf1(xa5) over (partition by xp4).xb6 from xt3", ["xa5", "xp4", "xb6"],
     "xp4 and xb6 kept, or a rejection"),
    ("R1 postfix-operator order", parse,
     "select xa1::varchar(56)[51] from xt9", ["xa1", "56", "51"],
     "56 and 51 kept, or a rejection"),
    # R2 - BETWEEN whose AND part is missing / not reducible: accepted, everything after the first operand dropped
    ("R2 BETWEEN without a usable AND", parse,
     "select xa1 from xt9 where xa2 between 5 or xa3 = 7", ["xa2", "5", "xa3", "7"],
     "a rejection (BETWEEN needs AND), not where:'xa2'"),
    ("R2 BETWEEN without a usable AND", parse,
     "select xa1 between xb2 from xt9", ["xa1", "xb2"],
     "a rejection, not value:'xa1'"),
    ("R2 BETWEEN without a usable AND", parse,
     "select xa1 between xb2 regexp xc3 and xd4 from xt9", ["xa1", "xb2", "xc3", "xd4"],
     "all four operands kept, or a rejection"),
    # R3 - STRUCT(x) with one bare column: to_struct/_simpler_struct_value index a str -> first character
    ("R3 STRUCT(single column)", parse,
     "select struct(xab1) from xt4", ["xab1"],
     "create_struct: 'xab1' (library returns 'x')"),
    ("R3 STRUCT(single column)", parse,
     "select struct<int>(xa1.xb2) from xt4", ["xa1", "xb2"],
     "create_struct: 'xa1.xb2' (library returns 'x')"),
    # R4 - to_insert_call / to_replace_call literal-rows shortcut: dict(zip(columns,row)) and all other keys of the query dropped
    ("R4 INSERT multi-row VALUES shortcut", parse,
     "insert into xt1 (xa2, xb3, xc6) values (5, 6), (7, 8)", ["xa2", "xb3", "xc6", "5", "6", "7", "8"],
     "column xc6 kept, or a rejection (3 columns, 2 values)"),
    ("R4 INSERT multi-row VALUES shortcut", parse,
     "insert into xt1 (xa2) values (5, 'xs4'), (7, 'xs5')", ["xa2", "5", "xs4", "7", "xs5"],
     "column name xa2 kept (library returns keys 'x' and 'a'), or a rejection"),
    ("R4 INSERT multi-row VALUES shortcut", parse,
     "replace into xt1 (xa2, xb3) values (5, 6, 61), (7, 8, 81)", ["xa2", "xb3", "5", "6", "61", "7", "8", "81"],
     "61 and 81 kept, or a rejection"),
    ("R4 INSERT multi-row VALUES shortcut", parse,
     "insert into xt1 with xw5 as (select xa6 from xt7) values (5, 6), (7, 8)", ["xw5", "xa6", "xt7", "5", "6", "7", "8"],
     "the WITH clause kept, or a rejection"),
    # R5 - to_query: the outer WITH overwrites the WITH that a parenthesised query already carries
    ("R5 outer WITH overwrites inner WITH", parse,
     "with xw1 as (select xa2 from xt3) (with xw5 as (select xa6 from xt7) select xa4 from xw1)",
     ["xw1", "xa2", "xt3", "xw5", "xa6", "xt7", "xa4"],
     "both CTEs kept (xw5/xa6/xt7 are dropped)"),
    ("R5 outer WITH overwrites inner WITH", parse,
     "create view xv0 as with xw1 as (select xa2 from xt3) (with xw5 as (select xa6 from xt7) select xa4 from xw1)",
     ["xw1", "xw5", "xa6", "xt7"],
     "both CTEs kept"),
    # R6 - FETCH cursor INTO vars: the variable list has no result name, scrub() keeps only named tokens
    ("R6 FETCH ... INTO targets unnamed", parse,
     "fetch xc1 into xv2, xv3", ["xc1", "xv2", "xv3"],
     "the INTO variables kept (library returns {'fetch': 'xc1'})"),
    ("R6 FETCH ... INTO targets unnamed", parse,
     "create procedure xp0() begin declare xc1 cursor for select xa5 from xt6; open xc1; fetch xc1 into xv2; close xc1; end",
     ["xc1", "xa5", "xt6", "xv2"],
     "xv2 kept (same shape as the vendored test_mysql 'demo' procedure: FETCH cur1 INTO a, b)"),
    # R7 - index_options: {name: True} dicts without a result name next to named tokens -> dropped by scrub()
    ("R7 index options unnamed", parse,
     "create index xi1 on xt2 (xa3) xo5 xo6", ["xi1", "xt2", "xa3", "xo5", "xo6"],
     "options xo5, xo6 kept, or a rejection"),
    ("R7 index options unnamed", parse,
     "create table xt1 (xa2 int, primary key (xa2) xo5, index xi3 (xa2) comment 'xs5' xo6)", ["xo5", "xo6", "xs5", "xi3"],
     "options xo5, xo6 kept, or a rejection"),
    # R7b - same mechanism in the OVER clause: Optional(var_name) at the end has no result name
    ("R7b window name inside OVER(...) unnamed", parse,
     "select xf1() over (partition by xp1 xw2) from xt3", ["xp1", "xw2"],
     "xw2 kept, or a rejection"),
    # R8 - single_literal (and the double-quote / backtick variants) run the text through ast.literal_eval:
    #      backslash sequences are interpreted as Python escapes, the written characters disappear
    ("R8 backslash in string literal evaluated as Python escape", parse,
     "select 'C:\\temp\\new' from xt1", ["C:\\temp\\new"],
     "literal 'C:\\temp\\new' unchanged (library returns C:<TAB>emp<NEWLINE>ew)"),
    ("R8 backslash in string literal evaluated as Python escape", parse,
     "select xa1 from xt1 where xb2 like 'xs1\\x41%'", ["xs1\\x41%"],
     "literal 'xs1\\x41%' unchanged (library returns 'xs1A%')"),
    # R9 - '#' starts a comment for the lexer, so the declared operators #> #>> #- are unreachable and the rest of the line vanishes
    ("R9 '#>' json operators lexed as comment", parse,
     "select xa1 #> 'xs2' from xt4 where xa5 = 7", ["xa1", "xs2", "xt4", "xa5", "7"],
     "json_path(xa1,'xs2') FROM xt4 WHERE ... (operator is in KNOWN_OPS), or a rejection"),
    ("R9 '#>' json operators lexed as comment", parse,
     "select xa1 #>> 'xs2' as xn3 from xt4", ["xa1", "xs2", "xn3", "xt4"],
     "json_path_text(xa1,'xs2'), or a rejection"),
    # R10 - windows._to_between_call guesses the direction from zeros: start offset of 'N FOLLOWING' lost
    ("R10 frame 'N FOLLOWING AND <preceding|current row>'", parse,
     "select xf1() over (order by xo3 rows between 51 following and 72 preceding) from xt4", ["xo3", "51", "72"],
     "51 kept (library returns min: 0, max: -72), or a rejection"),
    ("R10 frame 'N FOLLOWING AND <preceding|current row>'", parse,
     "select xf1() over (order by xo3 range between 51 following and current row) from xt4", ["xo3", "51"],
     "51 kept (library returns min: 0, max: 0), or a rejection"),
    # R11 - to_flat_column_type returns a dict when the type has CHARACTER SET; in ARRAY<type>[...] the type is then lost,
    #       in a column definition it overwrites an explicit CHARACTER SET option
    ("R11 to_flat_column_type and CHARACTER SET", parse,
     "select array<varchar(5) character set xc3>[xa1] from xt4", ["xa1", "5", "xc3"],
     "cast(create_array(xa1) as array<varchar(5) character set xc3>)"),
    ("R11 to_flat_column_type and CHARACTER SET", parse,
     "create table xt1 (xa2 varchar(5) character set xc3 not null character set xc4)", ["xa2", "5", "xc3", "xc4"],
     "xc4 kept, or a rejection"),
    # R12 - to_json_call: kwargs.update() lets a repeated name overwrite the earlier value
    ("R12 repeated named parameter overwritten", parse,
     "select xf1(xk1 => xa2, xk1 => xa4) from xt3", ["xa2", "xa4"],
     "both values kept, or a rejection"),
    ("R12 repeated named parameter overwritten", parse,
     "explain (into xt3, into xt4) select xa1 from xt2", ["xt3", "xt4"],
     "both kept, or a rejection"),
    # R13 - CASE <value> with no WHEN arm: to_switch_call never uses the value
    ("R13 CASE value without WHEN", parse,
     "select case xa1 else xb2 end from xt4", ["xa1", "xb2"],
     "a rejection (CASE needs a WHEN), not case: 'xb2'"),
]

# Behaviours of the SAME family as the ones the property text already names (prefix operator listed
# below a binary one); listed separately and not counted as new root causes.
KNOWN_FAMILY = [
    ("K1 prefix operator below binary (NEG under ||, ->, COLLATE; NOT under =, LIKE, IN, BETWEEN)", parse,
     "select xa1 || -xb2 from xt4", ["xa1", "xb2"], "concat(xa1, neg(xb2))"),
    ("K1 prefix operator below binary (NEG under ||, ->, COLLATE; NOT under =, LIKE, IN, BETWEEN)", parse,
     "select xa1 from xt4 where xa2 = not xb3", ["xa2", "xb3"], "eq(xa2, not(xb3))"),
    ("K1 prefix operator below binary (NEG under ||, ->, COLLATE; NOT under =, LIKE, IN, BETWEEN)", parse,
     "select xa1 between xb2 and not xc3 from xt4", ["xa1", "xb2", "xc3"], "between(xa1, xb2, not(xc3))"),
    ("K2 FILTER followed by another postfix (same mechanism as R1)", parse,
     "select 5 + xf1(xa5) filter (where xc6) over (partition by xp4) from xt3", ["xa5", "xc6", "xp4"],
     "both modifiers kept"),
]


def run(cases, count):
    reproduced = 0
    for cause, fn, sql, atoms, requires in cases:
        print("-" * 100)
        print("cause    :", cause)
        print("input    :", sql)
        try:
            tree = fn(sql)
        except Exception as e:  # rejected: that is allowed by the property
            print("returned : REJECTED (%s) -> no violation" % str(e).split("\n")[0][:80])
            continue
        print("returned :", json.dumps(tree, default=str))
        missing = [a for a in atoms if not found(a, tree)]
        print("requires :", requires)
        if missing:
            print("VIOLATION: written in the statement but not in the tree:", missing)
            if count:
                reproduced += 1
        else:
            print("no violation (all atoms found)")
    return reproduced


def main():
    print("library under test:", os.path.dirname(mo_sql_parsing.__file__))
    n = run(CASES, True)
    print("=" * 100)
    print("same family as the behaviours already named by the property (not counted):")
    run(KNOWN_FAMILY, False)
    print("=" * 100)
    print("%d of %d inputs violate C05" % (n, len(CASES)))
    return 1 if n else 0


if __name__ == "__main__":
    sys.exit(main())
