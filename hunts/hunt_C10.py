# Hunt for violations of property C10 in the unchanged library:
#   "An expression parses the same in every position; redundant parentheses are inert"
#
# Run with:  PYTHONPATH=/tmp/wt4/C10 /venv/bin/python hunt_C10.py
# Exit status 1 if at least one violation reproduces, 0 otherwise.
import json
import os
import sys

_here = os.path.dirname(os.path.abspath(__file__))
# sys.path[0] is the directory of this script (put there by the interpreter): remove that one
# entry only, so that PYTHONPATH (which may name the same directory) decides what is imported
if sys.path and os.path.abspath(sys.path[0] or os.getcwd()) == _here:
    del sys.path[0]

from mo_sql_parsing import parse  # noqa: E402


def P(sql):
    try:
        return parse(sql)
    except Exception as cause:  # report, never die
        return "EXCEPTION %s: %s" % (type(cause).__name__, str(cause).splitlines()[0][:140])


def at(tree, path):
    if isinstance(tree, str) and tree.startswith("EXCEPTION"):
        return tree
    try:
        for p in path:
            tree = tree[p]
        return tree
    except Exception as cause:
        return "NO SUCH PATH %r in %s" % (path, json.dumps(tree, default=str))


def show(x):
    return json.dumps(x, default=str, sort_keys=True)


# Each case: (root cause tag, description, sql_A, path_A, sql_B, path_B, requirement)
# The property requires  subtree(sql_A, path_A) == subtree(sql_B, path_B).
# B is the "reference" spelling (the one that gives the sensible tree).
CASES = [
    # ------------------------------------------------------------------ 1
    (
        "R1 to_select_call hoists window/filter out of the select item",
        "same expression text as a select item and in ORDER BY",
        "SELECT sum(a) OVER (PARTITION BY b) FROM t",
        ["select", "value"],
        "SELECT x FROM t ORDER BY sum(a) OVER (PARTITION BY b)",
        ["orderby", "value"],
        "the subtree of the expression is the same in both positions",
    ),
    (
        "R1 to_select_call hoists window/filter out of the select item",
        "redundant parentheses around a complete select expression",
        "SELECT sum(a) OVER (PARTITION BY b) AS k FROM t",
        ["select"],
        "SELECT (sum(a) OVER (PARTITION BY b)) AS k FROM t",
        ["select"],
        "wrapping the whole select expression in ( ) leaves the tree unchanged",
    ),
    (
        "R1 to_select_call hoists window/filter out of the select item",
        "FILTER clause: select item vs function argument",
        "SELECT count(*) FILTER (WHERE a > 0) FROM t",
        ["select", "value"],
        "SELECT f(count(*) FILTER (WHERE a > 0)) FROM t",
        ["select", "value", "f"],
        "the subtree of the expression is the same in both positions",
    ),
    # ------------------------------------------------------------------ 2
    (
        "R2 to_struct/_simpler_struct_value loses the field name of a non-atomic expression",
        "STRUCT(<expr> AS k): redundant parentheses around the operand",
        "SELECT STRUCT(a + b AS k)",
        ["select", "value", "create_struct"],
        "SELECT STRUCT((a + b) AS k)",
        ["select", "value", "create_struct"],
        "same tree ({name: k, value: {add: [a, b]}}) with or without the parentheses",
    ),
    (
        "R2 to_struct/_simpler_struct_value loses the field name of a non-atomic expression",
        "STRUCT(<expr> AS k, ...): the name k is dropped altogether",
        "SELECT STRUCT(a + b AS k, c AS j)",
        ["select", "value", "create_struct", 0],
        "SELECT STRUCT((a + b) AS k, c AS j)",
        ["select", "value", "create_struct", 0],
        "first field is {name: k, value: {add: [a, b]}} in both spellings",
    ),
    (
        "R2 to_struct/_simpler_struct_value loses the field name of a non-atomic expression",
        "and the other way round for a call: the parenthesised form loses the name",
        "SELECT STRUCT((f(a)) AS k)",
        ["select", "value", "create_struct"],
        "SELECT STRUCT(f(a) AS k)",
        ["select", "value", "create_struct"],
        "same tree with or without the parentheses",
    ),
    # ------------------------------------------------------------------ 3
    (
        "R3 _lambda alternative is tried before a parenthesised operand",
        "redundant parentheses around the left operand of ->",
        "SELECT (a) -> 'k' FROM t",
        ["select", "value"],
        "SELECT a -> 'k' FROM t",
        ["select", "value"],
        "{json_get: [a, {literal: k}]} in both spellings (not a lambda)",
    ),
    # ------------------------------------------------------------------ 4
    (
        "R4 prefix operator after a tighter-binding binary operator: operator text becomes the operand, real operand dropped",
        "a || -b   vs   a || (-b)",
        "SELECT a || -b FROM t",
        ["select", "value"],
        "SELECT a || (-b) FROM t",
        ["select", "value"],
        "{concat: [a, {neg: b}]} in both spellings; nothing silently dropped",
    ),
    (
        "R4 prefix operator after a tighter-binding binary operator: operator text becomes the operand, real operand dropped",
        "a + ~b + c   vs   a + (~b) + c",
        "SELECT a + ~b + c FROM t",
        ["select", "value"],
        "SELECT a + (~b) + c FROM t",
        ["select", "value"],
        "{add: [a, {binary_not: b}, c]} in both spellings",
    ),
    (
        "R4 prefix operator after a tighter-binding binary operator: operator text becomes the operand, real operand dropped",
        "a -> -b (json operator followed by unary minus)",
        "SELECT x -> -b FROM t",
        ["select", "value"],
        "SELECT x -> (-b) FROM t",
        ["select", "value"],
        "{json_get: [x, {neg: b}]} in both spellings",
    ),
    # ------------------------------------------------------------------ 5
    (
        "R5 interval unit (time_interval_type) is a CaselessLiteral: it eats the first letter(s) of the next word",
        "ORDER BY <expr> DESC",
        "SELECT a FROM t ORDER BY d + interval 1 day DESC",
        ["orderby", "value"],
        "SELECT d + interval 1 day FROM t",
        ["select", "value"],
        "same subtree {add: [d, {interval: [1, day]}]} in ORDER BY ... DESC as in the select list",
    ),
    (
        "R5 interval unit (time_interval_type) is a CaselessLiteral: it eats the first letter(s) of the next word",
        "select item followed by an implicit alias",
        "SELECT interval 1 day delta FROM t",
        ["select"],
        "SELECT (interval 1 day) delta FROM t",
        ["select"],
        "{name: delta, value: {interval: [1, day]}} in both spellings",
    ),
    (
        "R5 interval unit (time_interval_type) is a CaselessLiteral: it eats the first letter(s) of the next word",
        "CASE branch followed by another WHEN",
        "SELECT CASE WHEN a THEN interval 1 day WHEN b THEN 2 END",
        ["select", "value", "case", 0, "then"],
        "SELECT CASE WHEN a THEN (interval 1 day) WHEN b THEN 2 END",
        ["select", "value", "case", 0, "then"],
        "{interval: [1, day]} in both spellings",
    ),
    # ------------------------------------------------------------------ 6
    (
        "R6 unquoted INTERVAL goes through formatted_duration/iso_datetime whose optional commas swallow the list separator",
        "first item of a select list: second column becomes the alias of the first",
        "SELECT interval 1 day, q FROM t",
        ["select"],
        "SELECT (interval 1 day), q FROM t",
        ["select"],
        "two select items in both spellings",
    ),
    (
        "R6 unquoted INTERVAL goes through formatted_duration/iso_datetime whose optional commas swallow the list separator",
        "first argument of a call",
        "SELECT f(interval 1 day, q) FROM t",
        ["select", "value", "f", 0],
        "SELECT f((interval 1 day), q) FROM t",
        ["select", "value", "f", 0],
        "{interval: [1, day]} as first argument in both spellings",
    ),
    (
        "R6 unquoted INTERVAL goes through formatted_duration/iso_datetime whose optional commas swallow the list separator",
        "PARTITION BY list: the second key is silently dropped",
        "SELECT sum(q) OVER (PARTITION BY interval 1 day, r) FROM t",
        ["select", "over", "partitionby"],
        "SELECT sum(q) OVER (PARTITION BY (interval 1 day), r) FROM t",
        ["select", "over", "partitionby"],
        "two partition keys in both spellings",
    ),
    (
        "R6 unquoted INTERVAL goes through formatted_duration/iso_datetime whose optional commas swallow the list separator",
        "UPDATE SET list (combines with R5: ', y' is read as the unit year)",
        "UPDATE t SET x = interval 1 day, y = 1",
        ["set"],
        "UPDATE t SET x = (interval 1 day), y = 1",
        ["set"],
        "{x: {interval: [1, day]}, y: 1} in both spellings",
    ),
    # ------------------------------------------------------------------ 7
    (
        "R7 INTERVAL '<text>' is folded to a number only when the quote follows INTERVAL directly",
        "redundant parentheses around the literal operand of INTERVAL",
        "SELECT interval ('1') day",
        ["select", "value"],
        "SELECT interval '1' day",
        ["select", "value"],
        "same tree with or without the parentheses (an undocumented fourth literal folding)",
    ),
    # ------------------------------------------------------------------ 8
    (
        "R8 to_values/get_literal does not look through parenthesis layers",
        "INSERT ... VALUES rows: parentheses around one literal change the whole statement shape",
        "INSERT INTO t (x, y) VALUES ((1), 'a'), (2, 'b')",
        [],
        "INSERT INTO t (x, y) VALUES (1, 'a'), (2, 'b')",
        [],
        "same tree with or without the parentheses",
    ),
    # ------------------------------------------------------------------ 9
    (
        "R9 to_union_call flattens a chain of equal set operators only when it is written without parentheses",
        "(A UNION B) UNION C   vs   A UNION B UNION C  (left-assoc: same grouping)",
        "(SELECT 1 UNION SELECT 2) UNION SELECT 3",
        [],
        "SELECT 1 UNION SELECT 2 UNION SELECT 3",
        [],
        "same tree (expressions do this: (a + b) + c == a + b + c)",
    ),
    # ------------------------------------------------------------------ 10
    (
        "R10 accessor chain a:b.c is collected into one flat get, parenthesised prefix gives nested get",
        "(a:b).c   vs   a:b.c  (left-assoc: same grouping)",
        "SELECT (a:b).c FROM t",
        ["select", "value"],
        "SELECT a:b.c FROM t",
        ["select", "value"],
        "same tree with or without the parentheses (a[1][2] and (a[1])[2] do agree)",
    ),
    # ------------------------------------------------------------------ 11
    (
        "R11 (design level) parenthesised query core followed by its own ORDER BY/LIMIT is wrapped as a FROM sub-query",
        "(SELECT ...) ORDER BY 1   vs   SELECT ... ORDER BY 1",
        "(SELECT 1 FROM t) ORDER BY 1 LIMIT 1",
        [],
        "SELECT 1 FROM t ORDER BY 1 LIMIT 1",
        [],
        "same tree; to_union_call deliberately produces {from: <query>, orderby, limit}",
    ),
]

# Behaviour next to the property (excluded domain or other positions); printed, not counted.
EXTRAS = [
    ("all-literal tuple folding is itself paren/falsy dependent (excluded domain of C10)",
     ["SELECT a IN (1, 2)", "SELECT a IN ((1), 2)", "SELECT a IN ('a', 'b')", "SELECT a IN ('', 'b')",
      "SELECT a IN (0, 'b')", "SELECT a IN (N'a', 'b')"]),
    ("infix make_tree leaves unconsumed tokens and drops them silently",
     ["SELECT a = NOT b", "SELECT x BETWEEN a OR b AND c"]),
    ("MERGE ... WHEN MATCHED AND <expr>: to_match_expr raises for every expression",
     ["MERGE INTO t USING u ON q WHEN MATCHED AND a > 1 THEN DELETE"]),
    ("table-level CHECK (<identifier>) is parsed as an index named CHECK",
     ["CREATE TABLE t (x int, CHECK (a))", "CREATE TABLE t (x int, CHECK (a > 0))"]),
    ("SET v = <identifier> lower-cases the identifier",
     ['SET v = "A b"', 'SET v = "A b" || c']),
    ("to_interval_call tests 'if expr' - a zero amount in a quoted interval is mis-built",
     ["SELECT interval '0' day", "SELECT interval '1' day"]),
    ("IS [NOT] DISTINCT FROM NULL folds to the opposite test",
     ["SELECT a IS DISTINCT FROM NULL", "SELECT a IS NOT DISTINCT FROM NULL"]),
]


def main():
    reproduced = 0
    roots = {}
    for tag, what, sql_a, path_a, sql_b, path_b, requirement in CASES:
        ta = at(P(sql_a), path_a)
        tb = at(P(sql_b), path_b)
        bad = ta != tb
        roots.setdefault(tag, []).append(bad)
        print("=" * 100)
        print("ROOT CAUSE :", tag)
        print("CASE       :", what)
        print("INPUT A    :", sql_a, "   path", path_a)
        print("RETURNED A :", show(ta))
        print("INPUT B    :", sql_b, "   path", path_b)
        print("RETURNED B :", show(tb))
        print("REQUIRED   :", requirement)
        print("VERDICT    :", "VIOLATION reproduces" if bad else "ok (no longer reproduces)")
        if bad:
            reproduced += 1

    print("=" * 100)
    print("EXTRAS (not counted: next to the property, or inside its excluded domain)")
    for title, sqls in EXTRAS:
        print("--", title)
        for s in sqls:
            print("     ", s, "\n         ->", show(P(s)))

    print("=" * 100)
    for tag, bads in roots.items():
        print("%-3s %d/%d  %s" % ("BAD" if any(bads) else "ok", sum(bads), len(bads), tag))
    print("violations reproduced: %d of %d cases, %d of %d root causes" % (
        reproduced, len(CASES), sum(1 for b in roots.values() if any(b)), len(roots)))
    return 1 if reproduced else 0


if __name__ == "__main__":
    sys.exit(main())
