#!/usr/bin/env python
"""
hunt_C15.py - reproduces violations of property C15
("a call's result depends only on its arguments, not on what was called before")
on the UNCHANGED mo-sql-parsing checkout.

Run:  PYTHONPATH=/tmp/wt5/C15 /venv/bin/python /tmp/wt5/C15/hunt_C15.py
Exit: 1 if at least one violation reproduces, 0 otherwise.

Every observation is made in a child interpreter (this same file, --child ...),
so "fresh" really is a fresh process; "warm" is the same probe call preceded by
one harmless call in the same process.  The probe is always issued from the same
Python stack depth in both variants.
"""
import json
import os
import subprocess
import sys

HERE = os.path.abspath(__file__)
TIMEOUT = 60  # seconds; a fresh parse (parser construction included) takes ~2 s


# --------------------------------------------------------------------------------------
# child side
# --------------------------------------------------------------------------------------
def deep_sql(n):
    return "select " + "(" * n + "select a from t" + ")" * n


def deep_tree(n):
    t = "a"
    for i in range(n):
        t = {"sub": [t, 1]} if i % 2 else {"mul": [t, 2]}
    return {"select": {"value": t}}


def at_depth(k, f):
    if k == 0:
        return f()
    return at_depth(k - 1, f)


def outcome(f):
    try:
        r = f()
        text = json.dumps(r, default=str)
        return {"kind": "ok", "len": len(text), "head": text[:70]}
    except Exception as e:  # RecursionError is an Exception
        return {"kind": "err", "type": type(e).__name__, "msg": str(e)[:80].replace("\n", " ")}


def child(argv):
    import mo_sql_parsing as m

    mode, history, n = argv[0], argv[1], int(argv[2])

    if mode == "parse_deep":
        # history: one shallow call of the same shape
        def call(sql):
            return outcome(lambda: m.parse(sql))

        if history == "warm":
            call(deep_sql(1))
        print(json.dumps(call(deep_sql(n))))

    elif mode == "format_deep":
        def call(tree):
            return outcome(lambda: m.format(tree))

        if history == "warm":
            call(deep_tree(1))
        print(json.dumps(call(deep_tree(n))))

    elif mode == "callback_format":
        # the `calls` callback renders each call back to SQL text with the library's own format()
        def cb(op, args, kwargs):
            return m.format({op: args})

        if history == "warm":
            m.format({"select": {"value": "a"}})
        print(json.dumps(outcome(lambda: m.parse("select f(a) from t", calls=cb))))

    elif mode == "caller_depth":
        # the same trivial call, issued from n frames down the caller's stack
        def call():
            return outcome(lambda: at_depth(n, lambda: m.parse("select a from t")))

        if history == "warm":
            outcome(lambda: m.parse("select a from t"))
        print(json.dumps(call()))


# --------------------------------------------------------------------------------------
# parent side
# --------------------------------------------------------------------------------------
_cache = {}


def run_child(mode, history, n):
    key = (mode, history, n)
    if key in _cache:
        return _cache[key]
    env = dict(os.environ)
    env["PYTHONPATH"] = os.path.dirname(HERE) + os.pathsep + env.get("PYTHONPATH", "")
    try:
        p = subprocess.run(
            [sys.executable, HERE, "--child", mode, history, str(n)],
            stdout=subprocess.PIPE, stderr=subprocess.DEVNULL, timeout=TIMEOUT, env=env,
        )
        lines = [l for l in p.stdout.decode().splitlines() if l.startswith("{")]
        out = json.loads(lines[-1]) if lines else {"kind": "crash", "rc": p.returncode}
    except subprocess.TimeoutExpired:
        out = {"kind": "hang", "after_s": TIMEOUT}
    _cache[key] = out
    return out


def largest_ok(mode, history, lo, hi):
    """largest n in [lo, hi] whose outcome is ok (ok is downward closed here); lo must be ok"""
    if run_child(mode, history, lo)["kind"] != "ok":
        return None
    if run_child(mode, history, hi)["kind"] == "ok":
        return hi
    while hi - lo > 1:
        mid = (lo + hi) // 2
        if run_child(mode, history, mid)["kind"] == "ok":
            lo = mid
        else:
            hi = mid
    return lo


def show(o):
    if o["kind"] == "ok":
        return "returns a value (%d chars of JSON: %s...)" % (o["len"], o["head"])
    if o["kind"] == "err":
        return "raises %s(%r)" % (o["type"], o["msg"])
    if o["kind"] == "hang":
        return "never returns (killed after %d s)" % o["after_s"]
    return repr(o)


def differs(a, b):
    if a["kind"] != b["kind"]:
        return True
    if a["kind"] == "ok":
        return (a["len"], a["head"]) != (b["len"], b["head"])
    if a["kind"] == "err":
        return a["type"] != b["type"]
    return False


def window(mode, lo, hi):
    f = largest_ok(mode, "fresh", lo, hi)
    w = largest_ok(mode, "warm", lo, hi)
    return f, w


def main():
    found = 0

    # ---- 1 ---------------------------------------------------------------------------
    print("=" * 100)
    print("ROOT CAUSE 1: grammar Forwards are compiled lazily, during the first parse that reaches them")
    f, w = window("parse_deep", 5, 300)
    print("  largest nesting n that parses:  fresh process n=%s   after one shallow call n=%s" % (f, w))
    if f is not None and w is not None and f != w:
        n = max(f, w)
        a, b = run_child("parse_deep", "warm", n), run_child("parse_deep", "fresh", n)
        if differs(a, b):
            found += 1
            print("  VIOLATION")
            print("    input            : parse('select ' + '('*%d + 'select a from t' + ')'*%d)" % (n, n))
            print("    history          : parse('select (select a from t)') called once before")
            print("    returned today   : " + show(a))
            print("    property requires: same as a fresh process, which " + show(b))
    else:
        print("  not reproduced")

    # ---- 2a --------------------------------------------------------------------------
    print("=" * 100)
    print("ROOT CAUSE 2: formatting.is_keyword builds its keyword parser lazily, on the first format() that needs it")
    print("  2a) the lazy build takes the non re-entrant parse_locker: format() used inside a `calls` callback")
    a, b = run_child("callback_format", "warm", 0), run_child("callback_format", "fresh", 0)
    if differs(a, b):
        found += 1
        print("  VIOLATION")
        print("    input            : parse('select f(a) from t', calls=lambda op, args, kwargs: format({op: args}))")
        print("    history          : format({'select': {'value': 'a'}}) called once before")
        print("    returned today   : " + show(a))
        print("    property requires: same as a fresh process, which " + show(b))
    else:
        print("  not reproduced: warm %s / fresh %s" % (show(a), show(b)))

    # ---- 2b --------------------------------------------------------------------------
    print("  2b) the lazy build needs extra stack: deep trees")
    f, w = window("format_deep", 5, 1200)
    print("  largest depth n that formats:  fresh process n=%s   after one format() call n=%s" % (f, w))
    if f is not None and w is not None and f != w:
        n = max(f, w)
        a, b = run_child("format_deep", "warm", n), run_child("format_deep", "fresh", n)
        if differs(a, b):
            found += 1
            print("  VIOLATION")
            print("    input            : format({'select': {'value': T}}), T = 'a' wrapped %d times in {'mul': [T, 2]} / {'sub': [T, 1]}" % n)
            print("    history          : format of the depth-1 tree called once before")
            print("    returned today   : " + show(a))
            print("    property requires: same as a fresh process, which " + show(b))
    else:
        print("  not reproduced")

    # ---- 3 ---------------------------------------------------------------------------
    print("=" * 100)
    print("ROOT CAUSE 3: the parser of a dialect is constructed inside the first call that asks for it")
    f, w = window("caller_depth", 100, 990)
    print("  deepest caller stack from which parse('select a from t') works:  fresh process d=%s   after one call d=%s" % (f, w))
    if f is not None and w is not None and f != w:
        n = max(f, w)
        a, b = run_child("caller_depth", "warm", n), run_child("caller_depth", "fresh", n)
        if differs(a, b):
            found += 1
            print("  VIOLATION")
            print("    input            : parse('select a from t') issued %d frames below the top of the stack" % n)
            print("    history          : parse('select a from t') called once before (from the top of the stack)")
            print("    returned today   : " + show(a))
            print("    property requires: same as a fresh process, which " + show(b))
    else:
        print("  not reproduced")

    print("=" * 100)
    print("%d violation(s) reproduced" % found)
    return 1 if found else 0


if __name__ == "__main__":
    if len(sys.argv) > 1 and sys.argv[1] == "--child":
        child(sys.argv[2:])
        sys.exit(0)
    sys.exit(main())
