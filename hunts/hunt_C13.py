# Reproduces violations of property C13 ("a script parses to the list of its statements' trees")
# on the unchanged mo-sql-parsing checkout.
# Run: PYTHONPATH=/tmp/wt5/C13 /venv/bin/python /tmp/wt5/C13/hunt_C13.py
# Exit code 1 if at least one violation reproduces, 0 otherwise.
import json
import sys

from mo_sql_parsing import parse

reproduced = []


def run(sql):
    try:
        return parse(sql)
    except Exception as e:  # the library raising is also "not the required list"
        return "RAISED: " + str(e).split("\n")[0][:160]


def flatten(entries):
    """what the property requires for a list of entries"""
    if not entries:
        return None
    if len(entries) == 1:
        return entries[0]
    return entries


def show(x):
    return x if isinstance(x, str) else json.dumps(x)


def check(cause, script, required, requirement_text=None):
    """required: either the exact value, or a predicate over the returned value"""
    got = run(script)
    if callable(required):
        ok = (not isinstance(got, str) or not got.startswith("RAISED")) and required(got)
        req = requirement_text
    else:
        ok = got == required
        req = show(required)
    status = "ok (not reproduced)" if ok else "VIOLATION"
    print("[%s] %s" % (cause, status))
    print("    input    : %r" % script)
    print("    returned : %s" % show(got))
    print("    required : %s" % req)
    print()
    if not ok:
        reproduced.append(cause)


S1 = parse("select 1")
S2 = parse("select 2")
D = lambda d: {"delimiter": d}

# ---------------------------------------------------------------------------------------------
# RC1: a compound statement with an empty body (BEGIN END, LOOP END LOOP) scrubs to None; scrub()
#      drops None from the statement list and _parse() skips falsy outputs, so the statement
#      vanishes from the result (and a script consisting of that statement alone returns None).
# ---------------------------------------------------------------------------------------------
check(
    "RC1a empty block alone",
    "begin end",
    lambda r: r is not None,
    "a tree for the BEGIN..END statement (not None: the input does contain a statement)",
)
check(
    "RC1b empty block inside a script",
    "select 1; begin end; select 2",
    lambda r: isinstance(r, list) and len(r) == 3 and r[0] == S1 and r[2] == S2,
    "a list of 3 trees [select 1, <block>, select 2]",
)
check(
    "RC1c empty block + one statement collapses to a single tree",
    "begin end; select 2",
    lambda r: isinstance(r, list) and len(r) == 2 and r[1] == S2,
    "a list of 2 trees [<block>, select 2], not the bare tree of the second statement",
)
check(
    "RC1d empty loop",
    "select 1; loop end loop; select 2",
    lambda r: isinstance(r, list) and len(r) == 3,
    "a list of 3 trees",
)
check(
    "RC1e empty block under a custom delimiter",
    "delimiter $$\nbegin end$$\ndelimiter ;",
    lambda r: isinstance(r, list) and len(r) == 3,
    "a list of 3 entries [{delimiter:$$}, <block>, {delimiter:;}]",
)

# ---------------------------------------------------------------------------------------------
# RC2: the DELIMITER pre-pass (__init__.delimiter_pattern) is a bare multi-line regex; any line that
#      starts with the word "delimiter" is taken as a directive, even in the middle of a statement,
#      inside a string literal or inside a comment.
# ---------------------------------------------------------------------------------------------
one_line = "create table t (delimiter varchar(1), q int)"
check(
    "RC2a column named delimiter at the start of a line",
    "create table t (\n  delimiter varchar(1),\n  q int\n)",
    parse(one_line),
)
check(
    "RC2b same, in a two statement script",
    "select 1;\nselect a from t order by\ndelimiter desc;\nselect 2",
    [S1, parse("select a from t order by delimiter desc"), S2],
)
check(
    "RC2c 'delimiter' line inside a string literal",
    "select 'x\ndelimiter //\n'; select 2",
    [{"select": {"value": {"literal": "x\ndelimiter //\n"}}}, S2],
)
check(
    "RC2d 'delimiter' line inside a block comment",
    "select 1 /*\ndelimiter //\n*/; select 2",
    [S1, S2],
)

# ---------------------------------------------------------------------------------------------
# RC3: a custom delimiter is only recognised when followed by optional blanks and an end of line
#      (ender = r"\s*(\n|$)" in parse_delimiters).  The custom-delimiter analogues of '; ' and ';;'
#      therefore do not separate; the second one silently yields a wrong tree.
# ---------------------------------------------------------------------------------------------
check(
    "RC3a two statements on one line with a custom delimiter",
    "delimiter $$\nselect 1$$ select 2$$\n",
    [D("$$"), S1, S2],
)
check(
    "RC3b doubled custom delimiter (empty statement) - silently wrong tree",
    "delimiter $$\nselect 1$$$$\nselect 2$$\n",
    [D("$$"), S1, S2],
)
check(
    "RC3c leading custom delimiter",
    "delimiter //\n//select 1//\nselect 2//\n",
    [D("//"), S1, S2],
)
check(
    "RC3d comment after a custom delimiter",
    "delimiter $$\nselect 1$$ -- first\nselect 2$$\n",
    [D("$$"), S1, S2],
)

# ---------------------------------------------------------------------------------------------
# RC4: custom delimiters are split textually, without regard to quoting: a delimiter at the end
#      of a line inside a string literal or a comment cuts the statement in two.
# ---------------------------------------------------------------------------------------------
check(
    "RC4a custom delimiter inside a string literal",
    "delimiter $$\nselect '$$\n'$$\nselect 2$$\n",
    [D("$$"), parse("select '$$\n'"), S2],
)
check(
    "RC4b custom delimiter inside a block comment",
    "delimiter $$\nselect 1 /* $$\n */$$\nselect 2$$\n",
    [D("$$"), S1, S2],
)

# ---------------------------------------------------------------------------------------------
# RC5: the pre-pass strips with Python's notion of whitespace (\f, \v, \xa0 ...) while the grammar
#      only skips blank, tab, CR, LF: such whitespace is accepted around a script but not between
#      a separator and the next statement.
# ---------------------------------------------------------------------------------------------
check("RC5-control form feed around a single statement is accepted", "\fselect 1;\f", S1)
check("RC5a form feed after a separator", "select 1;\fselect 2", [S1, S2])
check("RC5b no-break space between two separators", "select 1; \xa0 ;", S1)

# ---------------------------------------------------------------------------------------------
# RC6: everything up to the end of the DELIMITER line is the delimiter, including a comment.
# ---------------------------------------------------------------------------------------------
check(
    "RC6 comment after the DELIMITER directive",
    "delimiter $$ -- procedures follow\nselect 1$$\nselect 2$$\n",
    [D("$$"), S1, S2],
)

reproduced = [r for r in reproduced]
print("reproduced violations: %d" % len(reproduced))
for r in reproduced:
    print("   " + r)
sys.exit(1 if reproduced else 0)
