From MoSql Require Import Proofs.PegProofs. About phi_eqb.
