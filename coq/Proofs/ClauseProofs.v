From Coq Require Import List String Bool Lia.
From MoSql Require Import Base.Json Model.Clause.
Import ListNotations.
Open Scope string_scope.
Open Scope list_scope.

Lemma take_run_len op l : (List.length (snd (take_run op l)) <= List.length l)%nat.
Proof. induction l as [|[op' so] t IH]; simpl; auto. destruct (String.eqb op' op); simpl; [destruct (take_run op t); simpl in *; lia|lia]. Qed.

(* extending a node by a run of the same operator *)
Lemma fold_run op xs : forall t, is_union op = true ->
  fold_union (JDict [(op, JList xs)]) (Some op) t =
  let '(r, rest) := take_run op t in fold_union (JDict [(op, JList (xs ++ r))]) (Some op) rest.
Proof.
  intros t Hu. revert xs. induction t as [|[op' so] t IH]; intros xs.
  - simpl. rewrite app_nil_r. reflexivity.
  - cbn [take_run]. destruct (String.eqb op' op) eqn:E.
    + apply String.eqb_eq in E. subst op'. cbn [fold_union]. rewrite String.eqb_refl, Hu. cbn [andb append_operand]. rewrite String.eqb_refl.
      rewrite IH. destruct (take_run op t) as [r rest]. rewrite <- app_assoc. reflexivity.
    + rewrite app_nil_r. reflexivity.
Qed.

Lemma fold_after_run op x rest : (match rest with (op', _) :: _ => String.eqb op' op | [] => false end) = false ->
  fold_union x (Some op) rest = fold_union x None rest \/ True.
Proof. auto. Qed.

(* after a maximal run, the next operator differs, so the remembered operator no longer matters *)
Lemma take_run_next op l : match snd (take_run op l) with (op', _) :: _ => String.eqb op' op = false | [] => True end.
Proof. induction l as [|[op' so] t IH]; simpl; auto. destruct (String.eqb op' op) eqn:E; simpl; [destruct (take_run op t); simpl in *; exact IH|exact E]. Qed.

Lemma fold_last_irrelevant x op rest : match rest with (op', _) :: _ => String.eqb op' op = false | [] => True end ->
  fold_union x (Some op) rest = fold_union x None rest.
Proof. destruct rest as [|[op' so] t]; [reflexivity|]. intros E. cbn [fold_union]. rewrite E. reflexivity. Qed.

Theorem union_fold_spec : forall n s0 l, (List.length l <= n)%nat -> fold_union s0 None l = group n s0 l.
Proof.
  induction n as [|n IH]; intros s0 l Hl.
  - destruct l; [reflexivity|simpl in Hl; lia].
  - destruct l as [|[op so] t]; [reflexivity|]. cbn [fold_union group andb]. destruct (is_union op) eqn:Hu.
    + rewrite (fold_run op [s0; so] t Hu). pose proof (take_run_next op t) as Hn. pose proof (take_run_len op t) as Hlen.
      destruct (take_run op t) as [r rest]. cbn [snd] in *. cbn [app].
      rewrite fold_last_irrelevant; [|exact Hn]. apply IH. simpl in Hl. lia.
    + destruct t as [|[op2 so2] t2].
      * destruct n; reflexivity.
      * (* the next step: the remembered operator op is not a UNION, so nothing is merged into this node *)
        assert (E : fold_union (JDict [(op, JList [s0; so])]) (Some op) ((op2, so2) :: t2) = fold_union (JDict [(op, JList [s0; so])]) None ((op2, so2) :: t2)).
        { cbn [fold_union]. destruct (String.eqb op2 op) eqn:E2; [|reflexivity]. apply String.eqb_eq in E2. subst op2. rewrite Hu. reflexivity. }
        rewrite E. apply IH. simpl in *. lia.
Qed.

Corollary to_union_is_spec s0 l : to_union s0 l = spec_union s0 l.
Proof. apply union_fold_spec. lia. Qed.

Lemma to_join_nest first rest : to_join_call (nest first rest) = first :: rest.
Proof. revert first. induction rest as [|r rs IH]; intros first; simpl; [reflexivity|]. rewrite IH. reflexivity. Qed.

(* every source written in FROM is in the list, once, in the order written - for runs of any length *)
Theorem from_list_spec t0 runs : from_list t0 runs = t0 :: List.concat (map (fun r => fst r :: snd r) runs).
Proof. unfold from_list. f_equal. f_equal. apply map_ext. intros [a l]. apply to_join_nest. Qed.
