From Coq Require Import List ZArith Bool Lia.
From MoSql Require Import Model.Window.
Import ListNotations.
Open Scope Z_scope.

(* every valid frame form, every positive integer offset: the recorded {min, max} is the specified one *)
Theorem frame_spec f : valid f = true -> mframe f = spec f.
Proof.
  destruct f as [b|lo hi]; unfold valid, mframe; intros H.
  - destruct b; simpl in *; rewrite ?andb_false_r in H; try discriminate; reflexivity.
  - repeat (apply andb_true_iff in H as [H ?]).
    destruct lo as [|a| |a|], hi as [|b| |b|]; try discriminate; unfold to_between, spec; cbn [to_bound fst snd is0 spec_lo spec_hi axis pos_off] in *;
      repeat match goal with
             | Hx : (0 <? _) = true |- _ => apply Z.ltb_lt in Hx
             | Hx : (_ <=? _) = true |- _ => apply Z.leb_le in Hx
             end;
      try reflexivity;
      repeat match goal with
             | |- context [?x =? 0] => let E := fresh "E" in destruct (x =? 0) eqn:E; [apply Z.eqb_eq in E|apply Z.eqb_neq in E]
             end; try reflexivity; try lia; try (f_equal; f_equal; lia).
Qed.

(* the values the parser can record for a valid frame *)
Definition valid_val (r : mm) : bool :=
  match r with
  | (Some mn, Some mx) => mn <=? mx
  | _ => true
  end.

(* format then parse: every recordable frame except the doubly unbounded one is written as a frame that records the same values *)
Theorem frame_format_roundtrip r : valid_val r = true -> r <> (None, None) ->
  exists f, fmt_frame r = Some f /\ mframe f = r.
Proof.
  destruct r as [[mn|] [mx|]]; unfold valid_val, fmt_frame; intros Hv Hn.
  - apply Z.leb_le in Hv. destruct (mn =? 0) eqn:E1; [apply Z.eqb_eq in E1|apply Z.eqb_neq in E1].
    + subst mn. destruct (mx =? 0) eqn:E2; [apply Z.eqb_eq in E2|apply Z.eqb_neq in E2].
      * subst. eexists; split; reflexivity.
      * eexists; split; [reflexivity|]. unfold wordy. destruct (mx <? 0) eqn:E3; [apply Z.ltb_lt in E3; lia|]. reflexivity.
    + destruct (mx =? 0) eqn:E2; [apply Z.eqb_eq in E2|apply Z.eqb_neq in E2].
      * subst mx. eexists; split; [reflexivity|]. unfold wordy. destruct (mn <? 0) eqn:E3; [|apply Z.ltb_ge in E3; lia].
        cbn. rewrite Z.opp_involutive. reflexivity.
      * eexists; split; [reflexivity|]. unfold wordy, mframe, to_between.
        destruct (mn <? 0) eqn:E3, (mx <? 0) eqn:E4; cbn [to_bound fst snd is0];
          try apply Z.ltb_lt in E3; try apply Z.ltb_lt in E4; try apply Z.ltb_ge in E3; try apply Z.ltb_ge in E4;
          rewrite ?Z.opp_involutive;
          repeat match goal with
                 | |- context [?x =? 0] => let E := fresh "E" in destruct (x =? 0) eqn:E; [apply Z.eqb_eq in E|apply Z.eqb_neq in E]
                 end; try reflexivity; try lia.
  - destruct (mn =? 0) eqn:E1; [apply Z.eqb_eq in E1|apply Z.eqb_neq in E1].
    + subst. eexists; split; reflexivity.
    + eexists; split; [reflexivity|]. unfold wordy, mframe, to_between. destruct (mn <? 0) eqn:E3; cbn [to_bound fst snd is0];
        try apply Z.ltb_lt in E3; try apply Z.ltb_ge in E3; rewrite ?Z.opp_involutive;
        repeat match goal with
               | |- context [?x =? 0] => let E := fresh "E" in destruct (x =? 0) eqn:E; [apply Z.eqb_eq in E|apply Z.eqb_neq in E]
               end; try reflexivity; try lia.
  - destruct (mx =? 0) eqn:E1; [apply Z.eqb_eq in E1|apply Z.eqb_neq in E1].
    + subst. eexists; split; reflexivity.
    + eexists; split; [reflexivity|]. unfold wordy, mframe, to_between. destruct (mx <? 0) eqn:E3; cbn [to_bound fst snd is0];
        try apply Z.ltb_lt in E3; try apply Z.ltb_ge in E3; rewrite ?Z.opp_involutive;
        repeat match goal with
               | |- context [?x =? 0] => let E := fresh "E" in destruct (x =? 0) eqn:E; [apply Z.eqb_eq in E|apply Z.eqb_neq in E]
               end; try reflexivity; try lia.
  - exfalso. apply Hn. reflexivity.
Qed.

(* the doubly unbounded frame is not written at all *)
Example unbounded_frame_dropped : fmt_frame (mframe (Between UnbPrec UnbFoll)) = None.
Proof. reflexivity. Qed.
