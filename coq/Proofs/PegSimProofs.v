(* From the decidable similarity check (simb) to the simulation theorem for whole runs. *)
From Coq Require Import List NArith Bool Lia.
From MoSql Require Import Model.Peg Model.PegSim Proofs.PegProofs.
Import ListNotations.
Local Open Scope N_scope.
Lemma dead1_eq T DT k : dead1 T DT k = deadb DT T DEPTH k.
Proof. reflexivity. Qed.
Lemma dead2_eq T DT k : dead2 T DT k = deadb DT T DEPTH k.
Proof. reflexivity. Qed.
Global Opaque dead1 dead2.

Lemma pair_eqb_eq p q : pair_eqb p q = true -> p = q.
Proof. destruct p, q. unfold pair_eqb. simpl. intros H. apply andb_true_iff in H as [A B]. apply N.eqb_eq in A, B. subst. reflexivity. Qed.
Lemma inb_In p l : inb p l = true -> In p l.
Proof. unfold inb. intros H. apply existsb_exists in H as [x [Hx E]]. apply pair_eqb_eq in E. subst. exact Hx. Qed.
Lemma veto_eqb_eq a b : veto_eqb a b = true -> a = b.
Proof. destruct a, b; simpl; congruence. Qed.
Lemma opt_eqb_eq a b : opt_eqb a b = true -> a = b.
Proof. destruct a, b; simpl; try congruence. intros H. apply N.eqb_eq in H. subst. reflexivity. Qed.

Lemma list_simb_F2 {A B} (f : A -> B -> bool) (P : A -> B -> Prop) l1 : forall l2,
  (forall a b, f a b = true -> P a b) -> list_simb f l1 l2 = true -> Forall2 P l1 l2.
Proof.
  induction l1 as [|a r IH]; intros [|b r2] HP H; simpl in H; try discriminate; constructor.
  - apply andb_true_iff in H as [H _]. auto.
  - apply andb_true_iff in H as [_ H]. auto.
Qed.

Lemma fst_ask o q k : fst (ask o q k) = fst (k (o q)).
Proof. unfold ask. destruct (k (o q)). reflexivity. Qed.

Lemma bindr_id m k : (forall r, k r = ret r) -> bindr m k = m.
Proof. intros H. destruct m as [[e fl| |c] l]; simpl; auto; rewrite H; unfold ret; rewrite app_nil_r; reflexivity. Qed.

Lemma apply_veto_none o raw pos r : apply_veto o VNone raw pos r = ret r.
Proof. destruct r; simpl; auto. destruct raw; reflexivity. Qed.

Definition failed (m : out) : Prop := fst m = Fail \/ is_abort (fst m) = true.

Lemma bindr_failed m k : failed m -> failed (k Fail) -> failed (bindr m k).
Proof.
  intros [E|E] Hk; unfold failed; rewrite bindr_fst.
  - rewrite E. exact Hk.
  - destruct (fst m); simpl in E; try discriminate. right. reflexivity.
Qed.

(* ---------------------------------------------------------------------------------------------------- *)
Section Dead.
Variables (T : table) (o : oracle) (len : N) (DT : list N).
Hypothesis Hdt : forall t p, memb t DT = true -> o (QT t p) = 0.

Lemma deadb_sound d : forall i, deadb DT T d i = true -> forall f raw pos, failed (run T o len f i raw pos).
Proof.
  induction d as [|d IH]; intros i H f raw pos; simpl in H; [discriminate|].
  destruct f as [|f]; [right; reflexivity|]. simpl. unfold lookup in H.
  destruct (nth_error T (N.to_nat i)) as [en|]; [|discriminate].
  apply bindr_failed; [|left; reflexivity].
  destruct (e_node en) as [t|w kids|kids|kids|k|w k mn mx st z|p k|k|k|k|w kids]; try discriminate; simpl.
  - left. rewrite fst_ask. rewrite Hdt; auto.
  - destruct kids as [|[k lb] r]; [discriminate|]. simpl. rewrite N.ltb_irrefl.
    apply bindr_failed; [apply IH; exact H|left; reflexivity].
  - apply (alt_dead_all (run T o len f) (fun k => deadb DT T d k = true)).
    + intros k raw' pos' Hk. apply IH. exact Hk.
    + apply Forall_forall. intros x Hx. rewrite forallb_forall in H. apply H. exact Hx.
  - apply bindr_failed; [apply IH; exact H|left; reflexivity].
  - apply bindr_failed; [apply IH; exact H|left; reflexivity].
  - apply bindr_failed; [apply IH; exact H|left; reflexivity].
Qed.
End Dead.

(* a sequence never hands an empty-repetition flag up *)
Lemma seq_loop_flag o rec w kids : forall e idx, match fst (seq_loop o rec w kids e idx) with Ok _ fl => fl = false | _ => True end.
Proof.
  induction kids as [|[k lb] r IH]; intros e idx; simpl; [reflexivity|].
  assert (G : forall i, match fst (bindr (rec k false i) (fun r0 => match r0 with Ok e' fl => seq_loop o rec w r (if (i =? e') && fl then e else e') i | x => ret x end)) with Ok _ fl => fl = false | _ => True end).
  { intros i. rewrite bindr_fst. destruct (fst (rec k false i)); simpl; auto. apply IH. }
  destruct (idx <? e); [destruct lb|]; try apply G.
  specialize (G (o (QS w e))). unfold ask. match goal with |- context [let '(r, l) := ?m in _] => destruct m end. exact G.
Qed.

Lemma run_seq_flag T o len i en w kids : nth_error T (N.to_nat i) = Some en -> e_node en = NSeq w kids ->
  forall f raw x, match fst (run T o len f i raw x) with Ok _ fl => fl = false | _ => True end.
Proof.
  intros L E f raw x. destruct f; simpl; [exact I|]. rewrite L, E. simpl. rewrite bindr_fst.
  pose proof (seq_loop_flag o (run T o len f) w kids x x) as S.
  destruct (fst (seq_loop o (run T o len f) w kids x x)) as [e fl| |c]; simpl; auto. subst fl.
  destruct raw; [reflexivity|]. destruct (e_veto en); cbn [apply_veto]; auto; try reflexivity.
  - destruct (e =? x); simpl; auto.
  - rewrite fst_ask. destruct (o (QD x e) =? 0); simpl; auto.
Qed.

(* ---------------------------------------------------------------------------------------------------- *)
Section RunSim.
Variables (T1 T2 : table) (R EQN : list (N * N)) (DT : list N).
Variables (o1 o2 : oracle) (len1 len2 : N) (phi : N -> N).
Hypothesis phi_mono : forall a b, a < b -> phi a < phi b.
Hypothesis len_phi : len2 = phi len1.
Hypothesis Hsim : simb T1 T2 R EQN DT = true.
Hypothesis Hdt1 : forall t p, memb t DT = true -> o1 (QT t p) = 0.
Hypothesis Hdt2 : forall t p, memb t DT = true -> o2 (QT t p) = 0.
Hypothesis Heqn : forall i j f1 f2 raw pos, In (i, j) EQN ->
  rel o1 o2 phi (run T1 o1 len1 f1 i raw pos) (run T2 o2 len2 f2 j raw (phi pos)).

Let d1 (k : N) : Prop := dead1 T1 DT k = true.
Let d2 (k : N) : Prop := dead2 T2 DT k = true.

Lemma alt_rel_filter k1 : forall k2,
  Forall2 (kid_rel R) (filter (live1 T1 DT) k1) (filter (live2 T2 DT) k2) -> alt_rel R d1 d2 k1 k2.
Proof.
  induction k1 as [|a r1 IH]; intros k2 H.
  - cbn [filter] in H. induction k2 as [|b r2 IH2]; [constructor|]. cbn [filter] in H. unfold live2 at 1 in H.
    destruct (dead2 T2 DT (fst b)) eqn:Db; cbn [negb] in H; [apply AR_right; auto|inversion H].
  - cbn [filter] in H. unfold live1 at 1 in H. destruct (dead1 T1 DT (fst a)) eqn:Da; cbn [negb] in H; [apply AR_left; auto|].
    induction k2 as [|b r2 IH2]; [cbn [filter] in H; inversion H|].
    cbn [filter] in H. unfold live2 at 1 in H. destruct (dead2 T2 DT (fst b)) eqn:Db; cbn [negb] in H; [apply AR_right; auto|].
    inversion H; subst. apply AR_both; auto.
Qed.

Lemma alt_simb_sound k1 k2 : alt_simb T1 T2 R DT k1 k2 = true -> alt_rel R d1 d2 k1 k2.
Proof.
  intros H. apply alt_rel_filter. unfold alt_simb in H. eapply list_simb_F2; [|exact H].
  intros a b Hab. apply andb_true_iff in Hab as [H1 H2]. split; [apply inb_In; exact H1|apply eqb_prop; exact H2].
Qed.

Lemma alt_one_filter a pa k1 : filter (live1 T1 DT) k1 = [(a, pa)] -> alt_one d1 a pa k1.
Proof.
  induction k1 as [|b r IH]; intros H; cbn [filter] in H; [discriminate|].
  unfold live1 at 1 in H. destruct (dead1 T1 DT (fst b)) eqn:Db; cbn [negb] in H; [apply AO_skip; auto|].
  injection H as -> Hr. apply AO_here. clear - Hr. induction r as [|c r IH]; [constructor|].
  cbn [filter] in Hr. unfold live1 at 1 in Hr. destruct (dead1 T1 DT (fst c)) eqn:Dc; cbn [negb] in Hr; [|discriminate]. constructor; auto.
Qed.

Lemma alt_single_sound k1 a pa : alt_single T1 DT k1 = Some (a, pa) -> alt_one d1 a pa k1.
Proof.
  unfold alt_single. intros H. apply alt_one_filter. destruct (filter (live1 T1 DT) k1) as [|x [|y r]]; try discriminate. injection H as ->. reflexivity.
Qed.

Lemma simb_node i j : In (i, j) R -> node_simb T1 T2 R EQN DT i j = true.
Proof. intros H. unfold simb in Hsim. rewrite forallb_forall in Hsim. apply (Hsim (i, j) H). Qed.

Lemma local_bij_sound l : local_bij l = true -> forall a b a' b', In (a, b) l -> In (a', b') l -> (a =? a') = (b =? b').
Proof.
  unfold local_bij. intros H a b a' b' H1 H2. rewrite forallb_forall in H. specialize (H _ H1). rewrite forallb_forall in H. specialize (H _ H2).
  simpl in H. apply eqb_prop in H. exact H.
Qed.

Theorem run_sim : forall f1 f2 i j raw pos, In (i, j) R ->
  rel o1 o2 phi (run T1 o1 len1 f1 i raw pos) (run T2 o2 len2 f2 j raw (phi pos)).
Proof.
  induction f1 as [|f1 IH]; intros f2 i j raw pos HR; [apply rel_abort_l|].
  destruct f2 as [|f2]; [unfold rel; simpl; intros _ _ H; discriminate|].
  pose proof (simb_node i j HR) as Hn. unfold node_simb in Hn. apply orb_true_iff in Hn as [He|Hn]; [apply Heqn; apply inb_In; exact He|].
  unfold lookup in Hn.
  destruct (nth_error T1 (N.to_nat i)) as [en1|] eqn:L1; [|discriminate].
  destruct (nth_error T2 (N.to_nat j)) as [en2|] eqn:L2; [|destruct (e_node en1); discriminate].
  assert (Hd1 : forall k raw pos, d1 k -> fst (run T1 o1 len1 f1 k raw pos) = Fail \/ is_abort (fst (run T1 o1 len1 f1 k raw pos)) = true).
  { intros k raw' pos' Hk. unfold d1 in Hk. rewrite dead1_eq in Hk. apply (deadb_sound T1 o1 len1 DT Hdt1 DEPTH k Hk). }
  assert (Hd2 : forall k raw pos, d2 k -> fst (run T2 o2 len2 f2 k raw pos) = Fail \/ is_abort (fst (run T2 o2 len2 f2 k raw pos)) = true).
  { intros k raw' pos' Hk. unfold d2 in Hk. rewrite dead2_eq in Hk. apply (deadb_sound T2 o2 len2 DT Hdt2 DEPTH k Hk). }
  assert (SAME : node_rel R d1 d2 (e_node en1) (e_node en2) -> e_veto en1 = e_veto en2 ->
                 rel o1 o2 phi (run T1 o1 len1 (S f1) i raw pos) (run T2 o2 len2 (S f2) j raw (phi pos))).
  { intros Hnr Hv. simpl. rewrite L1, L2. apply rel_bindr.
    - apply step_rel with (R := R) (dead1 := d1) (dead2 := d2); auto.
    - intros r _ _. rewrite Hv. eapply apply_veto_rel; eauto. }
  assert (ONE : forall k1, e_node en1 = NAlt k1 ->
     match e_veto en1, e_veto en2 with
     | VNone, VNone => match alt_single T1 DT k1 with Some (a, pa) => inR R a j && (pa || is_seq T1 a) | None => false end
     | _, _ => false end = true ->
     rel o1 o2 phi (run T1 o1 len1 (S f1) i raw pos) (run T2 o2 len2 (S f2) j raw (phi pos))).
  { intros k1 N1 H. destruct (e_veto en1) eqn:V1; try discriminate. destruct (e_veto en2) eqn:V2; try discriminate.
    destruct (alt_single T1 DT k1) as [[a pa]|] eqn:AS; [|discriminate]. apply andb_true_iff in H as [Ha Hp].
    apply inb_In in Ha. apply alt_single_sound in AS.
    assert (E1 : run T1 o1 len1 (S f1) i raw pos = alt_loop (run T1 o1 len1 f1) k1 pos).
    { simpl. rewrite L1, N1, V1. simpl. apply bindr_id. intros r. apply apply_veto_none. }
    assert (E2 : run T2 o2 len2 (S f2) j raw (phi pos) = run T2 o2 len2 (S f2) j false (phi pos)).
    { simpl. rewrite L2, V2. rewrite !bindr_id; auto; intros r; apply apply_veto_none. }
    rewrite E1, E2. eapply alt_one_rel; eauto.
    - apply orb_true_iff in Hp as [Hp|Hp]; [left; exact Hp|right].
      unfold is_seq, lookup in Hp. destruct (nth_error T1 (N.to_nat a)) as [ena|] eqn:La; [|discriminate].
      destruct (e_node ena) eqn:Na; try discriminate. intros raw' x. eapply run_seq_flag; eauto. }
  destruct (e_node en1) as [t1|w1 k1|k1|k1|a1|w1 a1 mn1 mx1 s1 z1|p1 a1|a1|a1|a1|w1 k1] eqn:N1;
  destruct (e_node en2) as [t2|w2 k2|k2|k2|a2|w2 a2 mn2 mx2 s2 z2|p2 a2|a2|a2|a2|w2 k2] eqn:N2;
  try discriminate; try (apply (ONE _ eq_refl); exact Hn).
  - (* term *) apply andb_true_iff in Hn as [Hv Ht]. apply N.eqb_eq in Ht. subst t2. apply SAME; [constructor|apply veto_eqb_eq; exact Hv].
  - (* seq *) apply andb_true_iff in Hn as [Hn Hk]. apply andb_true_iff in Hn as [Hv Hw]. apply N.eqb_eq in Hw. subst w2.
    apply SAME; [|apply veto_eqb_eq; exact Hv]. constructor.
    eapply list_simb_F2; [|exact Hk]. intros a b H. apply andb_true_iff in H as [H1 H2]. split; [apply inb_In; exact H1|apply eqb_prop; exact H2].
  - (* alt *) apply andb_true_iff in Hn as [Hv Hk]. apply SAME; [|apply veto_eqb_eq; exact Hv]. constructor. apply alt_simb_sound. exact Hk.
  - (* or *) apply andb_true_iff in Hn as [Hv Hk]. apply SAME; [|apply veto_eqb_eq; exact Hv]. constructor.
    eapply list_simb_F2; [|exact Hk]. intros a b H. apply inb_In. exact H.
  - (* opt *) apply andb_true_iff in Hn as [Hv Hk]. apply SAME; [|apply veto_eqb_eq; exact Hv]. constructor. apply inb_In. exact Hk.
  - (* many *) repeat (apply andb_true_iff in Hn as [Hn ?]).
    repeat match goal with H : (_ =? _) = true |- _ => apply N.eqb_eq in H end.
    match goal with H : opt_eqb _ _ = true |- _ => apply opt_eqb_eq in H end.
    match goal with H : eqb _ _ = true |- _ => apply eqb_prop in H end. subst.
    apply SAME; [|apply veto_eqb_eq; exact Hn]. constructor. apply inb_In. assumption.
  - (* wrap *) apply andb_true_iff in Hn as [Hn Hk]. apply andb_true_iff in Hn as [Hv Hp]. apply eqb_prop in Hp. subst p2.
    apply SAME; [|apply veto_eqb_eq; exact Hv]. constructor. apply inb_In. exact Hk.
  - (* raw *) apply andb_true_iff in Hn as [Hv Hk]. apply SAME; [|apply veto_eqb_eq; exact Hv]. constructor. apply inb_In. exact Hk.
  - (* not *) apply andb_true_iff in Hn as [Hv Hk]. apply SAME; [|apply veto_eqb_eq; exact Hv]. constructor. apply inb_In. exact Hk.
  - (* look *) apply andb_true_iff in Hn as [Hv Hk]. apply SAME; [|apply veto_eqb_eq; exact Hv]. constructor. apply inb_In. exact Hk.
  - (* all *) apply andb_true_iff in Hn as [Hn Hb]. apply andb_true_iff in Hn as [Hn Hk]. apply andb_true_iff in Hn as [Hv Hw]. apply N.eqb_eq in Hw. subst w2.
    apply SAME; [|apply veto_eqb_eq; exact Hv].
    assert (F : Forall2 (fun a b : N * (N * N) => In (fst a, fst b) R /\ snd a = snd b) k1 k2).
    { eapply list_simb_F2; [|exact Hk]. intros [a [mi ma]] [b [mi' ma']] H. simpl in H.
      apply andb_true_iff in H as [H H3]. apply andb_true_iff in H as [H1 H2]. apply N.eqb_eq in H2, H3. simpl. subst. split; [apply inb_In; exact H1|reflexivity]. }
    constructor.
    + clear - F. unfold allQ.
      assert (G : forall l1 l2, Forall2 (fun a b : N * (N * N) => In (fst a, fst b) R /\ snd a = snd b) l1 l2 ->
                  forall P : N -> N -> Prop, (forall a b, In (a, b) (combine (map fst l1) (map fst l2)) -> P a b) -> Forall2 (akid_rel P) l1 l2).
      { induction 1 as [|a b r1 r2 [H1 H2] HF IH]; intros P HP; constructor.
        - split; [apply HP; simpl; left; reflexivity|exact H2].
        - apply IH. intros x y Hxy. apply HP. simpl. right. exact Hxy. }
      apply G; auto.
    + clear - F. unfold allQ. intros a b H. induction F as [|x y r1 r2 [H1 H2] HF IH]; simpl in H; [contradiction|].
      destruct H as [H|H]; [injection H as <- <-; exact H1|auto].
    + apply local_bij_sound. exact Hb.
Qed.

(* the whole-input parse: leading skip, the root, trailing skip, end of input *)
Theorem parse_all_sim f1 f2 root1 root2 w0 :
  In (root1, root2) R ->
  o2 (QS w0 0) = phi (o1 (QS w0 0)) ->
  rel o1 o2 phi (parse_all T1 o1 len1 f1 root1 w0) (parse_all T2 o2 len2 f2 root2 w0).
Proof.
  intros HR H0. unfold parse_all.
  assert (B : forall s, rel o1 o2 phi
     (bindr (run T1 o1 len1 f1 root1 false s) (fun r => match r with Ok e fl => ask o1 (QS w0 e) (fun e' => ret (if e' =? len1 then Ok e' fl else Fail)) | x => ret x end))
     (bindr (run T2 o2 len2 f2 root2 false (phi s)) (fun r => match r with Ok e fl => ask o2 (QS w0 e) (fun e' => ret (if e' =? len2 then Ok e' fl else Fail)) | x => ret x end))).
  { intros s. apply rel_bindr; [apply run_sim; exact HR|]. intros r _ _. destruct r as [e fl| |c]; simpl; try (apply rel_ret; reflexivity).
    apply (rel_ask o1 o2 phi (QS w0 e)). intros a. simpl. rewrite len_phi at 1. rewrite (phi_eqb len1 len2 phi phi_mono len_phi). destruct (a =? len1); apply rel_ret; reflexivity. }
  specialize (B (o1 (QS w0 0))). rewrite <- H0 in B. unfold rel, ask in *.
  destruct (bindr (run T1 o1 len1 f1 root1 false (o1 (QS w0 0))) _) as [r1 l1].
  destruct (bindr (run T2 o2 len2 f2 root2 false (o2 (QS w0 0))) _) as [r2 l2]. simpl in *.
  intros Hlog. apply B. intros q Hq. apply Hlog. right. exact Hq.
Qed.
End RunSim.

(* with phi the identity and one oracle, every query commutes *)
Lemma comm_id o q : comm o o (fun x => x) q.
Proof.
  unfold comm. destruct q; simpl; auto. destruct (o (QT t pos) =? 0) eqn:E; [apply N.eqb_eq in E; auto|]. apply N.eqb_neq in E. lia.
Qed.
Lemma mapres_id r : mapres (fun x => x) r = r.
Proof. destruct r; reflexivity. Qed.
