(* C07: dotted-path escaping is invertible per segment; the three quoting styles decode to the same name. *)
From Coq Require Import List NArith Bool Lia Arith.
From MoSql Require Import Model.Lit Model.Ident Proofs.LitProofs.
Import ListNotations.
Open Scope N_scope.

Definition no8 (s : str) : bool := forallb (fun c => negb (c =? 8)) s.

Lemma unesc_cons_ne c l : (c =? 46) = false -> unesc (c :: l) = (if c =? 8 then 46 else c) :: unesc l.
Proof. intros E. destruct l as [|c2 t2]; [reflexivity|]. cbn [unesc]. rewrite E. reflexivity. Qed.
Lemma unesc_pair l : unesc (46 :: 46 :: l) = 46 :: unesc l.
Proof. reflexivity. Qed.

Lemma lit_rest_1 c : lit_rest [c] = if c =? 46 then [8] else [c].
Proof. reflexivity. Qed.
Lemma lit_rest_2 c c2 t2 : lit_rest (c :: c2 :: t2) =
  if (c =? 46) && (c2 =? 10) && (match t2 with [] => true | _ => false end) then [8; 10]
  else if c =? 46 then 46 :: 46 :: lit_rest (c2 :: t2) else c :: lit_rest (c2 :: t2).
Proof. reflexivity. Qed.

Lemma unesc_lit_rest : forall n t, (length t <= n)%nat -> no8 t = true -> unesc (lit_rest t) = t.
Proof.
  induction n as [|n IH]; intros t Hl H8.
  - destruct t; [reflexivity|simpl in Hl; lia].
  - destruct t as [|c [|c2 t2]]; [reflexivity| |].
    + cbn [no8 forallb] in H8. apply andb_true_iff in H8 as [Hc _]. apply negb_true_iff in Hc.
      rewrite lit_rest_1. destruct (c =? 46) eqn:E; [apply N.eqb_eq in E; subst; reflexivity|].
      cbn [unesc]. rewrite Hc. reflexivity.
    + cbn [no8 forallb] in H8. apply andb_true_iff in H8 as [Hc H8']. apply negb_true_iff in Hc.
      assert (IH' : unesc (lit_rest (c2 :: t2)) = c2 :: t2) by (apply IH; [simpl in *; lia|exact H8']).
      rewrite lit_rest_2.
      destruct ((c =? 46) && (c2 =? 10) && match t2 with [] => true | _ => false end) eqn:Eq.
      * apply andb_true_iff in Eq as [Eq Et]. apply andb_true_iff in Eq as [E1 E2].
        apply N.eqb_eq in E1, E2. subst. destruct t2; [reflexivity|discriminate].
      * destruct (c =? 46) eqn:E.
        -- apply N.eqb_eq in E. subst c. rewrite unesc_pair, IH'. reflexivity.
        -- rewrite (unesc_cons_ne c _ E), Hc, IH'. reflexivity.
Qed.

(* every name without a backspace is recovered from its escaped form *)
Theorem unesc_lit_field s : no8 s = true -> unesc (lit_field s) = s.
Proof.
  destruct s as [|c t]; [reflexivity|]. intros H8. cbn [no8 forallb] in H8. apply andb_true_iff in H8 as [Hc Ht].
  apply negb_true_iff in Hc. cbn [lit_field].
  destruct (c =? 46) eqn:E.
  - apply N.eqb_eq in E. subst c. rewrite (unesc_cons_ne 8 _ eq_refl). cbn. rewrite (unesc_lit_rest (length t) t); auto.
  - rewrite (unesc_cons_ne c _ E), Hc. rewrite (unesc_lit_rest (length t) t); auto.
Qed.

(* the three quoting styles decode to the same name *)
Lemma sod_cons_ne q c l : (c =? q) = false -> single_of_double q (c :: l) = c :: single_of_double q l.
Proof. intros E. destruct l as [|c2 t2]; [reflexivity|]. cbn [single_of_double]. rewrite E. reflexivity. Qed.
Lemma sod_pair q l : single_of_double q (q :: q :: l) = q :: single_of_double q l.
Proof. cbn [single_of_double]. rewrite N.eqb_refl. reflexivity. Qed.
Lemma single_of_double_dbl q s : single_of_double q (dbl q s) = s.
Proof.
  induction s as [|c s IH]; [reflexivity|]. cbn [dbl]. destruct (c =? q) eqn:E.
  - apply N.eqb_eq in E. subst c. rewrite sod_pair, IH. reflexivity.
  - rewrite (sod_cons_ne q c _ E), IH. reflexivity.
Qed.

Lemma escape_is_flat s : escape_char DQ s = flat_map esc3 s.
Proof. induction s as [|c s IH]; [reflexivity|]. cbn [escape_char flat_map]. rewrite IH.
  change (esc3 c) with (if c =? 34 then [92; 34] else [c]). unfold DQ.
  destruct (c =? 34); cbn [app]; reflexivity. Qed.

Lemma py_triple_esc3 s : clean s = true -> py_triple (flat_map esc3 s) = Ok s.
Proof.
  intros Hc. rewrite clean_is_cleanc in Hc. unfold py_triple.
  assert (H0 : has_nul (flat_map esc3 s) = false).
  { apply no0_flat; auto. intros c Hcc. unfold cleanc in Hcc. apply andb_true_iff in Hcc as [_ H0]. apply negb_true_iff in H0.
    unfold esc3. destruct (c =? 34); [reflexivity|]. cbn [existsb]. rewrite N.eqb_sym, H0. reflexivity. }
  rewrite H0.
  assert (H13 : universal_newlines (flat_map esc3 s) = flat_map esc3 s).
  { apply nl_clean. apply no13_flat; auto. intros c Hcc. unfold cleanc in Hcc. apply andb_true_iff in Hcc as [Hcc _].
    apply andb_true_iff in Hcc as [_ H13]. unfold esc3. destruct (c =? 34); [reflexivity|]. cbn [forallb]. rewrite H13. reflexivity. }
  rewrite H13. apply py_body_esc3; auto.
Qed.

Theorem double_column_quote s : clean s = true -> double_column (quote DQ s) = Ok (lit_field s).
Proof. intros Hc. unfold double_column. rewrite strip_quote, undouble_dbl.
  change (flat_map (esc1 DQ) s) with (flat_map esc3 s). rewrite py_triple_esc3; auto. Qed.
Theorem backtick_column_quote s : clean s = true -> backtick_column (quote BT s) = Ok (lit_field s).
Proof. intros Hc. unfold backtick_column. rewrite strip_quote, single_of_double_dbl, escape_is_flat, py_triple_esc3; auto. Qed.
Lemma strip_bracket s : strip_ends (bracket s) = dbl RBR s.
Proof. unfold strip_ends, bracket. cbn [tl]. apply removelast_last. Qed.
Theorem square_column_quote s : clean s = true -> square_column (bracket s) = Ok (lit_field s).
Proof. intros Hc. unfold square_column. rewrite strip_bracket, single_of_double_dbl, escape_is_flat, py_triple_esc3; auto. Qed.

(* ---------------- paths: splitting the dot-joined escaped segments gives the segments back ---------------- *)
Definition hd0 (l : str) : N := match l with c :: _ => c | [] => 0 end.
(* every dot of l has a dot as neighbour; [prev] is the character before l, [nxt] the character after l *)
Fixpoint nosingle (prev : N) (l : str) (nxt : N) : Prop :=
  match l with
  | [] => True
  | c :: t => (c = 46 -> prev = 46 \/ (match t with c2 :: _ => c2 | [] => nxt end) = 46) /\ nosingle c t nxt
  end.

Lemma last_cons (x : N) l d : last (x :: l) d = last l x.
Proof. revert x d. induction l as [|y l IH]; intros x d; [reflexivity|]. change (last (x :: y :: l) d) with (last (y :: l) d). rewrite (IH y d), (IH y x). reflexivity. Qed.

Lemma split_go_piece : forall p prev cur r nxt,
  nosingle prev p nxt -> (match r with c :: _ => c | [] => 0 end) = nxt -> (r = [] -> nxt <> 46) ->
  split_go prev (p ++ r) cur = split_go (last p prev) r (rev p ++ cur).
Proof.
  induction p as [|c t IH]; intros prev cur r nxt Hn Hr Hr0; [reflexivity|].
  cbn [nosingle] in Hn. destruct Hn as [Hc Ht]. cbn [app split_go].
  assert (Hsep : (c =? 46) && negb (prev =? 46) && negb (match t ++ r with c2 :: _ => c2 =? 46 | [] => false end) = false).
  { destruct (c =? 46) eqn:E; [|reflexivity]. apply N.eqb_eq in E. destruct (Hc E) as [Hp|Hx].
    - subst prev. reflexivity.
    - destruct t as [|c2 t2]; cbn [app].
      + destruct r as [|c3 r3]; [exfalso; apply Hr0; auto; congruence|]. cbn in Hr. subst nxt. subst c3. destruct (prev =? 46); reflexivity.
      + subst c2. destruct (prev =? 46); reflexivity. }
  rewrite Hsep. rewrite (IH c (c :: cur) r nxt Ht Hr Hr0). cbn [rev]. rewrite <- app_assoc. cbn [app].
  rewrite last_cons. reflexivity.
Qed.


(* pieces: non-empty, no lone dot inside, no dot at either end *)
Definition piece_ok (p : str) : Prop := p <> [] /\ hd0 p <> 46 /\ last p 0 <> 46 /\ forall (prev nxt : N), prev <> 46 -> nxt <> 46 -> nosingle prev p nxt.

Lemma nosingle_nxt : forall t c nxt nxt', last (c :: t) 0 <> 46 -> nosingle c t nxt -> nosingle c t nxt'.
Proof.
  induction t as [|c2 t2 IH]; intros c nxt nxt' Hl Hn; [exact I|].
  cbn [nosingle] in *. destruct Hn as [Hc2 Ht2]. rewrite last_cons in Hl. split.
  - intros E. destruct (Hc2 E) as [H|H]; [left; exact H|]. destruct t2 as [|c3 t3]; [|right; exact H].
    exfalso. cbn in Hl. apply Hl. exact E.
  - apply (IH c2 nxt nxt'); [|exact Ht2]. rewrite last_cons. rewrite last_cons in Hl. exact Hl.
Qed.

Lemma nosingle_weaken : forall p, hd0 p <> 46 -> last p 0 <> 46 -> nosingle 0 p 0 -> forall prev' nxt', nosingle prev' p nxt'.
Proof.
  intros [|c t] Hh Hl Hn prev' nxt'; [exact I|]. cbn [nosingle] in *. destruct Hn as [Hc Ht]. split.
  - intros E. exfalso. apply Hh. exact E.
  - apply (nosingle_nxt t c 0 nxt'); auto.
Qed.

Lemma split_pieces : forall ps prev cur, Forall piece_ok ps -> ps <> [] ->
  split_go prev (join_dot ps) cur = match ps with p :: rest => (rev cur ++ p) :: rest | [] => [] end.
Proof.
  induction ps as [|p rest IH]; intros prev cur HF Hne; [contradiction|].
  inversion HF as [|? ? (Hpn & Hh & Hl & Hns) HFr]; subst.
  assert (Hany : forall prev' nxt', nosingle prev' p nxt').
  { apply nosingle_weaken; auto. apply Hns; discriminate. }
  destruct rest as [|p2 rest2].
  - cbn [join_dot]. rewrite <- (app_nil_r p) at 1.
    rewrite (split_go_piece p prev cur [] 0); [|apply Hany|reflexivity|discriminate].
    cbn [split_go]. rewrite rev_app_distr, rev_involutive. reflexivity.
  - change (join_dot (p :: p2 :: rest2)) with (p ++ 46 :: join_dot (p2 :: rest2)).
    inversion HFr as [|? ? (Hp2n & Hh2 & Hl2 & Hns2) HFr2]; subst.
    rewrite (split_go_piece p prev cur (46 :: join_dot (p2 :: rest2)) 46); [|apply Hany|reflexivity|discriminate].
    cbn [split_go].
    assert (Hlast : (last p prev =? 46) = false).
    { apply N.eqb_neq. destruct p as [|c t]; [contradiction|]. rewrite last_cons. rewrite last_cons in Hl. destruct t; [exact Hh|]. rewrite last_cons in *. exact Hl. }
    assert (Hnext : (match join_dot (p2 :: rest2) with c2 :: _ => c2 =? 46 | [] => false end) = false).
    { destruct p2 as [|c t]; [contradiction|]. destruct rest2; cbn [join_dot app]; apply N.eqb_neq; exact Hh2. }
    rewrite Hlast, Hnext. change (46 =? 46) with true. cbn [andb negb].
    rewrite (IH 46 []); [|exact HFr|discriminate].
    rewrite rev_app_distr, rev_involutive. reflexivity.
Qed.

Lemma lit_rest_nonempty c t : lit_rest (c :: t) <> [].
Proof. destruct t as [|c2 t2]; [rewrite lit_rest_1; destruct (c =? 46); discriminate|].
  rewrite lit_rest_2. destruct ((c =? 46) && (c2 =? 10) && match t2 with [] => true | _ => false end); [discriminate|].
  destruct (c =? 46); discriminate. Qed.
Lemma last_indep (l : str) d d' : l <> [] -> last l d = last l d'.
Proof. destruct l as [|x l]; [contradiction|]. intros _. rewrite !last_cons. reflexivity. Qed.

Lemma lit_rest_shape : forall n t prev nxt d, (length t <= n)%nat -> d <> 46 ->
  nosingle prev (lit_rest t) nxt /\ last (lit_rest t) d <> 46.
Proof.
  induction n as [|n IH]; intros t prev nxt d Hl Hd.
  - destruct t; [split; [exact I|exact Hd]|simpl in Hl; lia].
  - destruct t as [|c [|c2 t2]]; [split; [exact I|exact Hd]| |].
    + rewrite lit_rest_1. destruct (c =? 46) eqn:E; cbn [nosingle last].
      * split; [split; [intros E0; discriminate E0|exact I]|discriminate].
      * apply N.eqb_neq in E. split; [split; [intros; contradiction|exact I]|exact E].
    + rewrite lit_rest_2.
      destruct ((c =? 46) && (c2 =? 10) && match t2 with [] => true | _ => false end) eqn:Eq.
      * cbn [nosingle last]. split; [split; [intros E0; discriminate E0|split; [intros E0; discriminate E0|exact I]]|discriminate].
      * destruct (c =? 46) eqn:E.
        -- destruct (IH (c2 :: t2) 46 nxt 8) as [Hn Hl']; [simpl in *; lia|discriminate|].
           split.
           ++ cbn [nosingle]. split; [intros _; right; reflexivity|]. split; [intros _; left; reflexivity|]. exact Hn.
           ++ rewrite !last_cons. rewrite (last_indep (lit_rest (c2 :: t2)) 46 8); [exact Hl'|apply lit_rest_nonempty].
        -- apply N.eqb_neq in E. destruct (IH (c2 :: t2) c nxt c) as [Hn Hl']; [simpl in *; lia|exact E|].
           split.
           ++ cbn [nosingle]. split; [intros; contradiction|exact Hn].
           ++ rewrite last_cons. exact Hl'.
Qed.

Definition okseg (s : str) : Prop := s <> [] /\ no8 s = true.

Lemma piece_ok_lit s : okseg s -> piece_ok (lit_field s).
Proof.
  intros [Hne H8]. destruct s as [|c t]; [contradiction|]. cbn [lit_field]. unfold piece_ok. split; [discriminate|].
  set (c' := if c =? 46 then 8 else c).
  assert (Hc' : c' <> 46) by (unfold c'; destruct (c =? 46) eqn:E; [discriminate|apply N.eqb_neq; exact E]).
  split; [exact Hc'|]. split.
  - rewrite last_cons. destruct (lit_rest_shape (length t) t c' 0 c' (le_n _) Hc') as [_ H]. exact H.
  - intros prev nxt _ _. cbn [nosingle]. split; [intros; contradiction|].
    destruct (lit_rest_shape (length t) t c' nxt c' (le_n _) Hc') as [H _]. exact H.
Qed.

(* splitting the dot-joined escaped segments gives exactly the segments back, for any number of segments of any content *)
Theorem path_roundtrip segs : Forall okseg segs -> segs <> [] -> split_field (join_dot (map lit_field segs)) = segs.
Proof.
  intros HF Hne. unfold split_field.
  assert (HP : Forall piece_ok (map lit_field segs)).
  { apply Forall_forall. intros p Hp. apply in_map_iff in Hp as (s & <- & Hs). rewrite Forall_forall in HF. apply piece_ok_lit; auto. }
  rewrite (split_pieces (map lit_field segs) 0 [] HP); [|destruct segs; [contradiction|discriminate]].
  destruct segs as [|s rest]; [contradiction|]. cbn [map rev app].
  change (lit_field s :: map lit_field rest) with (map lit_field (s :: rest)).
  assert (Hf : filter nonempty (map lit_field (s :: rest)) = map lit_field (s :: rest)).
  { clear - HP. induction HP as [|p l (Hp & _) Hl IH]; [reflexivity|]. cbn [filter]. destruct p; [contradiction|]. cbn [nonempty]. rewrite IH. reflexivity. }
  rewrite Hf, map_map. clear - HF. induction HF as [|x l [_ H8] Hl IH]; [reflexivity|]. cbn [map]. rewrite unesc_lit_field, IH; auto.
Qed.
