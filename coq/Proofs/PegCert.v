(* The certificate (nullability markings, ranks, which terminals can match the empty string) as lists, its decidable check, and the theorems instantiated with it. *)
From Coq Require Import List NArith Bool Lia.
From MoSql Require Import Model.Peg Proofs.PegProofs.
From MoSql Require Import Proofs.PegBounds Proofs.PegNull Proofs.PegFuel.
Import ListNotations.
Local Open Scope N_scope.

Section Cert.
Variables (NLl NLRl : list bool) (RKl : list N) (NLTl : list bool).
(* outside the lists: marked (the safe side for a marking), rank 0 *)
Definition NLf (i : N) : bool := nth (N.to_nat i) NLl true.
Definition NLRf (i : N) : bool := nth (N.to_nat i) NLRl true.
Definition RKf (i : N) : N := nth (N.to_nat i) RKl 0.
Definition nltf (t : N) : bool := nth (N.to_nat t) NLTl true.
Definition Rmax : N := fold_right N.max 0 RKl.

Lemma nth_le_max l : forall j, nth j l 0 <= fold_right N.max 0 l.
Proof. induction l as [|x t IH]; intros [|j]; simpl; try lia. specialize (IH j). lia. Qed.
Lemma RK_le k : RKf k <= Rmax.
Proof. apply nth_le_max. Qed.

Section Table.
Variable T : table.
Definition entry_ok (i : N) (en : entry) : bool := entry_nl_ok NLf NLRf nltf i en && node_rk_ok T NLf RKf i (e_node en).
Fixpoint check_from (i : N) (l : table) : bool :=
  match l with [] => true | en :: t => entry_ok i en && check_from (N.succ i) t end.
Definition cert_ok : bool := check_from 0 T.

Lemma check_from_sound l : forall b, check_from b l = true -> forall j en, nth_error l j = Some en -> entry_ok (b + N.of_nat j) en = true.
Proof.
  induction l as [|x t IH]; intros b H j en E; [destruct j; discriminate|].
  simpl in H. apply andb_true_iff in H as [Hx Ht]. destruct j as [|j]; simpl in E.
  - injection E as <-. replace (b + N.of_nat 0) with b by lia. exact Hx.
  - specialize (IH (N.succ b) Ht j en E). replace (b + N.of_nat (S j)) with (N.succ b + N.of_nat j) by lia. exact IH.
Qed.

Lemma cert_sound : cert_ok = true -> forall i en, nth_error T (N.to_nat i) = Some en -> entry_ok i en = true.
Proof.
  intros H i en E. pose proof (check_from_sound T 0 H (N.to_nat i) en E) as G. rewrite N2Nat.id in G. exact G.
Qed.

(* what is assumed of the oracles: a terminal matches forward and inside the text, skipping moves forward and stays inside,
   and a terminal that is not marked in NLT never matches the empty string *)
Definition oracle_ok (o : oracle) (len : N) : Prop :=
  (forall t p, p <= len -> o (QT t p) = 0 \/ (p <= N.pred (o (QT t p)) <= len /\ 0 < o (QT t p))) /\
  (forall w p, p <= len -> p <= o (QS w p) <= len) /\
  (forall t p, nltf t = false -> p <= len -> o (QT t p) <> N.succ p).

(* the whole-input parse of the engine model is total: with the certificate and enough fuel it ends in a match or a failure -
   it does not run out of fuel, does not stand still in a repetition, does not meet a dangling node id *)
Theorem engine_total o len root w0 f :
  cert_ok = true -> oracle_ok o len -> root < N.of_nat (List.length T) -> (len + 1) * (Rmax + 2) + RKf root + 1 < N.of_nat f ->
  is_abort (fst (parse_all T o len f root w0)) = false.
Proof.
  intros Hc (HT & HS & HT0) Hroot Hf.
  assert (Hnl : forall i en, nth_error T (N.to_nat i) = Some en -> entry_nl_ok NLf NLRf nltf i en = true).
  { intros i en E. pose proof (cert_sound Hc i en E) as H. apply andb_true_iff in H as [H _]. exact H. }
  assert (Hrk : forall i en, nth_error T (N.to_nat i) = Some en -> node_rk_ok T NLf RKf i (e_node en) = true).
  { intros i en E. pose proof (cert_sound Hc i en E) as H. apply andb_true_iff in H as [_ H]. exact H. }
  exact (parse_all_total T o len NLf NLRf nltf RKf Rmax HT HS HT0 Hnl RK_le Hrk f root w0 Hroot Hf).
Qed.
End Table.
End Cert.
