From Coq Require Import List String Bool Lia Permutation.
From MoSql Require Import Base.Json Model.QueryFmt Proofs.QueryFmtProofs Model.QueryBranch.
Import ListNotations.
Open Scope string_scope.
Open Scope list_scope.

Lemma in_without k x l : In x (without k l) <-> In x l /\ x <> k.
Proof.
  unfold without. rewrite filter_In. split; intros [H1 H2]; split; auto.
  - intros ->. rewrite String.eqb_refl in H2. discriminate.
  - destruct (String.eqb_spec x k); [contradiction|reflexivity].
Qed.

(* the regular branch is taken exactly when the object has a clause of the unordered list other than FROM *)
Theorem regular_iff uo agg d : branch_of uo agg d = Regular <-> exists k, In k uo /\ k <> "from" /\ dict_get k d <> None.
Proof.
  unfold branch_of. destruct (existsb (has d) (without "from" uo)) eqn:E.
  - split; [intros _|reflexivity]. apply existsb_exists in E as [k [Hk Hp]]. apply in_without in Hk as [H1 H2].
    exists k. split; [exact H1|]. split; [exact H2|]. unfold has in Hp. destruct (dict_get k d); [discriminate|discriminate Hp].
  - split.
    + intros H. destruct (has d "from"); [discriminate|]. destruct (filter _ (keys d)) as [|op [|op2 l]]; discriminate.
    + intros [k [H1 [H2 H3]]]. exfalso. assert (Hex : existsb (has d) (without "from" uo) = true).
      { apply existsb_exists. exists k. split; [apply in_without; split; assumption|]. unfold has. destruct (dict_get k d); [reflexivity|contradiction H3; reflexivity]. }
      rewrite Hex in E. discriminate.
Qed.

(* a set operation with a tail ({"from": <set operation>, "orderby": .., "limit": ..}): the operand, then every tail clause that is present, with its value *)
Theorem setop_written uo oo agg d v : branch_of uo agg d = SetOp -> dict_get "from" d = Some v -> written uo oo agg d = Some (("from", v) :: emit oo d).
Proof. intros Hb Hf. unfold written. rewrite Hb, Hf. reflexivity. Qed.

Theorem setop_tail_value uo oo agg d v k : branch_of uo agg d = SetOp -> dict_get "from" d = Some v -> NoDup oo -> In k oo -> k <> "from" ->
  match written uo oo agg d with Some w => dict_get k w = dict_get k d | None => False end.
Proof.
  intros Hb Hf Hn Hi Hk. rewrite (setop_written uo oo agg d v Hb Hf). cbn [dict_get].
  destruct (String.eqb_spec k "from"); [contradiction|]. apply emit_get; assumption.
Qed.

(* nothing of such an object is left out when its keys are FROM and tail clauses *)
Theorem setop_complete uo oo agg d v : branch_of uo agg d = SetOp -> dict_get "from" d = Some v -> NoDup oo -> ~ In "from" oo -> NoDup (keys d) ->
  (forall k, In k (keys d) -> k = "from" \/ In k oo) ->
  match written uo oo agg d with Some w => Permutation w d | None => False end.
Proof.
  intros Hb Hf Hn Hnf Hd Hs. rewrite (setop_written uo oo agg d v Hb Hf).
  assert (E : emit ("from" :: oo) d = ("from", v) :: emit oo d) by (rewrite emit_cons, Hf; reflexivity).
  rewrite <- E. apply emit_permutation; [constructor; assumption|exact Hd|].
  intros k Hk. destruct (Hs k Hk) as [->|H]; [left; reflexivity|right; exact H].
Qed.
