(* corollaries of the simulation theorem used by Props/C09.v and Props/C18.v *)
From Coq Require Import List NArith Bool Lia.
From MoSql Require Import Model.Peg Model.PegSim Proofs.PegProofs Proofs.PegSimProofs Proofs.PegLog Proofs.PegMono.
Import ListNotations.
Local Open Scope N_scope.

Lemma C18_dialect_neutral_nodes_pf : forall T1 T2 R EQN DT o len,
  simb T1 T2 R EQN DT = true ->
  (forall t p, memb t DT = true -> o (QT t p) = 0) ->
  (forall i j f1 f2 raw pos, In (i, j) EQN ->
     is_abort (fst (run T1 o len f1 i raw pos)) = false -> is_abort (fst (run T2 o len f2 j raw pos)) = false ->
     fst (run T2 o len f2 j raw pos) = fst (run T1 o len f1 i raw pos)) ->
  forall f1 f2 i j raw pos, In (i, j) R ->
  is_abort (fst (run T1 o len f1 i raw pos)) = false -> is_abort (fst (run T2 o len f2 j raw pos)) = false ->
  fst (run T2 o len f2 j raw pos) = fst (run T1 o len f1 i raw pos).
Proof.
  intros T1 T2 R EQN DT o len Hsim Hdt Heqn f1 f2 i j raw pos HR A1 A2.
  rewrite <- (mapres_id (fst (run T1 o len f1 i raw pos))).
  apply (run_sim T1 T2 R EQN DT o o len len (fun x => x)); auto.
  - intros i' j' g1 g2 raw' pos' HE _ B1 B2. rewrite mapres_id. apply Heqn; auto.
  - intros q _. apply comm_id.
Qed.

Lemma C18_dialect_neutral_pf : forall T1 T2 R EQN DT o len root1 root2 w0,
  simb T1 T2 R EQN DT = true ->
  In (root1, root2) R ->
  (forall t p, memb t DT = true -> o (QT t p) = 0) ->
  (forall i j f1 f2 raw pos, In (i, j) EQN ->
     is_abort (fst (run T1 o len f1 i raw pos)) = false -> is_abort (fst (run T2 o len f2 j raw pos)) = false ->
     fst (run T2 o len f2 j raw pos) = fst (run T1 o len f1 i raw pos)) ->
  forall f1 f2,
  is_abort (fst (parse_all T1 o len f1 root1 w0)) = false -> is_abort (fst (parse_all T2 o len f2 root2 w0)) = false ->
  fst (parse_all T2 o len f2 root2 w0) = fst (parse_all T1 o len f1 root1 w0).
Proof.
  intros T1 T2 R EQN DT o len root1 root2 w0 Hsim HR Hdt Heqn f1 f2 A1 A2.
  rewrite <- (mapres_id (fst (parse_all T1 o len f1 root1 w0))).
  apply (parse_all_sim T1 T2 R EQN DT o o len len (fun x => x)); auto.
  - intros i' j' g1 g2 raw' pos' HE _ B1 B2. rewrite mapres_id. apply Heqn; auto.
  - intros q _. apply comm_id.
Qed.

Lemma C18_sensitive_refuted_pf :
  let T1 := [Build_entry (NAlt [(1, false); (2, false)]) VNone; Build_entry (NTerm 7) VNone; Build_entry (NTerm 8) VNone] in
  let T2 := [Build_entry (NAlt [(1, false)]) VNone; Build_entry (NTerm 8) VNone] in
  let o := fun q => match q with QT 7 0 => 4 | QT 8 0 => 2 | _ => 0 end in
  simb T1 T2 [(0, 0); (2, 1)] [] [7] = true /\
  fst (run T1 o 3 5 0 false 0) <> fst (run T2 o 3 5 0 false 0).
Proof. split; [vm_compute; reflexivity|vm_compute; discriminate]. Qed.

Lemma C09_layout_invariance_pf : forall T o1 o2 len1 len2 phi root w0 f1 f2,
  (forall a b, a < b -> phi a < phi b) -> len2 = phi len1 ->
  simb T T (id_rel (length T)) [] [] = true ->
  In (root, root) (id_rel (length T)) ->
  o2 (QS w0 0) = phi (o1 (QS w0 0)) ->
  (forall q, In q (snd (parse_all T o1 len1 f1 root w0)) -> comm o1 o2 phi q) ->
  is_abort (fst (parse_all T o1 len1 f1 root w0)) = false -> is_abort (fst (parse_all T o2 len2 f2 root w0)) = false ->
  fst (parse_all T o2 len2 f2 root w0) = mapres phi (fst (parse_all T o1 len1 f1 root w0)).
Proof.
  intros T o1 o2 len1 len2 phi root w0 f1 f2 Hm Hl Hsim HR H0 Hlog A1 A2.
  apply (parse_all_sim T T (id_rel (length T)) [] [] o1 o2 len1 len2 phi); auto.
  - intros t p H. discriminate.
  - intros t p H. discriminate.
  - intros i j g1 g2 raw pos H. contradiction.
Qed.

Lemma C09_all_queries_commute_pf : forall T o1 o2 len1 len2 phi root w0 f1 f2,
  (forall a b, a < b -> phi a < phi b) -> len2 = phi len1 ->
  simb T T (id_rel (length T)) [] [] = true ->
  In (root, root) (id_rel (length T)) ->
  o2 (QS w0 0) = phi (o1 (QS w0 0)) ->
  (forall q, comm o1 o2 phi q) ->
  is_abort (fst (parse_all T o1 len1 f1 root w0)) = false -> is_abort (fst (parse_all T o2 len2 f2 root w0)) = false ->
  fst (parse_all T o2 len2 f2 root w0) = mapres phi (fst (parse_all T o1 len1 f1 root w0)).
Proof. intros. apply C09_layout_invariance_pf; auto. Qed.

Lemma C09_case_invariance_pf : forall T o1 o2 len root w0 f1 f2,
  simb T T (id_rel (length T)) [] [] = true ->
  In (root, root) (id_rel (length T)) ->
  (forall q, In q (snd (parse_all T o1 len f1 root w0)) -> o2 q = o1 q) -> o2 (QS w0 0) = o1 (QS w0 0) ->
  is_abort (fst (parse_all T o1 len f1 root w0)) = false -> is_abort (fst (parse_all T o2 len f2 root w0)) = false ->
  fst (parse_all T o2 len f2 root w0) = fst (parse_all T o1 len f1 root w0).
Proof.
  intros T o1 o2 len root w0 f1 f2 Hsim HR Hlog H0 A1 A2.
  rewrite <- (mapres_id (fst (parse_all T o1 len f1 root w0))).
  apply (C09_layout_invariance_pf T o1 o2 len len (fun x => x)); auto.
  intros q Hq. unfold comm. specialize (Hlog q Hq).
  destruct q; simpl; rewrite Hlog; auto. destruct (o1 (QT t pos) =? 0) eqn:E; [apply N.eqb_eq in E; auto|]. apply N.eqb_neq in E.
  rewrite N.succ_pred; auto.
Qed.

Lemma C09_plain_sequence_refuted_pf :
  let T := [Build_entry (NSeq 2 [(1, false); (2, false)]) VNone; Build_entry (NTerm 0) VNone; Build_entry (NTerm 1) VNone] in
  (* text 1: "order by" (one blank);  text 2: "order/**/by": the plain engine 2 stays in front of the comment *)
  let o1 := fun q => match q with QT 0 0 => 6 | QT 1 6 => 9 | QS 2 5 => 6 | QS _ p => p | _ => 0 end in
  let o2 := fun q => match q with QT 0 0 => 6 | QT 1 9 => 12 | QS 2 5 => 5 | QS _ p => p | _ => 0 end in
  let phi := fun p => if p <=? 5 then p else p + 3 in
  (forall a b, a < b -> phi a < phi b) /\
  In (QS 2 5) (snd (run T o1 8 5 0 false 0)) /\ ~ comm o1 o2 phi (QS 2 5) /\
  fst (run T o1 8 5 0 false 0) = Ok 8 false /\ fst (run T o2 11 5 0 false (phi 0)) = Fail.
Proof.
  split; [|split; [|split; [|split]]].
  - intros a b H. cbv beta. destruct (N.leb_spec a 5), (N.leb_spec b 5); Lia.lia.
  - vm_compute. auto.
  - vm_compute. discriminate.
  - vm_compute. reflexivity.
  - vm_compute. reflexivity.
Qed.


(* a definite answer does not depend on the fuel (two runs of one table on one input) *)
Lemma run_fuel_independent_pf : forall T o len f1 f2 i raw pos,
  simb T T (id_rel (length T)) [] [] = true -> In (i, i) (id_rel (length T)) ->
  is_abort (fst (run T o len f1 i raw pos)) = false -> is_abort (fst (run T o len f2 i raw pos)) = false ->
  fst (run T o len f2 i raw pos) = fst (run T o len f1 i raw pos).
Proof.
  intros T o len f1 f2 i raw pos Hsim Hi A1 A2.
  rewrite <- (mapres_id (fst (run T o len f1 i raw pos))).
  apply (run_sim T T (id_rel (length T)) [] [] o o len len (fun x => x)); auto.
  - intros t p H. discriminate.
  - intros t p H. discriminate.
  - intros a b g1 g2 r p H. contradiction.
  - intros q _. apply comm_id.
Qed.

(* the strong form (one table, one amount of fuel): the second parse also asks exactly the phi-image of the first parse's queries *)
Lemma C09_same_derivation_pf : forall T o1 o2 len1 len2 phi root w0 f,
  (forall a b, a < b -> phi a < phi b) -> len2 = phi len1 ->
  o2 (QS w0 0) = phi (o1 (QS w0 0)) ->
  (forall q, In q (snd (parse_all T o1 len1 f root w0)) -> comm o1 o2 phi q) ->
  is_abort (fst (parse_all T o1 len1 f root w0)) = false ->
  fst (parse_all T o2 len2 f root w0) = mapres phi (fst (parse_all T o1 len1 f root w0)) /\
  tl (snd (parse_all T o2 len2 f root w0)) = map (mapq phi) (tl (snd (parse_all T o1 len1 f root w0))).
Proof. intros. apply parse_all_same_table; auto. Qed.

(* the answer does not depend on the fuel, with no condition on the table *)
Lemma C09_fuel_monotone_pf : forall T o len f1 f2 root w0, (f1 <= f2)%nat ->
  is_abort (fst (parse_all T o len f1 root w0)) = false -> parse_all T o len f2 root w0 = parse_all T o len f1 root w0.
Proof. intros. apply parse_all_mono; auto. Qed.

(* the strong form for any two amounts of fuel that suffice *)
Lemma C09_same_derivation_any_fuel_pf : forall T o1 o2 len1 len2 phi root w0 f1 f2,
  (forall a b, a < b -> phi a < phi b) -> len2 = phi len1 ->
  o2 (QS w0 0) = phi (o1 (QS w0 0)) ->
  (forall q, In q (snd (parse_all T o1 len1 f1 root w0)) -> comm o1 o2 phi q) ->
  is_abort (fst (parse_all T o1 len1 f1 root w0)) = false -> is_abort (fst (parse_all T o2 len2 f2 root w0)) = false ->
  fst (parse_all T o2 len2 f2 root w0) = mapres phi (fst (parse_all T o1 len1 f1 root w0)) /\
  tl (snd (parse_all T o2 len2 f2 root w0)) = map (mapq phi) (tl (snd (parse_all T o1 len1 f1 root w0))).
Proof.
  intros T o1 o2 len1 len2 phi root w0 f1 f2 Hm Hl H0 Hlog A1 A2.
  pose (f := Nat.max f1 f2).
  assert (E1 : parse_all T o1 len1 f root w0 = parse_all T o1 len1 f1 root w0) by (apply parse_all_mono; [unfold f; lia|exact A1]).
  assert (E2 : parse_all T o2 len2 f root w0 = parse_all T o2 len2 f2 root w0) by (apply parse_all_mono; [unfold f; lia|exact A2]).
  rewrite <- E1, <- E2. apply parse_all_same_table; auto; rewrite E1; auto.
Qed.
