(* C12: rewriting every normal_op node {"op","args","kwargs"} to {op: args, **kwargs} gives the simple_op result. *)
From Coq Require Import List ZArith String Bool Lia.
From MoSql Require Import Base.Json Model.Scrub Proofs.Slots Proofs.Simplified.
Import ListNotations.
Open Scope string_scope.
Open Scope list_scope.

Definition vals (out : list (string * res)) : list (string * jv) := map (fun kv => (fst kv, fst (snd kv))) out.

Section C12.
Variable fm : fmap_t.
Notation sS := (scrub_s MSimple fm).
Notation sN := (scrub_s MNormal fm).

(* premise: no dict that is NOT a call looks like a normal-form node (first key "op" holding a string, then only
   "args" holding a list and/or "kwargs" holding a dict).  Evaluated by the harness on every captured raw result. *)
Fixpoint nofakeb (r : raw) : bool :=
  match r with
  | RCall op a k => nofakeb a && forallb (fun kv => nofakeb (snd kv)) k
                    && match as_normal (vals (filter_map (kv_opt sS) k)) with None => true | _ => false end
  | RDict kvs => forallb (fun kv => nofakeb (snd kv)) kvs
                 && match as_normal (vals (filter_map (kv_opt sS) kvs)) with None => true | _ => false end
  | RList xs => forallb nofakeb xs
  | RPR _ named flat => forallb (fun kv => forallb nofakeb (snd kv)) named && forallb nofakeb flat
                 && match as_normal (vals (filter_map (kv_opt (fun vs => pack_s (filter_map sS vs))) named)) with
                    None => true | _ => false end
  | _ => true
  end.

Definition R (a b : option res) : Prop :=
  match a, b with
  | Some ra, Some rb => to_simple (fst ra) = fst rb
  | None, None => True
  | _, _ => False
  end.

Lemma filter_map_R {A} (f g : A -> option res) l :
  Forall (fun x => R (f x) (g x)) l ->
  map (fun r => to_simple (fst r)) (filter_map f l) = map fst (filter_map g l).
Proof.
  induction 1 as [|x t Hx Ht IH]; simpl; auto.
  unfold R in Hx. destruct (f x), (g x); try contradiction; simpl; congruence.
Qed.

Lemma filter_map_kv_cons {A B} (f : A -> option B) k x (t : list (string * A)) :
  filter_map (kv_opt f) ((k, x) :: t) =
  match f x with Some v => (k, v) :: filter_map (kv_opt f) t | None => filter_map (kv_opt f) t end.
Proof. unfold filter_map at 1, kv_opt at 1. simpl. destruct (f x); reflexivity. Qed.

Lemma filter_map_kv_R {A} (f g : A -> option res) (l : list (string * A)) :
  Forall (fun kv => R (f (snd kv)) (g (snd kv))) l ->
  map (fun kv => (fst kv, to_simple (snd kv))) (vals (filter_map (kv_opt f) l)) = vals (filter_map (kv_opt g) l).
Proof.
  induction 1 as [|[k x] t Hx Ht IH]; [reflexivity|].
  rewrite !filter_map_kv_cons. unfold R in Hx. simpl in Hx.
  destruct (f x), (g x); try contradiction; [|exact IH].
  unfold vals in *. cbn [map fst snd]. rewrite IH, Hx. reflexivity.
Qed.

Lemma pack_s_R a b :
  map (fun r => to_simple (fst r)) a = map fst b -> R (pack_s a) (pack_s b).
Proof.
  intros H. destruct a as [|x [|y t]], b as [|x' [|y' t']]; simpl in *; try discriminate; auto.
  - injection H as ->. reflexivity.
  - unfold pack_l. simpl. injection H as -> -> Ht. rewrite map_map. rewrite <- Ht. reflexivity.
Qed.

Lemma to_simple_nofake d ds :
  map (fun kv => (fst kv, to_simple (snd kv))) d = ds -> as_normal ds = None ->
  to_simple (JDict d) = JDict ds.
Proof. intros <- H. simpl. rewrite H. reflexivity. Qed.

Lemma to_simple_dict d : to_simple (JDict d) =
  let d' := map (fun kv => (fst kv, to_simple (snd kv))) d in
  match as_normal d' with Some (op, a, k) => JDict (dict_set op (unwrap_args a) k) | None => JDict d' end.
Proof. reflexivity. Qed.

Lemma fst_pack_d out : fst (pack_d out) = JDict (vals out).
Proof. reflexivity. Qed.

Lemma vals_nil_iff {A} (f g : A -> option res) (l : list (string * A)) :
  Forall (fun kv => R (f (snd kv)) (g (snd kv))) l ->
  (vals (filter_map (kv_opt f) l) = [] <-> vals (filter_map (kv_opt g) l) = []).
Proof.
  intros H. rewrite <- (filter_map_kv_R f g l H).
  destruct (vals (filter_map (kv_opt f) l)); simpl; split; intros; auto; discriminate.
Qed.

Lemma call_simple_val op ar out :
  option_map fst (call_res MSimple op ar (pack_d out)) =
  Some (JDict (dict_set op (match ar with Some a => fst a | None => JDict [] end) (vals out))).
Proof. unfold call_res, pack_d. fold (vals out). destruct ar as [[va pa]|]; reflexivity. Qed.

Definition args_vals (ar : option res) : list (string * jv) :=
  match ar with
  | None => []
  | Some (JMark, _) => [("args", JList [JMark])]
  | Some (JList [], _) => []
  | Some (JList l, _) => [("args", JList l)]
  | Some (v, _) => [("args", JList [v])]
  end.

Lemma call_normal_val op ar out :
  option_map fst (call_res MNormal op ar (pack_d out)) =
  Some (JDict (("op", JStr op) :: args_vals ar ++ match vals out with [] => [] | d => [("kwargs", JDict d)] end)).
Proof.
  unfold call_res. cbn [option_map]. rewrite fst_pack_d. f_equal. f_equal.
  unfold vals at 1. rewrite map_app. cbn [map fst snd app]. f_equal. rewrite map_app. f_equal.
  - destruct ar as [[va pa]|]; [|reflexivity]. destruct va; try reflexivity. destruct l; reflexivity.
  - unfold dict_nonempty. rewrite fst_pack_d. destruct (vals out) eqn:E; cbn [map fst snd]; rewrite ?fst_pack_d, ?E; reflexivity.
Qed.

Lemma call_R op arN arS outN outS :
  R arN arS ->
  (forall a, arS = Some a -> simplified (fst a)) ->
  map (fun kv => (fst kv, to_simple (snd kv))) (vals outN) = vals outS ->
  as_normal (vals outS) = None ->
  R (call_res MNormal op arN (pack_d outN)) (call_res MSimple op arS (pack_d outS)).
Proof.
  intros HR Hsimp Ekw Hnf.
  pose proof (call_simple_val op arS outS) as ES. pose proof (call_normal_val op arN outN) as EN.
  destruct (call_res MSimple op arS (pack_d outS)) as [rs|]; try discriminate.
  destruct (call_res MNormal op arN (pack_d outN)) as [rn|]; try discriminate.
  cbn [option_map] in ES, EN. injection ES as ES. injection EN as EN. cbn [R]. rewrite ES, EN. clear ES EN rs rn.
  assert (Hkw : to_simple (JDict (vals outN)) = JDict (vals outS)) by (apply to_simple_nofake; auto).
  assert (Hnil : vals outN = [] <-> vals outS = []).
  { rewrite <- Ekw. destruct (vals outN); simpl; split; intros; auto; discriminate. }
  (* the argument part *)
  assert (Hargs : (args_vals arN = [] /\ arS = None) \/
                  (exists l va pa, args_vals arN = [("args", JList l)] /\ arS = Some (va, pa)
                                /\ unwrap_args (Some (JList (map to_simple l))) = va)).
  { unfold R in HR. destruct arN as [[van pan]|], arS as [[vas pas]|]; try contradiction; [right|left; auto].
    cbn [fst] in HR. specialize (Hsimp _ eq_refl). cbn [fst] in Hsimp.
    destruct van; cbn [args_vals]; try (eexists; eexists; eexists; split; [reflexivity|]; split; [reflexivity|]; cbn; exact HR).
    destruct l as [|y [|y2 l']].
    - simpl in HR. subst vas. inversion Hsimp; simpl in *; lia.
    - simpl in HR. subst vas. inversion Hsimp; simpl in *; lia.
    - eexists; eexists; eexists; split; [reflexivity|]; split; [reflexivity|]. cbn. cbn in HR. exact HR. }
  destruct Hargs as [[Ea ->]|(l & va & pa & Ea & -> & Eun)]; rewrite Ea; cbn [fst app];
    rewrite to_simple_dict; cbn [map fst snd app]; change (to_simple (JStr op)) with (JStr op).
  - destruct (vals outN) as [|kv0 dn'] eqn:Edn.
    + assert (Eds : vals outS = []) by (apply Hnil; reflexivity). rewrite Eds. reflexivity.
    + destruct (vals outS) as [|kv1 ds'] eqn:Eds.
      { exfalso. assert (kv0 :: dn' = []) by (apply Hnil; reflexivity). discriminate. }
      cbn [map fst snd]. rewrite Hkw. reflexivity.
  - change (to_simple (JList l)) with (JList (map to_simple l)).
    destruct (vals outN) as [|kv0 dn'] eqn:Edn.
    + assert (Eds : vals outS = []) by (apply Hnil; reflexivity). rewrite Eds.
      cbn [map fst snd app as_normal]. rewrite Eun. reflexivity.
    + destruct (vals outS) as [|kv1 ds'] eqn:Eds.
      { exfalso. assert (kv0 :: dn' = []) by (apply Hnil; reflexivity). discriminate. }
      cbn [map fst snd app]. rewrite Hkw. cbn [as_normal]. rewrite Eun. reflexivity.
Qed.

Theorem normal_to_simple : forall r, nofakeb r = true -> R (sN r) (sS r).
Proof.
  induction r as [| |s|z|b|f|op a k IHa IHk|kvs IH|xs IH|t named flat IHn IHf] using raw_ind';
    intros Hnf; simpl in Hnf; try (simpl; auto; fail).
  - (* Call *)
    apply andb_true_iff in Hnf as [Hnf Hk3]. apply andb_true_iff in Hnf as [Ha Hk2].
    assert (HkR : Forall (fun kv => R (sN (snd kv)) (sS (snd kv))) k).
    { rewrite forallb_forall in Hk2. apply Forall_forall. intros kv Hin. rewrite Forall_forall in IHk. auto. }
    pose proof (filter_map_kv_R sN sS k HkR) as Ekw.
    specialize (IHa Ha). cbn [scrub_s].
    destruct (as_normal (vals (filter_map (kv_opt sS) k))) eqn:Eds; try discriminate.
    apply call_R; auto.
    intros a0 Ea0. apply (scrub_simplified_simple fm a a0 Ea0).
  - (* Dict *)
    apply andb_true_iff in Hnf as [H1 H2].
    assert (HR : Forall (fun kv => R (sN (snd kv)) (sS (snd kv))) kvs).
    { rewrite forallb_forall in H1. apply Forall_forall. intros kv Hin. rewrite Forall_forall in IH. auto. }
    cbn [scrub_s R]. rewrite !fst_pack_d.
    destruct (as_normal (vals (filter_map (kv_opt sS) kvs))) eqn:E; try discriminate.
    apply to_simple_nofake; auto. apply filter_map_kv_R; auto.
  - (* List *)
    cbn [scrub_s]. apply pack_s_R. apply filter_map_R.
    rewrite forallb_forall in Hnf. apply Forall_forall. intros x Hin. rewrite Forall_forall in IH. auto.
  - (* ParseResults *)
    apply andb_true_iff in Hnf as [Hnf H3]. apply andb_true_iff in Hnf as [H1 H2].
    cbn [scrub_s]. destruct (negb t); [exact Logic.I|].
    assert (HRn : Forall (fun kv => R (pack_s (filter_map sN (snd kv))) (pack_s (filter_map sS (snd kv)))) named).
    { rewrite forallb_forall in H1. apply Forall_forall. intros kv Hin. rewrite Forall_forall in IHn.
      apply pack_s_R. apply filter_map_R. specialize (H1 kv Hin). specialize (IHn kv Hin).
      rewrite forallb_forall in H1. apply Forall_forall. intros x Hx. rewrite Forall_forall in IHn. auto. }
    pose proof (filter_map_kv_R (fun vs => pack_s (filter_map sN vs)) (fun vs => pack_s (filter_map sS vs)) named HRn) as En.
    pose proof (vals_nil_iff (fun vs => pack_s (filter_map sN vs)) (fun vs => pack_s (filter_map sS vs)) named HRn) as Enil.
    destruct (filter_map (kv_opt (fun vs => pack_s (filter_map sN vs))) named) as [|kvn outn] eqn:EoN;
    destruct (filter_map (kv_opt (fun vs => pack_s (filter_map sS vs))) named) as [|kvs' outs] eqn:EoS.
    + apply pack_s_R. apply filter_map_R.
      rewrite forallb_forall in H2. apply Forall_forall. intros x Hin. rewrite Forall_forall in IHf. auto.
    + exfalso. assert (vals (kvs' :: outs) = []) by (apply Enil; reflexivity). discriminate.
    + exfalso. assert (vals (kvn :: outn) = []) by (apply Enil; reflexivity). discriminate.
    + cbn [R]. rewrite !fst_pack_d.
      destruct (as_normal (vals (kvs' :: outs))) eqn:E; try discriminate.
      apply to_simple_nofake; auto.
Qed.

End C12.

Lemma call_normal_shape op ar kw r :
  call_res MNormal op ar kw = Some r ->
  exists a k, fst r = JDict (("op", JStr op) :: a ++ k)
    /\ (a = [] \/ exists l, a = [("args", JList l)] /\ l <> [])
    /\ (k = [] \/ exists d, k = [("kwargs", d)] /\ d <> JDict []).
Proof.
  unfold call_res. intros E. injection E as <-. rewrite fst_pack_d. unfold vals. cbn [app map fst snd].
  rewrite map_app.
  eexists; eexists; split; [reflexivity|]. split.
  - destruct ar as [[va pa]|]; cbn; auto. destruct va; cbn; try (right; eexists; split; [reflexivity|discriminate]).
    destruct l; cbn; auto. right; eexists; split; [reflexivity|discriminate].
  - unfold dict_nonempty. destruct kw as [vk pk]. cbn [fst]. destruct vk; cbn; try (right; eexists; split; [reflexivity|discriminate]).
    destruct d; cbn; auto. right; eexists; split; [reflexivity|discriminate].
Qed.

(* ---------------- fmap is a renaming of the operation of every normal-form node ---------------- *)
Section Fmap.
Variable fm : fmap_t.
Notation sF := (scrub_s MNormal fm).
Notation s0 := (scrub_s MNormal []).

Fixpoint nofakeb_n (r : raw) : bool :=
  match r with
  | RCall op a k => nofakeb_n a && forallb (fun kv => nofakeb_n (snd kv)) k
                    && match as_normal (vals (filter_map (kv_opt sF) k)) with None => true | _ => false end
  | RDict kvs => forallb (fun kv => nofakeb_n (snd kv)) kvs
                 && match as_normal (vals (filter_map (kv_opt sF) kvs)) with None => true | _ => false end
  | RList xs => forallb nofakeb_n xs
  | RPR _ named flat => forallb (fun kv => forallb nofakeb_n (snd kv)) named && forallb nofakeb_n flat
                 && match as_normal (vals (filter_map (kv_opt (fun vs => pack_s (filter_map sF vs))) named)) with
                    None => true | _ => false end
  | _ => true
  end.

Definition ren := rename_ops fm.
Definition Q (a b : option res) : Prop :=
  match a, b with
  | Some ra, Some rb => fst ra = ren (fst rb)
  | None, None => True
  | _, _ => False
  end.

Lemma ren_list l : ren (JList l) = JList (map ren l). Proof. reflexivity. Qed.
Lemma ren_dict d : ren (JDict d) =
  let d' := map (fun kv => (fst kv, ren (snd kv))) d in
  match d' with
  | ("op", JStr op) :: rest => match as_normal d' with Some _ => JDict (("op", JStr (fmap_get fm op)) :: rest) | None => JDict d' end
  | _ => JDict d'
  end.
Proof. reflexivity. Qed.

Lemma ren_dict_nofake d : as_normal (map (fun kv => (fst kv, ren (snd kv))) d) = None ->
  ren (JDict d) = JDict (map (fun kv => (fst kv, ren (snd kv))) d).
Proof.
  intros H. rewrite ren_dict. cbv zeta. rewrite H.
  destruct (map (fun kv => (fst kv, ren (snd kv))) d) as [|[k v] t]; auto.
  destruct v; auto; repeat (destruct k as [|[[|] [|] [|] [|] [|] [|] [|] [|]] k]; auto).
Qed.

Lemma filter_map_Q {A} (f g : A -> option res) l :
  Forall (fun x => Q (f x) (g x)) l ->
  map fst (filter_map f l) = map (fun r => ren (fst r)) (filter_map g l).
Proof.
  induction 1 as [|x t Hx Ht IH]; simpl; auto.
  unfold Q in Hx. destruct (f x), (g x); try contradiction; simpl; congruence.
Qed.

Lemma filter_map_kv_Q {A} (f g : A -> option res) (l : list (string * A)) :
  Forall (fun kv => Q (f (snd kv)) (g (snd kv))) l ->
  vals (filter_map (kv_opt f) l) = map (fun kv => (fst kv, ren (snd kv))) (vals (filter_map (kv_opt g) l)).
Proof.
  induction 1 as [|[k x] t Hx Ht IH]; [reflexivity|].
  rewrite !filter_map_kv_cons. unfold Q in Hx. simpl in Hx.
  destruct (f x), (g x); try contradiction; [|exact IH].
  unfold vals in *. cbn [map fst snd]. rewrite IH, Hx. reflexivity.
Qed.

Lemma pack_s_Q a b :
  map fst a = map (fun r => ren (fst r)) b -> Q (pack_s a) (pack_s b).
Proof.
  intros H. destruct a as [|x [|y t]], b as [|x' [|y' t']]; simpl in *; try discriminate; auto.
  - injection H as ->. reflexivity.
  - unfold pack_l. cbn [fst map]. injection H as -> -> Ht. rewrite ren_list. cbn [map]. rewrite map_map. rewrite Ht. reflexivity.
Qed.

Lemma args_vals_ren vf pf v0 p0 :
  vf = ren v0 ->
  args_vals (Some (vf, pf)) = map (fun kv => (fst kv, ren (snd kv))) (args_vals (Some (v0, p0))).
Proof.
  intros ->. destruct v0; try reflexivity.
  - destruct l; reflexivity.
  - rewrite ren_dict. cbv zeta.
    destruct (map (fun kv => (fst kv, ren (snd kv))) d) as [|[k v] t] eqn:E.
    + cbn [args_vals map fst snd]. rewrite ren_list. cbn [map]. rewrite ren_dict. cbv zeta. rewrite E. reflexivity.
    + assert (H : exists d', (match k with
             | "op" => match v with JStr op => match as_normal ((k, v) :: t) with Some _ => JDict (("op", JStr (fmap_get fm op)) :: t) | None => JDict ((k, v) :: t) end | _ => JDict ((k, v) :: t) end
             | _ => JDict ((k, v) :: t) end) = JDict d').
      { repeat (destruct k as [|[[|] [|] [|] [|] [|] [|] [|] [|]] k]; try (eexists; reflexivity)).
        destruct v; try (eexists; reflexivity). destruct (as_normal _); eexists; reflexivity. }
      destruct H as [d' Hd']. 
      cbn [args_vals map fst snd]. rewrite ren_list. cbn [map]. rewrite ren_dict. cbv zeta. rewrite E.
      cbv beta iota. 
      repeat (destruct k as [|[[|] [|] [|] [|] [|] [|] [|] [|]] k]; try reflexivity).
      destruct v; try reflexivity. destruct (as_normal _); reflexivity.
Qed.

Lemma call_Q op arF ar0 outF out0 :
  Q arF ar0 ->
  vals outF = map (fun kv => (fst kv, ren (snd kv))) (vals out0) ->
  as_normal (vals outF) = None ->
  Q (call_res MNormal (fmap_get fm op) arF (pack_d outF)) (call_res MNormal op ar0 (pack_d out0)).
Proof.
  intros HQ Ekw Hnf.
  pose proof (call_normal_val (fmap_get fm op) arF outF) as EF. pose proof (call_normal_val op ar0 out0) as E0.
  destruct (call_res MNormal (fmap_get fm op) arF (pack_d outF)) as [rf|]; try discriminate.
  destruct (call_res MNormal op ar0 (pack_d out0)) as [r0|]; try discriminate.
  cbn [option_map] in EF, E0. injection EF as EF. injection E0 as E0. cbn [Q]. rewrite EF, E0. clear EF E0 rf r0.
  assert (Hkw : JDict (vals outF) = ren (JDict (vals out0))).
  { rewrite ren_dict_nofake; rewrite <- Ekw; auto. }
  assert (Ha : args_vals arF = map (fun kv => (fst kv, ren (snd kv))) (args_vals ar0)).
  { unfold Q in HQ. destruct arF as [[vf pf]|], ar0 as [[v0 p0]|]; try contradiction; [|reflexivity].
    apply args_vals_ren. exact HQ. }
  rewrite ren_dict. cbv zeta. cbn [map fst snd]. change (ren (JStr op)) with (JStr op).
  rewrite map_app, <- Ha.
  assert (Hk : match vals outF with [] => [] | d => [("kwargs", JDict d)] end =
               map (fun kv => (fst kv, ren (snd kv))) (match vals out0 with [] => [] | d => [("kwargs", JDict d)] end)).
  { destruct (vals out0) as [|kv0 d0] eqn:E0.
    - rewrite Ekw. reflexivity.
    - rewrite Ekw at 1. cbn [map fst snd]. rewrite <- Hkw. rewrite Ekw. reflexivity. }
  rewrite <- Hk.
  (* the renamed node is recognised as a normal-form node *)
  assert (Hn : exists x, as_normal (("op", JStr op) :: args_vals arF ++ match vals outF with [] => [] | d => [("kwargs", JDict d)] end) = Some x).
  { destruct arF as [[vf pf]|]; cbn [args_vals app].
    - destruct vf; try (destruct (vals outF); eexists; reflexivity).
      destruct l; destruct (vals outF); eexists; reflexivity.
    - destruct (vals outF); eexists; reflexivity. }
  destruct Hn as [x Hx]. rewrite Hx. reflexivity.
Qed.

Theorem fmap_is_rename : forall r, nofakeb_n r = true -> Q (sF r) (s0 r).
Proof.
  induction r as [| |s|z|b|f|op a k IHa IHk|kvs IH|xs IH|t named flat IHn IHf] using raw_ind';
    intros Hnf; simpl in Hnf; try (simpl; auto; fail).
  - apply andb_true_iff in Hnf as [Hnf Hk3]. apply andb_true_iff in Hnf as [Ha Hk2].
    assert (HkQ : Forall (fun kv => Q (sF (snd kv)) (s0 (snd kv))) k).
    { rewrite forallb_forall in Hk2. apply Forall_forall. intros kv Hin. rewrite Forall_forall in IHk. auto. }
    pose proof (filter_map_kv_Q sF s0 k HkQ) as Ekw.
    specialize (IHa Ha). cbn [scrub_s fmap_get].
    destruct (as_normal (vals (filter_map (kv_opt sF) k))) eqn:Eds; try discriminate.
    apply call_Q; auto.
  - apply andb_true_iff in Hnf as [H1 H2].
    assert (HQ : Forall (fun kv => Q (sF (snd kv)) (s0 (snd kv))) kvs).
    { rewrite forallb_forall in H1. apply Forall_forall. intros kv Hin. rewrite Forall_forall in IH. auto. }
    cbn [scrub_s Q]. rewrite !fst_pack_d.
    destruct (as_normal (vals (filter_map (kv_opt sF) kvs))) eqn:E; try discriminate.
    pose proof (filter_map_kv_Q sF s0 kvs HQ) as Ekw.
    rewrite ren_dict_nofake; rewrite <- Ekw; auto.
  - cbn [scrub_s]. apply pack_s_Q. apply filter_map_Q.
    rewrite forallb_forall in Hnf. apply Forall_forall. intros x Hin. rewrite Forall_forall in IH. auto.
  - apply andb_true_iff in Hnf as [Hnf H3]. apply andb_true_iff in Hnf as [H1 H2].
    cbn [scrub_s]. destruct (negb t); [exact Logic.I|].
    assert (HQn : Forall (fun kv => Q (pack_s (filter_map sF (snd kv))) (pack_s (filter_map s0 (snd kv)))) named).
    { rewrite forallb_forall in H1. apply Forall_forall. intros kv Hin. rewrite Forall_forall in IHn.
      apply pack_s_Q. apply filter_map_Q. specialize (H1 kv Hin). specialize (IHn kv Hin).
      rewrite forallb_forall in H1. apply Forall_forall. intros x Hx. rewrite Forall_forall in IHn. auto. }
    pose proof (filter_map_kv_Q (fun vs => pack_s (filter_map sF vs)) (fun vs => pack_s (filter_map s0 vs)) named HQn) as En.
    destruct (filter_map (kv_opt (fun vs => pack_s (filter_map sF vs))) named) as [|kvn outn] eqn:EoN;
    destruct (filter_map (kv_opt (fun vs => pack_s (filter_map s0 vs))) named) as [|kvs' outs] eqn:EoS;
      try (cbn in En; discriminate).
    + apply pack_s_Q. apply filter_map_Q.
      rewrite forallb_forall in H2. apply Forall_forall. intros x Hin. rewrite Forall_forall in IHf. auto.
    + cbn [Q]. rewrite !fst_pack_d.
      destruct (as_normal (vals (kvn :: outn))) eqn:E; try discriminate.
      rewrite ren_dict_nofake; rewrite <- En; auto.
Qed.
End Fmap.
