(* C02 at the scrub stage: a result with named tokens (a query: select / from / where / ...) becomes a dictionary whose keys are exactly the
   named tokens that hold something, in the order the grammar named them, each holding its items in order. *)
From Coq Require Import List ZArith String Bool Lia.
From MoSql Require Import Base.Json Model.Scrub Model.ScrubAtoms.
Import ListNotations.
Open Scope string_scope.
Open Scope list_scope.

Section Keys.
Variable m : mode.
Variable fm : fmap_t.

Definition live (kv : string * list raw) : bool := existsb (alive m fm) (snd kv).
(* what one clause holds: its items, scrubbed, in order; one item alone is not wrapped in a list *)
Definition clause_value (vs : list raw) : option res := pack_s (filter_map (scrub_s m fm) vs).

Lemma existsb_alive_filter vs : existsb (alive m fm) vs = false <-> filter_map (scrub_s m fm) vs = [].
Proof.
  induction vs as [|x t IH]; simpl; [tauto|]. unfold alive at 1. destruct (scrub_s m fm x) eqn:E; simpl.
  - split; intros H; discriminate.
  - exact IH.
Qed.

Lemma clause_value_live vs : existsb (alive m fm) vs = true -> exists r, clause_value vs = Some r.
Proof.
  intros H. unfold clause_value. destruct (filter_map (scrub_s m fm) vs) as [|a [|b t]] eqn:E.
  - apply existsb_alive_filter in E. congruence.
  - eexists; reflexivity.
  - eexists; reflexivity.
Qed.

Lemma clause_value_dead vs : existsb (alive m fm) vs = false -> clause_value vs = None.
Proof. intros H. apply existsb_alive_filter in H. unfold clause_value. rewrite H. reflexivity. Qed.

(* the entries of the returned dictionary: one per live clause, in order *)
Lemma named_entries named :
  filter_map (kv_opt clause_value) named =
  flat_map (fun kv => match clause_value (snd kv) with Some r => [(fst kv, r)] | None => [] end) named.
Proof. induction named as [|[k vs] t IH]; simpl; [reflexivity|]. unfold kv_opt at 1. cbn [fst snd]. destruct (clause_value vs); simpl; rewrite IH; reflexivity. Qed.

Theorem clause_keys named flat v ps :
  existsb live named = true ->
  scrub_s m fm (RPR true named flat) = Some (v, ps) ->
  exists d, v = JDict d /\ keys d = keys (filter live named).
Proof.
  intros Hl E. simpl in E. fold (clause_value) in E.
  change (fun vs => pack_s (filter_map (scrub_s m fm) vs)) with clause_value in E.
  destruct (filter_map (kv_opt clause_value) named) as [|kv out] eqn:En.
  - exfalso. clear E. induction named as [|[k vs] t IH]; simpl in *; [discriminate|].
    unfold kv_opt in En at 1. cbn [fst snd] in En. unfold live in Hl at 1. cbn [snd] in Hl.
    destruct (existsb (alive m fm) vs) eqn:Ea.
    + destruct (clause_value_live vs Ea) as [r Hr]. rewrite Hr in En. discriminate.
    + rewrite (clause_value_dead vs Ea) in En. simpl in Hl. auto.
  - injection E as <- <-. unfold pack_d. cbn [fst]. eexists; split; [reflexivity|].
    change ((fst kv, fst (snd kv)) :: map (fun kv0 : string * (jv * list path) => (fst kv0, fst (snd kv0))) out) with (map (fun kv0 : string * (jv * list path) => (fst kv0, fst (snd kv0))) (kv :: out)).
    rewrite <- En. unfold keys. rewrite map_map. cbn [fst]. clear.
    induction named as [|[k vs] t IH]; simpl; [reflexivity|]. unfold kv_opt at 1. unfold live at 1. cbn [fst snd].
    destruct (existsb (alive m fm) vs) eqn:Ea.
    + destruct (clause_value_live vs Ea) as [r Hr]. rewrite Hr. simpl. f_equal. exact IH.
    + rewrite (clause_value_dead vs Ea). exact IH.
Qed.

(* ... and under each key exactly that clause's items *)
Theorem clause_items named flat v ps k vs r :
  scrub_s m fm (RPR true named flat) = Some (v, ps) ->
  In (k, vs) named -> clause_value vs = Some r ->
  exists d, v = JDict d /\ In (k, fst r) d.
Proof.
  intros E Hin Hr. simpl in E. change (fun vs => pack_s (filter_map (scrub_s m fm) vs)) with clause_value in E.
  assert (Hin' : In (k, r) (filter_map (kv_opt clause_value) named)).
  { clear E. induction named as [|[k0 vs0] t IH]; simpl in *; [contradiction|].
    unfold kv_opt at 1. cbn [fst snd]. destruct Hin as [Heq|Hin].
    - injection Heq as -> ->. rewrite Hr. left. reflexivity.
    - destruct (clause_value vs0); [right|]; auto. }
  destruct (filter_map (kv_opt clause_value) named) as [|kv out] eqn:En; [destruct Hin'|].
  injection E as <- <-. unfold pack_d. cbn [fst]. eexists; split; [reflexivity|].
  change (In (k, fst r) (map (fun kv0 : string * (jv * list path) => (fst kv0, fst (snd kv0))) (kv :: out))).
  apply in_map_iff. exists (k, r). split; [reflexivity|exact Hin'].
Qed.
(* the same for a dictionary assembled by a parse action (to_query builds the query this way): the keys whose value holds something, in order *)
Theorem dict_keys kvs : exists d ps,
  scrub_s m fm (RDict kvs) = Some (JDict d, ps) /\ keys d = keys (filter (fun kv => alive m fm (snd kv)) kvs).
Proof.
  simpl. unfold pack_d. eexists; eexists; split; [reflexivity|].
  unfold keys. rewrite map_map. cbn [fst].
  induction kvs as [|[k x] t IH]; simpl; [reflexivity|]. unfold kv_opt at 1, alive at 1. cbn [fst snd].
  destruct (scrub_s m fm x) eqn:E; simpl; [f_equal|]; exact IH.
Qed.

Theorem dict_items kvs k x r : In (k, x) kvs -> scrub_s m fm x = Some r ->
  exists d ps, scrub_s m fm (RDict kvs) = Some (JDict d, ps) /\ In (k, fst r) d.
Proof.
  intros Hin Hr. simpl. unfold pack_d. eexists; eexists; split; [reflexivity|].
  apply in_map_iff. exists (k, r). split; [reflexivity|].
  induction kvs as [|[k0 x0] t IH]; simpl in *; [contradiction|].
  unfold kv_opt at 1. cbn [fst snd]. destruct Hin as [Heq|Hin].
  - injection Heq as -> ->. rewrite Hr. left. reflexivity.
  - destruct (scrub_s m fm x0); [right|]; auto.
Qed.
End Keys.
