(* The strong form of layout invariance for ONE table: with the same fuel, if the two oracles commute with phi on every query the first run
   logs, the second run returns the first run's outcome moved by phi AND asks exactly the phi-image of the first run's queries, in the same
   order.  Every terminal that matched, and where, is therefore the same in both runs: the two parses have the same derivation. *)
From Coq Require Import List NArith Bool Lia.
From MoSql Require Import Model.Peg Proofs.PegProofs.
Import ListNotations.
Local Open Scope N_scope.

Section Strong.
Variables (o1 o2 : oracle) (len1 len2 : N) (phi : N -> N).
Hypothesis phi_mono : forall a b, a < b -> phi a < phi b.
Hypothesis len_phi : len2 = phi len1.

Notation mapq := (mapq phi).
Notation mapa := (mapa phi).
Notation mapres := (mapres phi).
Notation comm := (comm o1 o2 phi).
Let ltb_phi := phi_ltb len1 len2 phi phi_mono len_phi.
Let eqb_phi := phi_eqb len1 len2 phi phi_mono len_phi.

Definition rels (m1 m2 : out) : Prop :=
  (forall q, In q (snd m1) -> comm q) -> is_abort (fst m1) = false ->
  fst m2 = mapres (fst m1) /\ snd m2 = map mapq (snd m1).

Lemma rels_ret r1 r2 : r2 = mapres r1 -> rels (ret r1) (ret r2).
Proof. intros ->. unfold rels, ret. simpl. auto. Qed.

Lemma rels_abort_l c l m2 : rels (Abort c, l) m2.
Proof. unfold rels. simpl. intros _ H. discriminate. Qed.

Lemma rels_bindr m1 m2 k1 k2 :
  rels m1 m2 -> (forall r, fst m1 = r -> is_abort r = false -> rels (k1 r) (k2 (mapres r))) -> rels (bindr m1 k1) (bindr m2 k2).
Proof.
  intros Hm Hk Hlog Hna.
  destruct m1 as [r1 l1], m2 as [r2 l2].
  assert (A1 : is_abort r1 = false) by (destruct r1; simpl in *; auto; discriminate).
  assert (L1 : forall q, In q l1 -> comm q).
  { intros q Hq. apply Hlog. apply bindr_in_l. exact Hq. }
  destruct (Hm L1 A1) as [E1 E2]. simpl in E1, E2. subst r2 l2.
  specialize (Hk r1 eq_refl A1).
  assert (L2 : forall q, In q (snd (k1 r1)) -> comm q).
  { intros q Hq. apply Hlog. apply bindr_in_r; auto. }
  assert (A2 : is_abort (fst (k1 r1)) = false).
  { rewrite bindr_fst in Hna. simpl in Hna. destruct r1; auto; discriminate. }
  destruct (Hk L2 A2) as [F1 F2].
  destruct r1 as [e fl| |c]; simpl in *; try discriminate;
    destruct (k1 _) as [r1' l1']; destruct (k2 _) as [r2' l2']; simpl in *; subst; rewrite map_app; auto.
Qed.

Lemma rels_ask q k1 k2 : (forall a, rels (k1 a) (k2 (mapa q a))) -> rels (ask o1 q k1) (ask o2 (mapq q) k2).
Proof.
  intros Hk. unfold rels, ask.
  destruct (k1 (o1 q)) as [r1 l1] eqn:E1. destruct (k2 (o2 (mapq q))) as [r2 l2] eqn:E2. simpl.
  intros Hlog Hna.
  assert (C : comm q) by (apply Hlog; left; reflexivity).
  unfold PegProofs.comm in C. rewrite C in E2.
  specialize (Hk (o1 q)). unfold rels in Hk. rewrite E1, E2 in Hk. simpl in Hk.
  destruct Hk as [F1 F2]; auto. subst. auto.
Qed.

Section Loops.
Variables rec1 rec2 : N -> bool -> N -> out.
Hypothesis Hrec : forall k raw pos, rels (rec1 k raw pos) (rec2 k raw (phi pos)).

Lemma seq_rels w kids : forall e idx, rels (seq_loop o1 rec1 w kids e idx) (seq_loop o2 rec2 w kids (phi e) (phi idx)).
Proof.
  induction kids as [|[k lb] r IH]; intros e idx; simpl.
  - apply rels_ret. reflexivity.
  - rewrite ltb_phi.
    assert (G : forall i, rels
       (bindr (rec1 k false i) (fun r0 => match r0 with Ok e' fl => seq_loop o1 rec1 w r (if (i =? e') && fl then e else e') i | x => ret x end))
       (bindr (rec2 k false (phi i)) (fun r0 => match r0 with Ok e' fl => seq_loop o2 rec2 w r (if (phi i =? e') && fl then phi e else e') (phi i) | x => ret x end))).
    { intros i. apply rels_bindr; [apply Hrec|]. intros r0 _ _. destruct r0 as [e' fl| |c]; simpl.
      - rewrite eqb_phi. destruct ((i =? e') && fl); apply IH.
      - apply rels_ret. reflexivity.
      - apply rels_ret. reflexivity. }
    destruct (idx <? e); [destruct lb|]; [apply G| |apply G].
    apply (rels_ask (QS w e)). intros a. simpl. apply G.
Qed.

Lemma alt_rels kids : forall pos, rels (alt_loop rec1 kids pos) (alt_loop rec2 kids (phi pos)).
Proof.
  induction kids as [|[k p] r IH]; intros pos; simpl.
  - apply rels_ret. reflexivity.
  - apply rels_bindr; [apply Hrec|]. intros r0 _ _. destruct r0 as [e fl| |c]; simpl; [apply rels_ret; reflexivity|apply IH|apply IH].
Qed.

Lemma or_rels kids : forall pos best, rels (or_loop rec1 kids pos best) (or_loop rec2 kids (phi pos) (option_map phi best)).
Proof.
  induction kids as [|k r IH]; intros pos best; simpl.
  - apply rels_ret. destruct best; reflexivity.
  - apply rels_bindr; [apply Hrec|]. intros r0 _ _. destruct r0 as [e fl| |c]; simpl; try apply IH.
    replace (match option_map phi best with Some b => if b <? phi e then Some (phi e) else Some b | None => Some (phi e) end)
      with (option_map phi (match best with Some b => if b <? e then Some e else Some b | None => Some e end)); [apply IH|].
    destruct best as [b|]; simpl; [rewrite ltb_phi; destruct (b <? e); reflexivity|reflexivity].
Qed.

Lemma many_rels w k mx stop : forall n e cnt last fin1 fin2,
  (forall e cnt last, rels (fin1 e cnt last) (fin2 (phi e) cnt (phi last))) ->
  rels (many_loop o1 len1 rec1 w k mx stop n e cnt last fin1) (many_loop o2 len2 rec2 w k mx stop n (phi e) cnt (phi last) fin2).
Proof.
  induction n as [|n IH]; intros e cnt last fin1 fin2 Hfin; simpl.
  - apply rels_abort_l.
  - replace (phi e <? len2) with (e <? len1) by (rewrite len_phi, ltb_phi; reflexivity). destruct (e <? len1); [|apply Hfin].
    apply (rels_ask (QS w e)). intros idx. simpl.
    assert (B : forall i2, i2 = phi idx -> rels
        (bindr (rec1 k false idx) (fun r => match r with
           | Ok e' _ => if e' =? e then ret (Abort 1) else if e' =? idx then many_loop o1 len1 rec1 w k mx stop n e' cnt last fin1
                        else if mx <=? N.succ cnt then fin1 e' (N.succ cnt) e' else many_loop o1 len1 rec1 w k mx stop n e' (N.succ cnt) e' fin1
           | _ => fin1 e cnt last end))
        (bindr (rec2 k false i2) (fun r => match r with
           | Ok e' _ => if e' =? phi e then ret (Abort 1) else if e' =? i2 then many_loop o2 len2 rec2 w k mx stop n e' cnt (phi last) fin2
                        else if mx <=? N.succ cnt then fin2 e' (N.succ cnt) e' else many_loop o2 len2 rec2 w k mx stop n e' (N.succ cnt) e' fin2
           | _ => fin2 (phi e) cnt (phi last) end))).
    { intros i2 ->. apply rels_bindr; [apply Hrec|]. intros r _ _. destruct r as [e' fl| |c]; simpl; try apply Hfin.
      rewrite !eqb_phi. destruct (e' =? e); [apply rels_ret; reflexivity|].
      destruct (e' =? idx); [apply IH; exact Hfin|].
      destruct (mx <=? N.succ cnt); [apply Hfin|apply IH; exact Hfin]. }
    destruct stop as [t|]; [|apply B; reflexivity].
    apply (rels_ask (QT t idx)). intros a. simpl.
    destruct (a =? 0) eqn:Ea; simpl; [apply B; reflexivity|].
    replace (N.succ (phi (N.pred a)) =? 0) with false by (symmetry; apply N.eqb_neq; lia). apply Hfin.
Qed.

Lemma many_fin_rels pos mn mx zero e cnt last :
  rels (many_fin pos mn mx zero e cnt last) (many_fin (phi pos) mn mx zero (phi e) cnt (phi last)).
Proof.
  unfold many_fin. destruct ((cnt <? mn) || (mx <? cnt)); [apply rels_ret; destruct zero; reflexivity|].
  destruct (0 <? cnt); apply rels_ret; simpl; [reflexivity|]. rewrite eqb_phi. reflexivity.
Qed.

Lemma all_scan_rels todo : forall e j found1 found2 none1 none2,
  (forall i loc, rels (found1 i loc) (found2 i (phi loc))) -> rels none1 none2 ->
  rels (all_scan rec1 todo e j found1 none1) (all_scan rec2 todo (phi e) j found2 none2).
Proof.
  induction todo as [|[[k mm] c] r IH]; intros e j found1 found2 none1 none2 Hfound Hnone; simpl.
  - exact Hnone.
  - apply rels_bindr; [apply Hrec|]. intros r0 _ _. destruct r0 as [loc fl| |c0]; simpl; try (apply IH; auto).
    rewrite eqb_phi. destruct (loc =? e); [apply IH; auto|apply Hfound].
Qed.

Lemma all_phase2_rels w order : forall e last, rels (all_phase2 o1 rec1 w order e last) (all_phase2 o2 rec2 w order (phi e) (phi last)).
Proof.
  induction order as [|k r IH]; intros e last; simpl.
  - apply rels_ret. reflexivity.
  - apply rels_bindr; [apply Hrec|]. intros r0 _ _. destruct r0 as [e' fl| |c]; simpl; try (apply rels_ret; reflexivity).
    apply (rels_ask (QS w e')). intros a. simpl. apply IH.
Qed.

Lemma all_fin_rels w kids pos todo order : rels (all_fin o1 rec1 w kids pos todo order) (all_fin o2 rec2 w kids (phi pos) todo order).
Proof.
  unfold all_fin. destruct (existsb _ todo); [apply rels_ret; reflexivity|]. destruct (existsb _ kids); [apply rels_ret; reflexivity|].
  destruct (order ++ filter (fun k => negb (memb k order)) (map fst kids)) as [|a r]; [apply rels_ret; reflexivity|].
  apply (all_phase2_rels w (a :: r)).
Qed.

Local Arguments bump : simpl never.
Lemma all_phase1_rels w kids pos : forall n todo e order,
  rels (all_phase1 o1 rec1 w n todo e order (all_fin o1 rec1 w kids pos)) (all_phase1 o2 rec2 w n todo (phi e) order (all_fin o2 rec2 w kids (phi pos))).
Proof.
  induction n as [|n IH]; intros todo e order; simpl.
  - apply rels_abort_l.
  - destruct todo as [|t r]; [apply all_fin_rels|].
    apply (all_scan_rels (t :: r)); [|apply all_fin_rels].
    intros i loc. apply (rels_ask (QS w loc)). intros a. cbv beta. change (mapa (QS w loc) a) with (phi a).
    destruct (bump (t :: r) i) as [td x]. apply IH.
Qed.

Lemma step_rels nd : forall n pos, rels (step o1 len1 rec1 n nd pos) (step o2 len2 rec2 n nd (phi pos)).
Proof.
  intros n pos. destruct nd; simpl.
  - apply (rels_ask (QT t pos)). intros a. simpl. destruct (a =? 0) eqn:E; simpl; apply rels_ret; [reflexivity|].
    replace (N.succ (phi (N.pred a)) =? 0) with false by (symmetry; apply N.eqb_neq; lia). rewrite N.pred_succ. reflexivity.
  - apply seq_rels.
  - apply alt_rels.
  - apply (or_rels kids pos None).
  - apply rels_bindr; [apply Hrec|]. intros r _ Hna. destruct r as [e fl| |c]; simpl; try discriminate; apply rels_ret; simpl; [rewrite eqb_phi|]; reflexivity.
  - apply many_rels. intros e cnt last. apply many_fin_rels.
  - apply rels_bindr; [apply Hrec|]. intros r _ Hna. destruct r as [e fl| |c]; simpl; apply rels_ret; reflexivity.
  - apply rels_bindr; [apply Hrec|]. intros r _ Hna. destruct r as [e fl| |c]; simpl; apply rels_ret; reflexivity.
  - apply rels_bindr; [apply Hrec|]. intros r _ Hna. destruct r as [e fl| |c]; simpl; try discriminate; apply rels_ret; reflexivity.
  - apply rels_bindr; [apply Hrec|]. intros r _ Hna. destruct r as [e fl| |c]; simpl; apply rels_ret; reflexivity.
  - apply all_phase1_rels.
Qed.
End Loops.

Lemma apply_veto_rels v raw pos r : rels (apply_veto o1 v raw pos r) (apply_veto o2 v raw (phi pos) (mapres r)).
Proof.
  destruct r as [e fl| |c]; simpl; try (apply rels_ret; reflexivity).
  destruct raw; [apply rels_ret; reflexivity|]. destruct v; try (apply rels_ret; reflexivity).
  - rewrite eqb_phi. destruct (e =? pos); apply rels_ret; reflexivity.
  - apply (rels_ask (QD pos e)). intros a. simpl. destruct (a =? 0); apply rels_ret; reflexivity.
Qed.

Theorem run_same_table T : forall f i raw pos, rels (run T o1 len1 f i raw pos) (run T o2 len2 f i raw (phi pos)).
Proof.
  induction f as [|f IH]; intros i raw pos; simpl; [apply rels_abort_l|].
  destruct (nth_error T (N.to_nat i)) as [en|]; [|apply rels_abort_l].
  apply rels_bindr; [apply step_rels; exact IH|]. intros r _ _. apply apply_veto_rels.
Qed.

Theorem parse_all_same_table T f root w0 :
  o2 (QS w0 0) = phi (o1 (QS w0 0)) ->
  (forall q, In q (snd (parse_all T o1 len1 f root w0)) -> comm q) ->
  is_abort (fst (parse_all T o1 len1 f root w0)) = false ->
  fst (parse_all T o2 len2 f root w0) = mapres (fst (parse_all T o1 len1 f root w0)) /\
  tl (snd (parse_all T o2 len2 f root w0)) = map mapq (tl (snd (parse_all T o1 len1 f root w0))).
Proof.
  intros H0 Hlog Hna. unfold parse_all in *.
  assert (B : forall s, rels
     (bindr (run T o1 len1 f root false s) (fun r => match r with Ok e fl => ask o1 (QS w0 e) (fun e' => ret (if e' =? len1 then Ok e' fl else Fail)) | x => ret x end))
     (bindr (run T o2 len2 f root false (phi s)) (fun r => match r with Ok e fl => ask o2 (QS w0 e) (fun e' => ret (if e' =? len2 then Ok e' fl else Fail)) | x => ret x end))).
  { intros s. apply rels_bindr; [apply run_same_table|]. intros r _ _. destruct r as [e fl| |c]; simpl; try (apply rels_ret; reflexivity).
    apply (rels_ask (QS w0 e)). intros a. simpl. rewrite len_phi at 1. rewrite eqb_phi. destruct (a =? len1); apply rels_ret; reflexivity. }
  specialize (B (o1 (QS w0 0))). rewrite <- H0 in B. unfold rels, ask in *.
  destruct (bindr (run T o1 len1 f root false (o1 (QS w0 0))) _) as [r1 l1].
  destruct (bindr (run T o2 len2 f root false (o2 (QS w0 0))) _) as [r2 l2]. simpl in *.
  apply B; auto.
Qed.
End Strong.
