(* Fuel monotonicity of the engine model: a run that does not abort returns the same outcome and the same log with any larger fuel.
   The answer of the model is therefore a function of the table, the oracle and the input alone.  No condition on the table. *)
From Coq Require Import List NArith Bool Lia.
From MoSql Require Import Model.Peg Proofs.PegProofs.
Import ListNotations.
Local Open Scope N_scope.

Definition ext (m1 m2 : out) : Prop := is_abort (fst m1) = false -> m2 = m1.

Lemma ext_ret r : ext (ret r) (ret r).
Proof. intros _. reflexivity. Qed.

Lemma ext_abort_l c l m2 : ext (Abort c, l) m2.
Proof. intros H. discriminate. Qed.

Lemma ext_bindr m1 m2 k1 k2 : ext m1 m2 -> (forall r, ext (k1 r) (k2 r)) -> ext (bindr m1 k1) (bindr m2 k2).
Proof.
  intros Hm Hk Hna. rewrite bindr_fst in Hna.
  assert (A : is_abort (fst m1) = false) by (destruct (fst m1); auto; discriminate).
  rewrite (Hm A). destruct m1 as [[e fl| |c] l]; simpl in *; try discriminate.
  - specialize (Hk (Ok e fl)). destruct (k1 (Ok e fl)) as [r1 l1] eqn:E1. simpl in Hna. rewrite (Hk Hna). reflexivity.
  - specialize (Hk Fail). destruct (k1 Fail) as [r1 l1] eqn:E1. simpl in Hna. rewrite (Hk Hna). reflexivity.
Qed.

Section Mono.
Variables (o : oracle) (len : N).

Lemma ext_ask q k1 k2 : (forall a, ext (k1 a) (k2 a)) -> ext (ask o q k1) (ask o q k2).
Proof.
  intros Hk Hna. unfold ask in *. specialize (Hk (o q)). destruct (k1 (o q)) as [r1 l1] eqn:E1. simpl in Hna. rewrite (Hk Hna). reflexivity.
Qed.

Section Loops.
Variables rec1 rec2 : N -> bool -> N -> out.
Hypothesis Hrec : forall k raw pos, ext (rec1 k raw pos) (rec2 k raw pos).

Lemma seq_ext w kids : forall e idx, ext (seq_loop o rec1 w kids e idx) (seq_loop o rec2 w kids e idx).
Proof.
  induction kids as [|[k lb] r IH]; intros e idx; simpl; [apply ext_ret|].
  assert (G : forall i, ext
     (bindr (rec1 k false i) (fun r0 => match r0 with Ok e' fl => seq_loop o rec1 w r (if (i =? e') && fl then e else e') i | x => ret x end))
     (bindr (rec2 k false i) (fun r0 => match r0 with Ok e' fl => seq_loop o rec2 w r (if (i =? e') && fl then e else e') i | x => ret x end))).
  { intros i. apply ext_bindr; [apply Hrec|]. intros r0. destruct r0; [apply IH|apply ext_ret|apply ext_ret]. }
  destruct (idx <? e); [destruct lb|]; [apply G| |apply G]. apply ext_ask. intros a. apply G.
Qed.

Lemma alt_ext kids : forall pos, ext (alt_loop rec1 kids pos) (alt_loop rec2 kids pos).
Proof.
  induction kids as [|[k p] r IH]; intros pos; simpl; [apply ext_ret|].
  apply ext_bindr; [apply Hrec|]. intros r0. destruct r0; [apply ext_ret|apply IH|apply IH].
Qed.

Lemma or_ext kids : forall pos best, ext (or_loop rec1 kids pos best) (or_loop rec2 kids pos best).
Proof.
  induction kids as [|k r IH]; intros pos best; simpl; [apply ext_ret|].
  apply ext_bindr; [apply Hrec|]. intros r0. destruct r0; apply IH.
Qed.

Lemma many_ext w k mx stop : forall n1 n2 e cnt last fin, (n1 <= n2)%nat ->
  ext (many_loop o len rec1 w k mx stop n1 e cnt last fin) (many_loop o len rec2 w k mx stop n2 e cnt last fin).
Proof.
  induction n1 as [|n1 IH]; intros n2 e cnt last fin Hle; simpl; [apply ext_abort_l|].
  destruct n2 as [|n2]; [lia|]. simpl. destruct (e <? len); [|intros _; reflexivity].
  apply ext_ask. intros idx.
  assert (B : ext
        (bindr (rec1 k false idx) (fun r => match r with
           | Ok e' _ => if e' =? e then ret (Abort 1) else if e' =? idx then many_loop o len rec1 w k mx stop n1 e' cnt last fin
                        else if mx <=? N.succ cnt then fin e' (N.succ cnt) e' else many_loop o len rec1 w k mx stop n1 e' (N.succ cnt) e' fin
           | _ => fin e cnt last end))
        (bindr (rec2 k false idx) (fun r => match r with
           | Ok e' _ => if e' =? e then ret (Abort 1) else if e' =? idx then many_loop o len rec2 w k mx stop n2 e' cnt last fin
                        else if mx <=? N.succ cnt then fin e' (N.succ cnt) e' else many_loop o len rec2 w k mx stop n2 e' (N.succ cnt) e' fin
           | _ => fin e cnt last end))).
  { apply ext_bindr; [apply Hrec|]. intros r. destruct r as [e' fl| |c]; try (intros _; reflexivity).
    destruct (e' =? e); [apply ext_ret|]. destruct (e' =? idx); [apply IH; lia|].
    destruct (mx <=? N.succ cnt); [intros _; reflexivity|apply IH; lia]. }
  destruct stop as [t|]; [|exact B]. apply ext_ask. intros a. destruct (a =? 0); [exact B|intros _; reflexivity].
Qed.

Lemma all_scan_ext todo : forall e j found1 found2 none1 none2,
  (forall i loc, ext (found1 i loc) (found2 i loc)) -> ext none1 none2 ->
  ext (all_scan rec1 todo e j found1 none1) (all_scan rec2 todo e j found2 none2).
Proof.
  induction todo as [|[[k mm] c] r IH]; intros e j found1 found2 none1 none2 Hf Hn; simpl; [exact Hn|].
  apply ext_bindr; [apply Hrec|]. intros r0. destruct r0 as [loc fl| |c0]; try (apply IH; auto).
  destruct (loc =? e); [apply IH; auto|apply Hf].
Qed.

Lemma all_phase2_ext w order : forall e last, ext (all_phase2 o rec1 w order e last) (all_phase2 o rec2 w order e last).
Proof.
  induction order as [|k r IH]; intros e last; simpl; [apply ext_ret|].
  apply ext_bindr; [apply Hrec|]. intros r0. destruct r0 as [e' fl| |c]; try apply ext_ret. apply ext_ask. intros a. apply IH.
Qed.

Lemma all_fin_ext w kids pos todo order : ext (all_fin o rec1 w kids pos todo order) (all_fin o rec2 w kids pos todo order).
Proof.
  unfold all_fin. destruct (existsb _ todo); [apply ext_ret|]. destruct (existsb _ kids); [apply ext_ret|].
  destruct (order ++ filter (fun k => negb (memb k order)) (map fst kids)) as [|a r]; [apply ext_ret|]. apply (all_phase2_ext w (a :: r)).
Qed.

Local Arguments bump : simpl never.
Lemma all_phase1_ext w kids pos : forall n1 n2 todo e order, (n1 <= n2)%nat ->
  ext (all_phase1 o rec1 w n1 todo e order (all_fin o rec1 w kids pos)) (all_phase1 o rec2 w n2 todo e order (all_fin o rec2 w kids pos)).
Proof.
  induction n1 as [|n1 IH]; intros n2 todo e order Hle; simpl; [apply ext_abort_l|].
  destruct n2 as [|n2]; [lia|]. simpl. destruct todo as [|t r]; [apply all_fin_ext|].
  apply (all_scan_ext (t :: r)); [|apply all_fin_ext].
  intros i loc. apply ext_ask. intros a. destruct (bump (t :: r) i) as [td x]. apply IH. lia.
Qed.

Lemma step_ext nd : forall n1 n2 pos, (n1 <= n2)%nat -> ext (step o len rec1 n1 nd pos) (step o len rec2 n2 nd pos).
Proof.
  intros n1 n2 pos Hle. destruct nd; simpl.
  - intros _. reflexivity.
  - apply seq_ext.
  - apply alt_ext.
  - apply or_ext.
  - apply ext_bindr; [apply Hrec|]. intros r. apply ext_ret.
  - apply many_ext. exact Hle.
  - apply ext_bindr; [apply Hrec|]. intros r. apply ext_ret.
  - apply ext_bindr; [apply Hrec|]. intros r. apply ext_ret.
  - apply ext_bindr; [apply Hrec|]. intros r. apply ext_ret.
  - apply ext_bindr; [apply Hrec|]. intros r. apply ext_ret.
  - apply all_phase1_ext. exact Hle.
Qed.
End Loops.

Theorem run_mono T : forall f1 f2 i raw pos, (f1 <= f2)%nat -> ext (run T o len f1 i raw pos) (run T o len f2 i raw pos).
Proof.
  induction f1 as [|f1 IH]; intros f2 i raw pos Hle; simpl; [apply ext_abort_l|].
  destruct f2 as [|f2]; [lia|]. simpl. destruct (nth_error T (N.to_nat i)) as [en|]; [|intros _; reflexivity].
  apply ext_bindr; [|intros r _; reflexivity].
  apply step_ext; [|lia]. intros k raw' pos'. apply IH. lia.
Qed.

Theorem parse_all_mono T f1 f2 root w0 : (f1 <= f2)%nat ->
  is_abort (fst (parse_all T o len f1 root w0)) = false -> parse_all T o len f2 root w0 = parse_all T o len f1 root w0.
Proof.
  intros Hle. unfold parse_all. apply ext_ask. intros s. apply ext_bindr; [apply run_mono; exact Hle|]. intros r _. reflexivity.
Qed.
End Mono.
