(* Nullability certificate for the engine model.  NL (calls that run the node's parse action) and NLR (raw calls: Combine invokes its child without
   the child's action) are any over-approximations of "this node can match the empty string" that are closed under the node rules (entry_nl_ok, a decidable
   condition on the table); then a run that reports an empty match is at a node marked in NL (raw: NLR). *)
From Coq Require Import List NArith Bool Lia.
From MoSql Require Import Model.Peg Proofs.PegProofs.
From MoSql Require Import Proofs.PegBounds.
Import ListNotations.
Local Open Scope N_scope.

Section Null.
Variables (T : table) (o : oracle) (len : N).
Variable NL : N -> bool.          (* node may match empty when called with its parse action in force *)
Variable NLR : N -> bool.         (* ... when called raw *)
Variable nlt : N -> bool.         (* terminal may match empty *)
Hypothesis HT : forall t p, p <= len -> o (QT t p) = 0 \/ (p <= N.pred (o (QT t p)) <= len /\ 0 < o (QT t p)).
Hypothesis HS : forall w p, p <= len -> p <= o (QS w p) <= len.
Hypothesis HT0 : forall t p, nlt t = false -> p <= len -> o (QT t p) <> N.succ p.

(* what the structure of a node says: can it match empty, given the markings of its children *)
Definition nl_struct (nd : node) : bool :=
  match nd with
  | NTerm t => nlt t
  | NSeq _ kids => forallb (fun kp => NL (fst kp)) kids
  | NAlt kids => existsb (fun kp => NL (fst kp)) kids
  | NOr kids => existsb NL kids
  | NOpt _ | NNot _ | NLook _ | NAll _ _ => true
  | NMany _ _ mn _ _ zero => (mn =? 0) || zero
  | NWrap _ k => NL k
  | NRaw k => NLR k
  end.
(* a raw call sees the structure; a call with the action in force need not be marked when the action rejects empty matches (has_something) *)
Definition entry_nl_ok (i : N) (en : entry) : bool :=
  implb (nl_struct (e_node en)) (NLR i) &&
  match e_veto en with VNonEmpty => true | _ => implb (nl_struct (e_node en)) (NL i) end.
Hypothesis Hnl : forall i en, nth_error T (N.to_nat i) = Some en -> entry_nl_ok i en = true.

Notation good := (good len).

Lemma ask_fst q k : fst (ask o q k) = fst (k (o q)).
Proof. unfold ask. destruct (k (o q)). reflexivity. Qed.

Section Loops.
Variable rec : N -> bool -> N -> out.
Hypothesis Hb : forall k raw p, p <= len -> good p (rec k raw p).
Hypothesis Hrec : forall k raw p e fl, p <= len -> fst (rec k raw p) = Ok e fl -> e = p -> (if raw then NLR k else NL k) = true.

Lemma rec_ok k raw p e fl : p <= len -> fst (rec k raw p) = Ok e fl -> p <= e <= len.
Proof. intros Hp E. specialize (Hb k raw p Hp). unfold PegBounds.good in Hb. rewrite E in Hb. exact Hb. Qed.

(* the end of a sequence never moves back *)
Lemma seq_mono w kids : forall e idx, e <= len -> idx <= len ->
  match fst (seq_loop o rec w kids e idx) with Ok e2 _ => e <= e2 <= len | _ => True end.
Proof.
  induction kids as [|[k lb] r IH]; intros e idx He Hi; simpl; [lia|].
  assert (G : forall i, e <= i <= len ->
     match fst (bindr (rec k false i) (fun r0 => match r0 with Ok e' fl => seq_loop o rec w r (if (i =? e') && fl then e else e') i | x => ret x end))
     with Ok e2 _ => e <= e2 <= len | _ => True end).
  { intros i Hi'. rewrite bindr_fst. destruct (fst (rec k false i)) as [e' fl| |c] eqn:E; simpl; auto.
    pose proof (rec_ok k false i e' fl (proj2 Hi') E) as B.
    set (en := if (i =? e') && fl then e else e').
    assert (Hen : e <= en <= len) by (unfold en; destruct ((i =? e') && fl); lia).
    specialize (IH en i (proj2 Hen) (proj2 Hi')). destruct (fst (seq_loop o rec w r en i)); auto. lia. }
  destruct (idx <? e) eqn:Elt; [destruct lb|].
  - apply (G e). lia.
  - rewrite ask_fst. pose proof (HS w e He) as Hq. apply (G (o (QS w e))). lia.
  - apply N.ltb_ge in Elt. apply (G idx). lia.
Qed.

Lemma seq_null w kids : forall pos e idx e2 fl, pos <= e <= len -> idx <= len ->
  fst (seq_loop o rec w kids e idx) = Ok e2 fl -> e2 = pos -> forallb (fun kp => NL (fst kp)) kids = true.
Proof.
  induction kids as [|[k lb] r IH]; intros pos e idx e2 fl He Hi E E2; simpl in *; [reflexivity|].
  assert (G : forall i, e <= i <= len ->
     fst (bindr (rec k false i) (fun r0 => match r0 with Ok e' fl => seq_loop o rec w r (if (i =? e') && fl then e else e') i | x => ret x end)) = Ok e2 fl ->
     NL k && forallb (fun kp => NL (fst kp)) r = true).
  { intros i Hi' E'. rewrite bindr_fst in E'. destruct (fst (rec k false i)) as [e' fl'| |c] eqn:Er; simpl in E'; try discriminate.
    pose proof (rec_ok k false i e' fl' (proj2 Hi') Er) as B.
    set (en := if (i =? e') && fl' then e else e') in *.
    assert (Hen : e <= en <= len) by (unfold en; destruct ((i =? e') && fl'); lia).
    pose proof (seq_mono w r en i (proj2 Hen) (proj2 Hi')) as M. rewrite E' in M.
    assert (en = pos) by lia.
    assert (Hk : NL k = true).
    { unfold en in H. destruct ((i =? e') && fl') eqn:Ec.
      - apply andb_true_iff in Ec as [Ec _]. apply N.eqb_eq in Ec. apply (Hrec k false i e' fl' (proj2 Hi') Er). lia.
      - apply (Hrec k false i e' fl' (proj2 Hi') Er). lia. }
    rewrite Hk. simpl. apply (IH pos en i e2 fl); auto; lia. }
  destruct (idx <? e) eqn:Elt; [destruct lb|].
  - apply (G e); [lia|exact E].
  - rewrite ask_fst in E. pose proof (HS w e (proj2 He)) as Hq. apply (G (o (QS w e))); [lia|exact E].
  - apply N.ltb_ge in Elt. apply (G idx); [lia|exact E].
Qed.

Lemma alt_null kids : forall pos e fl, pos <= len -> fst (alt_loop rec kids pos) = Ok e fl -> e = pos -> existsb (fun kp => NL (fst kp)) kids = true.
Proof.
  induction kids as [|[k p] r IH]; intros pos e fl Hp E E2; simpl in *; [discriminate|].
  rewrite bindr_fst in E. destruct (fst (rec k false pos)) as [e' fl'| |c] eqn:Er; simpl in E.
  - injection E as <- _. rewrite (Hrec k false pos e' fl' Hp Er E2). reflexivity.
  - rewrite (IH pos e fl Hp E E2). apply orb_true_r.
  - discriminate.
Qed.

Lemma or_null kids : forall pos best e fl, pos <= len -> (match best with Some b => pos <= b | None => True end) ->
  fst (or_loop rec kids pos best) = Ok e fl -> e = pos -> existsb NL kids = true \/ best = Some pos.
Proof.
  induction kids as [|k r IH]; intros pos best e fl Hp Hb' E E2; simpl in *.
  - destruct best as [b|]; [injection E as <- _; right; congruence|discriminate].
  - rewrite bindr_fst in E. destruct (fst (rec k false pos)) as [e' fl'| |c] eqn:Er; simpl in E.
    + pose proof (rec_ok k false pos e' fl' Hp Er) as B.
      set (nb := match best with Some b => if b <? e' then Some e' else Some b | None => Some e' end) in *.
      assert (Hnb : match nb with Some b => pos <= b | None => True end).
      { unfold nb. destruct best as [b|]; [destruct (b <? e')|]; lia. }
      destruct (IH pos nb e fl Hp Hnb E E2) as [H|H]; [left; rewrite H; apply orb_true_r|].
      assert (e' = pos).
      { unfold nb in H. destruct best as [b|]; [destruct (b <? e') eqn:Eb|]; try (injection H as H; lia).
        injection H as H. apply N.ltb_ge in Eb. lia. }
      left. rewrite (Hrec k false pos e' fl' Hp Er H0). reflexivity.
    + destruct (IH pos best e fl Hp Hb' E E2) as [H|H]; [left; rewrite H; apply orb_true_r|right; exact H].
    + discriminate.
Qed.

(* a repetition that demands at least one iteration and has no empty default never reports an empty match *)
Lemma many_nonempty w k mn mx stop pos : pos <= len -> (mn =? 0) = false ->
  forall n e cnt last e2 fl, pos <= e <= len -> (cnt = 0 \/ pos < last) ->
  fst (many_loop o len rec w k mx stop n e cnt last (many_fin pos mn mx false)) = Ok e2 fl -> pos < e2.
Proof.
  intros Hp Hmn.
  assert (Hfin : forall e cnt last e2 fl, pos <= e <= len -> (cnt = 0 \/ pos < last) -> fst (many_fin pos mn mx false e cnt last) = Ok e2 fl -> pos < e2).
  { intros e cnt last e2 fl He Hc E. unfold many_fin in E. destruct ((cnt <? mn) || (mx <? cnt)) eqn:Ec; [discriminate|].
    apply orb_false_iff in Ec as [Ec _]. apply N.ltb_ge in Ec. apply N.eqb_neq in Hmn.
    destruct (0 <? cnt) eqn:E0; [|apply N.ltb_ge in E0; lia].
    injection E as <- _. apply N.ltb_lt in E0. destruct Hc; lia. }
  induction n as [|n IH]; intros e cnt last e2 fl He Hc E; simpl in E; [discriminate|].
  destruct (e <? len) eqn:El; [|eapply Hfin; eauto].
  rewrite ask_fst in E. pose proof (HS w e (proj2 He)) as Hidx. set (idx := o (QS w e)) in *.
  assert (B : fst (bindr (rec k false idx) (fun r => match r with
           | Ok e' _ => if e' =? e then ret (Abort 1) else if e' =? idx then many_loop o len rec w k mx stop n e' cnt last (many_fin pos mn mx false)
                        else if mx <=? N.succ cnt then many_fin pos mn mx false e' (N.succ cnt) e' else many_loop o len rec w k mx stop n e' (N.succ cnt) e' (many_fin pos mn mx false)
           | _ => many_fin pos mn mx false e cnt last end)) = Ok e2 fl -> pos < e2).
  { intros Em. rewrite bindr_fst in Em. destruct (fst (rec k false idx)) as [e' fl'| |c] eqn:Er; simpl in Em; try discriminate; [|eapply Hfin; eauto].
    pose proof (rec_ok k false idx e' fl' (proj2 Hidx) Er) as Be.
    destruct (e' =? e) eqn:E1; [discriminate|]. apply N.eqb_neq in E1.
    destruct (e' =? idx) eqn:E2; [eapply IH; [| |exact Em]; [lia|exact Hc]|]. apply N.eqb_neq in E2.
    destruct (mx <=? N.succ cnt); [eapply Hfin; [| |exact Em]; [lia|right; lia]|eapply IH; [| |exact Em]; [lia|right; lia]]. }
  destruct stop as [t|]; [|exact (B E)].
  rewrite ask_fst in E. destruct (o (QT t idx) =? 0); [exact (B E)|eapply Hfin; eauto].
Qed.
Lemma step_null n nd pos e fl : pos <= len -> fst (step o len rec n nd pos) = Ok e fl -> e = pos -> nl_struct nd = true.
Proof.
  intros Hp E E2. destruct nd; unfold step in E; cbv iota beta in E; cbn [nl_struct].
  - rewrite ask_fst in E. destruct (o (QT t pos) =? 0) eqn:E0; simpl in E; [discriminate|]. injection E as E _.
    apply N.eqb_neq in E0. destruct (nlt t) eqn:En; [reflexivity|]. exfalso. apply (HT0 t pos En Hp). lia.
  - apply (seq_null w kids pos pos pos e fl); auto; lia.
  - exact (alt_null kids pos e fl Hp E E2).
  - destruct (or_null kids pos None e fl Hp I E E2) as [H|H]; [exact H|discriminate].
  - reflexivity.
  - destruct ((mn =? 0) || zero) eqn:Ez; [reflexivity|]. apply orb_false_iff in Ez as [Em ->].
    pose proof (many_nonempty w k mn mx stop pos Hp Em n pos 0 pos e fl ltac:(lia) (or_introl eq_refl) E). lia.
  - rewrite bindr_fst in E. destruct (fst (rec k false pos)) as [e' fl'| |c] eqn:Er; simpl in E; try discriminate.
    injection E as <- _. exact (Hrec k false pos e' fl' Hp Er E2).
  - rewrite bindr_fst in E. destruct (fst (rec k true pos)) as [e' fl'| |c] eqn:Er; simpl in E; try discriminate.
    injection E as <- _. exact (Hrec k true pos e' fl' Hp Er E2).
  - reflexivity.
  - reflexivity.
  - reflexivity.
Qed.
End Loops.

Lemma veto_ok v raw pos r e fl : fst (apply_veto o v raw pos r) = Ok e fl -> r = Ok e fl.
Proof.
  destruct r as [e' fl'| |c]; unfold apply_veto; try (simpl; discriminate). destruct raw; [intros H; exact H|].
  destruct v; try (simpl; intros H; exact H); try (simpl; discriminate).
  - destruct (e' =? pos); simpl; [discriminate|auto].
  - rewrite ask_fst. destruct (o (QD pos e') =? 0); simpl; [auto|discriminate].
Qed.

Lemma veto_nonempty pos r e fl : fst (apply_veto o VNonEmpty false pos r) = Ok e fl -> e <> pos.
Proof.
  destruct r as [e' fl'| |c]; unfold apply_veto; try (simpl; discriminate).
  destruct (e' =? pos) eqn:E; simpl; [discriminate|]. intros H. injection H as <- _. apply N.eqb_neq. exact E.
Qed.

(* a run that reports an empty match is at a marked node: NL when the node's own parse action was in force, NLR when it was called raw *)
Theorem run_null : forall f i raw pos e fl, pos <= len -> fst (run T o len f i raw pos) = Ok e fl -> e = pos -> (if raw then NLR i else NL i) = true.
Proof.
  induction f as [|f IH]; intros i raw pos e fl Hp E E2; simpl in E; [discriminate|].
  destruct (nth_error T (N.to_nat i)) as [en|] eqn:En; [|discriminate].
  rewrite bindr_fst in E. destruct (fst (step o len (run T o len f) f (e_node en) pos)) as [e' fl'| |c] eqn:Es; try discriminate.
  pose proof (Hnl i en En) as Hok. unfold entry_nl_ok in Hok. apply andb_true_iff in Hok as [HokR Hok].
  assert (St : forall e0 fl0, Ok e' fl' = Ok e0 fl0 -> e0 = pos -> nl_struct (e_node en) = true).
  { intros e0 fl0 X X2. injection X as <- <-.
    exact (step_null (run T o len f) (fun k raw' p Hp' => run_in_bounds o len HT HS T f k raw' p Hp') IH f (e_node en) pos e' fl' Hp Es X2). }
  destruct raw.
  - simpl in E. injection E as <- <-. rewrite (St e' fl' eq_refl E2) in HokR. exact HokR.
  - destruct (e_veto en) eqn:Ev; try (apply veto_ok in E; rewrite (St e fl E E2) in Hok; exact Hok).
    exfalso. exact (veto_nonempty pos (Ok e' fl') e fl E E2).
Qed.
End Null.
