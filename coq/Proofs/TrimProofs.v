From Coq Require Import List ZArith String Bool.
From MoSql Require Import Base.Json Model.TrimExpr.
Import ListNotations.
Open Scope string_scope.
Open Scope list_scope.

Theorem trim_roundtrip s : twf s = true -> reread_trim (fmt_trim (trim_json s)) = Some s.
Proof.
  destruct s as [d c v]. unfold twf; cbn [dir chars val]. intros H. apply andb_true_iff in H as [Hc Hd].
  destruct c as [c|], d as [d|]; cbn [trim_json okv option_map app dir chars val fmt_trim dict_get]; cbn;
    try rewrite Hc; try rewrite Hd; cbn; reflexivity.
Qed.

(* every written operand is in the tree *)
Theorem trim_keeps s : dict_get "trim" (match trim_json s with JDict d => d | _ => [] end) = Some (val s)
  /\ dict_get "characters" (match trim_json s with JDict d => d | _ => [] end) = chars s.
Proof. destruct s as [d [c|] v]; destruct d; cbn; split; reflexivity. Qed.

(* listed finding (C03 probes, "falsy values"): characters 0 are in the tree and are not written *)
Definition t_zero : tsrc := {| dir := None; chars := Some (JInt 0); val := JStr "a" |}.
Theorem trim_zero_dropped : twf t_zero = false /\ trim_json t_zero = JDict [("characters", JInt 0); ("trim", JStr "a")]
  /\ reread_trim (fmt_trim (trim_json t_zero)) = Some {| dir := None; chars := None; val := JStr "a" |}.
Proof. vm_compute. repeat split; reflexivity. Qed.
