(* Totality of the engine model.  With a certificate - nullability markings (PegNull), a rank for every node such that every call a node can make at its own
   start position goes to a node of smaller rank, node ids in range, and no repetition over a nullable child - the interpreter never aborts once the fuel
   exceeds (len - pos) * (R + 2) + rank + 1: not by running out of fuel (its recursion and both of its loops are bounded by the input length), not by an
   iteration that does not move, not by a dangling node id.  Every run then ends in a match or a failure. *)
From Coq Require Import List NArith Bool Lia.
From MoSql Require Import Model.Peg Proofs.PegProofs.
From MoSql Require Import Proofs.PegBounds Proofs.PegNull.
Import ListNotations.
Local Open Scope N_scope.

Section Fuel.
Variables (T : table) (o : oracle) (len : N).
Variables NL NLR : N -> bool.
Variable nlt : N -> bool.
Variable RK : N -> N.
Variable R : N.
Hypothesis HT : forall t p, p <= len -> o (QT t p) = 0 \/ (p <= N.pred (o (QT t p)) <= len /\ 0 < o (QT t p)).
Hypothesis HS : forall w p, p <= len -> p <= o (QS w p) <= len.
Hypothesis HT0 : forall t p, nlt t = false -> p <= len -> o (QT t p) <> N.succ p.
Hypothesis Hnl : forall i en, nth_error T (N.to_nat i) = Some en -> entry_nl_ok NL NLR nlt i en = true.
Hypothesis HR : forall k, RK k <= R.
Definition sz : N := N.of_nat (List.length T).

Fixpoint seq_rk (ri : N) (kids : list (N * bool)) : bool :=
  match kids with [] => true | (k, _) :: ks => (RK k <? ri) && (if NL k then seq_rk ri ks else true) end.
Definition node_rk_ok (i : N) (nd : node) : bool :=
  let ri := RK i in
  match nd with
  | NTerm _ => true
  | NSeq _ kids => seq_rk ri kids && forallb (fun kp => fst kp <? sz) kids
  | NAlt kids => forallb (fun kp => (RK (fst kp) <? ri) && (fst kp <? sz)) kids
  | NOr kids => forallb (fun k => (RK k <? ri) && (k <? sz)) kids
  | NOpt k | NWrap _ k | NRaw k | NNot k | NLook k => (RK k <? ri) && (k <? sz)
  | NMany _ k _ _ _ _ => (RK k <? ri) && (k <? sz) && negb (NL k)        (* a repetition over a nullable child could stand still *)
  | NAll _ kids => forallb (fun kd => (RK (fst kd) <? ri) && (fst kd <? sz)) kids
  end.
Hypothesis Hrk : forall i en, nth_error T (N.to_nat i) = Some en -> node_rk_ok i (e_node en) = true.

Definition C := R + 2.
Definition mu (pos i : N) : N := (len - pos) * C + RK i + 1.
Definition na (m : out) : Prop := is_abort (fst m) = false.

Lemma na_ret r : is_abort r = false -> na (ret r).
Proof. auto. Qed.
Lemma na_ask q k : na (k (o q)) -> na (ask o q k).
Proof. unfold na, ask. destruct (k (o q)). auto. Qed.
Lemma na_bindr m k : na m -> (forall r, fst m = r -> is_abort r = false -> na (k r)) -> na (bindr m k).
Proof.
  unfold na. intros Hm Hk. rewrite bindr_fst. specialize (Hk (fst m) eq_refl Hm). destruct (fst m) as [e fl| |c]; auto.
Qed.

Lemma mu_lt pos i p k : pos <= p <= len -> (pos < p \/ RK k < RK i) -> mu p k < mu pos i.
Proof.
  intros Hp H. unfold mu. assert (p = pos \/ pos < p) as [->|Hlt] by lia; [destruct H; lia|].
  pose proof (HR k). set (a := len - p). set (b := len - pos). assert (Hab : a + 1 <= b) by (unfold a, b; lia).
  assert (E1 : (a + 1) * C = a * C + C) by (rewrite N.mul_add_distr_r; lia).
  assert (E2 : (a + 1) * C <= b * C) by (apply N.mul_le_mono_r; exact Hab).
  unfold C in *. lia.
Qed.

Section Loops.
Variable rec : N -> bool -> N -> out.
Variable F : N.
Variables (i pos : N).
Hypothesis Hpos : pos <= len.
Hypothesis HF : mu pos i <= F.
Hypothesis Hb : forall k raw p, p <= len -> PegBounds.good len p (rec k raw p).
Hypothesis Hnul : forall k raw p e fl, p <= len -> fst (rec k raw p) = Ok e fl -> e = p -> (if raw then NLR k else NL k) = true.
Hypothesis Hnf : forall k raw p, k < sz -> p <= len -> mu p k < F -> na (rec k raw p).

Lemma rec_ok k raw p e fl : p <= len -> fst (rec k raw p) = Ok e fl -> p <= e <= len.
Proof. intros Hp E. specialize (Hb k raw p Hp). unfold PegBounds.good in Hb. rewrite E in Hb. exact Hb. Qed.

Lemma call_ok k raw p : k < sz -> pos <= p <= len -> (pos < p \/ RK k < RK i) -> na (rec k raw p).
Proof. intros Hk Hp H. apply Hnf; [exact Hk|lia|]. pose proof (mu_lt pos i p k Hp H). lia. Qed.

Lemma seq_na w kids : forall e idx, pos <= e <= len -> pos <= idx <= len -> (e = pos -> seq_rk (RK i) kids = true) ->
  forallb (fun kp => fst kp <? sz) kids = true -> na (seq_loop o rec w kids e idx).
Proof.
  induction kids as [|[k lb] r IH]; intros e idx He Hi Hs Hv; simpl; [apply na_ret; reflexivity|].
  simpl in Hv. apply andb_true_iff in Hv as [Hvk Hvr]. apply N.ltb_lt in Hvk.
  assert (G : forall j, e <= j <= len ->
     na (bindr (rec k false j) (fun r0 => match r0 with Ok e' fl => seq_loop o rec w r (if (j =? e') && fl then e else e') j | x => ret x end))).
  { intros j Hj. apply na_bindr.
    - apply call_ok; [exact Hvk|lia|]. destruct (N.eq_dec j pos) as [->|Hn]; [right|left; lia].
      assert (e = pos) by lia. specialize (Hs H). simpl in Hs. apply andb_true_iff in Hs as [Hs _]. apply N.ltb_lt. exact Hs.
    - intros r0 E Ha. destruct r0 as [e' fl| |c]; [|apply na_ret; reflexivity|discriminate].
      pose proof (rec_ok k false j e' fl (proj2 Hj) E) as B.
      set (en := if (j =? e') && fl then e else e').
      assert (Hen : e <= en <= len) by (unfold en; destruct ((j =? e') && fl); lia).
      apply IH; [lia|lia| |exact Hvr]. intros Hen2.
      assert (He2 : e = pos) by lia. specialize (Hs He2). simpl in Hs. apply andb_true_iff in Hs as [_ Hs].
      assert (Hk : NL k = true).
      { unfold en in Hen2. destruct ((j =? e') && fl) eqn:Ec.
        - apply andb_true_iff in Ec as [Ec _]. apply N.eqb_eq in Ec. apply (Hnul k false j e' fl (proj2 Hj) E). lia.
        - apply (Hnul k false j e' fl (proj2 Hj) E). lia. }
      rewrite Hk in Hs. exact Hs. }
  destruct (idx <? e) eqn:Elt; [destruct lb|].
  - apply (G e). lia.
  - apply na_ask. pose proof (HS w e (proj2 He)). apply (G (o (QS w e))). lia.
  - apply N.ltb_ge in Elt. apply (G idx). lia.
Qed.

Lemma alt_na kids : forallb (fun kp => (RK (fst kp) <? RK i) && (fst kp <? sz)) kids = true -> na (alt_loop rec kids pos).
Proof.
  induction kids as [|[k p] r IH]; intros Hk; simpl; [apply na_ret; reflexivity|].
  simpl in Hk. apply andb_true_iff in Hk as [Hk Hr]. apply andb_true_iff in Hk as [Hk Hv]. apply N.ltb_lt in Hk. apply N.ltb_lt in Hv.
  apply na_bindr; [apply call_ok; [exact Hv|lia|right; exact Hk]|]. intros r0 E Ha.
  destruct r0; [apply na_ret; reflexivity|apply IH; exact Hr|discriminate].
Qed.

Lemma or_na kids : forall best, forallb (fun k => (RK k <? RK i) && (k <? sz)) kids = true -> na (or_loop rec kids pos best).
Proof.
  induction kids as [|k r IH]; intros best Hk; simpl; [apply na_ret; destruct best; reflexivity|].
  simpl in Hk. apply andb_true_iff in Hk as [Hk Hr]. apply andb_true_iff in Hk as [Hk Hv]. apply N.ltb_lt in Hk. apply N.ltb_lt in Hv.
  apply na_bindr; [apply call_ok; [exact Hv|lia|right; exact Hk]|]. intros r0 E Ha. destruct r0; apply IH; exact Hr.
Qed.

Lemma many_fin_na p mn mx zero e cnt last : na (many_fin p mn mx zero e cnt last).
Proof. unfold many_fin. destruct ((cnt <? mn) || (mx <? cnt)); [destruct zero; apply na_ret; reflexivity|]. destruct (0 <? cnt); apply na_ret; reflexivity. Qed.

Lemma many_na w k mx stop fin : RK k < RK i -> k < sz -> NL k = false -> (forall e cnt last, na (fin e cnt last)) ->
  forall n e cnt last, pos <= e <= len -> len - e < N.of_nat n -> na (many_loop o len rec w k mx stop n e cnt last fin).
Proof.
  intros Hk Hv Hnk Hfin. induction n as [|n IH]; intros e cnt last He Hn; [simpl in Hn; lia|].
  simpl. destruct (e <? len) eqn:El; [|apply Hfin]. apply N.ltb_lt in El.
  apply na_ask. pose proof (HS w e (proj2 He)) as Hidx. set (idx := o (QS w e)) in *.
  assert (B : na (bindr (rec k false idx) (fun r => match r with
           | Ok e' _ => if e' =? e then ret (Abort 1) else if e' =? idx then many_loop o len rec w k mx stop n e' cnt last fin
                        else if mx <=? N.succ cnt then fin e' (N.succ cnt) e' else many_loop o len rec w k mx stop n e' (N.succ cnt) e' fin
           | _ => fin e cnt last end))).
  { apply na_bindr; [apply call_ok; [exact Hv|lia|right; exact Hk]|]. intros r E Ha. destruct r as [e' fl| |c]; try apply Hfin.
    pose proof (rec_ok k false idx e' fl (proj2 Hidx) E) as Be.
    destruct (e' =? e) eqn:E1.
    { (* the iteration did not move: the child matched the empty string where it was tried, so it is marked nullable *)
      apply N.eqb_eq in E1. exfalso. assert (e' = idx) by lia.
      pose proof (Hnul k false idx e' fl (proj2 Hidx) E H) as X. simpl in X. congruence. }
    apply N.eqb_neq in E1. assert (Hn' : len - e' < N.of_nat n) by lia.
    destruct (e' =? idx); [apply IH; [lia|exact Hn']|]. destruct (mx <=? N.succ cnt); [apply Hfin|apply IH; [lia|exact Hn']]. }
  destruct stop as [t|]; [|exact B]. apply na_ask. destruct (o (QT t idx) =? 0); [exact B|apply Hfin].
Qed.

(* MatchAll *)
Definition tok (it : titem) : Prop := RK (fst (fst it)) < RK i /\ fst (fst it) < sz.
Definition kok (k : N) : Prop := RK k < RK i /\ k < sz.

Lemma all_scan_na todo : forall e j found none, pos <= e <= len -> Forall tok todo ->
  (forall j' loc, (j <= j' < j + List.length todo)%nat -> e < loc <= len -> na (found j' loc)) -> na none ->
  na (all_scan rec todo e j found none).
Proof.
  induction todo as [|[[k mm] c] r IH]; intros e j found none He Ht Hf Hn; simpl; [exact Hn|].
  inversion Ht as [|? ? Hk Hr]; subst. unfold tok in Hk. simpl in Hk. destruct Hk as [Hk Hv].
  apply na_bindr; [apply call_ok; [exact Hv|lia|right; exact Hk]|]. intros r0 E Ha.
  assert (Hrest : na (all_scan rec r e (S j) found none)).
  { apply IH; auto. intros j' loc Hj Hl. apply Hf; [simpl; lia|exact Hl]. }
  destruct r0 as [loc fl| |c0]; try exact Hrest.
  pose proof (rec_ok k false e loc fl (proj2 He) E) as B.
  destruct (loc =? e) eqn:El; [exact Hrest|]. apply N.eqb_neq in El. apply Hf; [simpl; lia|lia].
Qed.

Lemma bump_tok todo : forall j, Forall tok todo -> Forall tok (fst (bump todo j)).
Proof.
  induction todo as [|[[k [mi ma]] c] r IH]; intros j Ht; simpl; [constructor|].
  inversion Ht as [|? ? Hk Hr]; subst. destruct j as [|j].
  - destruct (ma <=? N.succ c); simpl; [exact Hr|constructor; [exact Hk|exact Hr]].
  - specialize (IH j Hr). destruct (bump r j) as [ts' k']. simpl in *. constructor; [exact Hk|exact IH].
Qed.

Lemma bump_k todo : forall j, (j < List.length todo)%nat -> Forall tok todo -> kok (snd (bump todo j)).
Proof.
  induction todo as [|[[k [mi ma]] c] r IH]; intros j Hj Ht; simpl in *; [lia|].
  inversion Ht as [|? ? Hk Hr]; subst. destruct j as [|j]; [exact Hk|].
  specialize (IH j ltac:(lia) Hr). destruct (bump r j) as [ts' k']. exact IH.
Qed.

Lemma all_phase2_na w order : forall e last, pos <= e <= len -> Forall kok order -> na (all_phase2 o rec w order e last).
Proof.
  induction order as [|k r IH]; intros e last He Ho; simpl; [apply na_ret; reflexivity|].
  inversion Ho as [|? ? [Hk Hv] Hr]; subst.
  apply na_bindr; [apply call_ok; [exact Hv|lia|right; exact Hk]|]. intros r0 E Ha. destruct r0 as [e' fl| |c]; [|apply na_ret; reflexivity|discriminate].
  pose proof (rec_ok k false e e' fl (proj2 He) E) as B. apply na_ask. pose proof (HS w e' (proj2 B)). apply IH; [lia|exact Hr].
Qed.

Lemma kids_kok (kids : list (N * (N * N))) : forallb (fun kd => (RK (fst kd) <? RK i) && (fst kd <? sz)) kids = true -> forall kd, In kd kids -> kok (fst kd).
Proof.
  intros H kd Hin. rewrite forallb_forall in H. specialize (H kd Hin). apply andb_true_iff in H as [H1 H2]. split; apply N.ltb_lt; assumption.
Qed.

Lemma all_fin_na w kids todo order : forallb (fun kd => (RK (fst kd) <? RK i) && (fst kd <? sz)) kids = true -> Forall kok order ->
  na (all_fin o rec w kids pos todo order).
Proof.
  intros Hk Ho. unfold all_fin. destruct (existsb _ todo); [apply na_ret; reflexivity|]. destruct (existsb _ kids); [apply na_ret; reflexivity|].
  destruct (order ++ filter (fun k => negb (memb k order)) (map fst kids)) as [|a r] eqn:Eo; [apply na_ret; reflexivity|].
  apply (all_phase2_na w (a :: r)); [lia|]. rewrite <- Eo. apply Forall_app. split; [exact Ho|].
  apply Forall_forall. intros x Hx. apply filter_In in Hx as [Hx _]. apply in_map_iff in Hx as (kd & <- & Hkd). exact (kids_kok kids Hk kd Hkd).
Qed.

Local Arguments bump : simpl never.
Lemma all_phase1_na w kids : forallb (fun kd => (RK (fst kd) <? RK i) && (fst kd <? sz)) kids = true ->
  forall n todo e order, pos <= e <= len -> len - e < N.of_nat n -> Forall tok todo -> Forall kok order ->
  na (all_phase1 o rec w n todo e order (all_fin o rec w kids pos)).
Proof.
  intros Hk. induction n as [|n IH]; intros todo e order He Hn Ht Ho; [simpl in Hn; lia|].
  simpl. destruct todo as [|t r]; [apply all_fin_na; auto|].
  apply (all_scan_na (t :: r)); [exact He|exact Ht| |apply all_fin_na; auto].
  intros j loc Hj Hl. apply na_ask. pose proof (HS w loc (proj2 Hl)) as Hq.
  pose proof (bump_tok (t :: r) j Ht) as Bt. pose proof (bump_k (t :: r) j ltac:(simpl in *; lia) Ht) as Bk.
  destruct (bump (t :: r) j) as [td x]. simpl in Bt, Bk. apply IH; [lia|lia|exact Bt|].
  apply Forall_app. split; [exact Ho|constructor; [exact Bk|constructor]].
Qed.

Lemma step_na n nd : node_rk_ok i nd = true -> F <= N.of_nat n -> na (step o len rec n nd pos).
Proof.
  intros Hok HFn.
  assert (Hn : len - pos < N.of_nat n).
  { unfold mu in HF. assert ((len - pos) * 1 <= (len - pos) * C) by (apply N.mul_le_mono_l; unfold C; lia). lia. }
  assert (U : forall k, (RK k <? RK i) && (k <? sz) = true -> RK k < RK i /\ k < sz).
  { intros k H. apply andb_true_iff in H as [H1 H2]. split; apply N.ltb_lt; assumption. }
  assert (One : forall k raw (f : res -> res), (RK k <? RK i) && (k <? sz) = true -> (forall r, is_abort r = false -> is_abort (f r) = false) ->
                na (bindr (rec k raw pos) (fun r => ret (f r)))).
  { intros k raw f H Hf. destruct (U k H) as [H1 H2]. apply na_bindr; [apply call_ok; [exact H2|lia|right; exact H1]|]. intros r E Ha. apply na_ret. apply Hf. exact Ha. }
  destruct nd; unfold step; cbn [node_rk_ok] in Hok.
  - apply na_ask. apply na_ret. destruct (o (QT t pos) =? 0); reflexivity.
  - apply andb_true_iff in Hok as [Hs Hv]. apply seq_na; [lia|lia|intros _; exact Hs|exact Hv].
  - apply alt_na. exact Hok.
  - apply or_na. exact Hok.
  - apply (One k false (fun r => match r with Ok e _ => Ok e (e =? pos) | _ => Ok pos true end) Hok). intros r Ha. destruct r; reflexivity.
  - apply andb_true_iff in Hok as [Hok Hnk]. destruct (U k Hok) as [H1 H2]. apply negb_true_iff in Hnk.
    apply many_na; [exact H1|exact H2|exact Hnk|intros; apply many_fin_na|lia|exact Hn].
  - apply (One k false (fun r => match r with Ok e fl => Ok e (pass && fl) | x => x end) Hok). intros r Ha. destruct r; auto.
  - apply (One k true (fun r => match r with Ok e _ => Ok e false | x => x end) Hok). intros r Ha. destruct r; auto.
  - apply (One k false (fun r => match r with Ok _ _ => Fail | _ => Ok pos false end) Hok). intros r Ha. destruct r; reflexivity.
  - apply (One k false (fun r => match r with Ok _ _ => Ok pos false | x => x end) Hok). intros r Ha. destruct r; auto.
  - apply all_phase1_na; [exact Hok|lia|exact Hn| |constructor].
    apply Forall_forall. intros it Hit. apply in_map_iff in Hit as (kd & <- & Hkd). exact (kids_kok kids Hok kd Hkd).
Qed.
End Loops.

Lemma veto_na v raw pos r : is_abort r = false -> na (apply_veto o v raw pos r).
Proof.
  intros H. destruct r as [e fl| |c]; unfold apply_veto; try (apply na_ret; exact H).
  destruct raw; [apply na_ret; exact H|]. destruct v; try (apply na_ret; reflexivity).
  - destruct (e =? pos); apply na_ret; reflexivity.
  - apply na_ask. destruct (o (QD pos e) =? 0); apply na_ret; reflexivity.
Qed.

(* the engine model never aborts once the fuel exceeds the measure of the call *)
Theorem fuel_enough : forall f i raw pos, i < sz -> pos <= len -> mu pos i < N.of_nat f -> na (run T o len f i raw pos).
Proof.
  induction f as [|f IH]; intros i raw pos Hi Hp Hf; [simpl in Hf; lia|].
  simpl. destruct (nth_error T (N.to_nat i)) as [en|] eqn:En.
  2:{ exfalso. apply nth_error_None in En. unfold sz in Hi. lia. }
  apply na_bindr.
  - apply (step_na (run T o len f) (N.of_nat f) i pos Hp ltac:(lia)
             (fun k raw' p Hp' => run_in_bounds o len HT HS T f k raw' p Hp')
             (fun k raw' p e fl Hp' E E2 => run_null T o len NL NLR nlt HT HS HT0 Hnl f k raw' p e fl Hp' E E2)
             (fun k raw' p Hk Hp' Hm => IH k raw' p Hk Hp' Hm) f (e_node en) (Hrk i en En)). lia.
  - intros r E Ha. apply veto_na. exact Ha.
Qed.

(* ... and the whole-input parse with it: it ends in a match or a failure *)
Theorem parse_all_total f root w0 : root < sz -> (len + 1) * C + RK root + 1 < N.of_nat f -> is_abort (fst (parse_all T o len f root w0)) = false.
Proof.
  intros Hroot Hf. unfold parse_all. change (na (ask o (QS w0 0) (fun start => bindr (run T o len f root false start) (fun r => match r with
      | Ok e fl => ask o (QS w0 e) (fun e' => ret (if e' =? len then Ok e' fl else Fail)) | x => ret x end)))).
  apply na_ask. pose proof (HS w0 0 ltac:(lia)) as Hs. set (st := o (QS w0 0)) in *.
  assert (G : na (run T o len f root false st)).
  { apply fuel_enough; [exact Hroot|lia|]. unfold mu. assert ((len - st) * C <= len * C) by (apply N.mul_le_mono_r; lia).
    assert ((len + 1) * C = len * C + C) by (rewrite N.mul_add_distr_r; lia). unfold C in *. lia. }
  apply na_bindr; [exact G|]. intros r E Ha. destruct r as [e fl| |c]; [apply na_ask; apply na_ret; destruct (_ =? len); reflexivity|apply na_ret; reflexivity|discriminate].
Qed.
End Fuel.
