(* Proofs about Model/Scrub.v: the recorded NULL slots are exactly the marker positions (C11),
   for every callback mode; ported from the design-phase prototype and extended to normal_op / custom. *)
From Coq Require Import List ZArith String Bool Lia.
From MoSql Require Import Base.Json Model.Scrub.
Import ListNotations.
Open Scope string_scope.
Open Scope list_scope.

Notation str_eqb := String.eqb.
Lemma str_eqb_spec : forall a b, str_eqb a b = true <-> a = b.
Proof. intros. apply String.eqb_eq. Qed.
Lemma apply_all_app x p1 p2 v : apply_all x (p1 ++ p2) v = apply_all x p2 (apply_all x p1 v).
Proof. unfold apply_all. apply fold_left_app. Qed.
Lemma apply_all_nil x v : apply_all x [] v = v. Proof. reflexivity. Qed.
Lemma apply_all_cons x p ps v : apply_all x (p :: ps) v = apply_all x ps (set_at p x v). Proof. reflexivity. Qed.

(* lists *)
Lemma list_upd_compose i f g l : list_upd i g (list_upd i f l) = list_upd i (fun v => g (f v)) l.
Proof. revert i. induction l as [|a l IH]; intros [|i]; simpl; auto. rewrite IH. reflexivity. Qed.
Lemma list_upd_ext i f g l : (forall v, f v = g v) -> list_upd i f l = list_upd i g l.
Proof. intros H. revert i. induction l as [|a l IH]; intros [|i]; simpl; auto; [rewrite H|rewrite IH]; reflexivity. Qed.
Lemma list_upd_id i l : list_upd i (fun v => v) l = l.
Proof. revert i. induction l as [|a l IH]; intros [|i]; simpl; auto. rewrite IH. reflexivity. Qed.
Lemma list_upd_app i f pre a t : List.length pre = i -> list_upd i f (pre ++ a :: t) = pre ++ f a :: t.
Proof. revert i. induction pre as [|b pre IH]; intros i H; simpl in *; subst; auto. simpl. rewrite IH; auto. Qed.

Lemma apply_under_index x i ps l :
  apply_all x (map (cons (I i)) ps) (JList l) = JList (list_upd i (apply_all x ps) l).
Proof. revert l. induction ps as [|p ps IH]; intros l.
  - cbn [map]. rewrite apply_all_nil. rewrite (list_upd_ext i (apply_all x []) (fun v => v)) by reflexivity.
    rewrite list_upd_id. reflexivity.
  - cbn [map]. rewrite apply_all_cons. cbn [set_at]. rewrite IH. rewrite list_upd_compose.
    apply f_equal. apply list_upd_ext. intros v. reflexivity.
Qed.


(* ---------- lists ---------- *)
Definition done (x:jv) (r:res) : jv := apply_all x (snd r) (fst r).

Lemma list_slots_apply x : forall out i pre, List.length pre = i ->
  apply_all x (list_slots i out) (JList (pre ++ map fst out)) = JList (pre ++ map (done x) out).
Proof.
  induction out as [|[v ps] t IH]; intros i pre Hlen; cbn [list_slots map].
  - reflexivity.
  - rewrite apply_all_app, apply_under_index.
    cbn [fst]. rewrite (list_upd_app i (apply_all x ps) pre v (map fst t) Hlen).
    replace (pre ++ apply_all x ps v :: map fst t) with ((pre ++ [apply_all x ps v]) ++ map fst t)
      by (rewrite <- app_assoc; reflexivity).
    rewrite (IH (S i) (pre ++ [apply_all x ps v])) by (rewrite app_length; simpl; lia).
    rewrite <- app_assoc. reflexivity.
Qed.

Lemma subst'_not_mark x v : is_mark v = false -> subst' x v = subst x v.
Proof. destruct v; simpl; auto; discriminate. Qed.

Lemma list_marks_apply x : forall out i pre, List.length pre = i ->
  apply_all x (list_marks i out) (JList (pre ++ map (fun r => subst' x (fst r)) out))
  = JList (pre ++ map (fun r => subst x (fst r)) out).
Proof.
  induction out as [|[v ps] t IH]; intros i pre Hlen; cbn [list_marks map fst].
  - reflexivity.
  - rewrite apply_all_app. destruct (is_mark v) eqn:Em.
    + destruct v; try discriminate. cbn [subst' subst].
      rewrite apply_all_cons, apply_all_nil. cbn [set_at].
      rewrite (list_upd_app i (fun _ => x) pre JMark _ Hlen).
      replace (pre ++ x :: map (fun r => subst' x (fst r)) t)
        with ((pre ++ [x]) ++ map (fun r => subst' x (fst r)) t) by (rewrite <- app_assoc; reflexivity).
      rewrite (IH (S i) (pre ++ [x])) by (rewrite app_length; simpl; lia).
      rewrite <- app_assoc. reflexivity.
    + rewrite apply_all_nil. rewrite (subst'_not_mark x v Em).
      replace (pre ++ subst x v :: map (fun r => subst' x (fst r)) t)
        with ((pre ++ [subst x v]) ++ map (fun r => subst' x (fst r)) t) by (rewrite <- app_assoc; reflexivity).
      rewrite (IH (S i) (pre ++ [subst x v])) by (rewrite app_length; simpl; lia).
      rewrite <- app_assoc. reflexivity.
Qed.

Lemma pack_list_correct x out :
  Forall (fun r => done x r = subst' x (fst r)) out ->
  apply_all x (list_slots 0 out ++ list_marks 0 out) (JList (map fst out)) = subst x (JList (map fst out)).
Proof.
  intros HF. rewrite apply_all_app.
  change (JList (map fst out)) with (JList ([] ++ map fst out)) at 1.
  rewrite (list_slots_apply x out 0 [] eq_refl). cbn [app].
  replace (map (done x) out) with (map (fun r => subst' x (fst r)) out).
  2:{ induction HF as [|r t Hr Ht IH]; simpl; auto. rewrite Hr, IH. reflexivity. }
  change (JList (map (fun r => subst' x (fst r)) out)) with (JList ([] ++ map (fun r => subst' x (fst r)) out)).
  rewrite (list_marks_apply x out 0 [] eq_refl). cbn [app subst].
  rewrite map_map. reflexivity.
Qed.


(* ---------- dicts ---------- *)
Lemma eqb_refl k : str_eqb k k = true.
Proof. apply str_eqb_spec. reflexivity. Qed.
Lemma eqb_neq k k' : k <> k' -> str_eqb k k' = false.
Proof. intros H. destruct (str_eqb k k') eqn:E; auto. apply str_eqb_spec in E. contradiction. Qed.

Lemma dict_upd_compose k f g d : dict_upd k g (dict_upd k f d) = dict_upd k (fun v => g (f v)) d.
Proof. induction d as [|[k' v] d IH]; simpl; auto.
  destruct (str_eqb k k') eqn:E; simpl; rewrite E; auto. rewrite IH. reflexivity. Qed.
Lemma dict_upd_ext k f g d : (forall v, f v = g v) -> dict_upd k f d = dict_upd k g d.
Proof. intros H. induction d as [|[k' v] d IH]; simpl; auto.
  destruct (str_eqb k k'); [rewrite H|rewrite IH]; reflexivity. Qed.
Lemma dict_upd_id k d : dict_upd k (fun v => v) d = d.
Proof. induction d as [|[k' v] d IH]; simpl; auto. destruct (str_eqb k k'); auto. rewrite IH. reflexivity. Qed.
Lemma dict_upd_app k f pre v t :
  ~ In k (map fst pre) -> dict_upd k f (pre ++ (k,v) :: t) = pre ++ (k, f v) :: t.
Proof. induction pre as [|[k' v'] pre IH]; intros H; simpl.
  - rewrite eqb_refl. reflexivity.
  - simpl in H. rewrite eqb_neq by (intros ->; apply H; left; reflexivity).
    rewrite IH by (intros Hin; apply H; right; exact Hin). reflexivity. Qed.

Lemma apply_under_key x k ps d :
  apply_all x (map (cons (K k)) ps) (JDict d) = JDict (dict_upd k (apply_all x ps) d).
Proof. revert d. induction ps as [|p ps IH]; intros d.
  - cbn [map]. rewrite apply_all_nil. rewrite (dict_upd_ext k (apply_all x []) (fun v => v)) by reflexivity.
    rewrite dict_upd_id. reflexivity.
  - cbn [map]. rewrite apply_all_cons. cbn [set_at]. rewrite IH. rewrite dict_upd_compose.
    apply f_equal. apply dict_upd_ext. intros v. reflexivity.
Qed.

Definition proj (kv:string*res) : string*jv := (fst kv, fst (snd kv)).

Lemma dict_slots_apply x : forall out pre, NoDup (keys pre ++ keys out) ->
  apply_all x (dict_slots out) (JDict (pre ++ map proj out))
  = JDict (pre ++ map (fun kv => (fst kv, done x (snd kv))) out).
Proof.
  induction out as [|[k [v ps]] t IH]; intros pre Hnd; cbn [dict_slots map].
  - reflexivity.
  - rewrite apply_all_app, apply_under_key. unfold proj at 1. cbn [fst snd].
    assert (Hk : ~ In k (keys pre)).
    { unfold keys in *. cbn [map fst] in Hnd. apply NoDup_remove_2 in Hnd.
      intros Hin. apply Hnd. apply in_or_app. left. exact Hin. }
    rewrite (dict_upd_app k (apply_all x ps) pre v _ Hk).
    replace (pre ++ (k, apply_all x ps v) :: map proj t)
      with ((pre ++ [(k, apply_all x ps v)]) ++ map proj t) by (rewrite <- app_assoc; reflexivity).
    rewrite IH.
    + rewrite <- app_assoc. reflexivity.
    + unfold keys in *. rewrite map_app. cbn [map fst]. rewrite <- app_assoc. exact Hnd.
Qed.

Lemma dict_marks_apply x : forall out pre, NoDup (keys pre ++ keys out) ->
  apply_all x (dict_marks out) (JDict (pre ++ map (fun kv => (fst kv, subst' x (fst (snd kv)))) out))
  = JDict (pre ++ map (fun kv => (fst kv, subst x (fst (snd kv)))) out).
Proof.
  induction out as [|[k [v ps]] t IH]; intros pre Hnd; cbn [dict_marks map fst snd].
  - reflexivity.
  - assert (Hk : ~ In k (keys pre)).
    { unfold keys in *. cbn [map fst] in Hnd. apply NoDup_remove_2 in Hnd.
      intros Hin. apply Hnd. apply in_or_app. left. exact Hin. }
    assert (Hnd' : forall w, NoDup (keys (pre ++ [(k, w)]) ++ keys t)).
    { intros w. unfold keys in *. rewrite map_app. cbn [map fst]. rewrite <- app_assoc. exact Hnd. }
    rewrite apply_all_app. destruct (is_mark v) eqn:Em.
    + destruct v; try discriminate. cbn [subst' subst].
      rewrite apply_all_cons, apply_all_nil. cbn [set_at].
      rewrite (dict_upd_app k (fun _ => x) pre JMark _ Hk).
      replace (pre ++ (k, x) :: map (fun kv => (fst kv, subst' x (fst (snd kv)))) t)
        with ((pre ++ [(k, x)]) ++ map (fun kv => (fst kv, subst' x (fst (snd kv)))) t)
        by (rewrite <- app_assoc; reflexivity).
      rewrite IH by apply Hnd'. rewrite <- app_assoc. reflexivity.
    + rewrite apply_all_nil. rewrite (subst'_not_mark x v Em).
      replace (pre ++ (k, subst x v) :: map (fun kv => (fst kv, subst' x (fst (snd kv)))) t)
        with ((pre ++ [(k, subst x v)]) ++ map (fun kv => (fst kv, subst' x (fst (snd kv)))) t)
        by (rewrite <- app_assoc; reflexivity).
      rewrite IH by apply Hnd'. rewrite <- app_assoc. reflexivity.
Qed.

Lemma pack_dict_correct x out :
  NoDup (keys out) ->
  Forall (fun kv => done x (snd kv) = subst' x (fst (snd kv))) out ->
  apply_all x (snd (pack_d out)) (fst (pack_d out)) = subst x (fst (pack_d out)).
Proof.
  intros Hnd HF. unfold pack_d. cbn [fst snd]. rewrite apply_all_app.
  pose proof (dict_slots_apply x out [] Hnd) as H1. cbn [app] in H1. unfold proj in H1.
  unfold res in *. rewrite H1.
  assert (E : map (fun kv : string*(jv * list path) => (fst kv, done x (snd kv))) out
            = map (fun kv : string*(jv * list path) => (fst kv, subst' x (fst (snd kv)))) out).
  { clear H1 Hnd. induction HF as [|r t Hr Ht IH]; simpl; auto. rewrite Hr, IH. reflexivity. }
  rewrite E.
  pose proof (dict_marks_apply x out [] Hnd) as H2. cbn [app] in H2. rewrite H2.
  cbn [subst]. rewrite map_map. reflexivity.
Qed.


(* ---------- head validity of recorded slots ---------- *)
Definition head_ok (v:jv) (p:path) : Prop :=
  match p, v with
  | K k :: _, JDict d => In k (keys d)
  | I i :: _, JList l => i < List.length l
  | _, _ => False
  end.
Definition heads_ok (v:jv) (ps:list path) : Prop := Forall (head_ok v) ps.

Lemma keys_dict_upd k f d : keys (dict_upd k f d) = keys d.
Proof. unfold keys. induction d as [|[k' v] d IH]; simpl; auto.
  destruct (str_eqb k k'); simpl; auto. rewrite IH. reflexivity. Qed.
Lemma dict_upd_app_l k f d e : In k (keys d) -> dict_upd k f (d ++ e) = dict_upd k f d ++ e.
Proof. unfold keys. induction d as [|[k' v] d IH]; simpl; intros H; [contradiction|].
  destruct (str_eqb k k') eqn:E; auto.
  destruct H as [H|H]; [subst; rewrite eqb_refl in E; discriminate|]. rewrite IH; auto. Qed.

Lemma apply_dict_ext x e : forall ps d, heads_ok (JDict d) ps ->
  exists d', apply_all x ps (JDict d) = JDict d' /\ apply_all x ps (JDict (d ++ e)) = JDict (d' ++ e)
             /\ keys d' = keys d.
Proof.
  induction ps as [|p ps IH]; intros d H.
  - exists d. repeat split; reflexivity.
  - inversion H as [|? ? Hp Hps]; subst. destruct p as [|[k|i] p']; simpl in Hp; try contradiction.
    rewrite !apply_all_cons. cbn [set_at].
    rewrite (dict_upd_app_l k (set_at p' x) d e Hp).
    destruct (IH (dict_upd k (set_at p' x) d)) as (d' & E1 & E2 & E3).
    { unfold heads_ok in *. eapply Forall_impl; [|exact Hps].
      intros q Hq. destruct q as [|[k2|i2] q']; simpl in *; auto. rewrite keys_dict_upd. exact Hq. }
    exists d'. rewrite E1, E2, E3, keys_dict_upd. repeat split; reflexivity.
Qed.

Lemma dict_set_notin op va d : ~ In op (keys d) -> dict_set op va d = d ++ [(op, va)].
Proof. unfold keys. induction d as [|[k v] d IH]; simpl; intros H; auto.
  rewrite eqb_neq by (intros ->; apply H; left; reflexivity).
  rewrite IH by (intros Hin; apply H; right; exact Hin). reflexivity. Qed.

Lemma heads_list_slots : forall out i n, i + List.length out <= n ->
  Forall (fun p => match p with I j :: _ => j < n | _ => False end) (list_slots i out).
Proof. induction out as [|[v ps] t IH]; intros i n H; cbn [list_slots]; [constructor|].
  apply Forall_app; split.
  - apply Forall_forall. intros p Hp. apply in_map_iff in Hp. destruct Hp as (q & <- & _). simpl in H. lia.
  - apply IH. simpl in H. lia. Qed.
Lemma heads_list_marks : forall out i n, i + List.length out <= n ->
  Forall (fun p => match p with I j :: _ => j < n | _ => False end) (list_marks i out).
Proof. induction out as [|[v ps] t IH]; intros i n H; cbn [list_marks]; [constructor|].
  apply Forall_app; split.
  - destruct (is_mark v); constructor; [simpl in H; lia|constructor].
  - apply IH. simpl in H. lia. Qed.
Lemma heads_dict_slots : forall out, Forall (fun p => match p with K k :: _ => In k (keys out) | _ => False end) (dict_slots out).
Proof. induction out as [|[k [v ps]] t IH]; cbn [dict_slots]; [constructor|].
  apply Forall_app; split.
  - apply Forall_forall. intros p Hp. apply in_map_iff in Hp. destruct Hp as (q & <- & _). left. reflexivity.
  - eapply Forall_impl; [|exact IH]. intros p Hp. destruct p as [|[k2|i2] q]; auto. right. exact Hp. Qed.
Lemma heads_dict_marks : forall out, Forall (fun p => match p with K k :: _ => In k (keys out) | _ => False end) (dict_marks out).
Proof. induction out as [|[k [v ps]] t IH]; cbn [dict_marks]; [constructor|].
  apply Forall_app; split.
  - destruct (is_mark v); constructor; [left; reflexivity|constructor].
  - eapply Forall_impl; [|exact IH]. intros p Hp. destruct p as [|[k2|i2] q]; auto. right. exact Hp. Qed.

(* the property carried through the induction *)
Definition okres (x:jv) (r:res) : Prop := done x r = subst' x (fst r) /\ heads_ok (fst r) (snd r).

Lemma subst'_container x v : is_mark v = false -> subst' x v = subst x v.
Proof. apply subst'_not_mark. Qed.

Lemma pack_s_ok x out r : Forall (okres x) out -> pack_s out = Some r -> okres x r.
Proof.
  intros HF E. destruct out as [|a [|b t]]; cbv beta iota delta [pack_s] in E; try discriminate.
  - injection E as <-. inversion HF; auto.
  - injection E as <-. split.
    + unfold done. cbn [fst snd].
      refine (eq_trans (pack_list_correct x (a :: b :: t) _) _); [|reflexivity].
      eapply Forall_impl; [|exact HF]. intros r [H _]. exact H.
    + unfold heads_ok. cbn [fst snd]. apply Forall_app; split.
      * eapply Forall_impl; [|apply (heads_list_slots (a :: b :: t) 0 (List.length (a :: b :: t))); lia].
        intros p Hp. destruct p as [|[k|i] q]; simpl in *; try contradiction. rewrite map_length. exact Hp.
      * eapply Forall_impl; [|apply (heads_list_marks (a :: b :: t) 0 (List.length (a :: b :: t))); lia].
        intros p Hp. destruct p as [|[k|i] q]; simpl in *; try contradiction. rewrite map_length. exact Hp.
Qed.

Lemma pack_d_ok x out : NoDup (keys out) -> Forall (fun kv => okres x (snd kv)) out -> okres x (pack_d out).
Proof.
  intros Hnd HF. split.
  - unfold done. refine (eq_trans (pack_dict_correct x out Hnd _) _); [|reflexivity].
    eapply Forall_impl; [|exact HF]. intros kv [H _]. exact H.
  - unfold pack_d, heads_ok. cbn [fst snd]. apply Forall_app; split.
    + eapply Forall_impl; [|apply heads_dict_slots]. intros p Hp.
      destruct p as [|[k|i] q]; simpl in *; try contradiction. unfold keys in *. rewrite map_map. exact Hp.
    + eapply Forall_impl; [|apply heads_dict_marks]. intros p Hp.
      destruct p as [|[k|i] q]; simpl in *; try contradiction. unfold keys in *. rewrite map_map. exact Hp.
Qed.



Lemma pack_l_ok x out : Forall (okres x) out -> okres x (pack_l out).
Proof.
  intros HF. split.
  - unfold done, pack_l. cbn [fst snd].
    refine (eq_trans (pack_list_correct x out _) _); [|reflexivity].
    eapply Forall_impl; [|exact HF]. intros r [H _]. exact H.
  - unfold heads_ok, pack_l. cbn [fst snd]. apply Forall_app; split.
    + eapply Forall_impl; [|apply (heads_list_slots out 0 (List.length out)); lia].
      intros p Hp. destruct p as [|[k|i] q]; simpl in *; try contradiction. rewrite map_length. exact Hp.
    + eapply Forall_impl; [|apply (heads_list_marks out 0 (List.length out)); lia].
      intros p Hp. destruct p as [|[k|i] q]; simpl in *; try contradiction. rewrite map_length. exact Hp.
Qed.

(* ---------- induction principle, side conditions, main theorem ---------- *)
Section RawInd.
Variable P : raw -> Prop.
Hypotheses (HNone : P RNone) (HMark : P RMark) (HStr : forall s, P (RStr s)) (HInt : forall z, P (RInt z))
  (HBool : forall b, P (RBool b)) (HFloat : forall f, P (RFloat f))
  (HCall : forall op a k, P a -> Forall (fun kv => P (snd kv)) k -> P (RCall op a k))
  (HDict : forall kvs, Forall (fun kv => P (snd kv)) kvs -> P (RDict kvs))
  (HList : forall xs, Forall P xs -> P (RList xs))
  (HPR : forall t named flat, Forall (fun kv => Forall P (snd kv)) named -> Forall P flat -> P (RPR t named flat)).
Fixpoint raw_ind' (r:raw) : P r :=
  match r with
  | RNone => HNone | RMark => HMark | RStr s => HStr s | RInt z => HInt z | RBool b => HBool b | RFloat f => HFloat f
  | RCall op a k => HCall op a k (raw_ind' a) ((fix go l : Forall (fun kv => P (snd kv)) l :=
                     match l with [] => Forall_nil _ | kv :: t => Forall_cons kv (raw_ind' (snd kv)) (go t) end) k)
  | RDict kvs => HDict kvs ((fix go l : Forall (fun kv => P (snd kv)) l :=
                     match l with [] => Forall_nil _ | kv :: t => Forall_cons kv (raw_ind' (snd kv)) (go t) end) kvs)
  | RList xs => HList xs ((fix go l : Forall P l :=
                     match l with [] => Forall_nil _ | x :: t => Forall_cons x (raw_ind' x) (go t) end) xs)
  | RPR t named flat =>
      HPR t named flat
        ((fix gon l : Forall (fun kv => Forall P (snd kv)) l :=
            match l with [] => Forall_nil _
            | kv :: t => Forall_cons kv ((fix go l : Forall P l :=
                     match l with [] => Forall_nil _ | x :: t => Forall_cons x (raw_ind' x) (go t) end) (snd kv)) (gon t) end) named)
        ((fix go l : Forall P l :=
                     match l with [] => Forall_nil _ | x :: t => Forall_cons x (raw_ind' x) (go t) end) flat)
  end.
End RawInd.

Section Main.
Variable m : mode.
Variable fm : fmap_t.

(* side conditions: dict keys / result names duplicate-free (always true of Python dicts), and under simple_op
   no call whose (renamed) operator name is also one of its keyword-argument names *)
Inductive good : raw -> Prop :=
| GNone : good RNone | GMark : good RMark
| GStr s : good (RStr s) | GInt z : good (RInt z) | GBool b : good (RBool b) | GFloat f : good (RFloat f)
| GCall op a k : good a -> NoDup (keys k) -> Forall (fun kv => good (snd kv)) k ->
    (m = MSimple -> ~ In (fmap_get fm op) (keys k)) -> good (RCall op a k)
| GDict kvs : NoDup (keys kvs) -> Forall (fun kv => good (snd kv)) kvs -> good (RDict kvs)
| GList xs : Forall good xs -> good (RList xs)
| GPR t named flat : NoDup (keys named) -> Forall (fun kv => Forall good (snd kv)) named -> Forall good flat ->
    good (RPR t named flat).

Fixpoint nodupb (l : list string) : bool :=
  match l with [] => true | x :: t => negb (mem x t) && nodupb t end.
Lemma nodupb_NoDup l : nodupb l = true -> NoDup l.
Proof. induction l as [|x t IH]; simpl; intros H; constructor.
  - apply andb_true_iff in H as [H _]. intros Hin. apply mem_In in Hin. rewrite Hin in H. discriminate.
  - apply andb_true_iff in H as [_ H]. auto. Qed.

Definition is_simple (m : mode) : bool := match m with MSimple => true | _ => false end.

Fixpoint goodb (r : raw) : bool :=
  match r with
  | RCall op a k => goodb a && nodupb (keys k) && forallb (fun kv => goodb (snd kv)) k
                    && (negb (is_simple m) || negb (mem (fmap_get fm op) (keys k)))
  | RDict kvs => nodupb (keys kvs) && forallb (fun kv => goodb (snd kv)) kvs
  | RList xs => forallb goodb xs
  | RPR _ named flat => nodupb (keys named) && forallb (fun kv => forallb goodb (snd kv)) named && forallb goodb flat
  | _ => true
  end.

Lemma goodb_good : forall r, goodb r = true -> good r.
Proof.
  induction r as [| |s|z|b|f|op a k IHa IHk|kvs IH|xs IH|t named flat IHn IHf] using raw_ind';
    intros H; simpl in H; try constructor.
  - repeat (apply andb_true_iff in H as [H ?]). auto.
  - repeat (apply andb_true_iff in H as [H ?]). apply nodupb_NoDup; auto.
  - repeat (apply andb_true_iff in H as [H ?]).
    match goal with Hf : forallb _ k = true |- _ => rewrite forallb_forall in Hf; rename Hf into Hf' end.
    apply Forall_forall. intros kv Hin. rewrite Forall_forall in IHk. apply IHk; auto.
  - repeat (apply andb_true_iff in H as [H ?]). intros Hm Hin. rewrite Hm in *. simpl in *.
    apply mem_In in Hin.
    match goal with Hc : negb (mem _ _) = true |- _ => rewrite Hin in Hc; discriminate end.
  - apply andb_true_iff in H as [H _]. apply nodupb_NoDup; auto.
  - apply andb_true_iff in H as [_ H]. rewrite forallb_forall in H.
    apply Forall_forall. intros kv Hin. rewrite Forall_forall in IH. apply IH; auto.
  - rewrite forallb_forall in H. apply Forall_forall. intros x Hin. rewrite Forall_forall in IH. apply IH; auto.
  - repeat (apply andb_true_iff in H as [H ?]). apply nodupb_NoDup; auto.
  - repeat (apply andb_true_iff in H as [H ?]).
    match goal with Hf : forallb _ named = true |- _ => rewrite forallb_forall in Hf; rename Hf into Hf' end.
    apply Forall_forall. intros kv Hin. rewrite Forall_forall in IHn. specialize (IHn kv Hin). specialize (Hf' kv Hin).
    rewrite forallb_forall in Hf'. apply Forall_forall. intros x Hx. rewrite Forall_forall in IHn. apply IHn; auto.
  - repeat (apply andb_true_iff in H as [H ?]).
    match goal with Hf : forallb goodb flat = true |- _ => rewrite forallb_forall in Hf; rename Hf into Hf' end.
    apply Forall_forall. intros x Hin. rewrite Forall_forall in IHf. apply IHf; auto.
Qed.

Lemma in_keys_filter_map {A B} (f:A -> option B) k l :
  In k (keys (filter_map (kv_opt f) l)) -> In k (keys l).
Proof. unfold keys. induction l as [|[k' a] l IH]; simpl; auto.
  unfold kv_opt at 1. simpl. destruct (f a); simpl; intros H.
  - destruct H; auto.
  - auto. Qed.
Lemma nodup_keys_filter_map {A B} (f:A -> option B) l :
  NoDup (keys l) -> NoDup (keys (filter_map (kv_opt f) l)).
Proof. unfold keys. induction l as [|[k a] l IH]; simpl; intros H; [constructor|].
  inversion H as [|? ? Hk Hl]; subst. unfold kv_opt at 1. simpl. destruct (f a); simpl; auto.
  constructor; auto. intros Hin. apply Hk. apply (in_keys_filter_map f k l). exact Hin. Qed.

Lemma okres_atom x v : is_mark v = true \/ subst x v = v -> okres x (v, []).
Proof. intros H. split; [|constructor]. unfold done. cbn. destruct v; cbn in *; auto;
  destruct H as [H|H]; try discriminate; auto. Qed.

Lemma nonsimple_args_ok x ar :
  (forall r, ar = Some r -> okres x r) -> forall r, nonsimple_args ar = Some r -> okres x r.
Proof.
  intros H r E. destruct ar as [[v ps]|]; simpl in E; try discriminate.
  destruct v; try (injection E as <-; apply H; reflexivity).
  injection E as <-. apply pack_l_ok. constructor; [apply H; reflexivity|constructor].
Qed.

Lemma wrap_args_ok x ar :
  (forall r, ar = Some r -> okres x r) -> Forall (fun kv => okres x (snd kv)) (wrap_args ar).
Proof.
  intros H. destruct ar as [[v ps]|]; simpl; [|constructor].
  assert (Hr : okres x (v, ps)) by (apply H; reflexivity).
  destruct v; try (constructor; [|constructor]; simpl; apply pack_l_ok; constructor; [exact Hr|constructor]).
  destruct l; constructor; auto.
Qed.

Lemma keys_cons {A} k (v:A) t : keys ((k, v) :: t) = k :: keys t. Proof. reflexivity. Qed.
Lemma keys_app {A} (a b : list (string * A)) : keys (a ++ b) = keys a ++ keys b. Proof. apply map_app. Qed.
Lemma keys_wrap_args ar : keys (wrap_args ar) = [] \/ keys (wrap_args ar) = ["args"].
Proof. destruct ar as [[v ps]|]; simpl; auto. destruct v; simpl; auto. destruct l; simpl; auto. Qed.

Theorem slots_exact x : forall r, good r -> forall res0, scrub_s m fm r = Some res0 -> okres x res0.
Proof.
  induction r as [| |s|z|b|f|op a k IHa IHk|kvs IH|xs IH|t named flat IHn IHf] using raw_ind';
    intros Hg res0 E; simpl in E; try discriminate;
    try (injection E as <-; split; [reflexivity|constructor]).
  - (* Call *)
    inversion Hg as [| | | | | |op' a' k' Ga Hnd Gk Hcol| | |]; subst.
    set (kw := pack_d (filter_map (kv_opt (scrub_s m fm)) k)) in *.
    assert (Hkw : okres x kw).
    { subst kw. apply pack_d_ok.
      - apply nodup_keys_filter_map. exact Hnd.
      - assert (HF2 : Forall (fun kv => good (snd kv) /\ (good (snd kv) -> forall res0, scrub_s m fm (snd kv) = Some res0 -> okres x res0)) k).
        { clear - IHk Gk. induction IHk; inversion Gk; subst; constructor; auto. }
        eapply filter_map_Forall; [exact HF2|].
        intros [k0 a0] [k1 r1] [Hga Hia] Hkv. unfold kv_opt in Hkv. simpl in *.
        destruct (scrub_s m fm a0) eqn:Ea; try discriminate. injection Hkv as <- <-. simpl. apply Hia; auto. }
    assert (Har : forall r, scrub_s m fm a = Some r -> okres x r) by (intros r Er; apply IHa; auto).
    assert (Hkk : forall d pk o, kw = (JDict d, pk) -> In o (keys d) -> In o (keys k)).
    { intros d pk o Ekw Hin. subst kw. unfold pack_d in Ekw. injection Ekw as Ed _. subst d.
      unfold keys in Hin. rewrite map_map in Hin. simpl in Hin.
      apply (in_keys_filter_map (scrub_s m fm)). unfold keys. exact Hin. }
    clearbody kw.
    destruct m eqn:Em0; simpl in E.
    + (* simple_op *)
      destruct kw as [vk pk] eqn:Ekw. destruct vk as [| | | | | | |d]; try discriminate.
      destruct Hkw as [Hk1 Hk2]. unfold done in Hk1. cbn [fst snd] in Hk1, Hk2.
      assert (Hop : ~ In (fmap_get fm op) (keys d)).
      { intros Hin. apply (Hcol eq_refl). eapply Hkk; eauto. }
      set (op1 := fmap_get fm op) in *.
      set (ra := match scrub_s MSimple fm a with Some x0 => x0 | None => (JDict [], []) end) in *.
      assert (Hra : okres x ra).
      { subst ra. destruct (scrub_s MSimple fm a) as [ra|] eqn:Ea; [apply Har; auto|]. split; [reflexivity|constructor]. }
      destruct ra as [va pa]. destruct Hra as [Ha1 Ha2]. unfold done in Ha1. cbn [fst snd] in Ha1, Ha2.
      injection E as <-.
      rewrite (dict_set_notin op1 va d Hop).
      split.
      * unfold done. cbn [fst snd]. rewrite !apply_all_app.
        destruct (apply_dict_ext x [(op1, va)] pk d Hk2) as (d' & E1 & E2 & E3).
        rewrite E2. rewrite Hk1 in E1. cbn [subst' subst] in E1. injection E1 as <-.
        rewrite apply_under_key.
        rewrite dict_upd_app by (fold (keys (map (fun kv => (fst kv, subst x (snd kv))) d)); rewrite E3; exact Hop).
        rewrite Ha1.
        destruct (is_mark va) eqn:Em.
        -- destruct va; try discriminate. cbn [subst']. rewrite apply_all_cons, apply_all_nil. cbn [set_at].
           rewrite dict_upd_app by (fold (keys (map (fun kv => (fst kv, subst x (snd kv))) d)); rewrite E3; exact Hop).
           cbn [subst' subst]. rewrite map_app. reflexivity.
        -- rewrite apply_all_nil. rewrite (subst'_not_mark x va Em). cbn [subst' subst]. rewrite map_app. reflexivity.
      * unfold heads_ok. cbn [fst snd]. apply Forall_app; split; [|apply Forall_app; split].
        -- eapply Forall_impl; [|exact Hk2]. intros p Hp. destruct p as [|[k2|i2] q]; simpl in *; try contradiction.
           unfold keys in *. rewrite map_app. apply in_or_app. left. exact Hp.
        -- apply Forall_forall. intros p Hp. apply in_map_iff in Hp. destruct Hp as (q & <- & _). simpl.
           unfold keys. rewrite map_app. apply in_or_app. right. left. reflexivity.
        -- destruct (is_mark va); constructor; [|constructor]. simpl.
           unfold keys. rewrite map_app. apply in_or_app. right. left. reflexivity.
    + (* normal_op *)
      injection E as <-. apply pack_d_ok.
      * cbn [app]. rewrite keys_cons, keys_app.
        destruct (keys_wrap_args (nonsimple_args (scrub_s MNormal fm a))) as [Ek|Ek]; rewrite Ek;
          destruct (dict_nonempty kw); simpl; repeat constructor; simpl; intuition discriminate.
      * cbn [app]. constructor; [apply okres_atom; right; reflexivity|].
        apply Forall_app; split.
        -- apply wrap_args_ok. apply nonsimple_args_ok. exact Har.
        -- destruct (dict_nonempty kw); constructor; auto.
    + (* record *)
      injection E as <-. apply pack_d_ok.
      * cbn [app]. rewrite keys_cons, keys_app.
        destruct (nonsimple_args (scrub_s MRecord fm a)); destruct (dict_nonempty kw); simpl;
          repeat constructor; simpl; intuition discriminate.
      * cbn [app]. constructor; [apply okres_atom; right; reflexivity|].
        apply Forall_app; split.
        -- destruct (nonsimple_args (scrub_s MRecord fm a)) eqn:En; constructor; [|constructor].
           simpl. eapply nonsimple_args_ok; [exact Har|exact En].
        -- destruct (dict_nonempty kw); constructor; auto.
  - (* Dict *)
    inversion Hg as [| | | | | | |kvs' Hnd HF| |]; subst. injection E as <-.
    apply pack_d_ok.
    + apply nodup_keys_filter_map. exact Hnd.
    + assert (HF2 : Forall (fun kv => good (snd kv) /\ (good (snd kv) -> forall res0, scrub_s m fm (snd kv) = Some res0 -> okres x res0)) kvs).
      { clear - IH HF. induction IH; inversion HF; subst; constructor; auto. }
      eapply filter_map_Forall; [exact HF2|].
      intros [k0 a0] [k1 r1] [Hga Hia] Hkv. unfold kv_opt in Hkv. simpl in *.
      destruct (scrub_s m fm a0) eqn:Ea; try discriminate. injection Hkv as <- <-. simpl. apply Hia; auto.
  - (* List *)
    inversion Hg as [| | | | | | | |xs' HF|]; subst.
    eapply pack_s_ok; [|exact E].
    assert (HF2 : Forall (fun a => good a /\ (good a -> forall res0, scrub_s m fm a = Some res0 -> okres x res0)) xs).
    { clear - IH HF. induction IH; inversion HF; subst; constructor; auto. }
    eapply filter_map_Forall; [exact HF2|]. intros a r [Hga Hia] Ha. apply Hia; auto.
  - (* ParseResults *)
    inversion Hg as [| | | | | | | | |t' named' flat' Hnd HFn HFf]; subst.
    destruct (negb t); try discriminate.
    assert (Hflat : forall r, pack_s (filter_map (scrub_s m fm) flat) = Some r -> okres x r).
    { intros r Er. eapply pack_s_ok; [|exact Er].
      assert (HF2 : Forall (fun a => good a /\ (good a -> forall res0, scrub_s m fm a = Some res0 -> okres x res0)) flat).
      { clear - IHf HFf. induction IHf; inversion HFf; subst; constructor; auto. }
      eapply filter_map_Forall; [exact HF2|]. intros a r0 [Hga Hia] Ha. apply Hia; auto. }
    assert (Hnamed : Forall (fun kv => okres x (snd kv))
              (filter_map (kv_opt (fun vs => pack_s (filter_map (scrub_s m fm) vs))) named)).
    { assert (HF2 : Forall (fun kv => Forall (fun a => good a /\ (good a -> forall res0, scrub_s m fm a = Some res0 -> okres x res0)) (snd kv)) named).
      { clear - IHn HFn. induction IHn as [|kv l Hkv Hl IHl]; inversion HFn as [|? ? Gkv Gl]; subst; constructor; auto.
        clear - Hkv Gkv. induction Hkv; inversion Gkv; subst; constructor; auto. }
      eapply filter_map_Forall; [exact HF2|].
      intros [k0 vs] [k1 r1] Hvs Hkv. unfold kv_opt in Hkv. simpl in *.
      destruct (pack_s (filter_map (scrub_s m fm) vs)) eqn:Ep; try discriminate. injection Hkv as <- <-. simpl.
      eapply pack_s_ok; [|exact Ep].
      eapply filter_map_Forall; [exact Hvs|]. intros a r0 [Hga Hia] Ha. apply Hia; auto. }
    destruct (filter_map (kv_opt (fun vs => pack_s (filter_map (scrub_s m fm) vs))) named) as [|kv out] eqn:En.
    + apply Hflat. exact E.
    + injection E as <-. apply pack_d_ok; [|exact Hnamed].
      rewrite <- En. apply nodup_keys_filter_map. exact Hnd.
Qed.

(* C11: the substitution loop replaces exactly the markers, under every callback mode and rename map *)
Corollary null_subst x r v ps :
  good r -> scrub_s m fm r = Some (v, ps) -> apply_all x ps v = subst' x v.
Proof. intros Hg E. destruct (slots_exact x r Hg _ E) as [H _]. exact H. Qed.

End Main.
