(* C08: every raw tree scrubs to the documented simplified form; after substitution the result is plain JSON. *)
From Coq Require Import List ZArith String Bool Lia.
From MoSql Require Import Base.Json Model.Scrub Proofs.Slots.
Import ListNotations.
Open Scope string_scope.
Open Scope list_scope.

Lemma plain_subst x v : plain x = true -> plain (subst x v) = true.
Proof.
  intros Hx. induction v as [| |b|z|f|s|l IH|d IH] using jv_ind'; simpl; auto.
  - rewrite forallb_forall. intros y Hy. apply in_map_iff in Hy as (w & <- & Hw).
    rewrite Forall_forall in IH. auto.
  - rewrite forallb_forall. intros y Hy. apply in_map_iff in Hy as (w & <- & Hw).
    rewrite Forall_forall in IH. simpl. auto.
Qed.

Lemma plain_subst' x v : plain x = true -> v <> JMark -> plain (subst' x v) = true.
Proof. intros Hx Hv. destruct v; try (apply (plain_subst x _ Hx)). contradiction. Qed.

Section Simp.
Variable S : jv -> Prop.
Hypothesis S_list : forall l, 2 <= List.length l -> Forall S l -> S (JList l).
Hypothesis S_dict : forall d, Forall (fun kv => S (snd kv)) d -> S (JDict d).

Lemma pack_s_S out r : Forall (fun r => S (fst r)) out -> pack_s out = Some r -> S (fst r).
Proof.
  intros HF E. destruct out as [|a [|b t]]; simpl in E; try discriminate; injection E as <-.
  - inversion HF; auto.
  - unfold pack_l. cbn [fst]. apply S_list; [simpl; lia|].
    apply Forall_forall. intros y Hy. apply in_map_iff in Hy as (w & <- & Hw).
    rewrite Forall_forall in HF. auto.
Qed.

Lemma pack_d_S out : Forall (fun kv => S (fst (snd kv))) out -> S (fst (pack_d out)).
Proof.
  intros HF. unfold pack_d. cbn [fst]. apply S_dict.
  apply Forall_forall. intros y Hy. apply in_map_iff in Hy as (w & <- & Hw).
  rewrite Forall_forall in HF. simpl. auto.
Qed.
End Simp.

Lemma dict_set_Forall k v d (Q : string * jv -> Prop) :
  Q (k, v) -> Forall Q d -> Forall Q (dict_set k v d).
Proof. intros Hv Hd. induction Hd as [|[k' v'] t H Ht IH]; simpl; auto.
  destruct (String.eqb k k'); constructor; auto. Qed.

(* generic skeleton: S is preserved by every branch except the call, which is given as a hypothesis *)
Section Skeleton.
Variable m : mode.
Variable fm : fmap_t.
Variable S : jv -> Prop.
Hypothesis S_mark : S JMark.
Hypothesis S_str : forall s, S (JStr s).
Hypothesis S_int : forall z, S (JInt z).
Hypothesis S_bool : forall b, S (JBool b).
Hypothesis S_float : forall f, S (JFloat f).
Hypothesis S_list : forall l, 2 <= List.length l -> Forall S l -> S (JList l).
Hypothesis S_dict : forall d, Forall (fun kv => S (snd kv)) d -> S (JDict d).
Hypothesis S_call : forall op ar kw r,
  (forall a, ar = Some a -> S (fst a)) -> S (fst kw) -> call_res m op ar kw = Some r -> S (fst r).

Theorem scrub_S : forall r v, scrub_s m fm r = Some v -> S (fst v).
Proof.
  induction r as [| |s|z|b|f|op a k IHa IHk|kvs IH|xs IH|t named flat IHn IHf] using raw_ind';
    intros v E; simpl in E; try discriminate; try (injection E as <-; cbn [fst]; auto; fail).
  - eapply S_call; [| |exact E].
    + intros a0 Ea. eauto.
    + apply pack_d_S; auto. eapply filter_map_Forall; [exact IHk|].
      intros [k0 x0] [k1 v1] Hx Hkv. unfold kv_opt in Hkv. simpl in *.
      destruct (scrub_s m fm x0) eqn:Ex; try discriminate. injection Hkv as <- <-. simpl. eauto.
  - injection E as <-. apply pack_d_S; auto. eapply filter_map_Forall; [exact IH|].
    intros [k0 x0] [k1 v1] Hx Hkv. unfold kv_opt in Hkv. simpl in *.
    destruct (scrub_s m fm x0) eqn:Ex; try discriminate. injection Hkv as <- <-. simpl. eauto.
  - eapply (pack_s_S S S_list); [|exact E]. eapply filter_map_Forall; [exact IH|]. intros x0 v' Hx Hv. eauto.
  - destruct (negb t); try discriminate.
    assert (Hnamed : Forall (fun kv => S (fst (snd kv)))
              (filter_map (kv_opt (fun vs => pack_s (filter_map (scrub_s m fm) vs))) named)).
    { eapply filter_map_Forall; [exact IHn|].
      intros [k0 vs] [k1 v1] Hvs Hkv. unfold kv_opt in Hkv. simpl in *.
      destruct (pack_s (filter_map (scrub_s m fm) vs)) eqn:Ep; try discriminate. injection Hkv as <- <-. simpl.
      eapply (pack_s_S S S_list); [|exact Ep]. eapply filter_map_Forall; [exact Hvs|]. intros x0 v' Hx Hv. eauto. }
    destruct (filter_map (kv_opt (fun vs => pack_s (filter_map (scrub_s m fm) vs))) named) as [|kv out] eqn:En.
    + eapply (pack_s_S S S_list); [|exact E]. eapply filter_map_Forall; [exact IHf|]. intros x0 v' Hx Hv. eauto.
    + injection E as <-. apply pack_d_S; auto.
Qed.
End Skeleton.

(* default callback: the documented simplified form, for EVERY raw tree *)
Theorem scrub_simplified_simple fm r v : scrub_s MSimple fm r = Some v -> simplified (fst v).
Proof.
  apply (scrub_S MSimple fm simplified SMark SStr SInt SBool SFloat SList SDict).
  intros op ar kw r0 Har Hkw E. simpl in E. destruct kw as [vk pk]. destruct vk; try discriminate.
  simpl in Hkw. inversion Hkw; subst.
  destruct ar as [[va pa]|]; simpl in E; injection E as <-; simpl; constructor; apply dict_set_Forall; auto; simpl.
  - apply (Har _ eq_refl).
  - constructor. constructor.
Qed.

Lemma simplified_n_of_dict d :
  Forall (fun kv => simplified_n (snd kv)) d -> simplified_n (JDict d).
Proof. intros H. constructor. eapply Forall_impl; [|exact H]. intros kv Hkv. left. exact Hkv. Qed.

(* normal_op: the same form, except that "args" may be a list of any positive length *)
Theorem scrub_simplified_normal fm r v : scrub_s MNormal fm r = Some v -> simplified_n (fst v).
Proof.
  apply (scrub_S MNormal fm simplified_n NMark NStr NInt NBool NFloat NList simplified_n_of_dict).
  { intros op ar kw r0 Har Hkw E. simpl in E. injection E as <-. unfold pack_d. cbn [fst].
    constructor. cbn [app map fst snd]. constructor; [left; constructor|].
    rewrite map_app. apply Forall_app; split.
    + destruct ar as [[va pa]|]; cbn; [|constructor].
      assert (Ha : simplified_n va) by (apply (Har _ eq_refl)).
      destruct va; cbn; try (constructor; [|constructor]; right; split; [reflexivity|];
        eexists; split; [reflexivity|]; split; [simpl; lia|]; constructor; [exact Ha|constructor]).
      * destruct l as [|y l']; cbn; [constructor|]. constructor; [|constructor]. right. split; [reflexivity|].
        eexists; split; [reflexivity|]. inversion Ha as [| | | | |l0 Hlen Hall|]; subst.
        split; [simpl in *; lia|exact Hall].
    + destruct (dict_nonempty kw); cbn; constructor; [left; exact Hkw|constructor]. }
Qed.

(* C08, all callback modes: after the substitution loop no internal marker is left: the result is plain JSON *)
Theorem result_plain m fm x r v :
  good m fm r -> plain x = true -> parse_result m fm x r = Some v -> v <> JMark -> plain v = true.
Proof.
  unfold parse_result. intros Hg Hx E Hv. destruct (scrub_s m fm r) as [[v0 ps]|] eqn:Es; try discriminate.
  injection E as <-. rewrite (null_subst m fm x r v0 ps Hg Es) in *.
  apply plain_subst'; auto. intros ->. apply Hv. reflexivity.
Qed.

(* the result is the simplified tree with every marker replaced by the caller's value *)
Theorem result_simplified fm x r v :
  good MSimple fm r -> parse_result MSimple fm x r = Some v ->
  exists v0, simplified v0 /\ v = subst' x v0.
Proof.
  unfold parse_result. intros Hg E. destruct (scrub_s MSimple fm r) as [[v0 ps]|] eqn:Es; try discriminate.
  injection E as <-. exists v0. split.
  - apply (scrub_simplified_simple fm r (v0, ps) Es).
  - apply (null_subst MSimple fm x r v0 ps Hg Es).
Qed.

Theorem result_simplified_normal fm x r v :
  good MNormal fm r -> parse_result MNormal fm x r = Some v ->
  exists v0, simplified_n v0 /\ v = subst' x v0.
Proof.
  unfold parse_result. intros Hg E. destruct (scrub_s MNormal fm r) as [[v0 ps]|] eqn:Es; try discriminate.
  injection E as <-. exists v0. split.
  - apply (scrub_simplified_normal fm r (v0, ps) Es).
  - apply (null_subst MNormal fm x r v0 ps Hg Es).
Qed.

(* C10: a position-specific wrapper (a named result around the shared expression element) is transparent: the value found under the
   wrapper's key is exactly the scrubbed expression, whatever the sibling entries are *)
Lemma dict_get_vals k r (out : list (string * res)) :
  ~ In k (keys out) -> dict_get k (map (fun kv => (fst kv, fst (snd kv))) (out ++ [(k, r)])) = Some (fst r).
Proof.
  induction out as [|[k' r'] t IH]; simpl; intros H.
  - rewrite String.eqb_refl. reflexivity.
  - destruct (String.eqb k k') eqn:E.
    + apply String.eqb_eq in E. subst. exfalso. apply H. left. reflexivity.
    + apply IH. intros Hin. apply H. right. exact Hin.
Qed.

Lemma fm_kv_cons {A B} (f : A -> option B) k x (t : list (string * A)) :
  filter_map (kv_opt f) ((k, x) :: t) =
  match f x with Some v => (k, v) :: filter_map (kv_opt f) t | None => filter_map (kv_opt f) t end.
Proof. unfold filter_map at 1, kv_opt at 1. simpl. destruct (f x); reflexivity. Qed.

Theorem wrapper_transparent m fm k e flat before v :
  scrub_s m fm e = Some v ->
  ~ In k (keys (filter_map (kv_opt (fun vs => pack_s (filter_map (scrub_s m fm) vs))) before)) ->
  exists d ps, scrub_s m fm (RPR true (before ++ [(k, [e])]) flat) = Some (JDict d, ps) /\ dict_get k d = Some (fst v).
Proof.
  intros He Hk. cbn [scrub_s negb].
  assert (E : filter_map (kv_opt (fun vs => pack_s (filter_map (scrub_s m fm) vs))) (before ++ [(k, [e])])
            = filter_map (kv_opt (fun vs => pack_s (filter_map (scrub_s m fm) vs))) before ++ [(k, v)]).
  { induction before as [|[k0 vs0] t IH].
    - cbn [app]. rewrite fm_kv_cons. cbn [filter_map pack_s]. rewrite He. reflexivity.
    - cbn [app]. rewrite !fm_kv_cons.
      assert (Hk' : ~ In k (keys (filter_map (kv_opt (fun vs => pack_s (filter_map (scrub_s m fm) vs))) t))).
      { intros Hin. apply Hk. rewrite fm_kv_cons.
        destruct (pack_s (filter_map (scrub_s m fm) vs0)); simpl; auto. }
      destruct (pack_s (filter_map (scrub_s m fm) vs0)); rewrite (IH Hk'); reflexivity. }
  rewrite E.
  destruct (filter_map (kv_opt (fun vs => pack_s (filter_map (scrub_s m fm) vs))) before ++ [(k, v)]) as [|kv0 rest] eqn:En.
  { destruct (filter_map (kv_opt (fun vs => pack_s (filter_map (scrub_s m fm) vs))) before); discriminate. }
  rewrite <- En. unfold pack_d. eexists. eexists. split; [reflexivity|].
  apply dict_get_vals. exact Hk.
Qed.
