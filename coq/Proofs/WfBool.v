(* Reflection of the well-formedness premises of parse_tokens, for the instantiated tables. *)
From Coq Require Import List Arith Lia Bool.
Import ListNotations.
From MoSql Require Import Model.Infix Model.Expr Model.Fmt Proofs.TableChecks Generated.Tables Model.L1.

Lemma le_lvlb_sound e L : le_lvlb e L = true -> le_lvl jv e L.
Proof. destruct e; simpl; auto; intros H; apply Nat.leb_le; exact H. Qed.
Lemma lt_lvlb_sound e L : lt_lvlb e L = true -> lt_lvl jv e L.
Proof. destruct e; simpl; auto; intros H; apply Nat.ltb_lt; exact H. Qed.

Lemma wfb_sound : forall e, wfb e = true -> wf jv tbl e.
Proof.
  induction e as [v|k tv c IH|k tv c IH|k tv l IHl r IHr|k tv0 tv1 a IHa b IHb c IHc]; simpl; intros H; auto.
  - apply andb_true_iff in H as [H Hc]. apply andb_true_iff in H as [Hk Hl].
    destruct (nth_error tbl k) as [[o|o|o|o0 o1]|]; try discriminate.
    repeat split; eauto using le_lvlb_sound.
  - apply andb_true_iff in H as [H Hc]. apply andb_true_iff in H as [Hk Hl].
    destruct (nth_error tbl k) as [[o|o|o|o0 o1]|]; try discriminate.
    repeat split; eauto using le_lvlb_sound.
  - repeat (apply andb_true_iff in H as [H ?]).
    destruct (nth_error tbl k) as [[o|o|o|o0 o1]|]; try discriminate.
    repeat split; eauto using le_lvlb_sound, lt_lvlb_sound.
  - repeat (apply andb_true_iff in H as [H ?]).
    destruct (nth_error tbl k) as [[o|o|o|o0 o1]|]; try discriminate.
    repeat split; eauto using le_lvlb_sound, lt_lvlb_sound.
Qed.

Lemma pwfb_sound : forall a, pwfb a = true ->
  pwf jv (bpre mname_of) (bsuf mname_of) (bbin mname_of mis_flat mfold_of) (btern mname_of) wrap tbl a.
Proof.
  induction a as [v|a IH|k tv c IH|k tv c IH|k tv l IHl r IHr|k tv0 tv1 a IHa b IHb c IHc]; simpl; intros H; auto.
  - apply andb_true_iff in H as [H1 H2]. split; auto. apply wfb_sound. exact H2.
  - apply andb_true_iff in H as [H1 H2]. auto.
  - apply andb_true_iff in H as [H H3]. apply andb_true_iff in H as [H1 H2]. auto.
Qed.

(* the engine-level theorem instantiated with the regenerated KNOWN_OPS table *)
Theorem parse_tokens_inst : tables_ok = true ->
  forall a rest, pwfb a = true -> wfb (flat' a) = true -> stops jv rest ->
  exists f, parse' f (tokens' a ++ rest) = Some (peval' a, rest).
Proof.
  intros Hok a rest Hp Hw Hs. unfold tables_ok, fmt_tables_okb in Hok.
  repeat (apply andb_true_iff in Hok as [Hok ?]).
  apply parse_tokens; auto.
  - apply main_injb_sound; auto.
  - apply partner_okb_sound; auto.
  - apply pwfb_sound; auto.
  - apply wfb_sound; auto.
Qed.

(* parentheses never change the value of a tree, only the grouping they express *)
Fixpoint strip (a : past jv) : past jv :=
  match a with
  | PLeaf _ v => PLeaf jv v
  | PParen _ a => strip a
  | PPre _ k tv c => PPre jv k tv (strip c)
  | PSuf _ k tv c => PSuf jv k tv (strip c)
  | PBin _ k tv l r => PBin jv k tv (strip l) (strip r)
  | PTern _ k tv0 tv1 a b c => PTern jv k tv0 tv1 (strip a) (strip b) (strip c)
  end.
Lemma peval_strip : forall a, peval' (strip a) = peval' a.
Proof. unfold peval'.
  induction a as [v|a IH|k tv c IH|k tv c IH|k tv l IHl r IHr|k tv0 tv1 a IHa b IHb c IHc]; cbn [strip peval].
  - reflexivity.
  - exact IH.
  - rewrite IH. reflexivity.
  - rewrite IH. reflexivity.
  - rewrite IHl, IHr. reflexivity.
  - rewrite IHa, IHb, IHc. reflexivity.
Qed.

Theorem parens_inert : tables_ok = true ->
  forall a1 a2, strip a1 = strip a2 ->
  pwfb a1 = true -> wfb (flat' a1) = true -> pwfb a2 = true -> wfb (flat' a2) = true ->
  exists f1 f2 v, parse' f1 (tokens' a1) = Some (v, []) /\ parse' f2 (tokens' a2) = Some (v, []).
Proof.
  intros Hok a1 a2 Hs P1 W1 P2 W2.
  destruct (parse_tokens_inst Hok a1 [] P1 W1 I) as [f1 H1].
  destruct (parse_tokens_inst Hok a2 [] P2 W2 I) as [f2 H2].
  rewrite app_nil_r in H1, H2.
  exists f1, f2, (peval' a1). split; auto. rewrite H2. rewrite <- (peval_strip a2), <- Hs, peval_strip. reflexivity.
Qed.

(* ---------------- C05: the reducer and to_json_operator keep every operand ---------------- *)
Fixpoint atoms (t : jv) : list nat :=
  match t with JA n => [n] | JT _ => [] | JC _ args => flat_map atoms args end.
Fixpoint leaves (a : past jv) : list nat :=
  match a with
  | PLeaf _ v => atoms v
  | PParen _ a => leaves a
  | PPre _ _ _ c | PSuf _ _ _ c => leaves c
  | PBin _ _ _ l r => leaves l ++ leaves r
  | PTern _ _ _ _ a b c => leaves a ++ leaves b ++ leaves c
  end.
(* operator payloads are operator tokens (what the reader produces) *)
Definition is_jt (v : jv) : bool := match v with JT _ => true | _ => false end.
Fixpoint well_tok (a : past jv) : bool :=
  match a with
  | PLeaf _ _ => true
  | PParen _ a => well_tok a
  | PPre _ _ tv c | PSuf _ _ tv c => is_jt tv && well_tok c
  | PBin _ _ tv l r => is_jt tv && well_tok l && well_tok r
  | PTern _ _ tv0 tv1 a b c => is_jt tv0 && well_tok a && well_tok b && well_tok c
  end.

Lemma atoms_flat_args name v : flat_map atoms (flat_args name v) = atoms v.
Proof. destruct v as [n|n args|s]; simpl; try reflexivity.
  destruct (Nat.eqb n name); simpl; rewrite ?app_nil_r; reflexivity. Qed.

Lemma is_null_atoms v : is_null v = true -> atoms v = [0].
Proof. destruct v as [[|n]|n args|s]; simpl; try discriminate; reflexivity. Qed.

Lemma bbin_keeps x s y n : n <> 0 -> In n (atoms x ++ atoms y) ->
  In n (atoms (bbin mname_of mis_flat mfold_of x (JT s) y)).
Proof.
  intros Hn Hin. unfold bbin. destruct (mfold_of (mname_of s)) as [f|].
  - destruct (is_null y) eqn:Ey.
    + apply is_null_atoms in Ey. rewrite Ey in Hin. simpl. rewrite app_nil_r.
      apply in_app_or in Hin as [H|[H|[]]]; auto. congruence.
    + destruct (is_null x) eqn:Ex.
      * apply is_null_atoms in Ex. rewrite Ex in Hin. simpl. rewrite app_nil_r.
        destruct Hin as [H|H]; auto. congruence.
      * simpl. rewrite app_nil_r. exact Hin.
  - destruct (mis_flat (mname_of s)).
    + simpl. rewrite flat_map_app, !atoms_flat_args. exact Hin.
    + simpl. rewrite app_nil_r. exact Hin.
Qed.

Theorem leaves_kept : forall a, well_tok a = true -> forall n, n <> 0 -> In n (leaves a) -> In n (atoms (peval' a)).
Proof.
  unfold peval'.
  induction a as [v|a IH|k tv c IH|k tv c IH|k tv l IHl r IHr|k tv0 tv1 a IHa b IHb c IHc]; cbn [leaves peval well_tok]; intros Hw n Hn Hin.
  - exact Hin.
  - unfold wrap. apply IH; auto.
  - apply andb_true_iff in Hw as [Ht Hc]. destruct tv; try discriminate. simpl. rewrite app_nil_r. apply IH; auto.
  - apply andb_true_iff in Hw as [Ht Hc]. destruct tv; try discriminate. simpl. rewrite app_nil_r. apply IH; auto.
  - apply andb_true_iff in Hw as [Hw Hr]. apply andb_true_iff in Hw as [Ht Hl]. destruct tv; try discriminate.
    apply bbin_keeps; auto. apply in_app_or in Hin as [H|H]; apply in_or_app; [left; apply IHl|right; apply IHr]; auto.
  - apply andb_true_iff in Hw as [Hw Hc]. apply andb_true_iff in Hw as [Hw Hb]. apply andb_true_iff in Hw as [Ht Ha].
    destruct tv0; try discriminate. simpl. rewrite app_nil_r.
    apply in_app_or in Hin as [H|H]; [apply in_or_app; left; apply IHa; auto|].
    apply in_app_or in H as [H|H]; apply in_or_app; right; apply in_or_app; [left; apply IHb|right; apply IHc]; auto.
Qed.

(* ---------------- C03: boolean normal form, so that the premise can be evaluated on the parser's own output ---------------- *)
Definition not_same (name : nat) (a : jv) : bool := match a with JC n _ => negb (Nat.eqb n name) | _ => true end.
Definition arity_okb (name : nat) (i : opinfo) (args : list jv) : bool :=
  match kind i with
  | KBin => Nat.eqb (length args) 2
            && (match mfold_of name with None => true | Some _ => forallb (fun a => negb (is_null a)) args end)
            && (negb (ratom i) || match args with [_; JA _] => true | _ => false end)
  | KPre | KBinNull => Nat.eqb (length args) 1
  | KTern => Nat.eqb (length args) 3
  | KNary => Nat.leb 2 (length args) && forallb (not_same name) args
  end.
Fixpoint nfb (t : jv) : bool :=
  match t with
  | JA _ => true
  | JT _ => false
  | JC name args =>
      match minfo name with
      | None => true
      | Some i => forallb nfb args && arity_okb name i args
      end
  end.

Lemma not_same_flat name a : not_same name a = true -> flat_args name a = [a].
Proof. destruct a as [n|n args|s]; simpl; auto. intros H. apply negb_true_iff in H. rewrite H. reflexivity. Qed.

Lemma nfb_sound : forall t, nfb t = true -> nf' t.
Proof.
  unfold nf'. induction t as [n|s|name args IH] using jv_ind'; simpl; intros H; try discriminate.
  - constructor.
  - destruct (minfo name) as [i|] eqn:Ei; [|apply NfOut; exact Ei].
    apply andb_true_iff in H as [Hargs Har].
    eapply NfOp; [exact Ei| |].
    + rewrite forallb_forall in Hargs. apply Forall_forall. intros x Hx. rewrite Forall_forall in IH. auto.
    + unfold arity_okb in Har. unfold arity_ok. destruct (kind i).
      * apply andb_true_iff in Har as [Har Hr]. apply andb_true_iff in Har as [Hl Hf]. apply Nat.eqb_eq in Hl.
        split; [exact Hl|]. split.
        -- intros Hne. destruct (mfold_of name); [|contradiction]. rewrite forallb_forall in Hf.
           apply Forall_forall. intros x Hx. specialize (Hf x Hx). apply negb_true_iff in Hf. exact Hf.
        -- intros Hra. rewrite Hra in Hr. simpl in Hr. destruct args as [|l [|[n| |] [|? ?]]]; try discriminate. eauto.
      * apply andb_true_iff in Har as [Hl Hs]. apply Nat.leb_le in Hl. split; [exact Hl|].
        rewrite forallb_forall in Hs. apply Forall_forall. intros x Hx. apply not_same_flat. auto.
      * apply Nat.eqb_eq. exact Har.
      * apply Nat.eqb_eq. exact Har.
      * apply Nat.eqb_eq. exact Har.
Qed.

Theorem parse_format_parse : tables_ok = true ->
  forall a p, pwfb a = true -> wfb (flat' a) = true -> nfb (peval' a) = true -> edges_ok' (peval' a) p = true ->
  exists f1 f2, parse' f1 (tokens' a) = Some (peval' a, [])
             /\ parse' f2 (tokens' (mformat' (peval' a) p)) = Some (peval' a, []).
Proof.
  intros Hok a p Hp Hw Hn He.
  destruct (parse_tokens_inst Hok a [] Hp Hw I) as [f1 H1]. rewrite app_nil_r in H1.
  destruct (format_then_parse_tables tbl info_tbl name_of_tbl flat_names fold_tbl beh_tbl Hok (peval' a) p (nfb_sound _ Hn) He) as [f2 H2].
  exists f1, f2. split; [exact H1|exact H2].
Qed.
