(* Reflection of the well-formedness premises of parse_tokens, for the instantiated tables. *)
From Coq Require Import List Arith Lia Bool.
Import ListNotations.
From MoSql Require Import Model.Infix Model.Expr Model.Fmt Proofs.TableChecks Generated.Tables Model.L1.

Lemma le_lvlb_sound e L : le_lvlb e L = true -> le_lvl jv e L.
Proof. destruct e; simpl; auto; intros H; apply Nat.leb_le; exact H. Qed.
Lemma lt_lvlb_sound e L : lt_lvlb e L = true -> lt_lvl jv e L.
Proof. destruct e; simpl; auto; intros H; apply Nat.ltb_lt; exact H. Qed.

Lemma wfb_sound : forall e, wfb e = true -> wf jv tbl e.
Proof.
  induction e as [v|k tv c IH|k tv c IH|k tv l IHl r IHr|k tv0 tv1 a IHa b IHb c IHc]; simpl; intros H; auto.
  - apply andb_true_iff in H as [H Hc]. apply andb_true_iff in H as [Hk Hl].
    destruct (nth_error tbl k) as [[o|o|o|o0 o1]|]; try discriminate.
    repeat split; eauto using le_lvlb_sound.
  - apply andb_true_iff in H as [H Hc]. apply andb_true_iff in H as [Hk Hl].
    destruct (nth_error tbl k) as [[o|o|o|o0 o1]|]; try discriminate.
    repeat split; eauto using le_lvlb_sound.
  - repeat (apply andb_true_iff in H as [H ?]).
    destruct (nth_error tbl k) as [[o|o|o|o0 o1]|]; try discriminate.
    repeat split; eauto using le_lvlb_sound, lt_lvlb_sound.
  - repeat (apply andb_true_iff in H as [H ?]).
    destruct (nth_error tbl k) as [[o|o|o|o0 o1]|]; try discriminate.
    repeat split; eauto using le_lvlb_sound, lt_lvlb_sound.
Qed.

Lemma pwfb_sound : forall a, pwfb a = true ->
  pwf jv (bpre mname_of) (bsuf mname_of) (bbin mname_of mis_flat mfold_of) (btern mname_of) wrap tbl a.
Proof.
  induction a as [v|a IH|k tv c IH|k tv c IH|k tv l IHl r IHr|k tv0 tv1 a IHa b IHb c IHc]; simpl; intros H; auto.
  - apply andb_true_iff in H as [H1 H2]. split; auto. apply wfb_sound. exact H2.
  - apply andb_true_iff in H as [H1 H2]. auto.
  - apply andb_true_iff in H as [H H3]. apply andb_true_iff in H as [H1 H2]. auto.
Qed.

(* the engine-level theorem instantiated with the regenerated KNOWN_OPS table *)
Theorem parse_tokens_inst : tables_ok = true ->
  forall a rest, pwfb a = true -> wfb (flat' a) = true -> stops jv rest ->
  exists f, parse' f (tokens' a ++ rest) = Some (peval' a, rest).
Proof.
  intros Hok a rest Hp Hw Hs. unfold tables_ok, fmt_tables_okb in Hok.
  repeat (apply andb_true_iff in Hok as [Hok ?]).
  apply parse_tokens; auto.
  - apply main_injb_sound; auto.
  - apply partner_okb_sound; auto.
  - apply pwfb_sound; auto.
  - apply wfb_sound; auto.
Qed.
