(* Proofs for Model/ScrubAtoms.v: every atom scrub visits is in the value it returns (C05 at the scrub stage). *)
From Coq Require Import List ZArith String Bool Lia.
From MoSql Require Import Base.Json Model.Scrub Model.ScrubAtoms Proofs.Slots.
Import ListNotations.
Open Scope string_scope.
Open Scope list_scope.

Section Vis.
Variable m : mode.
Variable fm : fmap_t.
Local Notation alive := (alive m fm).
Local Notation vis := (vis m fm).
Local Notation hidden := (hidden m fm).

(* ---- values ---- *)
Lemma jatoms_pack_l out : jatoms (fst (pack_l out)) = flat_map (fun r => jatoms (fst r)) out.
Proof. unfold pack_l. cbn [fst jatoms]. induction out as [|a t IH]; simpl; [reflexivity|]. rewrite IH. reflexivity. Qed.

Lemma jatoms_pack_d out : jatoms (fst (pack_d out)) = flat_map (fun kv => AStr (fst kv) :: jatoms (fst (snd kv))) out.
Proof. unfold pack_d. cbn [fst jatoms]. induction out as [|a t IH]; simpl; [reflexivity|]. rewrite IH. reflexivity. Qed.

Lemma pack_s_atoms out r : pack_s out = Some r -> jatoms (fst r) = flat_map (fun r => jatoms (fst r)) out.
Proof.
  destruct out as [|a [|b t]]; simpl; intros E; try discriminate; injection E as <-.
  - rewrite app_nil_r. reflexivity.
  - apply (jatoms_pack_l (a :: b :: t)).
Qed.

Lemma pack_s_none out : pack_s out = None -> out = [].
Proof. destruct out as [|a [|b t]]; simpl; intros E; try discriminate; reflexivity. Qed.

Lemma dict_set_atoms k v d : ~ In k (keys d) ->
  incl (AStr k :: jatoms v ++ jatoms (JDict d)) (jatoms (JDict (dict_set k v d))).
Proof.
  induction d as [|[k' v'] t IH]; intros Hk.
  - simpl. rewrite !app_nil_r. apply incl_refl.
  - simpl in Hk. cbn [dict_set]. destruct (String.eqb k k') eqn:E.
    + apply String.eqb_eq in E. subst. exfalso. apply Hk. left. reflexivity.
    + assert (Hk' : ~ In k (keys t)) by (intros H; apply Hk; right; exact H).
      specialize (IH Hk'). intros a Ha. cbn [jatoms flat_map fst snd] in *.
      simpl in Ha. destruct Ha as [<-|Ha].
      * right. apply in_or_app. right. apply IH. left. reflexivity.
      * apply in_app_or in Ha as [Ha|Ha].
        -- right. apply in_or_app. right. apply IH. right. apply in_or_app. left. exact Ha.
        -- destruct Ha as [<-|Ha]; [left; reflexivity|].
           apply in_app_or in Ha as [Ha|Ha].
           ++ right. apply in_or_app. left. exact Ha.
           ++ right. apply in_or_app. right. apply IH. right. apply in_or_app. right. exact Ha.
Qed.

(* ---- the generic step: a filtered map keeps the atoms of what it keeps, and what it drops has none ---- *)
Lemma flat_filter_incl {A B} (f : A -> option B) (g : A -> list atom) (h : B -> list atom) l :
  Forall (fun x => match f x with Some y => incl (g x) (h y) | None => g x = [] end) l ->
  incl (flat_map g l) (flat_map h (filter_map f l)).
Proof.
  induction 1 as [|x t Hx Ht IH]; simpl; [apply incl_refl|].
  destruct (f x) as [y|] eqn:E.
  - simpl. apply incl_app; [apply incl_appl; exact Hx|apply incl_appr; exact IH].
  - rewrite Hx. simpl. exact IH.
Qed.

Lemma filter_map_nil {A B} (f : A -> option B) l : filter_map f l = [] -> Forall (fun x => f x = None) l.
Proof. induction l as [|x t IH]; simpl; intros E; [constructor|]. destruct (f x) eqn:Ex; [discriminate|]. constructor; auto. Qed.

Lemma existsb_alive_false vs : existsb alive vs = false <-> filter_map (scrub_s m fm) vs = [].
Proof.
  induction vs as [|x t IH]; simpl; [tauto|]. unfold alive at 1. destruct (scrub_s m fm x) eqn:E; simpl.
  - split; intros H; discriminate.
  - exact IH.
Qed.

Lemma named_dead named :
  existsb (fun kv => existsb alive (snd kv)) named = false <->
  filter_map (kv_opt (fun vs => pack_s (filter_map (scrub_s m fm) vs))) named = [].
Proof.
  induction named as [|[k vs] t IH]; simpl; [tauto|]. unfold kv_opt at 1. cbn [fst snd].
  destruct (existsb alive vs) eqn:Ea; simpl.
  - split; [discriminate|]. intros H.
    destruct (pack_s (filter_map (scrub_s m fm) vs)) eqn:Ep; [discriminate|].
    apply pack_s_none in Ep. apply existsb_alive_false in Ep. congruence.
  - apply existsb_alive_false in Ea. rewrite Ea. simpl. exact IH.
Qed.

Lemma call_res_some op ar out : call_res m op ar (pack_d out) <> None.
Proof. unfold call_res, pack_d. destruct m; [destruct ar as [[va pa]|]|..]; discriminate. Qed.

(* ---- what scrubs to nothing holds no atom that scrub would have visited ---- *)
Theorem vis_none : forall r, scrub_s m fm r = None -> vis r = [].
Proof.
  induction r as [| |s|z|b|f|op a k IHa IHk|kvs IH|xs IH|t named flat IHn IHf] using raw_ind';
    intros E; simpl in E; try discriminate; try reflexivity.
  - exfalso. exact (call_res_some _ _ _ E).
  - apply pack_s_none in E. apply filter_map_nil in E. simpl.
    induction xs as [|x t IHt]; simpl; [reflexivity|].
    inversion IH as [|? ? Hx Ht]; subst. inversion E as [|? ? Ex Et]; subst. rewrite (Hx Ex). simpl. auto.
  - simpl. destruct t; simpl in *; [|reflexivity].
    destruct (filter_map (kv_opt (fun vs => pack_s (filter_map (scrub_s m fm) vs))) named) as [|kv out] eqn:En; [|discriminate].
    apply named_dead in En. rewrite En.
    apply pack_s_none in E. apply filter_map_nil in E.
    induction flat as [|x t IHt]; simpl; [reflexivity|].
    inversion IHf as [|? ? Hx Ht]; subst. inversion E as [|? ? Ex Et]; subst. rewrite (Hx Ex). simpl. auto.
Qed.

Lemma keys_vals (out : list (string * res)) : keys (map (fun kv => (fst kv, fst (snd kv))) out) = keys out.
Proof. unfold keys. rewrite map_map. reflexivity. Qed.

Lemma wrap_args_atoms ar : incl (match ar with Some a => jatoms (fst a) | None => [] end)
                                (flat_map (fun kv => AStr (fst kv) :: jatoms (fst (snd kv))) (wrap_args ar)).
Proof.
  destruct ar as [[va pa]|]; [|apply incl_refl]. cbn [fst].
  destruct va; cbn [wrap_args flat_map fst snd]; try (rewrite jatoms_pack_l; cbn [flat_map fst]; rewrite !app_nil_r; apply incl_tl, incl_refl).
  destruct l; cbn [flat_map fst snd]; [apply incl_refl|]. rewrite app_nil_r. apply incl_tl, incl_refl.
Qed.

Lemma nonsimple_args_atoms ar : incl (match ar with Some a => jatoms (fst a) | None => [] end)
                                     (match nonsimple_args ar with Some a => jatoms (fst a) | None => [] end).
Proof.
  destruct ar as [[va pa]|]; [|apply incl_refl]. destruct va; cbn [nonsimple_args fst]; try apply incl_refl.
Qed.

Lemma kwargs_atoms kw key : incl (jatoms (fst kw))
   (flat_map (fun kv => AStr (fst kv) :: jatoms (fst (snd kv))) (if dict_nonempty kw then [(key, kw)] else [])).
Proof.
  unfold dict_nonempty. destruct kw as [v p]. cbn [fst].
  destruct v; try (cbn [flat_map fst snd]; rewrite app_nil_r; apply incl_tl, incl_refl).
  destruct d; [simpl; intros a []|]. cbn [flat_map fst snd]. rewrite app_nil_r. apply incl_tl, incl_refl.
Qed.

(* the call: the operation name, the arguments and the keyword arguments all reach the result *)
Lemma call_res_atoms op ar out r :
  (is_simple m = true -> ~ In op (keys out)) ->
  call_res m op ar (pack_d out) = Some r ->
  incl ((match ar with Some a => jatoms (fst a) | None => [] end) ++ jatoms (fst (pack_d out))) (jatoms (fst r)).
Proof.
  intros Hk E. unfold call_res in E. destruct m.
  - unfold pack_d in E at 1. cbn iota in E.
    set (d := map (fun kv => (fst kv, fst (snd kv))) out) in *.
    assert (Hd : ~ In op (keys d)) by (unfold d; rewrite keys_vals; apply Hk; reflexivity).
    destruct (match ar with Some x => x | None => (JDict [], []) end) as [va pa] eqn:Ea.
    injection E as <-. cbn [fst].
    assert (Hva : incl (match ar with Some a => jatoms (fst a) | None => [] end) (jatoms va)).
    { destruct ar as [[v0 p0]|]; injection Ea as <- <-; [apply incl_refl|]. simpl. intros a []. }
    eapply incl_tran; [|apply (dict_set_atoms op va d Hd)].
    apply incl_tl. apply incl_app; [apply incl_appl; exact Hva|apply incl_appr].
    unfold pack_d. cbn [fst]. apply incl_refl.
  - injection E as <-. rewrite (jatoms_pack_d (_ :: _)). cbn [flat_map]. rewrite flat_map_app.
    apply incl_app.
    + apply incl_appr, incl_appl. eapply incl_tran; [apply nonsimple_args_atoms|apply wrap_args_atoms].
    + apply incl_appr, incl_appr. apply kwargs_atoms.
  - injection E as <-. rewrite (jatoms_pack_d (_ :: _)). cbn [flat_map]. rewrite flat_map_app.
    apply incl_app.
    + apply incl_appr, incl_appl. eapply incl_tran; [apply nonsimple_args_atoms|].
      destruct (nonsimple_args ar) as [a0|]; [|apply incl_refl]. cbn [flat_map fst snd]. rewrite app_nil_r. apply incl_tl, incl_refl.
    + apply incl_appr, incl_appr. apply kwargs_atoms.
Qed.

Lemma list_step xs :
  Forall (fun x => forall v, goodb m fm x = true -> scrub_s m fm x = Some v -> incl (vis x) (jatoms (fst v))) xs ->
  forallb (goodb m fm) xs = true ->
  incl (flat_map vis xs) (flat_map (fun r => jatoms (fst r)) (filter_map (scrub_s m fm) xs)).
Proof.
  intros IH Hg. apply flat_filter_incl. rewrite forallb_forall in Hg. rewrite Forall_forall in *. intros x Hx.
  destruct (scrub_s m fm x) eqn:E; [apply IH; auto|apply vis_none; exact E].
Qed.

Lemma dict_step (kvs : list (string * raw)) :
  Forall (fun kv => forall v, goodb m fm (snd kv) = true -> scrub_s m fm (snd kv) = Some v -> incl (vis (snd kv)) (jatoms (fst v))) kvs ->
  forallb (fun kv => goodb m fm (snd kv)) kvs = true ->
  incl (flat_map (fun kv => (if alive (snd kv) then [AStr (fst kv)] else []) ++ vis (snd kv)) kvs)
       (flat_map (fun kv => AStr (fst kv) :: jatoms (fst (snd kv))) (filter_map (kv_opt (scrub_s m fm)) kvs)).
Proof.
  intros IH Hg. apply flat_filter_incl. rewrite forallb_forall in Hg. rewrite Forall_forall in *. intros [k x] Hx.
  unfold kv_opt, ScrubAtoms.alive. cbn [fst snd]. destruct (scrub_s m fm x) eqn:E.
  - cbn [fst snd app]. apply incl_cons; [left; reflexivity|]. apply incl_tl. apply (IH _ Hx); [exact (Hg _ Hx)|exact E].
  - cbn [app]. apply vis_none. exact E.
Qed.

(* ---- every atom scrub visits is in the returned value ---- *)
Theorem scrub_keeps_visited : forall r v, goodb m fm r = true -> scrub_s m fm r = Some v -> incl (vis r) (jatoms (fst v)).
Proof.
  induction r as [| |s|z|b|f|op a k IHa IHk|kvs IH|xs IH|t named flat IHn IHf] using raw_ind';
    intros v Hg E; simpl in E; try discriminate; try (injection E as <-; simpl; try apply incl_refl; intros x []).
  - (* call *)
    cbn [goodb] in Hg. apply andb_true_iff in Hg as [Hg Hcoll]. apply andb_true_iff in Hg as [Hg Hk]. apply andb_true_iff in Hg as [Ha Hnd].
    cbn [vis]. eapply incl_tran; [|eapply call_res_atoms; [|exact E]].
    + apply incl_app.
      * apply incl_appl. destruct (scrub_s m fm a) as [va|] eqn:Ea; [apply IHa; auto|rewrite (vis_none a Ea); intros x []].
      * apply incl_appr. rewrite jatoms_pack_d. apply dict_step; assumption.
    + intros Hs. rewrite Hs in Hcoll. simpl in Hcoll. intros Hin.
      apply in_keys_filter_map in Hin. apply negb_true_iff in Hcoll.
      assert (mem (fmap_get fm op) (keys k) = true) by (apply mem_In; exact Hin). congruence.
  - (* dict *)
    cbn [goodb] in Hg. apply andb_true_iff in Hg as [_ Hg]. injection E as <-. cbn [vis]. rewrite jatoms_pack_d. apply dict_step; assumption.
  - (* list *)
    cbn [goodb] in Hg. cbn [vis]. rewrite (pack_s_atoms _ _ E). apply list_step; assumption.
  - (* parse result *)
    cbn [goodb] in Hg. apply andb_true_iff in Hg as [Hg Hgf]. apply andb_true_iff in Hg as [_ Hgn].
    cbn [vis]. destruct t; simpl in E; [|discriminate]. cbn [negb].
    destruct (filter_map (kv_opt (fun vs => pack_s (filter_map (scrub_s m fm) vs))) named) as [|kv out] eqn:En.
    + pose proof (proj2 (named_dead named) En) as Hd. rewrite Hd. rewrite (pack_s_atoms _ _ E). apply list_step; assumption.
    + assert (Hd : existsb (fun kv => existsb alive (snd kv)) named = true).
      { destruct (existsb (fun kv => existsb alive (snd kv)) named) eqn:Hx; [reflexivity|]. apply named_dead in Hx. congruence. }
      rewrite Hd. injection E as <-. rewrite jatoms_pack_d. rewrite <- En.
      apply flat_filter_incl. rewrite forallb_forall in Hgn. rewrite Forall_forall in *. intros [k vs] Hx.
      unfold kv_opt. cbn [fst snd]. specialize (IHn _ Hx). specialize (Hgn _ Hx). cbn [snd] in IHn, Hgn.
      destruct (pack_s (filter_map (scrub_s m fm) vs)) as [r0|] eqn:Ep.
      * cbn [fst snd]. apply incl_tl. rewrite (pack_s_atoms _ _ Ep). apply list_step; assumption.
      * apply pack_s_none in Ep. apply filter_map_nil in Ep.
        clear - Ep. induction vs as [|x t IHt]; simpl; [reflexivity|]. inversion Ep as [|? ? Ex Et]; subst.
        rewrite (vis_none x Ex). simpl. auto.
Qed.

(* with nothing hidden, every atom held by the raw result is returned *)
Lemma hidden_nil r : hidden r = [] -> incl (ratoms r) (vis r).
Proof.
  unfold hidden. intros H a Ha.
  destruct (existsb (atom_eqb a) (vis r)) eqn:E.
  - apply existsb_exists in E as (b & Hb & Eab). destruct a, b; simpl in Eab; try discriminate;
      [apply String.eqb_eq in Eab|apply Z.eqb_eq in Eab|apply String.eqb_eq in Eab]; subst; exact Hb.
  - assert (In a (filter (fun a => negb (existsb (atom_eqb a) (vis r))) (ratoms r))) by (apply filter_In; split; [exact Ha|rewrite E; reflexivity]).
    rewrite H in H0. destruct H0.
Qed.

Theorem scrub_keeps_all : forall r v, goodb m fm r = true -> hidden r = [] -> scrub_s m fm r = Some v -> incl (ratoms r) (jatoms (fst v)).
Proof. intros r v Hg Hh E. eapply incl_tran; [apply hidden_nil; exact Hh|apply scrub_keeps_visited; assumption]. Qed.
End Vis.

(* the drop that the model does perform: unnamed tokens beside named ones *)
Example unnamed_beside_named_dropped :
  let r := RPR true [("fetch", [RStr "c"])] [RStr "c"; RStr "a"; RStr "b"] in
  scrub_s MSimple [] r = Some (JDict [("fetch", JStr "c")], []) /\ hidden MSimple [] r = [AStr "a"; AStr "b"].
Proof. vm_compute. split; reflexivity. Qed.
