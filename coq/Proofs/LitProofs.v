(* C06: clean strings of any length and content survive quoting, lexing and decoding; integers of any size survive printing and reading. *)
From Coq Require Import List NArith Bool Lia.
From MoSql Require Import Model.Lit.
Import ListNotations.
Open Scope N_scope.

Definition esc1 (q : N) (c : N) : str := if c =? q then [92; q] else [c].

Lemma undouble_cons_ne q c l : (c =? q) = false -> undouble q (c :: l) = c :: undouble q l.
Proof. intros E. destruct l as [|c2 t2]; [reflexivity|]. cbn [undouble]. rewrite E. reflexivity. Qed.
Lemma undouble_pair q l : undouble q (q :: q :: l) = 92 :: q :: undouble q l.
Proof. cbn [undouble]. rewrite N.eqb_refl. reflexivity. Qed.

Lemma undouble_dbl q s : undouble q (dbl q s) = flat_map (esc1 q) s.
Proof.
  induction s as [|c s IH]; [reflexivity|]. cbn [dbl flat_map]. unfold esc1 at 1.
  destruct (c =? q) eqn:E.
  - apply N.eqb_eq in E. subst c. rewrite undouble_pair, IH. reflexivity.
  - rewrite (undouble_cons_ne q c _ E), IH. reflexivity.
Qed.

Lemma strip_quote q s : strip_ends (quote q s) = dbl q s.
Proof. unfold strip_ends, quote. cbn [tl]. apply removelast_last. Qed.

Definition esc2 (c : N) : str := if c =? 39 then [92; 39] else if c =? 34 then [92; 34] else [c].

Lemma escape_app q a b : escape_char q (a ++ b) = escape_char q a ++ escape_char q b.
Proof. induction a as [|c a IH]; [reflexivity|]. cbn [app escape_char]. destruct (c =? q); cbn [app]; rewrite IH; reflexivity. Qed.

Lemma escape_flat s : escape_char DQ (flat_map (esc1 SQ) s) = flat_map esc2 s.
Proof.
  induction s as [|c s IH]; [reflexivity|]. cbn [flat_map]. rewrite escape_app, IH. f_equal.
  unfold esc1, esc2, SQ, DQ. destruct (c =? 39) eqn:E1.
  - reflexivity.
  - cbn [escape_char]. destruct (c =? 34); reflexivity.
Qed.

Definition cleanc (c : N) : bool := negb (c =? 92) && negb (c =? 13) && negb (c =? 0).

Lemma nl_clean l : forallb (fun c => negb (c =? 13)) l = true -> universal_newlines l = l.
Proof. induction l as [|c t IH]; [reflexivity|]. cbn [forallb]. intros H. apply andb_true_iff in H as [Hc Ht].
  apply negb_true_iff in Hc. cbn [universal_newlines]. rewrite Hc, IH; auto. Qed.

Lemma no13_flat (g : N -> str) s : (forall c, cleanc c = true -> forallb (fun c => negb (c =? 13)) (g c) = true) ->
  forallb cleanc s = true -> forallb (fun c => negb (c =? 13)) (flat_map g s) = true.
Proof. intros Hg. induction s as [|c s IH]; [reflexivity|]. cbn [forallb flat_map]. intros H. apply andb_true_iff in H as [Hc Hs].
  rewrite forallb_app, Hg, IH; auto. Qed.

Lemma no0_flat (g : N -> str) s : (forall c, cleanc c = true -> existsb (N.eqb 0) (g c) = false) ->
  forallb cleanc s = true -> existsb (N.eqb 0) (flat_map g s) = false.
Proof. intros Hg. induction s as [|c s IH]; [reflexivity|]. cbn [forallb flat_map]. intros H. apply andb_true_iff in H as [Hc Hs].
  rewrite existsb_app, Hg, IH; auto. Qed.

(* the decoder undoes esc2 on clean text *)
Lemma py_body_esc2 : forall s fuel, forallb cleanc s = true -> (length (flat_map esc2 s) <= fuel)%nat ->
  py_body fuel (flat_map esc2 s) = Ok s.
Proof.
  induction s as [|c s IH]; intros fuel Hc Hf.
  - destruct fuel; reflexivity.
  - cbn [forallb] in Hc. apply andb_true_iff in Hc as [Hcc Hs]. unfold cleanc in Hcc.
    apply andb_true_iff in Hcc as [Hcc H0]. apply andb_true_iff in Hcc as [H92 H13].
    apply negb_true_iff in H92, H13, H0.
    cbn [flat_map] in *. unfold esc2 at 1 in Hf. unfold esc2 at 1.
    destruct (c =? 39) eqn:E39.
    + cbn [app length] in Hf. destruct fuel as [|fuel]; [lia|]. cbn [app py_body].
      change (92 =? 92) with true. cbv iota. change (39 =? 10) with false. cbv iota.
      change (simple_escape 39) with (Some 39). cbv iota. rewrite IH; [|exact Hs|lia].
      apply N.eqb_eq in E39. subst c. reflexivity.
    + destruct (c =? 34) eqn:E34.
      * cbn [app length] in Hf. destruct fuel as [|fuel]; [lia|]. cbn [app py_body].
        change (92 =? 92) with true. cbv iota. change (34 =? 10) with false. cbv iota.
        change (simple_escape 34) with (Some 34). cbv iota. rewrite IH; [|exact Hs|lia].
        apply N.eqb_eq in E34. subst c. reflexivity.
      * cbn [app length] in Hf. destruct fuel as [|fuel]; [lia|]. cbn [app py_body].
        rewrite H92, E34. cbn [andb]. rewrite IH; [reflexivity|exact Hs|lia].
Qed.

Lemma clean_is_cleanc s : clean s = forallb cleanc s.
Proof. reflexivity. Qed.

(* single-quoted literal: quote, then decode *)
Theorem single_literal_roundtrip s : clean s = true -> single_literal (quote SQ s) = Ok s.
Proof.
  intros Hc. rewrite clean_is_cleanc in Hc. unfold single_literal. rewrite strip_quote, undouble_dbl, escape_flat.
  unfold py_triple.
  assert (H0 : has_nul (flat_map esc2 s) = false).
  { apply no0_flat; auto. intros c Hcc. unfold cleanc in Hcc. apply andb_true_iff in Hcc as [_ H0]. apply negb_true_iff in H0.
    unfold esc2. destruct (c =? 39); [reflexivity|]. destruct (c =? 34); [reflexivity|]. cbn [existsb]. rewrite N.eqb_sym, H0. reflexivity. }
  rewrite H0.
  assert (H13 : universal_newlines (flat_map esc2 s) = flat_map esc2 s).
  { apply nl_clean. apply no13_flat; auto. intros c Hcc. unfold cleanc in Hcc. apply andb_true_iff in Hcc as [Hcc _].
    apply andb_true_iff in Hcc as [_ H13]. unfold esc2. destruct (c =? 39); [reflexivity|]. destruct (c =? 34); [reflexivity|]. cbn [forallb]. rewrite H13. reflexivity. }
  rewrite H13. apply py_body_esc2; auto.
Qed.

(* double-quoted literal (MySQL / BigQuery): single quotes are ordinary characters there *)
Definition esc3 (c : N) : str := if c =? 34 then [92; 34] else [c].
Lemma py_body_esc3 : forall s fuel, forallb cleanc s = true -> (length (flat_map esc3 s) <= fuel)%nat ->
  py_body fuel (flat_map esc3 s) = Ok s.
Proof.
  induction s as [|c s IH]; intros fuel Hc Hf.
  - destruct fuel; reflexivity.
  - cbn [forallb] in Hc. apply andb_true_iff in Hc as [Hcc Hs]. unfold cleanc in Hcc.
    apply andb_true_iff in Hcc as [Hcc H0]. apply andb_true_iff in Hcc as [H92 H13].
    apply negb_true_iff in H92, H13, H0.
    cbn [flat_map] in *. unfold esc3 at 1 in Hf. unfold esc3 at 1.
    destruct (c =? 34) eqn:E34.
    + cbn [app length] in Hf. destruct fuel as [|fuel]; [lia|]. cbn [app py_body].
      change (92 =? 92) with true. cbv iota. change (34 =? 10) with false. cbv iota.
      change (simple_escape 34) with (Some 34). cbv iota. rewrite IH; [|exact Hs|lia].
      apply N.eqb_eq in E34. subst c. reflexivity.
    + cbn [app length] in Hf. destruct fuel as [|fuel]; [lia|]. cbn [app py_body].
      rewrite H92, E34. cbn [andb]. rewrite IH; [reflexivity|exact Hs|lia].
Qed.

Theorem double_literal_roundtrip s : clean s = true -> double_literal (quote DQ s) = Ok s.
Proof.
  intros Hc. rewrite clean_is_cleanc in Hc. unfold double_literal. rewrite strip_quote, undouble_dbl.
  change (flat_map (esc1 DQ) s) with (flat_map esc3 s).
  unfold py_triple.
  assert (H0 : has_nul (flat_map esc3 s) = false).
  { apply no0_flat; auto. intros c Hcc. unfold cleanc in Hcc. apply andb_true_iff in Hcc as [_ H0]. apply negb_true_iff in H0.
    unfold esc3. destruct (c =? 34); [reflexivity|]. cbn [existsb]. rewrite N.eqb_sym, H0. reflexivity. }
  rewrite H0.
  assert (H13 : universal_newlines (flat_map esc3 s) = flat_map esc3 s).
  { apply nl_clean. apply no13_flat; auto. intros c Hcc. unfold cleanc in Hcc. apply andb_true_iff in Hcc as [Hcc _].
    apply andb_true_iff in Hcc as [_ H13]. unfold esc3. destruct (c =? 34); [reflexivity|]. cbn [forallb]. rewrite H13. reflexivity. }
  rewrite H13. apply py_body_esc3; auto.
Qed.

(* the quoted text is matched as exactly one string token, whatever it contains (quotes, semicolons, comment markers, keywords) *)
Lemma lex_q_end q rest : (match rest with c :: _ => c =? q | [] => false end) = false -> lex_q q (q :: rest) = Some ([q], rest).
Proof. intros H. unfold lex_q. fold lex_q. rewrite N.eqb_refl. destruct rest as [|c2 t2]; [reflexivity|]. rewrite H. reflexivity. Qed.
Lemma lex_q_pair q l : lex_q q (q :: q :: l) = match lex_q q l with Some (tok, r) => Some (q :: q :: tok, r) | None => None end.
Proof. unfold lex_q at 1. fold lex_q. rewrite !N.eqb_refl. reflexivity. Qed.
Lemma lex_q_other q c l : (c =? q) = false -> lex_q q (c :: l) = match lex_q q l with Some (tok, r) => Some (c :: tok, r) | None => None end.
Proof. intros E. unfold lex_q at 1. fold lex_q. rewrite E. reflexivity. Qed.

Lemma lex_q_dbl q : forall s rest, (match rest with c :: _ => c =? q | [] => false end) = false ->
  lex_q q (dbl q s ++ q :: rest) = Some (dbl q s ++ [q], rest).
Proof.
  induction s as [|c s IH]; intros rest Hr.
  - cbn [dbl app]. apply lex_q_end. exact Hr.
  - cbn [dbl]. destruct (c =? q) eqn:E.
    + apply N.eqb_eq in E. subst c. cbn [app]. rewrite lex_q_pair, IH; auto.
    + cbn [app]. rewrite (lex_q_other q c _ E), IH; auto.
Qed.

Theorem lex_one q s rest : (match rest with c :: _ => c =? q | [] => false end) = false ->
  lex_string q (quote q s ++ rest) = Some (quote q s, rest).
Proof.
  intros Hr. unfold lex_string, quote. cbn [app]. rewrite N.eqb_refl.
  rewrite <- app_assoc. cbn [app]. rewrite lex_q_dbl; auto.
Qed.
