(* Boolean checks on finite tables and their soundness: they discharge the table hypotheses of Infix / Expr / Fmt. *)
From Coq Require Import List Arith Lia Bool.
Import ListNotations.
From MoSql Require Import Model.Infix Model.Expr Model.Fmt.

Fixpoint lookup {A} (n:nat) (l:list (nat*A)) : option A :=
  match l with [] => None | (k,v) :: t => if Nat.eqb n k then Some v else lookup n t end.
Lemma lookup_In {A} n (l:list (nat*A)) a : lookup n l = Some a -> In (n,a) l.
Proof. induction l as [|[k v] t IH]; simpl; [discriminate|].
  destruct (Nat.eqb n k) eqn:E; intros H.
  - apply Nat.eqb_eq in E. subst. injection H as ->. left. reflexivity.
  - right. auto. Qed.

Lemma forallb_lookup {A} (f : nat * A -> bool) l : forallb f l = true ->
  forall n a, lookup n l = Some a -> f (n, a) = true.
Proof. intros H n a Hl. rewrite forallb_forall in H. apply H. apply lookup_In. exact Hl. Qed.

Fixpoint memn (x:nat) (l:list nat) : bool := match l with [] => false | y :: t => Nat.eqb x y || memn x t end.
Lemma memn_In x l : memn x l = true <-> In x l.
Proof. induction l as [|y t IH]; simpl; [split; [discriminate|tauto]|].
  rewrite orb_true_iff, IH, Nat.eqb_eq. split; intros [H|H]; auto. Qed.
Fixpoint nodupn (l:list nat) : bool := match l with [] => true | x :: t => negb (memn x t) && nodupn t end.
Lemma nodupn_NoDup l : nodupn l = true -> NoDup l.
Proof. induction l as [|x t IH]; simpl; intros H; constructor.
  - apply andb_true_iff in H as [H _]. intros Hin. apply memn_In in Hin. rewrite Hin in H. discriminate.
  - apply andb_true_iff in H as [_ H]. auto. Qed.

(* distinct main operators *)
Definition main_injb (tbl:list entry) : bool := nodupn (map main tbl).
Lemma main_injb_sound tbl : main_injb tbl = true ->
  forall i j ei ej, nth_error tbl i = Some ei -> nth_error tbl j = Some ej -> main ei = main ej -> i = j.
Proof.
  intros H i j ei ej Hi Hj Hm. apply nodupn_NoDup in H.
  assert (Hi' : nth_error (map main tbl) i = Some (main ei)) by (rewrite nth_error_map, Hi; reflexivity).
  assert (Hj' : nth_error (map main tbl) j = Some (main ej)) by (rewrite nth_error_map, Hj; reflexivity).
  rewrite NoDup_nth_error in H. apply H.
  - apply nth_error_Some. rewrite Hi'. discriminate.
  - rewrite Hi', Hj', Hm. reflexivity.
Qed.

(* the second word of a ternary is a main operator only on a looser level *)
Fixpoint idx_where (f:entry -> bool) (k:nat) (l:list entry) : list nat :=
  match l with [] => [] | e :: t => (if f e then [k] else []) ++ idx_where f (S k) t end.
Lemma idx_where_In f : forall l k j e, nth_error l j = Some e -> f e = true -> In (k + j) (idx_where f k l).
Proof. induction l as [|x t IH]; intros k j e Hj Hf; destruct j; simpl in *; try discriminate.
  - injection Hj as ->. rewrite Hf. left. lia.
  - apply in_or_app. right. replace (k + S j) with (S k + j) by lia. eapply IH; eauto. Qed.
Definition partner_okb (tbl:list entry) : bool :=
  (fix go (k:nat) (l:list entry) : bool :=
     match l with
     | [] => true
     | ETern _ o1 :: t => forallb (fun j => Nat.ltb k j) (idx_where (fun e => Nat.eqb (main e) o1) 0 tbl) && go (S k) t
     | _ :: t => go (S k) t
     end) 0 tbl.
Lemma partner_okb_sound tbl : partner_okb tbl = true ->
  forall k o0 o1 j ej, nth_error tbl k = Some (ETern o0 o1) -> nth_error tbl j = Some ej -> main ej = o1 -> k < j.
Proof.
  unfold partner_okb. intros H k o0 o1 j ej Hk Hj Hm.
  assert (G : forall l base,
     (fix go (k:nat) (l:list entry) : bool :=
       match l with
       | [] => true
       | ETern _ o1 :: t => forallb (fun j => Nat.ltb k j) (idx_where (fun e => Nat.eqb (main e) o1) 0 tbl) && go (S k) t
       | _ :: t => go (S k) t
       end) base l = true ->
     forall k', nth_error l k' = Some (ETern o0 o1) ->
       forallb (fun j => Nat.ltb (base + k') j) (idx_where (fun e => Nat.eqb (main e) o1) 0 tbl) = true).
  { induction l as [|x t IH]; intros base Hg k' Hk'; destruct k'; simpl in Hk'; try discriminate.
    - injection Hk' as ->. apply andb_true_iff in Hg as [Hg _]. rewrite Nat.add_0_r. exact Hg.
    - replace (base + S k') with (S base + k') by lia. apply IH; auto.
      destruct x; auto. apply andb_true_iff in Hg as [_ Hg]. exact Hg. }
  specialize (G tbl 0 H k Hk). simpl in G. rewrite forallb_forall in G.
  assert (Hin : In (0 + j) (idx_where (fun e => Nat.eqb (main e) o1) 0 tbl)).
  { eapply idx_where_In; eauto. apply Nat.eqb_eq. exact Hm. }
  specialize (G _ Hin). apply Nat.ltb_lt in G. simpl in G. exact G.
Qed.

(* ---- the formatter tables ---- *)
Section FmtTables.
Variable tbl : list entry.
Variable info_tbl : list (nat * opinfo).
Variable name_of_tbl : list (nat * nat).
Variable flat_names : list nat.
Variable fold_tbl : list (nat * nat).
Variable beh_tbl : list (nat * list (nat * (bool * list (nat * bool)))).

Definition info (n:nat) : option opinfo := lookup n info_tbl.
Definition name_of (s:nat) : nat := match lookup s name_of_tbl with Some n => n | None => 0 end.
Definition is_flat (n:nat) : bool := memn n flat_names.
Definition fold_of (n:nat) : option nat := lookup n fold_tbl.
Definition beh (n p:nat) : bool * list (nat * bool) :=
  match lookup n beh_tbl with
  | Some row => match lookup p row with Some b => b | None => (false, []) end
  | None => (false, [])
  end.

Definition opt_eqb (a:option nat) (b:option nat) : bool :=
  match a, b with Some x, Some y => Nat.eqb x y | None, None => true | _, _ => false end.
Definition is_none {A} (a:option A) : bool := match a with None => true | _ => false end.

Definition sp_okb (ni : nat * opinfo) : bool :=
  let '(n, i) := ni in
  match kind i with KBinNull => opt_eqb (fold_of (name_of (sp i))) (Some n) | _ => Nat.eqb (name_of (sp i)) n end.
Definition flat_okb (ni : nat * opinfo) : bool :=
  let '(n, i) := ni in
  match kind i with
  | KNary => is_flat n && is_none (fold_of n)
  | KBin => negb (is_flat n)
  | _ => true end.
Definition tbl_okb (ni : nat * opinfo) : bool :=
  let '(n, i) := ni in
  match kind i, nth_error tbl (lvl i) with
  | (KBin | KNary | KBinNull), Some (EBin _) => true
  | KPre, Some (EPre _) => true
  | KTern, Some (ETern _ _) => true
  | _, _ => false
  end.
Definition fmt_tables_okb : bool :=
  forallb sp_okb info_tbl && forallb flat_okb info_tbl && forallb tbl_okb info_tbl && main_injb tbl && partner_okb tbl.

Lemma H_sp_sound : forallb sp_okb info_tbl = true -> forall n i, info n = Some i ->
  match kind i with KBinNull => fold_of (name_of (sp i)) = Some n | _ => name_of (sp i) = n end.
Proof. intros H n i Hi. pose proof (forallb_lookup _ _ H n i Hi) as Hb. unfold sp_okb in Hb.
  destruct (kind i); try (apply Nat.eqb_eq; exact Hb).
  unfold opt_eqb in Hb. destruct (fold_of (name_of (sp i))); try discriminate. apply Nat.eqb_eq in Hb. congruence. Qed.
Lemma H_flat_sound : forallb flat_okb info_tbl = true -> forall n i, info n = Some i ->
  match kind i with
  | KNary => is_flat n = true /\ fold_of n = None
  | KBin => is_flat n = false
  | _ => True end.
Proof. intros H n i Hi. pose proof (forallb_lookup _ _ H n i Hi) as Hb. unfold flat_okb in Hb.
  destruct (kind i); auto.
  - apply negb_true_iff. exact Hb.
  - apply andb_true_iff in Hb as [H1 H2]. split; auto. destruct (fold_of n); auto; discriminate. Qed.
Lemma H_tbl_sound : forallb tbl_okb info_tbl = true -> forall n i, info n = Some i ->
  match kind i with
  | KBin | KNary | KBinNull => exists o, nth_error tbl (lvl i) = Some (EBin o)
  | KPre => exists o, nth_error tbl (lvl i) = Some (EPre o)
  | KTern => exists o0 o1, nth_error tbl (lvl i) = Some (ETern o0 o1)
  end.
Proof. intros H n i Hi. pose proof (forallb_lookup _ _ H n i Hi) as Hb. unfold tbl_okb in Hb.
  destruct (kind i); destruct (nth_error tbl (lvl i)) as [[| | |]|]; try discriminate; eauto. Qed.

(* the instantiated round trip *)
Theorem format_then_parse_tables : fmt_tables_okb = true ->
  forall t p, nf info fold_of t -> edges_okb info beh t p = true ->
  exists f, parse_expr jv (bpre name_of) (bsuf name_of) (bbin name_of is_flat fold_of) (btern name_of) wrap tbl f
              (tokens jv tbl (mformat info beh t p)) = Some (t, []).
Proof.
  unfold fmt_tables_okb. intros H. repeat (apply andb_true_iff in H as [H ?]).
  apply format_then_parse.
  - apply H_sp_sound; auto.
  - apply H_flat_sound; auto.
  - apply H_tbl_sound; auto.
  - apply main_injb_sound; auto.
  - apply partner_okb_sound; auto.
Qed.
End FmtTables.
