From Coq Require Import List String Bool Lia Permutation.
From MoSql Require Import Base.Json Model.QueryFmt.
Import ListNotations.
Open Scope string_scope.
Open Scope list_scope.

Lemma emit_cons x t d : emit (x :: t) d = match dict_get x d with Some v => (x, v) :: emit t d | None => emit t d end.
Proof. unfold emit, pick. cbn [filter_map]. destruct (dict_get x d); reflexivity. Qed.

Definition present (d : dict) (k : string) : bool := match dict_get k d with Some _ => true | None => false end.

Theorem emit_keys order d : map fst (emit order d) = filter (present d) order.
Proof.
  induction order as [|x t IH]; [reflexivity|]. rewrite emit_cons. unfold present at 1. cbn [filter].
  fold (present d). unfold present at 1. destruct (dict_get x d); cbn [map fst]; rewrite IH; reflexivity.
Qed.

Lemma emit_not_in order d k : ~ In k order -> dict_get k (emit order d) = None.
Proof.
  induction order as [|x t IH]; intros H; [reflexivity|]. rewrite emit_cons.
  assert (Hx : k <> x) by (intros ->; apply H; left; reflexivity).
  assert (Ht : ~ In k t) by (intros Hi; apply H; right; exact Hi).
  destruct (dict_get x d); [cbn [dict_get]; destruct (String.eqb_spec k x); [contradiction|]|]; apply IH; exact Ht.
Qed.

(* a clause is written with the value its key holds, whatever that value is *)
Theorem emit_get order d k : NoDup order -> In k order -> dict_get k (emit order d) = dict_get k d.
Proof.
  induction order as [|x t IH]; intros Hn Hi; [destruct Hi|]. rewrite emit_cons. inversion Hn as [|? ? Hx Ht]; subst.
  destruct (String.eqb_spec k x) as [->|Hne].
  - destruct (dict_get x d) as [v|] eqn:E; [cbn [dict_get]; rewrite String.eqb_refl; reflexivity|].
    apply emit_not_in. exact Hx.
  - destruct Hi as [->|Hi]; [contradiction Hne; reflexivity|].
    destruct (dict_get x d) as [v|]; [cbn [dict_get]; destruct (String.eqb_spec k x); [contradiction|]|]; apply IH; assumption.
Qed.

Lemma in_emit order d k v : In (k, v) (emit order d) <-> In k order /\ dict_get k d = Some v.
Proof.
  induction order as [|x t IH]; [cbn; tauto|]. rewrite emit_cons. destruct (dict_get x d) as [w|] eqn:E.
  - cbn [In]. rewrite IH. split.
    + intros [H|[H1 H2]]; [injection H as <- <-; auto|auto].
    + intros [[->|H1] H2]; [left; congruence|right; auto].
  - rewrite IH. cbn [In]. split; [intros [H1 H2]; auto|]. intros [[->|H1] H2]; [congruence|auto].
Qed.

Lemma get_in (d : dict) k v : dict_get k d = Some v -> In (k, v) d.
Proof.
  induction d as [|[k' v'] t IH]; cbn [dict_get]; [discriminate|]. destruct (String.eqb_spec k k') as [->|Hne].
  - intros H; injection H as ->. left; reflexivity.
  - intros H. right. apply IH. exact H.
Qed.

Lemma in_get (d : dict) k v : NoDup (keys d) -> In (k, v) d -> dict_get k d = Some v.
Proof.
  induction d as [|[k' v'] t IH]; intros Hn Hi; [destruct Hi|]. cbn [keys map fst] in Hn. inversion Hn as [|? ? Hk Ht]; subst.
  cbn [dict_get]. destruct Hi as [H|Hi].
  - injection H as -> ->. rewrite String.eqb_refl. reflexivity.
  - destruct (String.eqb_spec k k') as [->|Hne]; [|apply IH; assumption].
    exfalso. apply Hk. unfold keys. apply in_map_iff. exists (k', v). split; [reflexivity|exact Hi].
Qed.

Lemma nodupb_NoDup l : nodupb l = true -> NoDup l.
Proof.
  induction l as [|x t IH]; intros H; [constructor|]. cbn in H. apply andb_true_iff in H as [H1 H2].
  constructor; [|apply IH; exact H2]. intros Hi. apply mem_In in Hi. rewrite Hi in H1. discriminate.
Qed.

Lemma subsetb_incl a b : subsetb a b = true -> forall k, In k a -> In k b.
Proof. unfold subsetb. intros H k Hk. rewrite forallb_forall in H. apply mem_In. apply H. exact Hk. Qed.

(* every clause of the object is written exactly once: what is written is a re-ordering of the object *)
Theorem emit_permutation order d : NoDup order -> NoDup (keys d) -> (forall k, In k (keys d) -> In k order) -> Permutation (emit order d) d.
Proof.
  intros Ho Hd Hs. apply NoDup_Permutation.
  - apply (NoDup_map_inv fst). rewrite emit_keys. apply NoDup_filter. exact Ho.
  - apply (NoDup_map_inv fst). exact Hd.
  - intros [k v]. rewrite in_emit. split.
    + intros [_ H]. apply get_in. exact H.
    + intros H. split; [|apply in_get; assumption]. apply Hs. unfold keys. apply in_map_iff. exists (k, v). split; [reflexivity|exact H].
Qed.

(* the order of the keys inside the object does not matter *)
Theorem emit_order_insensitive order d d' : NoDup (keys d) -> Permutation d d' -> emit order d = emit order d'.
Proof.
  intros Hd Hp. assert (Hd' : NoDup (keys d')).
  { unfold keys in *. eapply Permutation_NoDup; [apply Permutation_map; exact Hp|exact Hd]. }
  assert (Hg : forall k, dict_get k d = dict_get k d').
  { intros k. destruct (dict_get k d) as [v|] eqn:E.
    - symmetry. apply in_get; [exact Hd'|]. eapply Permutation_in; [exact Hp|]. apply get_in. exact E.
    - destruct (dict_get k d') as [v|] eqn:E'; [|reflexivity]. apply get_in in E'.
      apply (Permutation_in _ (Permutation_sym Hp)) in E'. apply (in_get d k v Hd) in E'. congruence. }
  induction order as [|x t IH]; [reflexivity|]. rewrite !emit_cons, Hg, IH. reflexivity.
Qed.

(* the written sequence follows the clause list, not the object *)
Theorem query_clause_keys uo oo d : map fst (query_clauses uo oo d) = filter (present d) uo ++ filter (present d) oo.
Proof. unfold query_clauses. rewrite map_app, !emit_keys. reflexivity. Qed.

Theorem query_clause_get uo oo d k : NoDup (uo ++ oo) -> In k (uo ++ oo) -> dict_get k (query_clauses uo oo d) = dict_get k d.
Proof.
  intros Hn Hi. unfold query_clauses. replace (emit uo d ++ emit oo d) with (emit (uo ++ oo) d).
  - apply emit_get; assumption.
  - unfold emit. clear. induction uo as [|x t IH]; [reflexivity|]. cbn [app filter_map]. rewrite IH. destruct (pick d x); reflexivity.
Qed.
