From Coq Require Import List NArith ZArith String Bool Lia.
From MoSql Require Import Base.Json Model.Lit Model.Script.
Import ListNotations.

Lemma skip_semis_stmts l : stmts_of (skip_semis l) = stmts_of l.
Proof. induction l as [|[|s] t IH]; simpl; auto. Qed.
Lemma skip_semis_len l : (List.length (skip_semis l) <= List.length l)%nat.
Proof. induction l as [|[|s] t IH]; simpl; lia. Qed.
Lemma skip_semis_sep l : well_sep l = true -> well_sep (skip_semis l) = true.
Proof. induction l as [|[|s] t IH]; simpl; auto. Qed.
Lemma well_sep_tail x l : well_sep (x :: l) = true -> well_sep l = true.
Proof. destruct x; simpl; auto. destruct l as [|[|s] t]; simpl; auto; discriminate. Qed.

Definition no_stmt_head (l : list stok) : bool := match l with Stmt _ :: _ => false | _ => true end.

Lemma many_rest_spec : forall fuel l, (List.length l < fuel)%nat -> well_sep l = true -> no_stmt_head l = true ->
  many_rest fuel l = Some (stmts_of l).
Proof.
  induction fuel as [|f IH]; intros l Hl Hw Hh; [lia|].
  destruct l as [|[|s] t]; [reflexivity| |discriminate].
  cbn [many_rest stmts_of]. pose proof (skip_semis_len t) as Hlen. pose proof (skip_semis_stmts t) as Hst.
  assert (Hwt : well_sep t = true) by (apply (well_sep_tail Semi); exact Hw).
  pose proof (skip_semis_sep t Hwt) as Hws.
  destruct (skip_semis t) as [|[|s] t'] eqn:E.
  - rewrite <- Hst. destruct f; [simpl in Hl; lia|reflexivity].
  - exfalso. clear - E. induction t as [|[|x] t IH]; simpl in E; try discriminate; auto.
  - rewrite <- Hst. cbn [stmts_of]. rewrite IH; [reflexivity| | |].
    + simpl in *. lia.
    + apply (well_sep_tail (Stmt s)). exact Hws.
    + destruct t' as [|[|x] r]; auto; simpl in Hws; discriminate.
Qed.

(* any number of empty statements, leading and trailing separators: the statements come back in order *)
Theorem many_command_spec l : well_sep l = true -> many_command l = Some (stmts_of l).
Proof.
  intros Hw. unfold many_command. pose proof (skip_semis_stmts l) as Hst. pose proof (skip_semis_sep l Hw) as Hws.
  destruct (skip_semis l) as [|[|s] t] eqn:E.
  - rewrite <- Hst. reflexivity.
  - exfalso. clear - E. induction l as [|[|x] l IH]; simpl in E; try discriminate; auto.
  - rewrite <- Hst. cbn [stmts_of]. rewrite many_rest_spec; [reflexivity|lia| |].
    + apply (well_sep_tail (Stmt s)). exact Hws.
    + destruct t as [|[|x] r]; auto; simpl in Hws; discriminate.
Qed.

(* two statements without a separator between them are rejected *)
Theorem many_command_adjacent_rejected a b s1 s2 : many_command (a ++ Stmt s1 :: Stmt s2 :: b) = None \/ well_sep (a ++ Stmt s1 :: Stmt s2 :: b) = false.
Proof. right. induction a as [|x a IH]; [reflexivity|]. cbn [app]. destruct x; cbn [well_sep]; [exact IH|].
  destruct (a ++ Stmt s1 :: Stmt s2 :: b) as [|[|y] r] eqn:E; auto. Qed.

Definition is_stmt_tree (v : jv) : bool := match v with JDict (_ :: _) => true | _ => false end.

Lemma accumulate_dicts ts : forallb is_stmt_tree ts = true -> accumulate (map Some ts) = ts.
Proof. induction ts as [|t ts IH]; [reflexivity|]. cbn [forallb map accumulate]. intros H. apply andb_true_iff in H as [Ht Hts].
  destruct t as [| | | | | | |[|kv d]]; try discriminate. cbn [truthy app]. rewrite IH; auto. Qed.

(* the None / single / list rule, when every statement's own tree is a non-empty object *)
Theorem assemble_spec ts : forallb is_stmt_tree ts = true ->
  assemble (map Some ts) = match ts with [] => ANone | [t] => ATree t | _ => AList ts end.
Proof. intros H. unfold assemble. rewrite accumulate_dicts; auto. destruct ts as [|a [|b r]]; reflexivity. Qed.

(* an output that scrubbed away, or an empty one, contributes nothing *)
Theorem assemble_skips ts1 ts2 : forallb is_stmt_tree ts1 = true -> forallb is_stmt_tree ts2 = true ->
  assemble (map Some ts1 ++ None :: map Some ts2) = assemble (map Some (ts1 ++ ts2)).
Proof. intros H1 H2. unfold assemble.
  assert (E : accumulate (map Some ts1 ++ None :: map Some ts2) = accumulate (map Some (ts1 ++ ts2))).
  { clear H2. induction ts1 as [|t ts IH]; [reflexivity|]. cbn [forallb] in H1. apply andb_true_iff in H1 as [Ht Hts].
    cbn [map app accumulate]. rewrite IH; auto. }
  rewrite E. reflexivity. Qed.
