(* Proofs about Model/CaseExpr.v: the parse actions (through the scrub model) come to case_json; the formatter's parts re-read to a
   CASE with the same tree; every written operand is in the tree, in order. *)
From Coq Require Import List ZArith String Bool Lia.
From MoSql Require Import Base.Json Model.Scrub Model.CaseExpr.
Import ListNotations.
Open Scope string_scope.
Open Scope list_scope.

(* ---------- formatter / re-read ---------- *)
Lemma is_arm_when w t : is_arm (when_json w t) = Some (w, t).
Proof. reflexivity. Qed.

Definition arm_when (s : option jv) (a : jv * jv) : jv := match s with None => fst a | Some v => eq_json v (fst a) end.
Lemma arm_json_when s a : arm_json s a = when_json (arm_when s a) (snd a).
Proof. destruct s; reflexivity. Qed.
Lemma fmt_part_arm s a : fmt_part (arm_json s a) = PWhen (arm_when s a) (snd a).
Proof. rewrite arm_json_when. reflexivity. Qed.

Lemma fmt_part_else e : no_arm e = true -> fmt_part e = PElse e.
Proof. unfold no_arm, fmt_part. destruct (is_arm e) as [[w t]|]; [discriminate|reflexivity]. Qed.

Lemma read_items s l o :
  match o with Some e => no_arm e = true | None => True end ->
  read_parts (map fmt_part (map (arm_json s) l ++ opt_list o)) = Some (map (fun a => (arm_when s a, snd a)) l, o).
Proof.
  intros Ho. induction l as [|a l IH].
  - destruct o as [e|]; simpl; [rewrite (fmt_part_else e Ho)|]; reflexivity.
  - cbn [map app]. rewrite fmt_part_arm. cbn [read_parts]. rewrite IH. reflexivity.
Qed.

(* the list the formatter iterates over is the list of items *)
Lemma items_of_args c : wf c = true -> as_list (case_args c) = case_items c.
Proof.
  unfold wf, case_args, case_items, as_list. destruct c as [s l o]; cbn [subj arms other].
  intros H. apply andb_true_iff in H as [H1 H2].
  destruct l as [|a [|b l]].
  - destruct o as [e|]; cbn in *; [|discriminate].
    apply andb_true_iff in H2 as [_ H2]. destruct e; try reflexivity. discriminate.
  - destruct o as [e|]; cbn [map app opt_list args_json]; [reflexivity|]. rewrite arm_json_when. reflexivity.
  - destruct o as [e|]; reflexivity.
Qed.

Lemma wf_other c : wf c = true -> match other c with Some e => no_arm e = true | None => True end.
Proof.
  unfold wf. intros H. apply andb_true_iff in H as [_ H]. destruct (other c) as [e|]; [|exact Logic.I].
  apply andb_true_iff in H as [H _]. exact H.
Qed.

Definition searched (c : csrc) : csrc :=
  {| subj := None; arms := map (fun a => (arm_when (subj c) a, snd a)) (arms c); other := other c |}.

Lemma searched_items c : case_items (searched c) = case_items c.
Proof.
  unfold case_items, searched; cbn [subj arms other]. f_equal. rewrite map_map. apply map_ext. intros a.
  rewrite (arm_json_when (subj c)). reflexivity.
Qed.

Theorem reread_searched c : wf c = true -> reread c = Some (searched c).
Proof.
  intros H. unfold reread, fmt_parts. rewrite (items_of_args c H). unfold case_items.
  rewrite (read_items (subj c) (arms c) (other c) (wf_other c H)). reflexivity.
Qed.

Theorem searched_same_tree c : case_json (searched c) = case_json c.
Proof. unfold case_json, case_args. rewrite searched_items. reflexivity. Qed.

Theorem case_parse_format_parse c : wf c = true -> exists c', reread c = Some c' /\ case_json c' = case_json c /\ subj c' = None.
Proof. intros H. exists (searched c). split; [apply reread_searched; exact H|]. split; [apply searched_same_tree|reflexivity]. Qed.

(* without a subject the source itself comes back *)
Theorem searched_id c : subj c = None -> searched c = c.
Proof.
  destruct c as [s l o]; cbn. intros ->. unfold searched; cbn. f_equal.
  induction l as [|[w t] l IH]; cbn; [reflexivity|]. f_equal. exact IH.
Qed.

(* ---------- operands ---------- *)
Lemma item_ops_arm s a : item_ops (match s with Some _ => true | None => false end) (arm_json s a) = opt_list s ++ [fst a; snd a].
Proof. destruct s as [v|]; reflexivity. Qed.

Lemma item_ops_else b e : no_arm e = true -> item_ops b e = [e].
Proof. unfold no_arm, item_ops. destruct (is_arm e) as [[w t]|]; [discriminate|reflexivity]. Qed.

Theorem ops_exact c : wf c = true -> json_ops (has_subj c) (case_args c) = written_ops c.
Proof.
  intros H. unfold json_ops. rewrite (items_of_args c H). unfold case_items, written_ops, has_subj.
  rewrite flat_map_app. f_equal.
  - induction (arms c) as [|a l IH]; [reflexivity|]. cbn [map flat_map]. rewrite IH. rewrite item_ops_arm. reflexivity.
  - pose proof (wf_other c H) as Ho. destruct (other c) as [e|]; [|reflexivity]. cbn. rewrite (item_ops_else _ e Ho). reflexivity.
Qed.

Definition all_written (c : csrc) : list jv := opt_list (subj c) ++ flat_map (fun a => [fst a; snd a]) (arms c) ++ opt_list (other c).

Theorem ops_kept c x : wf c = true -> (has_subj c = true -> arms c <> []) -> In x (all_written c) -> In x (json_ops (has_subj c) (case_args c)).
Proof.
  intros H Hs Hx. rewrite (ops_exact c H). unfold all_written in Hx. unfold written_ops.
  apply in_app_or in Hx as [Hx|Hx].
  - destruct (subj c) as [v|] eqn:E; [|destruct Hx]. destruct Hx as [<-|[]].
    unfold has_subj in Hs. rewrite E in Hs. destruct (arms c) as [|a l]; [exfalso; apply Hs; reflexivity|].
    cbn. left. reflexivity.
  - apply in_app_or in Hx as [Hx|Hx]; apply in_or_app; [left|right; exact Hx].
    apply in_flat_map in Hx as [a [Ha Hx]]. apply in_flat_map. exists a. split; [exact Ha|].
    apply in_or_app. right. exact Hx.
Qed.

(* listed finding C05:case-without-when at model level: a subject with no WHEN arm is not in the tree *)
Definition c_dropped : csrc := {| subj := Some (JStr "xa1"); arms := []; other := Some (JStr "xb2") |}.
Theorem subject_dropped : wf c_dropped = true /\ case_json c_dropped = JDict [("case", JStr "xb2")] /\ json_ops true (case_args c_dropped) = [JStr "xb2"].
Proof. vm_compute. repeat split; reflexivity. Qed.

(* listed finding C14:optional-mandatory-parts (CASE END) at model level: nothing between CASE and END gives {"case": {}}, which the
   formatter writes as an ELSE with an empty operand *)
Definition c_empty : csrc := {| subj := None; arms := []; other := None |}.
Theorem empty_case : wf c_empty = false /\ case_json c_empty = JDict [("case", JDict [])] /\ reread c_empty = Some {| subj := None; arms := []; other := Some (JDict []) |}.
Proof. vm_compute. repeat split; reflexivity. Qed.

(* ---------- the parse actions, through the scrub model, give case_json ---------- *)
Definition scrubs (r : raw) (v : jv) : Prop := exists ps, scrub_s MSimple [] r = Some (v, ps).

Lemma scrub_call m fm op a k :
  scrub_s m fm (RCall op a k) = call_res m (fmap_get fm op) (scrub_s m fm a) (pack_d (filter_map (kv_opt (scrub_s m fm)) k)).
Proof. reflexivity. Qed.
Lemma scrub_list m fm xs : scrub_s m fm (RList xs) = pack_s (filter_map (scrub_s m fm) xs).
Proof. reflexivity. Qed.

Lemma scrubs_when w t wv tv : scrubs w wv -> scrubs t tv -> scrubs (to_when_call w t) (when_json wv tv).
Proof.
  intros [pw Hw] [pt Ht]. unfold scrubs, to_when_call. rewrite scrub_call, scrub_list. cbn [filter_map]; unfold kv_opt; cbn [snd fst].
  rewrite Hw, Ht. cbn. eexists. reflexivity.
Qed.

Lemma scrubs_eq v w vv wv : scrubs v vv -> scrubs w wv -> scrubs (RCall "eq" (RList [v; w]) []) (eq_json vv wv).
Proof.
  intros [pv Hv] [pw Hw]. unfold scrubs. rewrite scrub_call, scrub_list. cbn [filter_map]; unfold kv_opt; cbn [snd fst].
  rewrite Hv, Hw. cbn. eexists. reflexivity.
Qed.

Lemma scrubs_switch_arm v w t vv wv tv : scrubs v vv -> scrubs w wv -> scrubs t tv -> scrubs (switch_arm v (w, t)) (when_json (eq_json vv wv) tv).
Proof.
  intros Hv Hw Ht. destruct (scrubs_eq v w vv wv Hv Hw) as [pe He]. destruct Ht as [pt Ht].
  unfold scrubs, switch_arm. cbn [fst snd]. rewrite scrub_call, scrub_list. cbn [filter_map]; unfold kv_opt; cbn [snd fst].
  rewrite He, Ht. cbn. eexists. reflexivity.
Qed.

Lemma filter_map_scrubs (rs : list raw) (vs : list jv) : Forall2 scrubs rs vs ->
  exists out, filter_map (scrub_s MSimple []) rs = out /\ map fst out = vs.
Proof.
  induction 1 as [|r v rs vs [ps Hr] _ [out [Ho Hm]]].
  - exists []. split; reflexivity.
  - exists ((v, ps) :: out). split; [|cbn; rewrite Hm; reflexivity]. cbn [filter_map]. rewrite Hr, Ho. reflexivity.
Qed.

Lemma scrubs_case_list (rs : list raw) (vs : list jv) : Forall2 scrubs rs vs ->
  scrubs (RCall "case" (RList rs) []) (JDict [("case", args_json vs)]).
Proof.
  intros H. destruct (filter_map_scrubs rs vs H) as [out [Ho Hm]]. unfold scrubs. rewrite scrub_call, scrub_list. cbn [filter_map].
  rewrite Ho. destruct out as [|[x px] [|[y py] out]]; cbn in Hm; subst vs; cbn; eexists; reflexivity.
Qed.

Definition arm_rel (a : raw * raw) (b : jv * jv) : Prop := scrubs (fst a) (fst b) /\ scrubs (snd a) (snd b).
Definition opt_rel (a : option raw) (b : option jv) : Prop :=
  match a, b with Some r, Some v => scrubs r v | None, None => True | _, _ => False end.

Theorem parse_actions_give_case_json (s : option raw) (cases : list (raw * raw)) (elze : option raw) (c : csrc) :
  opt_rel s (subj c) -> Forall2 arm_rel cases (arms c) -> opt_rel elze (other c) ->
  scrubs (case_raw s cases elze) (case_json c).
Proof.
  intros Hs Ha He. unfold case_json, case_args, case_items.
  assert (Ho : Forall2 scrubs (opt_list elze) (opt_list (other c))).
  { unfold opt_rel in He. destruct elze, (other c); cbn; try contradiction; constructor; [exact He|constructor]. }
  unfold opt_rel in Hs. destruct s as [v|], (subj c) as [vv|]; try contradiction; cbn [case_raw].
  - unfold to_switch_call. apply scrubs_case_list. apply Forall2_app; [|exact Ho].
    induction Ha as [|[w t] [wv tv] l l' [H1 H2] _ IH]; cbn [map]; constructor; [|exact IH].
    cbn [fst snd] in *. apply scrubs_switch_arm; assumption.
  - unfold to_case_call. apply scrubs_case_list. apply Forall2_app; [|exact Ho].
    induction Ha as [|[w t] [wv tv] l l' [H1 H2] _ IH]; cbn [map]; constructor; [|exact IH].
    cbn [fst snd] in *. apply scrubs_when; assumption.
Qed.
