From Coq Require Import List String Bool Lia ZArith.
From MoSql Require Import Base.Json Model.Ddl.
Import ListNotations.
Open Scope string_scope.
Open Scope list_scope.

Lemma dict_get_combine : forall cols row c v, NoDup cols -> In (c, v) (combine cols row) -> dict_get c (combine cols row) = Some v.
Proof.
  induction cols as [|c0 cols IH]; intros row c v Hnd Hin; [contradiction|].
  destruct row as [|v0 row]; [contradiction|]. cbn [combine dict_get] in *. inversion Hnd as [|? ? Hn Hnd']; subst.
  destruct Hin as [E|Hin].
  - injection E as <- <-. rewrite String.eqb_refl. reflexivity.
  - destruct (String.eqb c c0) eqn:E.
    + apply String.eqb_eq in E. subst c0. exfalso. apply Hn. apply in_combine_l in Hin. exact Hin.
    + apply IH; auto.
Qed.

Lemma combine_app' {A B} (a1 a2 : list A) (b1 b2 : list B) : List.length b1 = List.length a1 ->
  combine (a1 ++ a2) (b1 ++ b2) = combine a1 b1 ++ combine a2 b2.
Proof. revert b1. induction a1 as [|x a1 IH]; intros [|y b1] H; simpl in *; try discriminate; auto. rewrite IH; auto. Qed.

(* INSERT ... VALUES pairs the j-th column with the j-th value of the row, whatever the number of columns *)
Theorem insert_pairing : forall cols row j c v, NoDup cols -> List.length row = List.length cols ->
  nth_error cols j = Some c -> nth_error row j = Some v -> dict_get c (combine cols row) = Some v.
Proof.
  intros cols row j c v Hnd Hl Hc Hv. apply dict_get_combine; auto.
  revert row j Hl Hc Hv. induction cols as [|c0 cols IH]; intros row j Hl Hc Hv; destruct j; simpl in Hc; try discriminate.
  - destruct row as [|v0 row]; simpl in *; try discriminate. injection Hc as ->. injection Hv as ->. left. reflexivity.
  - destruct row as [|v0 row]; simpl in *; try discriminate. right. inversion Hnd; subst. eapply IH; eauto.
Qed.

(* every value of the row can be read back under its own column: nothing is lost, nothing is mis-paired *)
Theorem decode_zip : forall cols row, NoDup cols -> List.length row = List.length cols -> decode_row cols (zip_row cols row) = map Some row.
Proof.
  intros cols row Hnd Hl. unfold decode_row, zip_row.
  assert (G : forall l r, NoDup l -> List.length r = List.length l -> forall pre_c pre_r, NoDup (pre_c ++ l) -> List.length pre_r = List.length pre_c ->
              map (fun c => dict_get c (combine (pre_c ++ l) (pre_r ++ r))) l = map Some r).
  { induction l as [|c l IH]; intros r Hn Hlen pre_c pre_r Hnd' Hpl; destruct r as [|v r]; simpl in Hlen; try discriminate; [reflexivity|].
    cbn [map]. f_equal.
    - apply dict_get_combine; auto. rewrite combine_app' by exact Hpl. apply in_or_app. right. left. reflexivity.
    - replace (pre_c ++ c :: l) with ((pre_c ++ [c]) ++ l) by (rewrite <- app_assoc; reflexivity).
      replace (pre_r ++ v :: r) with ((pre_r ++ [v]) ++ r) by (rewrite <- app_assoc; reflexivity).
      apply IH.
      + inversion Hn; auto.
      + lia.
      + rewrite <- app_assoc. exact Hnd'.
      + rewrite !app_length. simpl. lia. }
  apply (G cols row Hnd Hl [] []); auto.
Qed.

(* rows keep their order *)
Theorem rows_in_order cols rows i r : nth_error rows i = Some r ->
  match insert_values cols rows with JList l => nth_error l i = Some (zip_row cols r) | _ => False end.
Proof. intros H. unfold insert_values. apply map_nth_error. exact H. Qed.

(* a row longer than the column list is silently truncated (listed finding) *)
Example truncation_refuted : zip_row ["a"] [JInt 1%Z; JInt 2%Z] = JDict [("a", JInt 1%Z)].
Proof. reflexivity. Qed.
