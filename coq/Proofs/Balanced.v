(* C14: the expression reader returns a value for the whole input only if the parentheses of the input are balanced. *)
From Coq Require Import List Arith Lia Bool.
Import ListNotations.
From MoSql Require Import Model.Infix Model.Expr.

Section Bal.
Variable V : Type.
Variables (bpre bsuf : V -> V -> V) (bbin : V -> V -> V -> V) (btern : V -> V -> V -> V -> V -> V).
Variable wrap : V -> V.
Variable tbl : list entry.
Notation tok := (tok V).
Notation read := (read V bpre bsuf bbin btern wrap tbl).
Notation parse_expr := (parse_expr V bpre bsuf bbin btern wrap tbl).

Definition is_paren (t : tok) : bool := match t with TLp _ | TRp _ => true | _ => false end.
Inductive bal : list tok -> Prop :=
| bal_nil : bal []
| bal_tok t l : is_paren t = false -> bal l -> bal (t :: l)
| bal_par a b : bal a -> bal b -> bal (TLp V :: a ++ TRp V :: b).

Lemma read_bal : forall f eo ts acc items rest, read f eo ts acc = Some (items, rest) -> exists c, ts = c ++ rest /\ bal c.
Proof.
  induction f as [|f IH]; intros eo ts acc items rest H; [discriminate|].
  cbn [Expr.read] in H. destruct eo.
  - destruct ts as [|t r]; [discriminate|]. destruct t as [v|o tv|o tv|o tv| |]; try discriminate.
    + destruct (IH _ _ _ _ _ H) as (c & -> & Hc). exists (TAtom V v :: c). split; [reflexivity|]. constructor; auto.
    + destruct (IH _ _ _ _ _ H) as (c & -> & Hc). exists (TPre V o tv :: c). split; [reflexivity|]. constructor; auto.
    + destruct (read f true r []) as [[inner r1]|] eqn:E1; [|discriminate].
      destruct r1 as [|t1 r1]; [discriminate|]. destruct t1; try discriminate.
      destruct (reduce_all V bpre bsuf bbin btern (length inner) tbl inner); [|discriminate].
      destruct (IH _ _ _ _ _ E1) as (c1 & -> & Hc1). destruct (IH _ _ _ _ _ H) as (c2 & -> & Hc2).
      exists (TLp V :: c1 ++ TRp V :: c2). split; [cbn [app]; rewrite <- app_assoc; reflexivity|]. apply bal_par; auto.
  - destruct ts as [|t r]; [injection H as <- <-; exists []; split; [reflexivity|constructor]|].
    destruct t as [v|o tv|o tv|o tv| |]; try (injection H as <- <-; exists []; split; [reflexivity|constructor]).
    + destruct (IH _ _ _ _ _ H) as (c & -> & Hc). exists (TSuf V o tv :: c). split; [reflexivity|]. constructor; auto.
    + destruct (IH _ _ _ _ _ H) as (c & -> & Hc). exists (TBin V o tv :: c). split; [reflexivity|]. constructor; auto.
Qed.

Theorem accepted_balanced f ts v : parse_expr f ts = Some (v, []) -> bal ts.
Proof.
  unfold Expr.parse_expr. destruct (read f true ts []) as [[items r]|] eqn:E; [|discriminate].
  destruct (reduce_all V bpre bsuf bbin btern (length items) tbl items); [|discriminate].
  intros H. injection H as _ ->. destruct (read_bal _ _ _ _ _ _ E) as (c & -> & Hc). rewrite app_nil_r. exact Hc.
Qed.

(* an input that ends in a binary or prefix operator is never accepted as a whole *)
Lemma read_operand_needed f acc : read f true [] acc = None.
Proof. destruct f; reflexivity. Qed.
End Bal.
