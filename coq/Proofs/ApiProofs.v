(* C15 / C17: for every accepted shape of _parse, a call's result is a function of its arguments only, and a call writes only
   into the trees it allocates itself. *)
From Coq Require Import List ZArith String Bool Lia Arith.
From MoSql Require Import Base.Json Model.Scrub Model.Api.
Import ListNotations.
Open Scope string_scope.
Open Scope list_scope.

Section P.
Variable gmatch : nat -> bool -> nat -> option (list raw).

Definition keys_lt (n : nat) (h : list (nat * jv)) : Prop := Forall (fun tv => fst tv < n) h.
Definition Inv (s : st) : Prop := keys_lt (s_next s) (s_heap s).

Lemma heap_upd_fresh tag f h n : keys_lt n h -> n <= tag -> heap_upd tag f h = h.
Proof. induction 1 as [|[t v] r Ht Hr IH]; simpl; intros Hn; auto.
  simpl in Ht. destruct (Nat.eqb t tag) eqn:E; [apply Nat.eqb_eq in E; lia|]. rewrite IH; auto. Qed.

Lemma heap_upd_last tag f h v n : keys_lt n h -> n <= tag -> heap_upd tag f (h ++ [(tag, v)]) = h ++ [(tag, f v)].
Proof. induction 1 as [|[t w] r Ht Hr IH]; simpl; intros Hn.
  - rewrite Nat.eqb_refl. reflexivity.
  - simpl in Ht. destruct (Nat.eqb t tag) eqn:E; [apply Nat.eqb_eq in E; lia|]. rewrite IH; auto. Qed.

Lemma subst_fold tag x h n : keys_lt n h -> n <= tag -> forall ps v,
  fold_left (fun h tp => heap_upd (fst tp) (set_at (snd tp) x) h) (map (fun p => (tag, p)) ps) (h ++ [(tag, v)])
  = h ++ [(tag, apply_all x ps v)].
Proof. intros Hk Hn. induction ps as [|p ps IH]; intros v; simpl; [reflexivity|].
  rewrite (heap_upd_last tag _ h v n Hk Hn). rewrite IH. reflexivity. Qed.

Lemma heap_get_old tag h n t v : keys_lt n h -> n <= tag -> heap_get t h = Some v -> heap_get t (h ++ [(tag, v)]) = Some v -> True.
Proof. auto. Qed.

Lemma heap_get_app_old t h x v : heap_get t h = Some v -> heap_get t (h ++ x) = Some v.
Proof. induction h as [|[t' w] r IH]; simpl; [discriminate|]. destruct (Nat.eqb t' t); auto. Qed.

Lemma heap_get_last tag h v n : keys_lt n h -> n <= tag -> heap_get tag (h ++ [(tag, v)]) = Some v.
Proof. induction 1 as [|[t w] r Ht Hr IH]; simpl; intros Hn.
  - rewrite Nat.eqb_refl. reflexivity.
  - simpl in Ht. destruct (Nat.eqb t tag) eqn:E; [apply Nat.eqb_eq in E; lia|]. auto. Qed.

Lemma keys_lt_app n h tag v : keys_lt n h -> keys_lt (S tag) (h ++ [(tag, v)]) \/ True.
Proof. auto. Qed.

Lemma keys_lt_mono n m h : keys_lt n h -> n <= m -> keys_lt m h.
Proof. intros H Hle. eapply Forall_impl; [|exact H]. simpl. intros; lia. Qed.

(* what one iteration does, for every accepted shape *)
Lemma run_line_spec sh c s ln : shape_okb sh = true -> Inv s ->
  match scrub_s (c_cb c) (c_fm c) ln with
  | None => exists s', run_line sh c s ln = (s', None) /\ s_heap s' = s_heap s /\ s_next s' = s_next s /\ s_cache s' = s_cache s
  | Some (v, ps) => exists s', run_line sh c s ln = (s', Some (s_next s))
                     /\ s_heap s' = s_heap s ++ [(s_next s, apply_all (c_null c) ps v)]
                     /\ s_next s' = S (s_next s) /\ s_cache s' = s_cache s
  end.
Proof.
  intros Hsh HI. unfold shape_okb, ok_shapes in Hsh. cbn [map existsb] in Hsh.
  assert (Hcases : forall sh0, shape_eqb sh sh0 = true -> sh = sh0).
  { clear. induction sh as [|a l IH]; intros [|b m] H; simpl in H; try discriminate; auto.
    apply andb_true_iff in H as [H1 H2]. f_equal; auto. destruct a, b; simpl in H1; try discriminate; reflexivity. }
  repeat (apply orb_true_iff in Hsh as [Hsh|Hsh]); try discriminate;
    apply Hcases in Hsh; subst sh; unfold run_line; cbn [fold_left app run_effect l_raw l_out s_op s_fm s_nl s_heap s_next s_cache];
    destruct (scrub_s (c_cb c) (c_fm c) ln) as [[v ps]|] eqn:Es;
    cbn [fold_left run_effect l_raw l_out s_op s_fm s_nl s_heap s_next s_cache app];
    eexists; (split; [reflexivity|]); cbn [s_heap s_next s_cache s_nl];
    try (split; [|split; reflexivity]);
    try (cbn [app]; apply (subst_fold (s_next s) (c_null c) (s_heap s) (s_next s) HI (le_n _)));
    try (repeat split; reflexivity).
Qed.

Definition spec_line (c : call) (ln : raw) : option jv := parse_result (c_cb c) (c_fm c) (c_null c) ln.
Definition spec (c : call) : result :=
  match gmatch (c_dialect c) (c_allcols c) (c_sql c) with
  | None => Rejected
  | Some lines => Returned (filter_map (spec_line c) lines)
  end.

Lemma run_lines_spec sh c : shape_okb sh = true -> forall lines s, Inv s ->
  exists s' tags, run_lines sh c s lines = (s', tags) /\ Inv s' /\ s_cache s' = s_cache s
    /\ (forall t v, heap_get t (s_heap s) = Some v -> heap_get t (s_heap s') = Some v)
    /\ filter_map (fun t => heap_get t (s_heap s')) tags = filter_map (spec_line c) lines
    /\ Forall (fun t => s_next s <= t) tags /\ s_next s <= s_next s'.
Proof.
  intros Hsh. induction lines as [|ln rest IH]; intros s HI.
  - exists s, []. cbn. repeat split; auto.
  - cbn [run_lines]. pose proof (run_line_spec sh c s ln Hsh HI) as H1.
    assert (Hsl : spec_line c ln = match scrub_s (c_cb c) (c_fm c) ln with Some (v, ps) => Some (apply_all (c_null c) ps v) | None => None end) by reflexivity.
    cbn [filter_map]. rewrite Hsl.
    destruct (scrub_s (c_cb c) (c_fm c) ln) as [[v ps]|] eqn:Es.
    + destruct H1 as (s1 & E1 & Hh & Hn & Hc). rewrite E1.
      assert (HI1 : Inv s1).
      { unfold Inv. rewrite Hh, Hn. apply Forall_app; split.
        - eapply keys_lt_mono; [exact HI|lia].
        - constructor; [simpl; lia|constructor]. }
      destruct (IH s1 HI1) as (s2 & tags & E2 & HI2 & Hc2 & Hold & Hres & Htags & Hnn). rewrite E2.
      exists s2, (s_next s :: tags). split; [reflexivity|]. split; [exact HI2|]. split; [congruence|]. split; [|split; [|split]].
      * intros t w Hw. apply Hold. rewrite Hh. apply heap_get_app_old. exact Hw.
      * cbn [filter_map].
        assert (Hg : heap_get (s_next s) (s_heap s2) = Some (apply_all (c_null c) ps v)).
        { apply Hold. rewrite Hh. apply (heap_get_last (s_next s) (s_heap s) _ (s_next s) HI (le_n _)). }
        rewrite Hg. rewrite Hres. reflexivity.
      * constructor; [lia|]. eapply Forall_impl; [|exact Htags]. simpl. intros; lia.
      * lia.
    + destruct H1 as (s1 & E1 & Hh & Hn & Hc). rewrite E1.
      assert (HI1 : Inv s1) by (unfold Inv; rewrite Hh, Hn; exact HI).
      destruct (IH s1 HI1) as (s2 & tags & E2 & HI2 & Hc2 & Hold & Hres & Htags & Hnn). rewrite E2.
      exists s2, tags. split; [reflexivity|]. split; [exact HI2|]. split; [congruence|]. split; [|split; [|split]].
      * intros t w Hw. apply Hold. rewrite Hh. exact Hw.
      * exact Hres.
      * eapply Forall_impl; [|exact Htags]. simpl. intros; lia.
      * lia.
Qed.

(* C15: the result of a call is the pure function [spec] of its arguments, whatever state earlier calls left behind *)
Theorem result_is_spec sh s c : shape_okb sh = true -> Inv s -> snd (run_call gmatch sh s c) = spec c.
Proof.
  intros Hsh HI. unfold run_call, spec.
  destruct (gmatch (c_dialect c) (c_allcols c) (c_sql c)) as [lines|]; [|reflexivity].
  set (s0 := {| s_cache := _; s_nl := _; s_op := _; s_fm := _; s_heap := _; s_next := _ |}).
  assert (HI0 : Inv s0) by exact HI.
  destruct (run_lines_spec sh c Hsh lines s0 HI0) as (s' & tags & E & _ & _ & _ & Hres & _). rewrite E. cbn [snd].
  rewrite Hres. reflexivity.
Qed.

(* the invariant is kept, and (C17) every tree handed out earlier is left untouched by a later call *)
Theorem call_keeps_earlier_results sh s c : shape_okb sh = true -> Inv s ->
  Inv (fst (run_call gmatch sh s c)) /\
  forall t v, heap_get t (s_heap s) = Some v -> heap_get t (s_heap (fst (run_call gmatch sh s c))) = Some v.
Proof.
  intros Hsh HI. unfold run_call.
  destruct (gmatch (c_dialect c) (c_allcols c) (c_sql c)) as [lines|]; [|split; [exact HI|auto]].
  set (s0 := {| s_cache := _; s_nl := _; s_op := _; s_fm := _; s_heap := _; s_next := _ |}).
  assert (HI0 : Inv s0) by exact HI.
  destruct (run_lines_spec sh c Hsh lines s0 HI0) as (s' & tags & E & HI' & _ & Hold & _). rewrite E. cbn [fst].
  split; [exact HI'|exact Hold].
Qed.

Lemma hist_inv sh : shape_okb sh = true -> forall h s, Inv s -> Inv (run_hist gmatch sh s h).
Proof. intros Hsh. induction h as [|c h IH]; intros s HI; [exact HI|]. cbn [run_hist fold_left].
  apply IH. apply (call_keeps_earlier_results sh s c Hsh HI). Qed.

Theorem history_independence sh : shape_okb sh = true -> forall h c,
  snd (run_call gmatch sh (run_hist gmatch sh init h) c) = snd (run_call gmatch sh init c).
Proof.
  intros Hsh h c. assert (HI0 : Inv init) by constructor.
  rewrite (result_is_spec sh _ c Hsh (hist_inv sh Hsh h init HI0)).
  rewrite (result_is_spec sh init c Hsh HI0). reflexivity.
Qed.

End P.
