From Coq Require Import List ZArith String Bool Lia.
From MoSql Require Import Base.Json Model.Ddl Proofs.DdlProofs Model.InsertShape.
Import ListNotations.
Open Scope string_scope.
Open Scope list_scope.

(* when the rows-of-literals form is chosen *)
Theorem literal_form_iff rows :
  literal_form rows = true <-> (2 <= List.length rows)%nat /\ forall row, In row rows -> (2 <= List.length row)%nat /\ forall c, In c row -> truthy c = true.
Proof.
  unfold literal_form, row_literal. rewrite andb_true_iff, Nat.leb_le, forallb_forall. split.
  - intros [H1 H2]. split; [exact H1|]. intros row Hr. specialize (H2 row Hr). apply andb_true_iff in H2 as [H3 H4].
    apply Nat.leb_le in H3. rewrite forallb_forall in H4. split; assumption.
  - intros [H1 H2]. split; [exact H1|]. intros row Hr. destruct (H2 row Hr) as [H3 H4]. apply andb_true_iff.
    split; [apply Nat.leb_le; exact H3|apply forallb_forall; exact H4].
Qed.

Lemma select_cells_row row : row <> [] -> select_cells (row_select row) = map sel row.
Proof.
  destruct row as [|c [|c2 r]]; intros H; [contradiction H; reflexivity|reflexivity|].
  unfold row_select. cbn [select_cells]. rewrite map_map. reflexivity.
Qed.

(* the query form holds every cell of every row, in place *)
Theorem query_keeps_cells rows : rows <> [] -> (forall row, In row rows -> row <> []) -> query_cells (query_json rows) = map (map sel) rows.
Proof.
  intros Hn Hr. destruct rows as [|r [|r2 rs]]; [contradiction Hn; reflexivity| |].
  - cbn [query_json map]. assert (Hr1 : r <> []) by (apply Hr; left; reflexivity).
    destruct r as [|c [|c2 r]]; [contradiction Hr1; reflexivity|reflexivity|].
    unfold row_select, query_cells. cbn [select_cells]. rewrite map_map. reflexivity.
  - unfold query_json, query_cells. rewrite map_map. apply map_ext_in. intros row Hi. apply select_cells_row. apply Hr. exact Hi.
Qed.

Theorem not_literal_is_query verb table cols rows : literal_form rows = false ->
  insert_json verb table cols rows = JDict ((match cols with Some c => [("columns", cols_json c)] | None => [] end) ++ [("query", query_json rows); (verb, JStr table)]).
Proof. intros H. unfold insert_json. rewrite H. reflexivity. Qed.

Theorem single_row_is_query (row : list cell) : literal_form [row] = false.
Proof. reflexivity. Qed.

(* the values form with a list of names: row i, column j holds the literal of cell (i, j) *)
Theorem values_form_pairs verb table names rows : literal_form rows = true ->
  insert_json verb table (Some (inr names)) rows = JDict [("values", JList (map (fun row => JDict (combine names (map litv row))) rows)); (verb, JStr table)].
Proof. intros H. unfold insert_json. rewrite H. reflexivity. Qed.

Theorem values_cell names row j n c : NoDup names -> List.length row = List.length names ->
  nth_error names j = Some n -> nth_error row j = Some c -> dict_get n (combine names (map litv row)) = Some (litv c).
Proof.
  intros Hn Hl Hj Hc. apply (insert_pairing names (map litv row) j n (litv c) Hn); [rewrite map_length; exact Hl|exact Hj|].
  rewrite nth_error_map, Hc. reflexivity.
Qed.

(* in the values form the literal IS the written cell: nothing is lost by going through get_literal *)
Theorem literal_cell_faithful c : truthy c = true -> lit c = Some (litv c) /\ (sel c = litv c \/ exists s, c = CStr s /\ sel c = JDict [("literal", litv c)]).
Proof.
  destruct c as [z|r zr|b|s|v]; cbn; intros H; try discriminate; split; try reflexivity; try (left; reflexivity).
  right. exists s. split; reflexivity.
Qed.

(* without a column list the rows come back as lists *)
Theorem values_form_plain verb table rows : literal_form rows = true ->
  insert_json verb table None rows = JDict [("values", JList (map (fun row => JList (map litv row)) rows)); (verb, JStr table)].
Proof. intros H. unfold insert_json. rewrite H. reflexivity. Qed.

(* listed finding C19:column-name-zipped-by-character through the whole decision: ONE listed column and rows of two literals *)
Theorem one_column_wide_rows :
  insert_json "insert" "t" (Some (inl "ab")) [[CInt 1; CInt 2]; [CInt 3; CInt 4]]
  = JDict [("values", JList [JDict [("a", JInt 1); ("b", JInt 2)]; JDict [("a", JInt 3); ("b", JInt 4)]]); ("insert", JStr "t")].
Proof. vm_compute. reflexivity. Qed.
