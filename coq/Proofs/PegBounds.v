(* Positions stay inside the input: with oracles that answer inside [pos, len], every match the engine model reports ends inside [pos, len].
   No condition on the table, any fuel. *)
From Coq Require Import List NArith Bool Lia.
From MoSql Require Import Model.Peg Proofs.PegProofs.
Import ListNotations.
Local Open Scope N_scope.

Section Bounds.
Variables (o : oracle) (len : N).
(* a terminal matches forward and inside the text; skipping whitespace moves forward and stays inside *)
Hypothesis HT : forall t p, p <= len -> o (QT t p) = 0 \/ (p <= N.pred (o (QT t p)) <= len /\ 0 < o (QT t p)).
Hypothesis HS : forall w p, p <= len -> p <= o (QS w p) <= len.

Definition inb (pos : N) (r : res) : Prop := match r with Ok e _ => pos <= e <= len | _ => True end.
Definition good (pos : N) (m : out) : Prop := inb pos (fst m).

Lemma good_ret pos r : inb pos r -> good pos (ret r).
Proof. auto. Qed.

Lemma good_ask pos q k : good pos (k (o q)) -> good pos (ask o q k).
Proof. unfold good, ask. destruct (k (o q)). auto. Qed.

Lemma good_bindr pos m k : (forall r, fst m = r -> good pos (k r)) -> good pos (bindr m k).
Proof.
  intros H. unfold good. rewrite bindr_fst. specialize (H (fst m) eq_refl). unfold good in H.
  destruct (fst m); simpl; auto.
Qed.

Lemma inb_weaken p q r : p <= q -> inb q r -> inb p r.
Proof. destruct r; simpl; auto. lia. Qed.

Section Loops.
Variable rec : N -> bool -> N -> out.
Hypothesis Hrec : forall k raw p, p <= len -> good p (rec k raw p).

Lemma rec_ok k raw p e fl : p <= len -> fst (rec k raw p) = Ok e fl -> p <= e <= len.
Proof. intros Hp E. specialize (Hrec k raw p Hp). unfold good in Hrec. rewrite E in Hrec. exact Hrec. Qed.

Lemma seq_good w kids : forall pos e idx, pos <= e <= len -> pos <= idx <= len -> good pos (seq_loop o rec w kids e idx).
Proof.
  induction kids as [|[k lb] r IH]; intros pos e idx He Hi; simpl; [apply good_ret; simpl; lia|].
  assert (G : forall i, pos <= i <= len -> good pos
     (bindr (rec k false i) (fun r0 => match r0 with Ok e' fl => seq_loop o rec w r (if (i =? e') && fl then e else e') i | x => ret x end))).
  { intros i Hi'. apply good_bindr. intros r0 E. destruct r0 as [e' fl| |c]; try (apply good_ret; exact I).
    pose proof (rec_ok k false i e' fl (proj2 Hi') E) as B.
    apply IH; [destruct ((i =? e') && fl); lia|lia]. }
  destruct (idx <? e) eqn:Elt; [destruct lb|].
  - apply G. lia.
  - apply good_ask. apply G. pose proof (HS w e (proj2 He)). lia.
  - apply G. exact Hi.
Qed.

Lemma alt_good kids : forall pos, pos <= len -> good pos (alt_loop rec kids pos).
Proof.
  induction kids as [|[k p] r IH]; intros pos Hp; simpl; [apply good_ret; exact I|].
  apply good_bindr. intros r0 E. destruct r0 as [e fl| |c]; [|apply IH; exact Hp|apply IH; exact Hp].
  apply good_ret. simpl. exact (rec_ok k false pos e fl Hp E).
Qed.

Lemma or_good kids : forall pos best, pos <= len -> (match best with Some b => pos <= b <= len | None => True end) -> good pos (or_loop rec kids pos best).
Proof.
  induction kids as [|k r IH]; intros pos best Hp Hb; simpl.
  - apply good_ret. destruct best; simpl; auto.
  - apply good_bindr. intros r0 E. destruct r0 as [e fl| |c]; [|apply IH; auto|apply IH; auto].
    pose proof (rec_ok k false pos e fl Hp E) as B. apply IH; [exact Hp|].
    destruct best as [b|]; [destruct (b <? e)|]; auto.
Qed.

Lemma many_fin_good pos mn mx zero e cnt last : pos <= len -> pos <= e <= len -> pos <= last <= len -> good pos (many_fin pos mn mx zero e cnt last).
Proof.
  intros Hp He Hl. unfold many_fin. destruct ((cnt <? mn) || (mx <? cnt)); [destruct zero; apply good_ret; simpl; auto; lia|].
  destruct (0 <? cnt); apply good_ret; simpl; lia.
Qed.

Lemma many_good w k mx stop pos fin : pos <= len ->
  (forall e cnt last, pos <= e <= len -> pos <= last <= len -> good pos (fin e cnt last)) ->
  forall n e cnt last, pos <= e <= len -> pos <= last <= len -> good pos (many_loop o len rec w k mx stop n e cnt last fin).
Proof.
  intros Hp Hfin. induction n as [|n IH]; intros e cnt last He Hl; simpl; [apply good_ret; exact I|].
  destruct (e <? len); [|apply Hfin; auto].
  apply good_ask. pose proof (HS w e (proj2 He)) as Hidx. set (idx := o (QS w e)) in *.
  assert (B : good pos (bindr (rec k false idx) (fun r => match r with
           | Ok e' _ => if e' =? e then ret (Abort 1) else if e' =? idx then many_loop o len rec w k mx stop n e' cnt last fin
                        else if mx <=? N.succ cnt then fin e' (N.succ cnt) e' else many_loop o len rec w k mx stop n e' (N.succ cnt) e' fin
           | _ => fin e cnt last end))).
  { apply good_bindr. intros r E. destruct r as [e' fl| |c]; try (apply Hfin; auto).
    pose proof (rec_ok k false idx e' fl (proj2 Hidx) E) as Be.
    destruct (e' =? e); [apply good_ret; exact I|]. destruct (e' =? idx); [apply IH; lia|].
    destruct (mx <=? N.succ cnt); [apply Hfin; lia|apply IH; lia]. }
  destruct stop as [t|]; [|exact B]. apply good_ask. destruct (o (QT t idx) =? 0); [exact B|apply Hfin; auto].
Qed.

Lemma all_scan_good pos todo : forall e j found none, pos <= e <= len ->
  (forall i loc, e <= loc <= len -> good pos (found i loc)) -> good pos none -> good pos (all_scan rec todo e j found none).
Proof.
  induction todo as [|[[k mm] c] r IH]; intros e j found none He Hf Hn; simpl; [exact Hn|].
  apply good_bindr. intros r0 E. destruct r0 as [loc fl| |c0]; try (apply IH; auto).
  pose proof (rec_ok k false e loc fl (proj2 He) E) as B.
  destruct (loc =? e); [apply IH; auto|apply Hf; exact B].
Qed.

Lemma all_phase2_good pos w order : forall e last, pos <= e <= len -> pos <= last <= len -> good pos (all_phase2 o rec w order e last).
Proof.
  induction order as [|k r IH]; intros e last He Hl; simpl; [apply good_ret; simpl; lia|].
  apply good_bindr. intros r0 E. destruct r0 as [e' fl| |c]; try (apply good_ret; exact I).
  pose proof (rec_ok k false e e' fl (proj2 He) E) as B. apply good_ask. pose proof (HS w e' (proj2 B)). apply IH; lia.
Qed.

Lemma all_fin_good pos w kids todo order : pos <= len -> good pos (all_fin o rec w kids pos todo order).
Proof.
  intros Hp. unfold all_fin. destruct (existsb _ todo); [apply good_ret; exact I|]. destruct (existsb _ kids); [apply good_ret; exact I|].
  destruct (order ++ filter (fun k => negb (memb k order)) (map fst kids)) as [|a r]; [apply good_ret; simpl; lia|].
  apply (all_phase2_good pos w (a :: r)); lia.
Qed.

Local Arguments bump : simpl never.
Lemma all_phase1_good pos w kids : pos <= len -> forall n todo e order, pos <= e <= len ->
  good pos (all_phase1 o rec w n todo e order (all_fin o rec w kids pos)).
Proof.
  intros Hp. induction n as [|n IH]; intros todo e order He; simpl; [apply good_ret; exact I|].
  destruct todo as [|t r]; [apply all_fin_good; exact Hp|].
  apply (all_scan_good pos (t :: r)); [exact He| |apply all_fin_good; exact Hp].
  intros i loc Hl. apply good_ask. pose proof (HS w loc (proj2 Hl)). destruct (bump (t :: r) i) as [td x]. apply IH. lia.
Qed.

Lemma step_good n nd pos : pos <= len -> good pos (step o len rec n nd pos).
Proof.
  intros Hp. destruct nd; simpl.
  - apply good_ask. destruct (HT t pos Hp) as [E|[B Hpos]].
    + rewrite E. apply good_ret. exact I.
    + destruct (o (QT t pos) =? 0) eqn:E0; [apply N.eqb_eq in E0; lia|]. apply good_ret. simpl. exact B.
  - apply seq_good; lia.
  - apply alt_good; exact Hp.
  - apply or_good; auto.
  - apply good_bindr. intros r E. apply good_ret. destruct r as [e fl| |c]; simpl; try lia. exact (rec_ok k false pos e fl Hp E).
  - apply many_good; [exact Hp| |lia|lia]. intros e cnt last He Hl. apply many_fin_good; auto.
  - apply good_bindr. intros r E. apply good_ret. destruct r as [e fl| |c]; simpl; auto. exact (rec_ok k false pos e fl Hp E).
  - apply good_bindr. intros r E. apply good_ret. destruct r as [e fl| |c]; simpl; auto. exact (rec_ok k true pos e fl Hp E).
  - apply good_bindr. intros r E. apply good_ret. destruct r as [e fl| |c]; simpl; auto; lia.
  - apply good_bindr. intros r E. apply good_ret. destruct r as [e fl| |c]; simpl; auto; lia.
  - apply all_phase1_good; [exact Hp|lia].
Qed.
End Loops.

Lemma veto_good v raw pos r : inb pos r -> good pos (apply_veto o v raw pos r).
Proof.
  intros H. destruct r as [e fl| |c]; simpl; try (apply good_ret; exact I).
  destruct raw; [apply good_ret; exact H|]. destruct v; try (apply good_ret; auto; exact I).
  - destruct (e =? pos); apply good_ret; auto; exact I.
  - apply good_ask. destruct (o (QD pos e) =? 0); apply good_ret; auto; exact I.
Qed.

Theorem run_in_bounds T : forall f i raw pos, pos <= len -> good pos (run T o len f i raw pos).
Proof.
  induction f as [|f IH]; intros i raw pos Hp; simpl; [apply good_ret; exact I|].
  destruct (nth_error T (N.to_nat i)) as [en|]; [|apply good_ret; exact I].
  apply good_bindr. intros r E. apply veto_good.
  pose proof (step_good (run T o len f) (fun k raw' p Hp' => IH k raw' p Hp') f (e_node en) pos Hp) as G. unfold good in G. rewrite E in G. exact G.
Qed.

(* the whole parse: an accepted input was matched up to its end *)
Theorem parse_all_in_bounds T f root w0 e fl : fst (parse_all T o len f root w0) = Ok e fl -> e = len.
Proof.
  unfold parse_all, ask. destruct (bindr _ _) as [r l] eqn:Eb. simpl. intros ->.
  pose proof (f_equal fst Eb) as E. rewrite bindr_fst in E. simpl in E.
  destruct (fst (run T o len f root false (o (QS w0 0)))) as [e1 fl1| |c]; try discriminate.
  destruct (o (QS w0 e1) =? len) eqn:El; simpl in E; [|discriminate]. injection E as <- _. apply N.eqb_eq. exact El.
Qed.
End Bounds.
