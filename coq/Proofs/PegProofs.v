(* The simulation theorem of the engine model.
   Two runs - over two similar tables (simb), two oracles and a strictly monotone renaming phi of positions - return phi-related results,
   provided the two oracles commute with phi on every query that the first run logs, and neither run aborts.
   Instances: C18 (two dialect tables, same oracle, phi = id) and C09 (same table, two layouts of the same tokens). *)
From Coq Require Import List NArith Bool Lia.
From MoSql Require Import Model.Peg Model.PegSim.
Import ListNotations.
Local Open Scope N_scope.

Lemma is_abort_false r : is_abort r = false -> forall c, r <> Abort c.
Proof. destruct r; simpl; congruence. Qed.

Section Sim.
Variables (o1 o2 : oracle) (len1 len2 : N) (phi : N -> N).
Hypothesis phi_mono : forall a b, a < b -> phi a < phi b.
Hypothesis len_phi : len2 = phi len1.

Lemma phi_ltb a b : (phi a <? phi b) = (a <? b).
Proof.
  destruct (N.ltb_spec a b) as [H|H].
  - apply N.ltb_lt. auto.
  - apply N.ltb_ge. destruct (N.eq_dec a b) as [->|Hn]; [lia|]. assert (b < a) by lia. specialize (phi_mono b a). lia.
Qed.
Lemma phi_inj a b : phi a = phi b -> a = b.
Proof. intros H. destruct (N.lt_trichotomy a b) as [L|[E|L]]; auto; apply phi_mono in L; lia. Qed.
Lemma phi_eqb a b : (phi a =? phi b) = (a =? b).
Proof. destruct (N.eqb_spec a b) as [->|H]; [apply N.eqb_refl|]. apply N.eqb_neq. intros E. apply phi_inj in E. auto. Qed.

Definition mapq (q : query) : query :=
  match q with QT t p => QT t (phi p) | QS w p => QS w (phi p) | QD a b => QD (phi a) (phi b) end.
Definition mapa (q : query) (a : N) : N :=
  match q with QT _ _ => if a =? 0 then 0 else N.succ (phi (N.pred a)) | QS _ _ => phi a | QD _ _ => a end.
Definition comm (q : query) : Prop := o2 (mapq q) = mapa q (o1 q).
Definition mapres (r : res) : res := match r with Ok e fl => Ok (phi e) fl | x => x end.

Lemma mapres_abort r : is_abort (mapres r) = is_abort r.
Proof. destruct r; reflexivity. Qed.

(* the central notion: related outcomes *)
Definition rel (m1 m2 : out) : Prop :=
  (forall q, In q (snd m1) -> comm q) -> is_abort (fst m1) = false -> is_abort (fst m2) = false -> fst m2 = mapres (fst m1).

Lemma rel_ret r1 r2 : r2 = mapres r1 -> rel (ret r1) (ret r2).
Proof. intros ->. unfold rel, ret. simpl. auto. Qed.

Lemma rel_abort_l c l m2 : rel (Abort c, l) m2.
Proof. unfold rel. simpl. intros _ H. discriminate. Qed.

Lemma bindr_fst m k : fst (bindr m k) = match fst m with Abort c => Abort c | r => fst (k r) end.
Proof. destruct m as [[e fl| |c] l]; simpl; auto; destruct (k _); reflexivity. Qed.

Lemma bindr_in_l m k q : In q (snd m) -> In q (snd (bindr m k)).
Proof. destruct m as [[e fl| |c] l]; simpl; auto; destruct (k _); simpl; intros; apply in_or_app; auto. Qed.

Lemma bindr_in_r m k q : is_abort (fst m) = false -> In q (snd (k (fst m))) -> In q (snd (bindr m k)).
Proof. destruct m as [[e fl| |c] l]; simpl; try discriminate; destruct (k _); simpl; intros; apply in_or_app; auto. Qed.

Lemma rel_bindr m1 m2 k1 k2 :
  rel m1 m2 ->
  (forall r, fst m1 = r -> is_abort r = false -> rel (k1 r) (k2 (mapres r))) ->
  rel (bindr m1 k1) (bindr m2 k2).
Proof.
  intros Hm Hk Hlog Hna1 Hna2.
  rewrite bindr_fst in Hna1. rewrite bindr_fst in Hna2. rewrite !bindr_fst.
  assert (A1 : is_abort (fst m1) = false) by (destruct (fst m1); auto; discriminate).
  assert (A2 : is_abort (fst m2) = false) by (destruct (fst m2); auto; discriminate).
  assert (E : fst m2 = mapres (fst m1)).
  { apply Hm; auto. intros q Hq. apply Hlog. apply bindr_in_l. exact Hq. }
  rewrite E in *.
  assert (K : fst (k2 (mapres (fst m1))) = mapres (fst (k1 (fst m1)))).
  { apply Hk; auto.
    - intros q Hq. apply Hlog. apply bindr_in_r; auto.
    - destruct (fst m1); auto; discriminate.
    - destruct (fst m1); simpl in *; auto; discriminate. }
  destruct (fst m1); simpl in *; auto; discriminate.
Qed.

Lemma rel_ask q k1 k2 : (forall a, rel (k1 a) (k2 (mapa q a))) -> rel (ask o1 q k1) (ask o2 (mapq q) k2).
Proof.
  intros Hk. unfold rel, ask.
  destruct (k1 (o1 q)) as [r1 l1] eqn:E1. destruct (k2 (o2 (mapq q))) as [r2 l2] eqn:E2. simpl.
  intros Hlog Hna1 Hna2.
  assert (C : comm q) by (apply Hlog; left; reflexivity).
  unfold comm in C. rewrite C in E2.
  specialize (Hk (o1 q)). unfold rel in Hk. rewrite E1, E2 in Hk. simpl in Hk. apply Hk; auto.
Qed.

(* ---------------------------------------------------------------------------------------------------- *)
Section Loops.
Variable R : list (N * N).
Variables rec1 rec2 : N -> bool -> N -> out.
Hypothesis Hrec : forall k1 k2 raw pos, In (k1, k2) R -> rel (rec1 k1 raw pos) (rec2 k2 raw (phi pos)).

Definition kid_rel (a b : N * bool) : Prop := In (fst a, fst b) R /\ snd a = snd b.

Lemma seq_rel w kids1 kids2 : Forall2 kid_rel kids1 kids2 ->
  forall e idx, rel (seq_loop o1 rec1 w kids1 e idx) (seq_loop o2 rec2 w kids2 (phi e) (phi idx)).
Proof.
  induction 1 as [|[k1 lb1] [k2 lb2] r1 r2 [HR Hlb] HF IH]; intros e idx; simpl in *.
  - apply rel_ret. reflexivity.
  - subst lb2. rewrite phi_ltb.
    assert (G : forall i, rel
       (bindr (rec1 k1 false i) (fun r => match r with Ok e' fl => seq_loop o1 rec1 w r1 (if (i =? e') && fl then e else e') i | x => ret x end))
       (bindr (rec2 k2 false (phi i)) (fun r => match r with Ok e' fl => seq_loop o2 rec2 w r2 (if (phi i =? e') && fl then phi e else e') (phi i) | x => ret x end))).
    { intros i. apply rel_bindr; [apply Hrec; exact HR|]. intros r _ _. destruct r as [e' fl| |c]; simpl.
      - rewrite phi_eqb. destruct ((i =? e') && fl); apply IH.
      - apply rel_ret. reflexivity.
      - apply rel_ret. reflexivity. }
    destruct (idx <? e); [destruct lb1|]; [apply G| |apply G].
    apply (rel_ask (QS w e)). intros a. simpl. apply G.
Qed.

(* alternatives: related in order, dead ones skipped on either side *)
Variables dead1 dead2 : N -> Prop.
Hypothesis Hdead1 : forall k raw pos, dead1 k -> fst (rec1 k raw pos) = Fail \/ is_abort (fst (rec1 k raw pos)) = true.
Hypothesis Hdead2 : forall k raw pos, dead2 k -> fst (rec2 k raw pos) = Fail \/ is_abort (fst (rec2 k raw pos)) = true.

Inductive alt_rel : list (N * bool) -> list (N * bool) -> Prop :=
| AR_nil : alt_rel [] []
| AR_both a b r1 r2 : kid_rel a b -> alt_rel r1 r2 -> alt_rel (a :: r1) (b :: r2)
| AR_left a r1 l2 : dead1 (fst a) -> alt_rel r1 l2 -> alt_rel (a :: r1) l2
| AR_right b l1 r2 : dead2 (fst b) -> alt_rel l1 r2 -> alt_rel l1 (b :: r2).

Lemma alt_loop_rel kids1 kids2 : alt_rel kids1 kids2 ->
  forall pos, rel (alt_loop rec1 kids1 pos) (alt_loop rec2 kids2 (phi pos)).
Proof.
  induction 1 as [|[k1 p1] [k2 p2] r1 r2 [HR Hp] HA IH|[k1 p1] r1 l2 Hd HA IH|[k2 p2] l1 r2 Hd HA IH]; intros pos; simpl in *.
  - apply rel_ret. reflexivity.
  - subst p2. apply rel_bindr; [apply Hrec; exact HR|]. intros r _ _. destruct r as [e fl| |c]; simpl.
    + apply rel_ret. reflexivity.
    + apply IH.
    + apply IH.
  - (* a dead alternative on the left fails *)
    intros Hlog Hna1 Hna2. rewrite bindr_fst in *.
    destruct (Hdead1 k1 false pos Hd) as [E|E].
    + rewrite E in *. apply IH; auto. intros q Hq. apply Hlog. apply bindr_in_r; [rewrite E; reflexivity|]. rewrite E. exact Hq.
    + destruct (fst (rec1 k1 false pos)); simpl in E; try discriminate.
  - intros Hlog Hna1 Hna2. rewrite bindr_fst in *.
    destruct (Hdead2 k2 false (phi pos) Hd) as [E|E].
    + rewrite E in *. apply IH; auto.
    + destruct (fst (rec2 k2 false (phi pos))); simpl in E; try discriminate.
Qed.

(* the single live alternative of the left node against a whole node on the right *)
Inductive alt_one (k : N) (p : bool) : list (N * bool) -> Prop :=
| AO_here r : Forall (fun a => dead1 (fst a)) r -> alt_one k p ((k, p) :: r)
| AO_skip a r : dead1 (fst a) -> alt_one k p r -> alt_one k p (a :: r).

Lemma alt_dead_all kids pos : Forall (fun a => dead1 (fst a)) kids ->
  fst (alt_loop rec1 kids pos) = Fail \/ is_abort (fst (alt_loop rec1 kids pos)) = true.
Proof.
  induction 1 as [|[k p] r Hd HF IH]; simpl; [left; reflexivity|].
  rewrite bindr_fst. destruct (Hdead1 k false pos Hd) as [E|E].
  - rewrite E. exact IH.
  - destruct (fst (rec1 k false pos)); simpl in E; try discriminate. right. reflexivity.
Qed.

Lemma alt_one_rel k p kids m2 pos :
  alt_one k p kids ->
  (p = true \/ forall raw x, match fst (rec1 k raw x) with Ok _ fl => fl = false | _ => True end) ->
  rel (rec1 k false pos) m2 ->
  rel (alt_loop rec1 kids pos) m2.
Proof.
  intros HA Hp Hm. induction HA as [r HF|[a pa] r Hd HA IH]; simpl.
  - intros Hlog Hna1 Hna2. rewrite bindr_fst in *.
    assert (A1 : is_abort (fst (rec1 k false pos)) = false) by (destruct (fst (rec1 k false pos)); auto; discriminate).
    assert (E : fst m2 = mapres (fst (rec1 k false pos))).
    { apply Hm; auto. intros q Hq. apply Hlog. apply bindr_in_l. exact Hq. }
    rewrite E. destruct (fst (rec1 k false pos)) as [e fl| |c] eqn:Er; simpl in *.
    + f_equal. destruct Hp as [->|Hp]; [reflexivity|]. specialize (Hp false pos). rewrite Er in Hp. subst fl. destruct p; reflexivity.
    + destruct (alt_dead_all r pos HF) as [E2|E2]; [rewrite E2; reflexivity|].
      destruct (fst (alt_loop rec1 r pos)); simpl in *; try discriminate.
    + discriminate.
  - intros Hlog Hna1 Hna2. rewrite bindr_fst in *.
    destruct (Hdead1 a false pos Hd) as [E|E].
    + rewrite E in *. apply IH; auto. intros q Hq. apply Hlog. apply bindr_in_r; [rewrite E; reflexivity|]. rewrite E. exact Hq.
    + destruct (fst (rec1 a false pos)); simpl in E; try discriminate.
Qed.

Lemma or_rel kids1 kids2 : Forall2 (fun a b => In (a, b) R) kids1 kids2 ->
  forall pos best, rel (or_loop rec1 kids1 pos best) (or_loop rec2 kids2 (phi pos) (option_map phi best)).
Proof.
  induction 1 as [|k1 k2 r1 r2 HR HF IH]; intros pos best; simpl.
  - apply rel_ret. destruct best; reflexivity.
  - apply rel_bindr; [apply Hrec; exact HR|]. intros r _ _. destruct r as [e fl| |c]; simpl.
    + replace (match option_map phi best with Some b => if b <? phi e then Some (phi e) else Some b | None => Some (phi e) end)
        with (option_map phi (match best with Some b => if b <? e then Some e else Some b | None => Some e end)).
      * apply IH.
      * destruct best as [b|]; simpl; [rewrite phi_ltb; destruct (b <? e); reflexivity|reflexivity].
    + apply IH.
    + apply IH.
Qed.

Lemma many_rel w k1 k2 mx stop : In (k1, k2) R ->
  forall n1 n2 e cnt last fin1 fin2,
  (forall e cnt last, rel (fin1 e cnt last) (fin2 (phi e) cnt (phi last))) ->
  rel (many_loop o1 len1 rec1 w k1 mx stop n1 e cnt last fin1) (many_loop o2 len2 rec2 w k2 mx stop n2 (phi e) cnt (phi last) fin2).
Proof.
  intros HR. induction n1 as [|n1 IH]; intros n2 e cnt last fin1 fin2 Hfin; simpl.
  - apply rel_abort_l.
  - destruct n2 as [|n2]; simpl.
    + unfold rel. simpl. intros _ _ H. discriminate.
    + replace (phi e <? len2) with (e <? len1) by (rewrite len_phi, phi_ltb; reflexivity). destruct (e <? len1); [|apply Hfin].
      apply (rel_ask (QS w e)). intros idx. simpl.
      assert (B : forall i2, i2 = phi idx -> rel
        (bindr (rec1 k1 false idx) (fun r => match r with
           | Ok e' _ => if e' =? e then ret (Abort 1) else if e' =? idx then many_loop o1 len1 rec1 w k1 mx stop n1 e' cnt last fin1
                        else if mx <=? N.succ cnt then fin1 e' (N.succ cnt) e' else many_loop o1 len1 rec1 w k1 mx stop n1 e' (N.succ cnt) e' fin1
           | _ => fin1 e cnt last end))
        (bindr (rec2 k2 false i2) (fun r => match r with
           | Ok e' _ => if e' =? phi e then ret (Abort 1) else if e' =? i2 then many_loop o2 len2 rec2 w k2 mx stop n2 e' cnt (phi last) fin2
                        else if mx <=? N.succ cnt then fin2 e' (N.succ cnt) e' else many_loop o2 len2 rec2 w k2 mx stop n2 e' (N.succ cnt) e' fin2
           | _ => fin2 (phi e) cnt (phi last) end))).
      { intros i2 ->. apply rel_bindr; [apply Hrec; exact HR|]. intros r _ _. destruct r as [e' fl| |c]; simpl; try apply Hfin.
        rewrite !phi_eqb. destruct (e' =? e); [apply rel_ret; reflexivity|].
        destruct (e' =? idx); [apply IH; exact Hfin|].
        destruct (mx <=? N.succ cnt); [apply Hfin|apply IH; exact Hfin]. }
      destruct stop as [t|]; [|apply B; reflexivity].
      apply (rel_ask (QT t idx)). intros a. simpl.
      destruct (a =? 0) eqn:Ea; simpl; [apply B; reflexivity|].
      replace (N.succ (phi (N.pred a)) =? 0) with false by (symmetry; apply N.eqb_neq; lia). apply Hfin.
Qed.

Lemma many_fin_rel pos mn mx zero e cnt last :
  rel (many_fin pos mn mx zero e cnt last) (many_fin (phi pos) mn mx zero (phi e) cnt (phi last)).
Proof.
  unfold many_fin. destruct ((cnt <? mn) || (mx <? cnt)); [apply rel_ret; destruct zero; reflexivity|].
  destruct (0 <? cnt); apply rel_ret; simpl; [reflexivity|]. rewrite phi_eqb. reflexivity.
Qed.

(* ---- MatchAll: Q pairs the children of the two nodes; it is one-to-one because the engine tells children apart by identity *)
Variable Q : N -> N -> Prop.
Hypothesis HQR : forall a b, Q a b -> In (a, b) R.
Hypothesis HQbij : forall a b a' b', Q a b -> Q a' b' -> (a =? a') = (b =? b').

Definition titem_rel (a b : titem) : Prop := Q (fst (fst a)) (fst (fst b)) /\ snd (fst a) = snd (fst b) /\ snd a = snd b.

Lemma all_scan_rel todo1 todo2 : Forall2 titem_rel todo1 todo2 ->
  forall e j found1 found2 none1 none2,
  (forall i loc, (j <= i < j + length todo1)%nat -> rel (found1 i loc) (found2 i (phi loc))) -> rel none1 none2 ->
  rel (all_scan rec1 todo1 e j found1 none1) (all_scan rec2 todo2 (phi e) j found2 none2).
Proof.
  induction 1 as [|[[k1 mm1] c1] [[k2 mm2] c2] r1 r2 [HR _] HF IH]; intros e j found1 found2 none1 none2 Hfound Hnone; simpl in *.
  - exact Hnone.
  - apply rel_bindr; [apply Hrec; apply HQR; exact HR|]. intros r _ _.
    assert (I : rel (all_scan rec1 r1 e (S j) found1 none1) (all_scan rec2 r2 (phi e) (S j) found2 none2)).
    { apply IH; auto. intros i loc Hi. apply Hfound. lia. }
    destruct r as [loc fl| |c]; simpl; auto.
    rewrite phi_eqb. destruct (loc =? e); [exact I|apply Hfound; lia].
Qed.

Lemma bump_rel todo1 todo2 : Forall2 titem_rel todo1 todo2 -> forall j, (j < length todo1)%nat ->
  Forall2 titem_rel (fst (bump todo1 j)) (fst (bump todo2 j)) /\ Q (snd (bump todo1 j)) (snd (bump todo2 j)).
Proof.
  induction 1 as [|[[k1 [mi1 ma1]] c1] [[k2 [mi2 ma2]] c2] r1 r2 [HR [Hm Hc]] HF IH]; intros j Hj; simpl in *; [lia|].
  injection Hm as -> ->. subst c2. destruct j as [|j]; simpl.
  - split; [|exact HR]. destruct (ma2 <=? N.succ c1); [exact HF|]. constructor; [|exact HF]. repeat split; auto.
  - destruct (IH j) as [A B]; [lia|]. destruct (bump r1 j) as [t1 x1], (bump r2 j) as [t2 x2]. simpl in *. split; [|exact B].
    constructor; [|exact A]. repeat split; auto.
Qed.

Lemma all_phase2_rel w order1 order2 : Forall2 Q order1 order2 ->
  forall e last, rel (all_phase2 o1 rec1 w order1 e last) (all_phase2 o2 rec2 w order2 (phi e) (phi last)).
Proof.
  induction 1 as [|k1 k2 r1 r2 HR HF IH]; intros e last; simpl.
  - apply rel_ret. reflexivity.
  - apply rel_bindr; [apply Hrec; apply HQR; exact HR|]. intros r _ _. destruct r as [e' fl| |c]; simpl; try (apply rel_ret; reflexivity).
    apply (rel_ask (QS w e')). intros a. simpl. apply IH.
Qed.

Lemma memb_bij k1 k2 l1 l2 : Q k1 k2 -> Forall2 Q l1 l2 -> memb k1 l1 = memb k2 l2.
Proof.
  intros HK. induction 1 as [|a b r1 r2 HA HF IH]; simpl; [reflexivity|].
  unfold memb in *. simpl. rewrite IH. rewrite (HQbij k1 k2 a b HK HA). reflexivity.
Qed.

Definition akid_rel (a b : N * (N * N)) : Prop := Q (fst a) (fst b) /\ snd a = snd b.

Lemma all_fin_rel w kids1 kids2 pos todo1 todo2 order1 order2 :
  Forall2 akid_rel kids1 kids2 -> Forall2 titem_rel todo1 todo2 -> Forall2 Q order1 order2 ->
  rel (all_fin o1 rec1 w kids1 pos todo1 order1) (all_fin o2 rec2 w kids2 (phi pos) todo2 order2).
Proof.
  intros HK HT HO. unfold all_fin.
  assert (E1 : existsb (fun it : titem => let '(_, (mi, _), c) := it in c <? mi) todo1 = existsb (fun it : titem => let '(_, (mi, _), c) := it in c <? mi) todo2).
  { clear - HT. induction HT as [|[[k1 [mi1 ma1]] c1] [[k2 [mi2 ma2]] c2] r1 r2 [_ [Hm Hc]] HF IH]; simpl in *; [reflexivity|].
    injection Hm as -> ->. subst c2. rewrite IH. reflexivity. }
  rewrite <- E1. destruct (existsb _ todo1); [apply rel_ret; reflexivity|].
  assert (E2 : existsb (fun kd : N * (N * N) => let '(k, (mi, _)) := kd in negb (memb k order1) && (0 <? mi)) kids1
             = existsb (fun kd : N * (N * N) => let '(k, (mi, _)) := kd in negb (memb k order2) && (0 <? mi)) kids2).
  { clear - HK HO HQbij. induction HK as [|[k1 [mi1 ma1]] [k2 [mi2 ma2]] r1 r2 [HQ Hm] HF IH]; simpl in *; [reflexivity|].
    injection Hm as -> ->. rewrite IH. rewrite (memb_bij k1 k2 order1 order2 HQ HO). reflexivity. }
  rewrite <- E2. destruct (existsb _ kids1); [apply rel_ret; reflexivity|].
  assert (HO' : Forall2 Q (order1 ++ filter (fun k => negb (memb k order1)) (map fst kids1)) (order2 ++ filter (fun k => negb (memb k order2)) (map fst kids2))).
  { apply Forall2_app; [exact HO|]. clear - HK HO HQbij. induction HK as [|[k1 mm1] [k2 mm2] r1 r2 [HQ _] HF IH]; simpl in *; [constructor|].
    rewrite (memb_bij k1 k2 order1 order2 HQ HO). destruct (negb (memb k2 order2)); [constructor; auto|exact IH]. }
  destruct HO' as [|a b r1 r2 Hab HF]; [apply rel_ret; reflexivity|].
  apply (all_phase2_rel w (a :: r1) (b :: r2)). constructor; auto.
Qed.

Local Arguments bump : simpl never.
Lemma all_phase1_rel w kids1 kids2 pos : Forall2 akid_rel kids1 kids2 ->
  forall n1 n2 todo1 todo2 e order1 order2,
  Forall2 titem_rel todo1 todo2 -> Forall2 Q order1 order2 ->
  rel (all_phase1 o1 rec1 w n1 todo1 e order1 (all_fin o1 rec1 w kids1 pos))
      (all_phase1 o2 rec2 w n2 todo2 (phi e) order2 (all_fin o2 rec2 w kids2 (phi pos))).
Proof.
  intros HK. induction n1 as [|n1 IH]; intros n2 todo1 todo2 e order1 order2 HT HO; simpl.
  - apply rel_abort_l.
  - destruct n2 as [|n2]; simpl; [unfold rel; simpl; intros _ _ H; discriminate|].
    assert (F : rel (all_fin o1 rec1 w kids1 pos todo1 order1) (all_fin o2 rec2 w kids2 (phi pos) todo2 order2)) by (apply all_fin_rel; auto).
    destruct HT as [|t1 t2 r1 r2 Ht HT]; [exact F|].
    apply (all_scan_rel (t1 :: r1) (t2 :: r2)); [constructor; auto| |exact F].
    intros i loc Hi. apply (rel_ask (QS w loc)). intros a. cbv beta. change (mapa (QS w loc) a) with (phi a).
    destruct (bump_rel (t1 :: r1) (t2 :: r2)) with (j := i) as [A B]; [constructor; auto|simpl in *; lia|].
    destruct (bump (t1 :: r1) i) as [td1 x1], (bump (t2 :: r2) i) as [td2 x2]. simpl in A, B.
    apply IH; [exact A|]. apply Forall2_app; [exact HO|]. constructor; [exact B|constructor].
Qed.
End Loops.

(* ---------------------------------------------------------------------------------------------------- *)
Section Step.
Variable R : list (N * N).
Variables rec1 rec2 : N -> bool -> N -> out.
Hypothesis Hrec : forall k1 k2 raw pos, In (k1, k2) R -> rel (rec1 k1 raw pos) (rec2 k2 raw (phi pos)).
Variables dead1 dead2 : N -> Prop.
Hypothesis Hdead1 : forall k raw pos, dead1 k -> fst (rec1 k raw pos) = Fail \/ is_abort (fst (rec1 k raw pos)) = true.
Hypothesis Hdead2 : forall k raw pos, dead2 k -> fst (rec2 k raw pos) = Fail \/ is_abort (fst (rec2 k raw pos)) = true.

Definition allQ (k1 k2 : list (N * (N * N))) (a b : N) : Prop := In (a, b) (combine (map fst k1) (map fst k2)).

Inductive node_rel : node -> node -> Prop :=
| NR_term t : node_rel (NTerm t) (NTerm t)
| NR_seq w k1 k2 : Forall2 (kid_rel R) k1 k2 -> node_rel (NSeq w k1) (NSeq w k2)
| NR_alt k1 k2 : alt_rel R dead1 dead2 k1 k2 -> node_rel (NAlt k1) (NAlt k2)
| NR_or k1 k2 : Forall2 (fun a b => In (a, b) R) k1 k2 -> node_rel (NOr k1) (NOr k2)
| NR_opt a b : In (a, b) R -> node_rel (NOpt a) (NOpt b)
| NR_many w a b mn mx st z : In (a, b) R -> node_rel (NMany w a mn mx st z) (NMany w b mn mx st z)
| NR_wrap p a b : In (a, b) R -> node_rel (NWrap p a) (NWrap p b)
| NR_raw a b : In (a, b) R -> node_rel (NRaw a) (NRaw b)
| NR_not a b : In (a, b) R -> node_rel (NNot a) (NNot b)
| NR_look a b : In (a, b) R -> node_rel (NLook a) (NLook b)
| NR_all w k1 k2 : Forall2 (akid_rel (allQ k1 k2)) k1 k2 -> (forall a b, allQ k1 k2 a b -> In (a, b) R) ->
                   (forall a b a' b', allQ k1 k2 a b -> allQ k1 k2 a' b' -> (a =? a') = (b =? b')) -> node_rel (NAll w k1) (NAll w k2).

Lemma step_rel nd1 nd2 : node_rel nd1 nd2 -> forall n1 n2 pos, rel (step o1 len1 rec1 n1 nd1 pos) (step o2 len2 rec2 n2 nd2 (phi pos)).
Proof.
  intros H n1 n2 pos. destruct H; simpl.
  - apply (rel_ask (QT t pos)). intros a. simpl. destruct (a =? 0) eqn:E; simpl; apply rel_ret; [reflexivity|].
    replace (N.succ (phi (N.pred a)) =? 0) with false by (symmetry; apply N.eqb_neq; lia). rewrite N.pred_succ. reflexivity.
  - apply seq_rel with (R := R); auto.
  - apply alt_loop_rel with (R := R) (dead1 := dead1) (dead2 := dead2); auto.
  - apply (or_rel R rec1 rec2 Hrec k1 k2 H pos None).
  - apply rel_bindr; [apply Hrec; auto|]. intros r _ Hna. destruct r as [e fl| |c]; simpl; try discriminate; apply rel_ret; simpl; [rewrite phi_eqb|]; reflexivity.
  - apply many_rel with (R := R); auto. intros e cnt last. apply many_fin_rel.
  - apply rel_bindr; [apply Hrec; auto|]. intros r _ Hna. destruct r as [e fl| |c]; simpl; apply rel_ret; reflexivity.
  - apply rel_bindr; [apply Hrec; auto|]. intros r _ Hna. destruct r as [e fl| |c]; simpl; apply rel_ret; reflexivity.
  - apply rel_bindr; [apply Hrec; auto|]. intros r _ Hna. destruct r as [e fl| |c]; simpl; try discriminate; apply rel_ret; reflexivity.
  - apply rel_bindr; [apply Hrec; auto|]. intros r _ Hna. destruct r as [e fl| |c]; simpl; apply rel_ret; reflexivity.
  - apply all_phase1_rel with (R := R) (Q := allQ k1 k2); auto.
    clear - H. generalize dependent (allQ k1 k2). intros Q H.
    induction H as [|[a [mi ma]] [b [mi' ma']] r1 r2 [HQ Hm] HF IH]; simpl in *; constructor; auto.
    repeat split; auto.
Qed.

Lemma apply_veto_rel v raw pos r : rel (apply_veto o1 v raw pos r) (apply_veto o2 v raw (phi pos) (mapres r)).
Proof.
  destruct r as [e fl| |c]; simpl; try (apply rel_ret; reflexivity).
  destruct raw; [apply rel_ret; reflexivity|]. destruct v; try (apply rel_ret; reflexivity).
  - rewrite phi_eqb. destruct (e =? pos); apply rel_ret; reflexivity.
  - apply (rel_ask (QD pos e)). intros a. simpl. destruct (a =? 0); apply rel_ret; reflexivity.
Qed.
End Step.
End Sim.
