From Coq Require Import List NArith Bool.
From Coq Require Import DecimalN DecimalFacts.
From MoSql Require Import Model.Num.
Import ListNotations.
Open Scope N_scope.

Lemma uint_chars u : uint_of_chars (chars_of_uint u) = Some u.
Proof. induction u; cbn [chars_of_uint uint_of_chars digit_of]; try rewrite IHu; reflexivity. Qed.

Lemma chars_nonempty n : chars_of_uint (N.to_uint n) <> [].
Proof. destruct n as [|p]; [discriminate|]. unfold N.to_uint. 
  pose proof (DecimalPos.Unsigned.to_uint_nonnil p) as H. destruct (Pos.to_uint p); [contradiction|..]; discriminate. Qed.

(* int(str(n)) = n for every natural number, of any magnitude *)
Theorem int_roundtrip n : parse_dec (dec n) = Some n.
Proof.
  unfold parse_dec, dec. destruct (chars_of_uint (N.to_uint n)) eqn:E.
  - exfalso. apply (chars_nonempty n). exact E.
  - rewrite <- E, uint_chars. cbn [option_map]. rewrite DecimalN.Unsigned.of_to. reflexivity.
Qed.
