(* Table obligations of the expression core, re-checked whenever Generated/Tables.v changes. *)
From Coq Require Import List Arith Bool.
Import ListNotations.
From MoSql Require Import Model.Infix Model.Expr Model.Fmt Proofs.TableChecks Generated.Tables Model.L1.

Lemma tables_ok_true : tables_ok = true.
Proof. vm_compute. reflexivity. Qed.

Theorem format_then_parse_inst : forall t p, nf' t -> edges_ok' t p = true ->
  exists f, parse' f (tokens' (mformat' t p)) = Some (t, []).
Proof. exact (format_then_parse_tables tbl info_tbl name_of_tbl flat_names fold_tbl beh_tbl tables_ok_true). Qed.
