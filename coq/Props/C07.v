(* C07 -- identifiers survive every quoting style, and embedded dots stay distinguishable (lexical core). *)
From Coq Require Import List NArith Bool.
From MoSql Require Import Model.Lit Model.Ident Proofs.LitProofs Proofs.IdentProofs.
Import ListNotations.
Open Scope N_scope.

(* any number of path segments of any content (spaces, dots, quote characters, reserved words, non-ASCII; only the backspace code
   point is excluded): escaping each segment and joining with dots can be split back into exactly the segments *)
Theorem C07_path_segments_distinguishable : forall segs, Forall okseg segs -> segs <> [] ->
  split_field (join_dot (map lit_field segs)) = segs.
Proof. exact path_roundtrip. Qed.

(* the three quoting styles decode to the same name, which is the dot-escaped text itself *)
Theorem C07_double_quoted : forall s, clean s = true -> double_column (quote DQ s) = Ok (lit_field s).
Proof. exact double_column_quote. Qed.
Theorem C07_backticked : forall s, clean s = true -> backtick_column (quote BT s) = Ok (lit_field s).
Proof. exact backtick_column_quote. Qed.
Theorem C07_bracketed : forall s, clean s = true -> square_column (bracket s) = Ok (lit_field s).
Proof. exact square_column_quote. Qed.

(* what format emits for a segment it decides to quote is read back as one identifier token with that name *)
Theorem C07_quoted_segment_one_token : forall q s rest, (match rest with c :: _ => c =? q | [] => false end) = false ->
  lex_string q (quote q s ++ rest) = Some (quote q s, rest).
Proof. exact lex_one. Qed.

(* non-vacuity: two segments, the first containing a dot and a blank ("a.b c", "d") *)
Example C07_premise_satisfiable : Forall okseg [[97; 46; 98; 32; 99]; [100]] /\ split_field (join_dot (map lit_field [[97; 46; 98; 32; 99]; [100]])) = [[97; 46; 98; 32; 99]; [100]].
Proof. split; [repeat constructor; discriminate|vm_compute; reflexivity]. Qed.

(* listed finding C07:backslash at model level: a quoted identifier is evaluated as a Python literal too: the name a\b (a, backslash, b) comes back as a, U+0008 *)
Theorem C07_escape_evaluation_refuted : double_column (quote DQ [97; 92; 98]%N) = Ok [97; 8]%N.
Proof. vm_compute. reflexivity. Qed.
