(* C19 -- INSERT ... VALUES pairs the i-th column with the i-th value of every row. *)
From Coq Require Import List String Bool ZArith.
From MoSql Require Import Base.Json Model.Ddl Proofs.DdlProofs.
Import ListNotations.
Open Scope string_scope.
Open Scope list_scope.

Theorem C19_insert_pairing : forall cols row j c v, NoDup cols -> List.length row = List.length cols ->
  nth_error cols j = Some c -> nth_error row j = Some v -> dict_get c (combine cols row) = Some v.
Proof. exact insert_pairing. Qed.

Theorem C19_row_recoverable : forall cols row, NoDup cols -> List.length row = List.length cols -> decode_row cols (zip_row cols row) = map Some row.
Proof. exact decode_zip. Qed.

Theorem C19_rows_in_order : forall cols rows i r, nth_error rows i = Some r ->
  match insert_values cols rows with JList l => nth_error l i = Some (zip_row cols r) | _ => False end.
Proof. exact rows_in_order. Qed.

Theorem C19_truncation_refuted : zip_row ["a"] [JInt 1%Z; JInt 2%Z] = JDict [("a", JInt 1%Z)].
Proof. exact truncation_refuted. Qed.

(* non-vacuity: two columns, two rows *)
Example C19_premise_satisfiable : NoDup ["a"; "b"] /\ insert_values ["a"; "b"] [[JInt 1%Z; JStr "x"]; [JInt 2%Z; JStr "y"]]
  = JList [JDict [("a", JInt 1%Z); ("b", JStr "x")]; JDict [("a", JInt 2%Z); ("b", JStr "y")]].
Proof. split; [repeat constructor; simpl; intuition discriminate|vm_compute; reflexivity]. Qed.

(* listed finding C19:column-name-zipped-by-character at model level: with ONE listed column the grammar hands the name over as a bare string,
   and zip pairs its characters with the values of a longer row; handed over as a list the name is kept *)
Theorem C19_bare_column_name_refuted :
  zip_row (py_iter (inl "ab")) [JInt 1%Z; JInt 2%Z] = JDict [("a", JInt 1%Z); ("b", JInt 2%Z)] /\
  zip_row (py_iter (inr ["ab"])) [JInt 1%Z] = JDict [("ab", JInt 1%Z)].
Proof. vm_compute. split; reflexivity. Qed.
