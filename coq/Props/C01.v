(* C01 — expression trees honour operator precedence, associativity and operand order. *)
From Coq Require Import List Arith Bool.
Import ListNotations.
From MoSql Require Import Model.Infix Model.Expr Model.Fmt Proofs.TableChecks Generated.Tables Model.L1 Oblig.O_L1 Proofs.WfBool.

(* Engine + KNOWN_OPS: every parenthesised operator tree (any depth; prefix, suffix, binary, ternary nodes; any parentheses, minimal,
   redundant or full) whose parenthesis-free regions obey the library's edge rule -- an operand that is itself an operator application
   stands unparenthesised only if its level is <= the parent's (left / prefix / suffix operand) or < (right and middle operands) --
   is read and reduced to exactly the tree's own value [peval']: tighter operators nest deeper, left-associative chains nest to the
   left, chains of the flattening set become one n-ary node, operands keep their order, names come from the table.  The follow text
   is left untouched. *)
Theorem C01_parse_is_tree : forall a rest, pwfb a = true -> wfb (flat' a) = true -> stops jv rest ->
  exists f, parse' f (tokens' a ++ rest) = Some (peval' a, rest).
Proof. exact (parse_tokens_inst tables_ok_true). Qed.

(* every operator spelling of the property's vocabulary gets its documented name (Spec/RefOrder.v) *)
Theorem C01_names : names_ok = true.
Proof. vm_compute. reflexivity. Qed.

(* exactly the documented operators are flattened *)
Theorem C01_flatten_set : flatten_ok = true.
Proof. vm_compute. reflexivity. Qed.
