(* C14 -- the matching engine always answers: totality of the engine model (Model/Peg.v) over any table with a checked certificate. *)
From Coq Require Import List NArith Bool.
Import ListNotations.
From MoSql Require Import Model.Peg Proofs.PegBounds Proofs.PegNull Proofs.PegFuel Proofs.PegCert.

(* ---- totality of the matching engine (the model of Model/Peg.v over ANY table that passes the decidable certificate check) ----
   cert_ok NL NLR RK NLT T re-checks, node by node, two nullability markings (calls with / without the node's own parse action) and a ranking that the
   translator computes from the live grammar: the markings are closed under the node rules, every call a node can make at its own start position goes to a
   node of smaller rank (no left recursion, nullable prefixes of sequences included), no repetition has a nullable child, every node id is in range.
   oracle_ok is what the theorem assumes of the real terminals and whitespace skippers: they match forward and inside the text, and a terminal not marked in
   NLT never matches the empty string.  Then, once the fuel exceeds (len + 1) * (max rank + 2) + rank root + 1, the whole-input parse ends in a match or a
   failure: it does not run out of fuel (the recursion, the loop of Many and the loop of MatchAll are bounded by the input length), it does not stand still
   in a repetition, it does not meet a dangling node id - for every input of that length, whatever the table. *)
Theorem C14_engine_total : forall NL NLR RK NLT T o len root w0 f,
  cert_ok NL NLR RK NLT T = true -> oracle_ok NLT o len -> (root < N.of_nat (List.length T))%N ->
  ((len + 1) * (Rmax RK + 2) + RKf RK root + 1 < N.of_nat f)%N ->
  is_abort (fst (parse_all T o len f root w0)) = false.
Proof. exact engine_total. Qed.

(* every match the engine model reports ends inside the text, at or after the position where it was tried (any table, any fuel) *)
Theorem C14_engine_matches_inside_input : forall o len T f i raw pos,
  (forall t p, (p <= len -> o (QT t p) = 0 \/ (p <= N.pred (o (QT t p)) <= len /\ 0 < o (QT t p)))%N) -> (forall w p, (p <= len -> p <= o (QS w p) <= len)%N) ->
  (pos <= len)%N -> match fst (run T o len f i raw pos) with Ok e _ => (pos <= e <= len)%N | _ => True end.
Proof. intros o len T f i raw pos HT HS Hp. exact (run_in_bounds o len HT HS T f i raw pos Hp). Qed.
