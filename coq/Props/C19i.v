(* C19 -- INSERT / REPLACE ... VALUES: which of the two tree shapes is chosen (to_row, get_literal, to_values, to_insert_call /
   to_replace_call + scrub), and that both shapes keep every written cell in place. *)
From Coq Require Import List ZArith String Bool.
From MoSql Require Import Base.Json Model.Ddl Model.InsertShape Proofs.InsertShapeProofs.
Import ListNotations.
Open Scope string_scope.
Open Scope list_scope.

(* the rows-of-literals shape is chosen exactly for two or more rows, each of two or more cells, every cell a truthy literal *)
Theorem C19_literal_form_iff : forall rows,
  literal_form rows = true <-> (2 <= List.length rows)%nat /\ forall row, In row rows -> (2 <= List.length row)%nat /\ forall c, In c row -> truthy c = true.
Proof. exact literal_form_iff. Qed.

(* otherwise the statement is {columns?, query, verb}, and the query holds every cell of every row, in place, for any number of rows and cells *)
Theorem C19_other_rows_are_a_query : forall verb table cols rows, literal_form rows = false ->
  insert_json verb table cols rows = JDict ((match cols with Some c => [("columns", cols_json c)] | None => [] end) ++ [("query", query_json rows); (verb, JStr table)]).
Proof. exact not_literal_is_query. Qed.
Theorem C19_query_keeps_cells : forall rows, rows <> [] -> (forall row, In row rows -> row <> []) -> query_cells (query_json rows) = map (map sel) rows.
Proof. exact query_keeps_cells. Qed.

(* the rows-of-literals shape with a list of names: row i is the object pairing the names with the row's literals; cell (i, j) is under name j *)
Theorem C19_values_form_pairs : forall verb table names rows, literal_form rows = true ->
  insert_json verb table (Some (inr names)) rows = JDict [("values", JList (map (fun row => JDict (combine names (map litv row))) rows)); (verb, JStr table)].
Proof. exact values_form_pairs. Qed.
Theorem C19_values_cell : forall names row j n c, NoDup names -> List.length row = List.length names ->
  nth_error names j = Some n -> nth_error row j = Some c -> dict_get n (combine names (map litv row)) = Some (litv c).
Proof. exact values_cell. Qed.
Theorem C19_values_form_plain : forall verb table rows, literal_form rows = true ->
  insert_json verb table None rows = JDict [("values", JList (map (fun row => JList (map litv row)) rows)); (verb, JStr table)].
Proof. exact values_form_plain. Qed.
(* the literal stored in that shape is the written cell (a string without its {"literal": } wrapper) *)
Theorem C19_literal_cell_faithful : forall c, truthy c = true -> lit c = Some (litv c) /\ (sel c = litv c \/ exists s, c = CStr s /\ sel c = JDict [("literal", litv c)]).
Proof. exact literal_cell_faithful. Qed.

(* listed finding C19:column-name-zipped-by-character, through the whole decision *)
Theorem C19_one_column_wide_rows_refuted :
  insert_json "insert" "t" (Some (inl "ab")) [[CInt 1; CInt 2]; [CInt 3; CInt 4]]
  = JDict [("values", JList [JDict [("a", JInt 1); ("b", JInt 2)]; JDict [("a", JInt 3); ("b", JInt 4)]]); ("insert", JStr "t")].
Proof. exact one_column_wide_rows. Qed.

Example C19_shapes_satisfiable :
  literal_form [[CInt 1; CStr "a"]; [CFloat "1.5" false; CBool true]] = true /\
  literal_form [[CInt 1; CInt 0]; [CInt 2; CStr "b"]] = false /\ literal_form [[CInt 1]; [CInt 2]] = false /\ literal_form [[CInt 1; CStr "a"]] = false.
Proof. vm_compute. repeat split; reflexivity. Qed.
