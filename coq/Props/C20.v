(* C20 -- window frames are recorded and rendered exactly. *)
From Coq Require Import List ZArith Bool.
From MoSql Require Import Model.Window Proofs.WindowProofs.
Open Scope Z_scope.

(* every valid frame form (single bound or BETWEEN, UNBOUNDED / CURRENT ROW / n PRECEDING / n FOLLOWING on either side) and
   every positive integer offset: PRECEDING offsets negative, FOLLOWING positive, CURRENT ROW zero, UNBOUNDED absent *)
Theorem C20_frame_recorded : forall f, valid f = true -> mframe f = spec f.
Proof. exact frame_spec. Qed.

(* every recordable {min, max} except the doubly unbounded one is rendered as a frame that parses back to the same values *)
Theorem C20_frame_rendered : forall r, valid_val r = true -> r <> (None, None) -> exists f, fmt_frame r = Some f /\ mframe f = r.
Proof. exact frame_format_roundtrip. Qed.

(* the doubly unbounded frame is dropped by the formatter (listed finding) *)
Theorem C20_unbounded_frame_refuted : fmt_frame (mframe (Between UnbPrec UnbFoll)) = None.
Proof. exact unbounded_frame_dropped. Qed.

(* non-vacuity: valid frames of the three kinds *)
Example C20_premise_satisfiable : valid (Between (Prec 2) Cur) = true /\ valid (Single UnbPrec) = true /\ valid (Between (Foll 1) (Foll 3)) = true.
Proof. vm_compute. auto. Qed.

(* listed finding C05:frame-start-after-end at model level: outside `valid` (start after end) _to_between_call picks the wrong side and a bound is lost *)
Theorem C20_start_after_end_refuted :
  valid (Between (Foll 51) (Prec 72)) = false /\ mframe (Between (Foll 51) (Prec 72)) = (Some 0, Some (-72)) /\ spec (Between (Foll 51) (Prec 72)) = (Some 51, Some (-72)).
Proof. vm_compute. repeat split; reflexivity. Qed.
