(* C06 -- string and numeric literals survive parse and format exactly (lexical core). *)
From Coq Require Import List NArith Bool.
From MoSql Require Import Model.Lit Model.Num Proofs.LitProofs Proofs.NumProofs.
Import ListNotations.
Open Scope N_scope.

(* every string without backslash, carriage return and NUL -- of any length, with any other code points: quotes, newlines, semicolons,
   comment markers, keywords, non-ASCII -- written as a single-quoted literal with quotes doubled decodes to exactly itself *)
Theorem C06_single_quoted : forall s, clean s = true -> single_literal (quote SQ s) = Ok s.
Proof. exact single_literal_roundtrip. Qed.

(* the same for double-quoted literals (MySQL / BigQuery) *)
Theorem C06_double_quoted : forall s, clean s = true -> double_literal (quote DQ s) = Ok s.
Proof. exact double_literal_roundtrip. Qed.

(* the quoted text -- which is also what the formatter emits for a string -- is matched as exactly one string token whatever follows,
   provided the follow text does not begin with another quote *)
Theorem C06_one_token : forall q s rest, (match rest with c :: _ => c =? q | [] => false end) = false ->
  lex_string q (quote q s ++ rest) = Some (quote q s, rest).
Proof. exact lex_one. Qed.

(* integers of any magnitude: reading the decimal text of n gives n *)
Theorem C06_int_exact : forall n, parse_dec (dec n) = Some n.
Proof. exact int_roundtrip. Qed.

(* non-vacuity: a clean string with an apostrophe, a double quote, a semicolon and a line feed; quoting doubles the apostrophe *)
Example C06_premise_satisfiable : clean [105; 116; 39; 115; 32; 34; 59; 10] = true /\ quote SQ [105; 116; 39; 115] = [39; 105; 116; 39; 39; 115; 39].
Proof. vm_compute. auto. Qed.

(* listed findings C06:backslash and C06:carriage-return at model level (outside `clean`): the parse action evaluates the token text as a Python literal,
   so the two characters backslash n become a line feed, a trailing backslash is an error (raised as a non-parse exception), a carriage return a line feed *)
Theorem C06_escape_evaluation_refuted :
  clean [97; 92; 110; 98]%N = false /\ single_literal (quote SQ [97; 92; 110; 98]%N) = Ok [97; 10; 98]%N /\
  single_literal (quote SQ [97; 92]%N) = Err /\ single_literal (quote SQ [97; 13; 98]%N) = Ok [97; 10; 98]%N.
Proof. vm_compute. repeat split; reflexivity. Qed.
