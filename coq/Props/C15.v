(* C15 — a call's result depends only on its arguments, not on what was called before. *)
From Coq Require Import List String Bool ZArith.
Import ListNotations.
Open Scope string_scope.
Open Scope list_scope.
From MoSql Require Import Base.Json Model.Scrub Model.Api Proofs.ApiProofs Generated.ApiShape.

(* the per-line effect list extracted from _parse is one of the accepted shapes: every global the line reads
   (null_locations, scrub_op, fmap) is written earlier in the same iteration *)
Theorem C15_shape_ok : shape_okb parse_shape = true.
Proof. vm_compute. reflexivity. Qed.

Theorem C15_cache_key : cache_keyed_by_both = true.
Proof. vm_compute. reflexivity. Qed.

(* for every pure grammar-matching function, every history of calls (any dialects, options, rejected calls) and every call:
   the result equals the result of the same call on the initial state, which is the pure function [spec] of the arguments *)
Theorem C15_history_independence : forall gmatch h c,
  snd (run_call gmatch parse_shape (run_hist gmatch parse_shape init h) c) = snd (run_call gmatch parse_shape init c).
Proof. intros. apply history_independence. exact C15_shape_ok. Qed.

Theorem C15_result_is_function_of_arguments : forall gmatch h c,
  snd (run_call gmatch parse_shape (run_hist gmatch parse_shape init h) c) = spec gmatch c.
Proof. intros. apply result_is_spec; [exact C15_shape_ok|]. apply hist_inv; [exact C15_shape_ok|constructor]. Qed.

(* why the reset matters: without it a later call writes its NULL value into a tree returned earlier *)
Definition g0 (d : nat) (a : bool) (sql : nat) : option (list raw) := Some [RList [RMark; RInt 1%Z]].
Definition c_a := {| c_dialect := 0; c_allcols := false; c_sql := 0; c_cb := MSimple; c_fm := []; c_null := JInt 7%Z |}.
Definition c_b := {| c_dialect := 0; c_allcols := false; c_sql := 0; c_cb := MSimple; c_fm := []; c_null := JInt 9%Z |}.
Definition no_reset : list effect := [E_InstallOp; E_InstallFmap; E_Match; E_Scrub; E_Subst; E_Acc].
Example C15_stale_reset_refuted :
  let s1 := fst (run_call g0 no_reset init c_a) in
  heap_get 0 (s_heap s1) = Some (JList [JInt 7%Z; JInt 1%Z]) /\
  heap_get 0 (s_heap (fst (run_call g0 no_reset s1 c_b))) = Some (JList [JInt 9%Z; JInt 1%Z]).
Proof. vm_compute. split; reflexivity. Qed.
