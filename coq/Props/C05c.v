(* C05 -- CASE expressions lose no operand: the parse actions to_when_call / to_case_call / to_switch_call, composed with scrub, put
   every written operand into the tree, in the written order. *)
From Coq Require Import List String Bool ZArith.
From MoSql Require Import Base.Json Model.Scrub Model.CaseExpr Proofs.CaseProofs.
Import ListNotations.
Open Scope string_scope.
Open Scope list_scope.

(* what the three parse actions build, pushed through the scrub model, is case_json -- for any number of arms, with or without subject and ELSE,
   whatever the operands' own raw results are (premise: each operand's raw result scrubs to its tree) *)
Theorem C05_case_parse_actions_give_tree : forall (s : option raw) (cases : list (raw * raw)) (elze : option raw) (c : csrc),
  opt_rel s (subj c) -> Forall2 arm_rel cases (arms c) -> opt_rel elze (other c) -> scrubs (case_raw s cases elze) (case_json c).
Proof. exact parse_actions_give_case_json. Qed.

(* the operands read back from the tree are exactly the written ones, in order (the subject once per arm) *)
Theorem C05_case_operands_in_order : forall c, wf c = true -> json_ops (has_subj c) (case_args c) = written_ops c.
Proof. exact ops_exact. Qed.

(* every written operand -- subject, each WHEN, each THEN, the ELSE -- is in the tree, provided a subject comes with at least one arm *)
Theorem C05_case_operands_kept : forall c x, wf c = true -> (has_subj c = true -> arms c <> []) -> In x (all_written c) -> In x (json_ops (has_subj c) (case_args c)).
Proof. exact ops_kept. Qed.

(* listed finding C05:case-without-when: CASE xa1 ELSE xb2 END is well formed for the grammar and xa1 is not in the tree *)
Theorem C05_case_subject_dropped_refuted :
  wf c_dropped = true /\ case_json c_dropped = JDict [("case", JStr "xb2")] /\ json_ops true (case_args c_dropped) = [JStr "xb2"].
Proof. exact subject_dropped. Qed.

(* non-vacuity: a simple CASE with two arms and ELSE *)
Example C05_case_premise_satisfiable :
  let c := {| subj := Some (JStr "x"); arms := [(JInt 1%Z, JStr "a"); (JInt 2%Z, JStr "b")]; other := Some (JStr "d") |} in
  wf c = true /\ (has_subj c = true -> arms c <> []) /\
  case_json c = JDict [("case", JList [JDict [("then", JStr "a"); ("when", JDict [("eq", JList [JStr "x"; JInt 1%Z])])];
                                       JDict [("then", JStr "b"); ("when", JDict [("eq", JList [JStr "x"; JInt 2%Z])])]; JStr "d"])].
Proof. vm_compute. repeat split; try reflexivity. discriminate. Qed.

(* non-vacuity of the premises of C05_case_parse_actions_give_tree: concrete raw operands, pushed through the scrub model *)
Example C05_case_raw_instance :
  opt_rel (Some (RStr "x")) (Some (JStr "x")) /\ Forall2 arm_rel [(RInt 1%Z, RStr "a")] [(JInt 1%Z, JStr "a")] /\ opt_rel (Some RMark) (Some JMark) /\
  option_map fst (scrub_s MSimple [] (case_raw (Some (RStr "x")) [(RInt 1%Z, RStr "a")] (Some RMark)))
  = Some (case_json {| subj := Some (JStr "x"); arms := [(JInt 1%Z, JStr "a")]; other := Some JMark |}).
Proof.
  split; [exists []; reflexivity|]. split; [constructor; [split; exists []; reflexivity|constructor]|]. split; [exists []; reflexivity|].
  vm_compute. reflexivity.
Qed.
