(* C03 -- which branch Formatter.ordered_query takes, and what the set-operation-with-a-tail branch writes. *)
From Coq Require Import List String Bool ZArith Permutation.
From MoSql Require Import Base.Json Model.QueryFmt Model.QueryBranch Proofs.QueryBranchProofs.
Import ListNotations.
Open Scope string_scope.
Open Scope list_scope.

Theorem C03_regular_branch_iff : forall uo agg d, branch_of uo agg d = Regular <-> exists k, In k uo /\ k <> "from" /\ dict_get k d <> None.
Proof. exact regular_iff. Qed.

Theorem C03_setop_tail_written : forall uo oo agg d v, branch_of uo agg d = SetOp -> dict_get "from" d = Some v -> written uo oo agg d = Some (("from", v) :: emit oo d).
Proof. exact setop_written. Qed.

Theorem C03_setop_tail_value : forall uo oo agg d v k, branch_of uo agg d = SetOp -> dict_get "from" d = Some v -> NoDup oo -> In k oo -> k <> "from" ->
  match written uo oo agg d with Some w => dict_get k w = dict_get k d | None => False end.
Proof. exact setop_tail_value. Qed.

Theorem C03_setop_tail_complete : forall uo oo agg d v, branch_of uo agg d = SetOp -> dict_get "from" d = Some v -> NoDup oo -> ~ In "from" oo -> NoDup (keys d) ->
  (forall k, In k (keys d) -> k = "from" \/ In k oo) -> match written uo oo agg d with Some w => Permutation w d | None => False end.
Proof. exact setop_complete. Qed.

(* non-vacuity: a UNION with ORDER BY and LIMIT 0 takes the set-operation branch and keeps the zero count *)
Example C03_setop_branch_satisfiable :
  let d := [("from", JDict [("union", JList [JStr "q1"; JStr "q2"])]); ("orderby", JDict [("value", JInt 1%Z)]); ("limit", JInt 0%Z)] in
  branch_of ["with"; "select"; "from"; "where"; "union"] ["distinct"; "orderby"; "limit"; "nulls"] d = SetOp /\
  written ["with"; "select"; "from"; "where"; "union"] ["orderby"; "limit"; "offset"; "fetch"] ["distinct"; "orderby"; "limit"; "nulls"] d = Some d.
Proof. vm_compute. split; reflexivity. Qed.
