(* C13 -- a script parses to the list of its statements' trees. *)
From Coq Require Import List NArith ZArith String Ascii Bool.
From MoSql Require Import Base.Json Model.Lit Model.Script Proofs.ScriptProofs.
Import ListNotations.

(* token level: any number of statements, any number of empty statements, leading and trailing separators --
   as long as two statements are never adjacent, the statement list comes back in order *)
Theorem C13_statement_list : forall l, well_sep l = true -> many_command l = Some (stmts_of l).
Proof. exact many_command_spec. Qed.

(* result assembly: no statement -> None, one -> its tree, several -> the list, in order *)
Theorem C13_none_single_list : forall ts, forallb is_stmt_tree ts = true ->
  assemble (map Some ts) = match ts with [] => ANone | [t] => ATree t | _ => AList ts end.
Proof. exact assemble_spec. Qed.

(* a block that scrubs away contributes nothing and does not disturb its neighbours *)
Theorem C13_empty_block_skipped : forall ts1 ts2, forallb is_stmt_tree ts1 = true -> forallb is_stmt_tree ts2 = true ->
  assemble (map Some ts1 ++ None :: map Some ts2) = assemble (map Some (ts1 ++ ts2)).
Proof. exact assemble_skips. Qed.

(* non-vacuity: leading, doubled and trailing separators around two statements *)
Example C13_premise_satisfiable : well_sep [Semi; Stmt 1; Semi; Semi; Stmt 2; Semi] = true /\ stmts_of [Semi; Stmt 1; Semi; Semi; Stmt 2; Semi] = [1; 2]%nat.
Proof. vm_compute. auto. Qed.

(* ---- model-level witnesses of the listed findings ---- *)
Local Open Scope N_scope.
Definition cp (s : string) : list N := map N_of_ascii (list_ascii_of_string s).

(* listed findings of C13 at model level (Model/Script.v is the DELIMITER pre-pass, compared with parse_delimiters on every run):
   the pre-pass works on the raw text, so a line that starts with the word inside a string literal is a directive ... *)
Theorem C13_directive_inside_literal_refuted :
  mparse_delimiters (cp "select 'x" ++ [10] ++ cp "delimiter //" ++ [10] ++ cp "'; select 2")
  = [cp "select 'x"; cp "delimiter //"; cp "'; select 2"].
Proof. vm_compute. reflexivity. Qed.

(* ... a custom delimiter separates only at the end of a line ... *)
Theorem C13_custom_delimiter_mid_line_refuted :
  mparse_delimiters (cp "delimiter $$" ++ [10] ++ cp "select 1$$ select 2$$" ++ [10])
  = [cp "delimiter $$"; cp "select 1$$ select 2"; []].
Proof. vm_compute. reflexivity. Qed.

(* ... and does so inside a string literal too *)
Theorem C13_custom_delimiter_inside_literal_refuted :
  mparse_delimiters (cp "delimiter $$" ++ [10] ++ cp "select '$$" ++ [10] ++ cp "'$$" ++ [10] ++ cp "select 2$$" ++ [10])
  = [cp "delimiter $$"; cp "select '"; cp "'"; cp "select 2"; []].
Proof. vm_compute. reflexivity. Qed.
