(* C18 - dialect entry points differ only in the documented quoting rules (statements about the engine model of Model/Peg.v). *)
From Coq Require Import List NArith Bool.
From MoSql Require Import Model.Peg Model.PegSim Proofs.PegProofs Proofs.PegSimProofs Proofs.PegCor Proofs.PegCert.
Import ListNotations.
Local Open Scope N_scope.

(* Two dialect tables T1 T2 that pass the generated similarity check, run on the SAME input (one oracle):
   if no quote / bracket / at-sign terminal matches anywhere on this input (it is dialect neutral) and the dialects' plain-identifier
   terminals agree on it, then related nodes - in particular the two roots - return the same outcome at every position. *)
Theorem C18_dialect_neutral_nodes : forall T1 T2 R EQN DT o len,
  simb T1 T2 R EQN DT = true ->
  (forall t p, memb t DT = true -> o (QT t p) = 0) ->
  (forall i j f1 f2 raw pos, In (i, j) EQN ->
     is_abort (fst (run T1 o len f1 i raw pos)) = false -> is_abort (fst (run T2 o len f2 j raw pos)) = false ->
     fst (run T2 o len f2 j raw pos) = fst (run T1 o len f1 i raw pos)) ->
  forall f1 f2 i j raw pos, In (i, j) R ->
  is_abort (fst (run T1 o len f1 i raw pos)) = false -> is_abort (fst (run T2 o len f2 j raw pos)) = false ->
  fst (run T2 o len f2 j raw pos) = fst (run T1 o len f1 i raw pos).
Proof. exact C18_dialect_neutral_nodes_pf. Qed.


(* the same for the whole-input parse that the entry points perform *)
Theorem C18_dialect_neutral : forall T1 T2 R EQN DT o len root1 root2 w0,
  simb T1 T2 R EQN DT = true ->
  In (root1, root2) R ->
  (forall t p, memb t DT = true -> o (QT t p) = 0) ->
  (forall i j f1 f2 raw pos, In (i, j) EQN ->
     is_abort (fst (run T1 o len f1 i raw pos)) = false -> is_abort (fst (run T2 o len f2 j raw pos)) = false ->
     fst (run T2 o len f2 j raw pos) = fst (run T1 o len f1 i raw pos)) ->
  forall f1 f2,
  is_abort (fst (parse_all T1 o len f1 root1 w0)) = false -> is_abort (fst (parse_all T2 o len f2 root2 w0)) = false ->
  fst (parse_all T2 o len f2 root2 w0) = fst (parse_all T1 o len f1 root1 w0).
Proof. exact C18_dialect_neutral_pf. Qed.


(* the whole-input statement with the two "does not abort" premises discharged by the totality theorem (each table with its own checked certificate) *)
Theorem C18_dialect_neutral_total : forall NL1 NLR1 RK1 NL2 NLR2 RK2 NLT T1 T2 R EQN DT o len root1 root2 w0,
  simb T1 T2 R EQN DT = true ->
  In (root1, root2) R ->
  (forall t p, memb t DT = true -> o (QT t p) = 0) ->
  (forall i j f1 f2 raw pos, In (i, j) EQN ->
     is_abort (fst (run T1 o len f1 i raw pos)) = false -> is_abort (fst (run T2 o len f2 j raw pos)) = false ->
     fst (run T2 o len f2 j raw pos) = fst (run T1 o len f1 i raw pos)) ->
  cert_ok NL1 NLR1 RK1 NLT T1 = true -> cert_ok NL2 NLR2 RK2 NLT T2 = true -> oracle_ok NLT o len ->
  root1 < N.of_nat (List.length T1) -> root2 < N.of_nat (List.length T2) ->
  forall f1 f2,
  (len + 1) * (Rmax RK1 + 2) + RKf RK1 root1 + 1 < N.of_nat f1 -> (len + 1) * (Rmax RK2 + 2) + RKf RK2 root2 + 1 < N.of_nat f2 ->
  fst (parse_all T2 o len f2 root2 w0) = fst (parse_all T1 o len f1 root1 w0).
Proof.
  intros NL1 NLR1 RK1 NL2 NLR2 RK2 NLT T1 T2 R EQN DT o len root1 root2 w0 Hs Hr Hd He Hc1 Hc2 Ho Hr1 Hr2 f1 f2 Hf1 Hf2.
  apply (C18_dialect_neutral_pf T1 T2 R EQN DT o len root1 root2 w0 Hs Hr Hd He f1 f2).
  - exact (engine_total NL1 NLR1 RK1 NLT T1 o len root1 w0 f1 Hc1 Ho Hr1 Hf1).
  - exact (engine_total NL2 NLR2 RK2 NLT T2 o len root2 w0 f2 Hc2 Ho Hr2 Hf2).
Qed.


(* a terminal of DT does match somewhere: an alternative that is skipped by the check can then win on one side only *)
Theorem C18_sensitive_refuted :
  let T1 := [Build_entry (NAlt [(1, false); (2, false)]) VNone; Build_entry (NTerm 7) VNone; Build_entry (NTerm 8) VNone] in
  let T2 := [Build_entry (NAlt [(1, false)]) VNone; Build_entry (NTerm 8) VNone] in
  let o := fun q => match q with QT 7 0 => 4 | QT 8 0 => 2 | _ => 0 end in
  simb T1 T2 [(0, 0); (2, 1)] [] [7] = true /\
  fst (run T1 o 3 5 0 false 0) <> fst (run T2 o 3 5 0 false 0).
Proof. exact C18_sensitive_refuted_pf. Qed.

(* non-vacuity: a common table with a quoted-identifier alternative (terminal 7, in DT) and a dialect table without it, whose identifier terminal
   (9) differs from the common one (8) but agrees with it on this input (EQN); on an input where terminal 7 matches nowhere both accept alike. *)
Example C18_premises_satisfiable :
  let T1 := [Build_entry (NAlt [(1, false); (2, false)]) VNone; Build_entry (NTerm 7) VNone; Build_entry (NTerm 8) VNone] in
  let T2 := [Build_entry (NAlt [(1, false)]) VNone; Build_entry (NTerm 9) VNone] in
  let o := fun q => match q with QT 8 0 => 4 | QT 9 0 => 4 | QS _ p => p | _ => 0 end in
  simb T1 T2 [(0, 0); (2, 1)] [(2, 1)] [7] = true /\
  (forall p, o (QT 7 p) = 0) /\
  fst (run T1 o 3 5 2 false 0) = fst (run T2 o 3 5 1 false 0) /\
  fst (parse_all T1 o 3 5 0 0) = Ok 3 false /\ fst (parse_all T2 o 3 5 0 0) = Ok 3 false.
Proof. vm_compute. repeat split; auto. Qed.
