(* C05 — an accepted statement loses no identifier, number or string: the scrub stage (utils.scrub), for every statement kind. *)
From Coq Require Import List ZArith String Bool.
Import ListNotations.
From MoSql Require Import Base.Json Model.Scrub Model.ScrubAtoms Proofs.Slots Proofs.ScrubAtomsProofs.
Open Scope string_scope.

(* under any calls= callback and any fmap: every string and number that scrub visits in a raw parse result occurs in the value it
   returns (as a leaf or as a dictionary key).  goodb excludes exactly the collision of simple_op: a keyword argument named like the
   operation (and duplicate dictionary keys, which Python dictionaries cannot hold) *)
Theorem C05_scrub_keeps_visited : forall m fm r v, goodb m fm r = true -> scrub_s m fm r = Some v -> incl (vis m fm r) (jatoms (fst v)).
Proof. exact scrub_keeps_visited. Qed.

(* what scrub removes (an entry that scrubs to nothing) holds no atom that it would have visited *)
Theorem C05_scrubbed_away_is_empty : forall m fm r, scrub_s m fm r = None -> vis m fm r = [].
Proof. exact vis_none. Qed.

(* so a raw result with nothing hidden (no unnamed token beside named ones that holds an atom of its own) keeps every atom *)
Theorem C05_scrub_keeps_all : forall m fm r v, goodb m fm r = true -> hidden m fm r = [] -> scrub_s m fm r = Some v ->
  incl (ratoms r) (jatoms (fst v)).
Proof. exact scrub_keeps_all. Qed.

(* the one way the scrub stage does lose atoms: unnamed tokens of a result that also has named ones (FETCH c INTO a, b before 1a10cf7) *)
Theorem C05_unnamed_beside_named_refuted :
  let r := RPR true [("fetch", [RStr "c"])] [RStr "c"; RStr "a"; RStr "b"] in
  scrub_s MSimple [] r = Some (JDict [("fetch", JStr "c")], []) /\ hidden MSimple [] r = [AStr "a"; AStr "b"].
Proof. exact unnamed_beside_named_dropped. Qed.

(* non-vacuity: a call with arguments, keyword arguments and a nested named result satisfies the premises and keeps all five atoms *)
Example C05s_premise_satisfiable :
  let r := RPR true [("value", [RCall "f" (RList [RStr "x"; RInt 5%Z]) [("over", RPR true [("orderby", [RStr "y"])] [RStr "y"])]]); ("name", [RStr "n"])] [] in
  goodb MSimple [] r = true /\ hidden MSimple [] r = [] /\
  scrub_s MSimple [] r = Some (JDict [("value", JDict [("over", JDict [("orderby", JStr "y")]); ("f", JList [JStr "x"; JInt 5%Z])]); ("name", JStr "n")], []).
Proof. vm_compute. repeat split; reflexivity. Qed.
