(* C03 / C05 -- TRIM: the tree holds the value and the characters; what Formatter._trim writes re-reads to the same TRIM when the
   characters are truthy for Python (a name, a non-empty tree, a non-zero number). *)
From Coq Require Import List ZArith String Bool.
From MoSql Require Import Base.Json Model.TrimExpr Proofs.TrimProofs.
Import ListNotations.
Open Scope string_scope.
Open Scope list_scope.

Theorem C03_trim_parse_format_parse : forall s, twf s = true -> reread_trim (fmt_trim (trim_json s)) = Some s.
Proof. exact trim_roundtrip. Qed.

Theorem C05_trim_operands_kept : forall s, dict_get "trim" (match trim_json s with JDict d => d | _ => [] end) = Some (val s)
  /\ dict_get "characters" (match trim_json s with JDict d => d | _ => [] end) = chars s.
Proof. exact trim_keeps. Qed.

(* listed finding (C03:hunt, falsy values): TRIM(0 FROM a) keeps the 0 in the tree and does not write it *)
Theorem C03_trim_zero_characters_refuted : twf t_zero = false /\ trim_json t_zero = JDict [("characters", JInt 0); ("trim", JStr "a")]
  /\ reread_trim (fmt_trim (trim_json t_zero)) = Some {| dir := None; chars := None; val := JStr "a" |}.
Proof. exact trim_zero_dropped. Qed.

Example C03_trim_premise_satisfiable :
  twf {| dir := Some "both"; chars := Some (JDict [("literal", JStr "x")]); val := JStr "b" |} = true /\
  twf {| dir := None; chars := None; val := JInt 0 |} = true /\ twf {| dir := Some "leading"; chars := None; val := JStr "b" |} = true.
Proof. vm_compute. repeat split; reflexivity. Qed.
