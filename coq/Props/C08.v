(* C08 — results are plain JSON in the documented simplified form, under every option.
   Only statements here; proofs are in Proofs/. *)
From Coq Require Import List String ZArith.
Import ListNotations.
Open Scope string_scope.
Open Scope list_scope.
From MoSql Require Import Base.Json Model.Scrub Proofs.Slots Proofs.Simplified Proofs.Calls.

(* every raw tree, every callback, every rename map, every plain null value: no internal object survives *)
Theorem C08_plain_json : forall m fm x r v,
  good m fm r -> plain x = true -> parse_result m fm x r = Some v -> v <> JMark -> plain v = true.
Proof. exact result_plain. Qed.

(* default callback: simplified form (no empty list, no one-element list, no None entry) with every NULL replaced by x *)
Theorem C08_simplified_simple : forall fm x r v,
  good MSimple fm r -> parse_result MSimple fm x r = Some v -> exists v0, simplified v0 /\ v = subst' x v0.
Proof. exact result_simplified. Qed.

(* normal_op: same, "args" lists exempt from the one-element rule (README documents args: [x]) *)
Theorem C08_simplified_normal : forall fm x r v,
  good MNormal fm r -> parse_result MNormal fm x r = Some v -> exists v0, simplified_n v0 /\ v = subst' x v0.
Proof. exact result_simplified_normal. Qed.

(* the side condition is decidable; the harness evaluates it on every captured raw result *)
Theorem C08_good_decidable : forall m fm r, goodb m fm r = true -> good m fm r.
Proof. exact goodb_good. Qed.

(* non-vacuity: the raw result of  select f(a, NULL) over NULL from t  (a call with a NULL argument and a NULL keyword argument) meets the premises *)
Example C08_premise_satisfiable :
  let r0 := RPR true [("select", [RPR true [("value", [RCall "f" (RList [RStr "a"; RMark]) [("over", RMark)]])] []]); ("from", [RStr "t"])] [] in
  goodb MSimple [] r0 = true /\ goodb MNormal [("f", "g")] r0 = true /\ nofakeb [] r0 = true /\ nofakeb_n [("f", "g")] r0 = true /\
  parse_result MSimple [] (JInt 7%Z) r0
    = Some (JDict [("select", JDict [("value", JDict [("over", JInt 7%Z); ("f", JList [JStr "a"; JInt 7%Z])])]); ("from", JStr "t")]).
Proof. vm_compute. repeat split; reflexivity. Qed.
