(* C03 — parse -> format -> parse is the identity on the formatter-supported fragment (expression core). *)
From Coq Require Import List Arith Bool.
Import ListNotations.
From MoSql Require Import Model.Infix Model.Expr Model.Fmt Proofs.TableChecks Generated.Tables Model.L1 Oblig.O_L1 Proofs.WfBool.

(* For every written expression (any depth, any parentheses) obeying the library's edge rule: its parse tree t, when in the
   formatter's normal form and free of the listed precedence disagreements (edges_ok'), is rendered by the formatter to tokens that
   parse back to exactly t, in every context precedence: format never gets stuck there and format(parse(.)) is a normaliser whose
   output is a fixed point (the re-parsed tree being t itself, formatting it again yields the same tokens). *)
Theorem C03_parse_format_parse : forall a p,
  pwfb a = true -> wfb (flat' a) = true -> nfb (peval' a) = true -> edges_ok' (peval' a) p = true ->
  exists f1 f2, parse' f1 (tokens' a) = Some (peval' a, [])
             /\ parse' f2 (tokens' (mformat' (peval' a) p)) = Some (peval' a, []).
Proof. exact (parse_format_parse tables_ok_true). Qed.
