(* C16 — concurrent calls from several threads behave as if run one at a time. *)
From Coq Require Import List String Bool ZArith.
Import ListNotations.
Open Scope string_scope.
Open Scope list_scope.
From MoSql Require Import Base.Json Model.Scrub Model.Api Proofs.ApiProofs Generated.ApiShape Props.C15.

(* every parse entry point holds parse_locker around parser lookup, option installation, matching, scrub and substitution *)
Theorem C16_all_entry_points_locked : all_locked = true.
Proof. vm_compute. reflexivity. Qed.

(* With every entry point locked, a concurrent execution is some sequential order of whole calls (mutual exclusion is the lock's
   contract).  Whatever that order is, the i-th call returns exactly what it returns when run alone. *)
Theorem C16_any_serial_order : forall gmatch (order : list call) pre c post,
  order = pre ++ c :: post ->
  snd (run_call gmatch parse_shape (run_hist gmatch parse_shape init pre) c) = spec gmatch c.
Proof. intros. apply C15_result_is_function_of_arguments. Qed.

(* why the lock matters: an intruder running between the victim's installation and its scrub changes the victim's result *)
Definition gv (d : nat) (a : bool) (sql : nat) : option (list raw) := Some [RCall "f" (RStr "x") []].
Definition victim := {| c_dialect := 1; c_allcols := false; c_sql := 0; c_cb := MNormal; c_fm := []; c_null := JNull |}.
Definition intruder := {| c_dialect := 0; c_allcols := false; c_sql := 1; c_cb := MSimple; c_fm := []; c_null := JNull |}.
Definition l0 := {| l_raw := None; l_out := None |}.
Definition run_effs (c : call) (es : list effect) (sl : st * loc) : st * loc :=
  fold_left (fun sl e => run_effect c (RCall "f" (RStr "x") []) e sl) es sl.
Example C16_unlocked_refuted :
  (* solo *)
  snd (run_call gv parse_shape init victim) = Returned [JDict [("op", JStr "f"); ("args", JList [JStr "x"])]] /\
  (* victim: reset, install, match | intruder: whole call | victim: scrub, subst *)
  let sl1 := run_effs victim [E_ResetNL; E_InstallOp; E_InstallFmap; E_Match] (init, l0) in
  let s2 := fst (run_call gv parse_shape (fst sl1) intruder) in
  let sl3 := run_effs victim [E_Scrub; E_Subst] (s2, snd sl1) in
  match l_out (snd sl3) with Some t => heap_get t (s_heap (fst sl3)) | None => None end = Some (JDict [("f", JStr "x")]).
Proof. vm_compute. split; reflexivity. Qed.
