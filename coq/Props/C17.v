(* C17 — returned trees belong to the caller; format does not touch its argument. *)
From Coq Require Import List String Bool ZArith.
Import ListNotations.
Open Scope string_scope.
Open Scope list_scope.
From MoSql Require Import Base.Json Model.Scrub Model.Api Proofs.ApiProofs Generated.ApiShape Props.C15.

(* a later call (any dialect, options, outcome) leaves every tree handed out earlier exactly as it was: it writes only into the
   trees it allocates itself *)
Theorem C17_earlier_results_untouched : forall gmatch h c t v,
  let s := run_hist gmatch parse_shape init h in
  heap_get t (s_heap s) = Some v -> heap_get t (s_heap (fst (run_call gmatch parse_shape s c))) = Some v.
Proof.
  intros gmatch h c t v s H.
  apply (call_keeps_earlier_results gmatch parse_shape s c C15_shape_ok); auto.
  apply hist_inv; [exact C15_shape_ok|constructor].
Qed.

(* and whatever a caller did to the trees it holds (any heap contents), a later call's result is unaffected *)
Theorem C17_mutation_cannot_leak : forall gmatch s c, Inv s ->
  snd (run_call gmatch parse_shape s c) = spec gmatch c.
Proof. intros gmatch s c HI. apply result_is_spec; [exact C15_shape_ok|exact HI]. Qed.

(* the default NULL value is allocated per slot, and the formatter contains no statement writing through its argument *)
Theorem C17_fresh_default_null : fresh_default_null = true.
Proof. vm_compute. reflexivity. Qed.
Theorem C17_formatter_does_not_write : formatter_writes = [].
Proof. vm_compute. reflexivity. Qed.
