(* C03 -- CASE expressions: what Formatter._case writes for the tree of a CASE re-reads (CASE (WHEN e THEN e)* [ELSE e] END) to a CASE
   with the same tree; a searched CASE comes back as written, a simple CASE as the equivalent searched one. *)
From Coq Require Import List String Bool ZArith.
From MoSql Require Import Base.Json Model.Scrub Model.CaseExpr Proofs.CaseProofs.
Import ListNotations.
Open Scope string_scope.
Open Scope list_scope.

Theorem C03_case_parse_format_parse : forall c, wf c = true -> exists c', reread c = Some c' /\ case_json c' = case_json c /\ subj c' = None.
Proof. exact case_parse_format_parse. Qed.

Theorem C03_case_searched_comes_back : forall c, wf c = true -> subj c = None -> reread c = Some c.
Proof. intros c H Hs. rewrite (reread_searched c H). f_equal. apply searched_id. exact Hs. Qed.

(* listed finding C14:optional-mandatory-parts (CASE END): outside wf the formatter invents an ELSE with an empty operand *)
Theorem C03_case_empty_refuted :
  wf c_empty = false /\ case_json c_empty = JDict [("case", JDict [])] /\ reread c_empty = Some {| subj := None; arms := []; other := Some (JDict []) |}.
Proof. exact empty_case. Qed.

Example C03_case_premise_satisfiable :
  wf {| subj := None; arms := [(JStr "a", JInt 1%Z)]; other := None |} = true /\
  wf {| subj := Some (JStr "x"); arms := [(JInt 1%Z, JStr "a")]; other := Some (JDict [("null", JDict [])]) |} = true /\
  wf {| subj := None; arms := []; other := Some (JInt 0%Z) |} = true.
Proof. vm_compute. repeat split; reflexivity. Qed.
