(* C02 -- set operators group left to right, consecutive identical UNIONs merge, trailing clauses attach to the whole. *)
From Coq Require Import List String Bool ZArith.
From MoSql Require Import Base.Json Model.Clause Proofs.ClauseProofs Model.Scrub Model.ScrubAtoms Proofs.ClauseKeys.
Import ListNotations.
Open Scope string_scope.
Open Scope list_scope.

(* for chains of any length over any operators and any operand trees (including operands that are themselves set operations,
   i.e. parenthesised ones): the fold of to_union_call is the left-nested grouping in which each maximal run of one UNION-family
   operator is a single n-ary node and every operand keeps its place *)
Theorem C02_set_operations_group_left : forall s0 l, to_union s0 l = spec_union s0 l.
Proof. exact to_union_is_spec. Qed.

(* a parenthesised operand stays grouped: the fold never looks inside an operand *)
Theorem C02_parenthesised_operand_stays_grouped : forall a b c,
  to_union (JDict [("union", JList [a; b])]) [("union", c)] = JDict [("union", JList [JDict [("union", JList [a; b])]; c])].
Proof. reflexivity. Qed.

(* ORDER BY / LIMIT / OFFSET after the chain wrap the whole chain, never its last operand *)
Theorem C02_tail_wraps_whole_chain : forall s0 l t ts, with_tail (to_union s0 l) (t :: ts) = JDict (("from", spec_union s0 l) :: t :: ts).
Proof. intros. unfold with_tail. rewrite to_union_is_spec. reflexivity. Qed.

(* FROM: the grammar nests a run of joins that carry no ON / USING (each takes the next join as its child) and to_join_call flattens the nest back:
   every source written is in the list once, in the order written, for runs of any length *)
Theorem C02_from_sources_in_order : forall t0 runs, from_list t0 runs = t0 :: List.concat (map (fun r => fst r :: snd r) runs).
Proof. exact from_list_spec. Qed.

(* clause placement at the last stage (utils.scrub), under any calls= callback and fmap: a query assembled as a dictionary (to_query, the select
   dictionary) or as a result with named tokens becomes a JSON object whose keys are exactly the clauses that hold something, in the order in which
   they were assembled, and each key holds exactly what scrub makes of that clause's own items *)
Theorem C02_clause_keys_of_dictionary : forall m fm kvs, exists d ps,
  scrub_s m fm (RDict kvs) = Some (JDict d, ps) /\ keys d = keys (filter (fun kv => alive m fm (snd kv)) kvs).
Proof. exact dict_keys. Qed.

Theorem C02_clause_items_of_dictionary : forall m fm kvs k x r, In (k, x) kvs -> scrub_s m fm x = Some r ->
  exists d ps, scrub_s m fm (RDict kvs) = Some (JDict d, ps) /\ In (k, fst r) d.
Proof. exact dict_items. Qed.

Theorem C02_clause_keys_of_named_result : forall m fm named flat v ps,
  existsb (live m fm) named = true -> scrub_s m fm (RPR true named flat) = Some (v, ps) ->
  exists d, v = JDict d /\ keys d = keys (filter (live m fm) named).
Proof. exact clause_keys. Qed.

Theorem C02_clause_items_of_named_result : forall m fm named flat v ps k vs r,
  scrub_s m fm (RPR true named flat) = Some (v, ps) -> In (k, vs) named -> clause_value m fm vs = Some r ->
  exists d, v = JDict d /\ In (k, fst r) d.
Proof. exact clause_items. Qed.

Example C02_clause_premise_satisfiable :
  let q := RDict [("select", RPR true [] [RStr "a"]); ("from", RStr "t"); ("where", RPR false [] []); ("limit", RInt 0%Z)] in
  scrub_s MSimple [] q = Some (JDict [("select", JStr "a"); ("from", JStr "t"); ("limit", JInt 0%Z)], []).
Proof. vm_compute. reflexivity. Qed.
