(* C02 -- set operators group left to right, consecutive identical UNIONs merge, trailing clauses attach to the whole. *)
From Coq Require Import List String Bool.
From MoSql Require Import Base.Json Model.Clause Proofs.ClauseProofs.
Import ListNotations.
Open Scope string_scope.
Open Scope list_scope.

(* for chains of any length over any operators and any operand trees (including operands that are themselves set operations,
   i.e. parenthesised ones): the fold of to_union_call is the left-nested grouping in which each maximal run of one UNION-family
   operator is a single n-ary node and every operand keeps its place *)
Theorem C02_set_operations_group_left : forall s0 l, to_union s0 l = spec_union s0 l.
Proof. exact to_union_is_spec. Qed.

(* a parenthesised operand stays grouped: the fold never looks inside an operand *)
Theorem C02_parenthesised_operand_stays_grouped : forall a b c,
  to_union (JDict [("union", JList [a; b])]) [("union", c)] = JDict [("union", JList [JDict [("union", JList [a; b])]; c])].
Proof. reflexivity. Qed.

(* ORDER BY / LIMIT / OFFSET after the chain wrap the whole chain, never its last operand *)
Theorem C02_tail_wraps_whole_chain : forall s0 l t ts, with_tail (to_union s0 l) (t :: ts) = JDict (("from", spec_union s0 l) :: t :: ts).
Proof. intros. unfold with_tail. rewrite to_union_is_spec. reflexivity. Qed.

(* FROM: the grammar nests a run of joins that carry no ON / USING (each takes the next join as its child) and to_join_call flattens the nest back:
   every source written is in the list once, in the order written, for runs of any length *)
Theorem C02_from_sources_in_order : forall t0 runs, from_list t0 runs = t0 :: List.concat (map (fun r => fst r :: snd r) runs).
Proof. exact from_list_spec. Qed.
