(* C09 - whitespace, comments, keyword case never change the parse (statements about the engine model of Model/Peg.v). *)
From Coq Require Import List NArith Bool.
From MoSql Require Import Model.Peg Model.PegSim Proofs.PegProofs Proofs.PegSimProofs Proofs.PegLog Proofs.PegCor Proofs.PegCert.
Import ListNotations.
Local Open Scope N_scope.

(* Two layouts of the same tokens: phi sends every position of the first text (token interiors and token boundaries) to the same place of
   the second.  If, on every query that the first parse puts to the oracle, the second text answers the same up to phi - terminals match the same
   tokens, whitespace skipping lands on the same token start - then the second parse returns the same outcome, moved by phi.
   The engine looks at the text in no other way, so this is the whole of its dependence on layout; which whitespace engine asks at which gap is
   exactly what the log records. *)
Theorem C09_layout_invariance : forall T o1 o2 len1 len2 phi root w0 f1 f2,
  (forall a b, a < b -> phi a < phi b) -> len2 = phi len1 ->
  simb T T (id_rel (length T)) [] [] = true ->
  In (root, root) (id_rel (length T)) ->
  o2 (QS w0 0) = phi (o1 (QS w0 0)) ->
  (forall q, In q (snd (parse_all T o1 len1 f1 root w0)) -> comm o1 o2 phi q) ->
  is_abort (fst (parse_all T o1 len1 f1 root w0)) = false -> is_abort (fst (parse_all T o2 len2 f2 root w0)) = false ->
  fst (parse_all T o2 len2 f2 root w0) = mapres phi (fst (parse_all T o1 len1 f1 root w0)).
Proof. exact C09_layout_invariance_pf. Qed.


(* the same with the two "does not abort" premises discharged by the totality theorem: for a table with a checked certificate, oracles that behave, and the stated fuel *)
Theorem C09_layout_invariance_total : forall NL NLR RK NLT T o1 o2 len1 len2 phi root w0 f1 f2,
  (forall a b, a < b -> phi a < phi b) -> len2 = phi len1 ->
  simb T T (id_rel (length T)) [] [] = true ->
  In (root, root) (id_rel (length T)) ->
  o2 (QS w0 0) = phi (o1 (QS w0 0)) ->
  (forall q, In q (snd (parse_all T o1 len1 f1 root w0)) -> comm o1 o2 phi q) ->
  cert_ok NL NLR RK NLT T = true -> oracle_ok NLT o1 len1 -> oracle_ok NLT o2 len2 -> root < N.of_nat (List.length T) ->
  (len1 + 1) * (Rmax RK + 2) + RKf RK root + 1 < N.of_nat f1 -> (len2 + 1) * (Rmax RK + 2) + RKf RK root + 1 < N.of_nat f2 ->
  fst (parse_all T o2 len2 f2 root w0) = mapres phi (fst (parse_all T o1 len1 f1 root w0)).
Proof.
  intros NL NLR RK NLT T o1 o2 len1 len2 phi root w0 f1 f2 Hm Hl Hs Hr H0 Hq Hc Ho1 Ho2 Hroot Hf1 Hf2.
  apply C09_layout_invariance_pf; auto.
  - exact (engine_total NL NLR RK NLT T o1 len1 root w0 f1 Hc Ho1 Hroot Hf1).
  - exact (engine_total NL NLR RK NLT T o2 len2 root w0 f2 Hc Ho2 Hroot Hf2).
Qed.


(* the unconditional form: when the two texts answer every query alike (every whitespace engine of the grammar skips the changed gaps) *)
Theorem C09_all_queries_commute : forall T o1 o2 len1 len2 phi root w0 f1 f2,
  (forall a b, a < b -> phi a < phi b) -> len2 = phi len1 ->
  simb T T (id_rel (length T)) [] [] = true ->
  In (root, root) (id_rel (length T)) ->
  o2 (QS w0 0) = phi (o1 (QS w0 0)) ->
  (forall q, comm o1 o2 phi q) ->
  is_abort (fst (parse_all T o1 len1 f1 root w0)) = false -> is_abort (fst (parse_all T o2 len2 f2 root w0)) = false ->
  fst (parse_all T o2 len2 f2 root w0) = mapres phi (fst (parse_all T o1 len1 f1 root w0)).
Proof. exact C09_all_queries_commute_pf. Qed.


(* keyword case: a re-spelling that leaves every oracle answer alone leaves the parse alone (phi = identity) *)
Theorem C09_case_invariance : forall T o1 o2 len root w0 f1 f2,
  simb T T (id_rel (length T)) [] [] = true ->
  In (root, root) (id_rel (length T)) ->
  (forall q, In q (snd (parse_all T o1 len f1 root w0)) -> o2 q = o1 q) -> o2 (QS w0 0) = o1 (QS w0 0) ->
  is_abort (fst (parse_all T o1 len f1 root w0)) = false -> is_abort (fst (parse_all T o2 len f2 root w0)) = false ->
  fst (parse_all T o2 len f2 root w0) = fst (parse_all T o1 len f1 root w0).
Proof. exact C09_case_invariance_pf. Qed.


(* keyword case with the two "does not abort" premises discharged by the totality theorem *)
Theorem C09_case_invariance_total : forall NL NLR RK NLT T o1 o2 len root w0 f1 f2,
  simb T T (id_rel (length T)) [] [] = true ->
  In (root, root) (id_rel (length T)) ->
  (forall q, In q (snd (parse_all T o1 len f1 root w0)) -> o2 q = o1 q) -> o2 (QS w0 0) = o1 (QS w0 0) ->
  cert_ok NL NLR RK NLT T = true -> oracle_ok NLT o1 len -> oracle_ok NLT o2 len -> root < N.of_nat (List.length T) ->
  (len + 1) * (Rmax RK + 2) + RKf RK root + 1 < N.of_nat f1 -> (len + 1) * (Rmax RK + 2) + RKf RK root + 1 < N.of_nat f2 ->
  fst (parse_all T o2 len f2 root w0) = fst (parse_all T o1 len f1 root w0).
Proof.
  intros NL NLR RK NLT T o1 o2 len root w0 f1 f2 Hs Hr Hq H0 Hc Ho1 Ho2 Hroot Hf1 Hf2.
  apply C09_case_invariance_pf; auto.
  - exact (engine_total NL NLR RK NLT T o1 len root w0 f1 Hc Ho1 Hroot Hf1).
  - exact (engine_total NL NLR RK NLT T o2 len root w0 f2 Hc Ho2 Hroot Hf2).
Qed.


(* a sequence whose whitespace engine does not skip the comment: the logged skip does not commute, and the outcome changes *)
Theorem C09_plain_sequence_refuted :
  let T := [Build_entry (NSeq 2 [(1, false); (2, false)]) VNone; Build_entry (NTerm 0) VNone; Build_entry (NTerm 1) VNone] in
  (* text 1: "order by" (one blank);  text 2: "order/**/by": the plain engine 2 stays in front of the comment *)
  let o1 := fun q => match q with QT 0 0 => 6 | QT 1 6 => 9 | QS 2 5 => 6 | QS _ p => p | _ => 0 end in
  let o2 := fun q => match q with QT 0 0 => 6 | QT 1 9 => 12 | QS 2 5 => 5 | QS _ p => p | _ => 0 end in
  let phi := fun p => if p <=? 5 then p else p + 3 in
  (forall a b, a < b -> phi a < phi b) /\
  In (QS 2 5) (snd (run T o1 8 5 0 false 0)) /\ ~ comm o1 o2 phi (QS 2 5) /\
  fst (run T o1 8 5 0 false 0) = Ok 8 false /\ fst (run T o2 11 5 0 false (phi 0)) = Fail.
Proof. exact C09_plain_sequence_refuted_pf. Qed.

(* the answer of the engine model is well defined: whenever two amounts of fuel both suffice, they give the same outcome *)
Theorem C09_fuel_independent : forall T o len f1 f2 i raw pos,
  simb T T (id_rel (length T)) [] [] = true -> In (i, i) (id_rel (length T)) ->
  is_abort (fst (run T o len f1 i raw pos)) = false -> is_abort (fst (run T o len f2 i raw pos)) = false ->
  fst (run T o len f2 i raw pos) = fst (run T o len f1 i raw pos).
Proof. exact run_fuel_independent_pf. Qed.

(* the strong form: with the same fuel the second parse returns the moved outcome AND puts exactly the moved queries to its oracle, in the same
   order (all but the very first, which is the literal "skip from position 0" on both sides).  Since the oracle answers are the moved answers,
   every terminal matches the same token in both parses: the two parses have the same derivation.  No condition on the table is needed. *)
Theorem C09_same_derivation : forall T o1 o2 len1 len2 phi root w0 f,
  (forall a b, a < b -> phi a < phi b) -> len2 = phi len1 ->
  o2 (QS w0 0) = phi (o1 (QS w0 0)) ->
  (forall q, In q (snd (parse_all T o1 len1 f root w0)) -> comm o1 o2 phi q) ->
  is_abort (fst (parse_all T o1 len1 f root w0)) = false ->
  fst (parse_all T o2 len2 f root w0) = mapres phi (fst (parse_all T o1 len1 f root w0)) /\
  tl (snd (parse_all T o2 len2 f root w0)) = map (mapq phi) (tl (snd (parse_all T o1 len1 f root w0))).
Proof. exact C09_same_derivation_pf. Qed.

(* the model's answer does not depend on the fuel (no condition on the table): more fuel never changes a definite answer *)
Theorem C09_fuel_monotone : forall T o len f1 f2 root w0, (f1 <= f2)%nat ->
  is_abort (fst (parse_all T o len f1 root w0)) = false -> parse_all T o len f2 root w0 = parse_all T o len f1 root w0.
Proof. exact C09_fuel_monotone_pf. Qed.

(* hence the strong form for any two amounts of fuel that suffice for the two parses *)
Theorem C09_same_derivation_any_fuel : forall T o1 o2 len1 len2 phi root w0 f1 f2,
  (forall a b, a < b -> phi a < phi b) -> len2 = phi len1 ->
  o2 (QS w0 0) = phi (o1 (QS w0 0)) ->
  (forall q, In q (snd (parse_all T o1 len1 f1 root w0)) -> comm o1 o2 phi q) ->
  is_abort (fst (parse_all T o1 len1 f1 root w0)) = false -> is_abort (fst (parse_all T o2 len2 f2 root w0)) = false ->
  fst (parse_all T o2 len2 f2 root w0) = mapres phi (fst (parse_all T o1 len1 f1 root w0)) /\
  tl (snd (parse_all T o2 len2 f2 root w0)) = map (mapq phi) (tl (snd (parse_all T o1 len1 f1 root w0))).
Proof. exact C09_same_derivation_any_fuel_pf. Qed.

(* non-vacuity: a sequence whose whitespace engine (0) skips the comment.  Text 1 = "order by" (one blank), text 2 = "order/**/by";
   every logged query commutes, the hypotheses of C09_layout_invariance hold and the second parse accepts like the first. *)
Example C09_premises_satisfiable :
  let T := [Build_entry (NSeq 0 [(1, false); (2, false)]) VNone; Build_entry (NTerm 0) VNone; Build_entry (NTerm 1) VNone] in
  let o1 := fun q => match q with QT 0 0 => 6 | QT 1 6 => 9 | QS 0 5 => 6 | QS _ p => p | _ => 0 end in
  let o2 := fun q => match q with QT 0 0 => 6 | QT 1 9 => 12 | QS 0 5 => 9 | QS _ p => p | _ => 0 end in
  let phi := fun p => if p <=? 5 then p else p + 3 in
  simb T T (id_rel (length T)) [] [] = true /\ In (0, 0) (id_rel (length T)) /\
  o2 (QS 0 0) = phi (o1 (QS 0 0)) /\
  forallb (fun q => o2 (mapq phi q) =? mapa phi q (o1 q)) (snd (parse_all T o1 8 5 0 0)) = true /\
  fst (parse_all T o1 8 5 0 0) = Ok 8 false /\ fst (parse_all T o2 11 5 0 0) = Ok 11 false.
Proof. vm_compute. repeat split; auto. Qed.
