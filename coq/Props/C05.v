(* C05 — an accepted statement loses no identifier, number or string (expression core: reducer + to_json_operator). *)
From Coq Require Import List Arith Bool.
Import ListNotations.
From MoSql Require Import Model.Infix Model.Expr Model.Fmt Proofs.TableChecks Generated.Tables Model.L1 Oblig.O_L1 Proofs.WfBool.

(* for every parenthesised operator tree whose parenthesis-free regions obey the library's edge rule, every operand written in the
   text (every atom other than a bare NULL, which may be folded into missing / exists) occurs in the tree the parser returns:
   the reducer never replaces an operand by an operator token and never drops a tail *)
Theorem C05_operands_kept : forall a, pwfb a = true -> wfb (flat' a) = true -> well_tok a = true ->
  exists f v, parse' f (tokens' a) = Some (v, []) /\ forall n, n <> 0 -> In n (leaves a) -> In n (atoms v).
Proof.
  intros a Hp Hw Ht. destruct (parse_tokens_inst tables_ok_true a [] Hp Hw I) as [f Hf].
  rewrite app_nil_r in Hf. exists f, (peval' a). split; auto. apply leaves_kept; auto.
Qed.
