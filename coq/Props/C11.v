(* C11 — null=X is exactly "replace every NULL node by X", whatever else is configured. *)
From Coq Require Import List String ZArith.
Import ListNotations.
Open Scope string_scope.
Open Scope list_scope.
From MoSql Require Import Base.Json Model.Scrub Proofs.Slots Proofs.Simplified Proofs.Calls.

(* the substitution loop over the recorded slots equals substitution of every marker below the root,
   for every raw tree, every callback mode (simple_op, normal_op, custom) and every rename map *)
Theorem C11_null_is_substitution : forall m fm x r v ps,
  good m fm r -> scrub_s m fm r = Some (v, ps) -> apply_all x ps v = subst' x v.
Proof. exact null_subst. Qed.

(* consequently parse(sql, null=X) = substitute(parse(sql, null=default), X) when the default marker value
   {"null": {}} does not occur literally: both are substitutions into the same marked tree *)
Theorem C11_any_two_nulls : forall m fm x y r vx vy,
  good m fm r -> parse_result m fm x r = Some vx -> parse_result m fm y r = Some vy ->
  exists v0, vx = subst' x v0 /\ vy = subst' y v0.
Proof.
  intros m fm x y r vx vy Hg Ex Ey. unfold parse_result in *.
  destruct (scrub_s m fm r) as [[v0 ps]|] eqn:Es; try discriminate.
  injection Ex as <-. injection Ey as <-. exists v0.
  split; apply (null_subst m fm _ r v0 ps Hg Es).
Qed.

(* non-vacuity: the raw result of  select f(a, NULL) over NULL from t  (a call with a NULL argument and a NULL keyword argument) meets the premises *)
Example C11_premise_satisfiable :
  let r0 := RPR true [("select", [RPR true [("value", [RCall "f" (RList [RStr "a"; RMark]) [("over", RMark)]])] []]); ("from", [RStr "t"])] [] in
  goodb MSimple [] r0 = true /\ goodb MNormal [("f", "g")] r0 = true /\ nofakeb [] r0 = true /\ nofakeb_n [("f", "g")] r0 = true /\
  parse_result MSimple [] (JInt 7%Z) r0
    = Some (JDict [("select", JDict [("value", JDict [("over", JInt 7%Z); ("f", JList [JStr "a"; JInt 7%Z])])]); ("from", JStr "t")]).
Proof. vm_compute. repeat split; reflexivity. Qed.

(* listed finding C11:function-named-null at model level: a zero-argument call of a function named null is written by simple_op exactly like
   the NULL keyword under the default option, and it is not a slot, so null=X does not reach it (a NULL in a list or under a name is reached) *)
Theorem C11_call_named_null_refuted :
  parse_result MSimple [] (JInt 0%Z) (RCall "null" (RList []) []) = Some (JDict [("null", JDict [])]) /\
  parse_result MSimple [] (JInt 0%Z) (RList [RMark; RStr "a"]) = Some (JList [JInt 0%Z; JStr "a"]) /\
  parse_result MSimple [] (JDict [("null", JDict [])]) (RPR true [("v", [RMark])] []) = Some (JDict [("v", JDict [("null", JDict [])])]).
Proof. vm_compute. repeat split; reflexivity. Qed.
