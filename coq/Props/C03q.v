(* C03 / C04 -- the clause loops of the query formatter: a clause is written because its key is present (whatever its value: LIMIT 0),
   with the value the key holds, once, in the order of the formatter's clause lists and independent of the order of the keys in the tree. *)
From Coq Require Import List String Bool ZArith Permutation.
From MoSql Require Import Base.Json Model.QueryFmt Proofs.QueryFmtProofs.
Import ListNotations.
Open Scope string_scope.
Open Scope list_scope.

Theorem C03_clause_written_with_its_value : forall uo oo d k, NoDup (uo ++ oo) -> In k (uo ++ oo) -> dict_get k (query_clauses uo oo d) = dict_get k d.
Proof. exact query_clause_get. Qed.

Theorem C03_clause_sequence : forall uo oo d, map fst (query_clauses uo oo d) = filter (present d) uo ++ filter (present d) oo.
Proof. exact query_clause_keys. Qed.

Theorem C03_clauses_written_once : forall order d, NoDup order -> NoDup (keys d) -> (forall k, In k (keys d) -> In k order) -> Permutation (emit order d) d.
Proof. exact emit_permutation. Qed.

Theorem C04_key_order_irrelevant : forall order d d', NoDup (keys d) -> Permutation d d' -> emit order d = emit order d'.
Proof. exact emit_order_insensitive. Qed.

(* boolean forms of the premises, evaluated by the harness on the live clause lists *)
Theorem C03_nodupb_sound : forall l, nodupb l = true -> NoDup l.
Proof. exact nodupb_NoDup. Qed.

(* non-vacuity, and the zero count: LIMIT 0 / OFFSET 0 are written *)
Example C03_zero_count_written :
  let d := [("limit", JInt 0%Z); ("select", JStr "a"); ("offset", JInt 0%Z); ("from", JStr "t")] in
  NoDup (keys d) /\ query_clauses ["with"; "select"; "from"; "where"] ["orderby"; "limit"; "offset"; "fetch"] d
  = [("select", JStr "a"); ("from", JStr "t"); ("limit", JInt 0%Z); ("offset", JInt 0%Z)].
Proof. split; [apply nodupb_NoDup; reflexivity|reflexivity]. Qed.
