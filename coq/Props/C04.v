(* C04 — format preserves meaning for every well-formed tree, not only parser output (expression core). *)
From Coq Require Import List Arith Bool.
Import ListNotations.
From MoSql Require Import Model.Infix Model.Expr Model.Fmt Proofs.TableChecks Generated.Tables Model.L1 Oblig.O_L1.

(* For every tree in normal form over the formatter's infix vocabulary (any depth, any operators) whose edges all pass the decidable
   check edges_ok' -- the formatter leaves an operand unparenthesised only where the parser's own levels allow it -- and for every
   context precedence, the reader/reducer run on the formatter's tokens returns exactly the tree, with nothing left over.
   The tables (KNOWN_OPS order, spellings, names, flattening set, NULL foldings, every renderer's behaviour) are those of
   Generated/Tables.v, regenerated from /repo on every run. *)
Theorem C04_format_then_parse : forall t p, nf' t -> edges_ok' t p = true ->
  exists f, parse' f (tokens' (mformat' t p)) = Some (t, []).
Proof. exact format_then_parse_inst. Qed.

(* the table hypotheses (spelling<->name inverse, flattening set = n-ary operators, each operator written with the kind of its
   level, distinct operator objects, ternary partner looser) hold of the regenerated tables *)
Theorem C04_tables_ok : tables_ok = true.
Proof. exact tables_ok_true. Qed.
