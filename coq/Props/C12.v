(* C12 — calls= and fmap= change how applications are written, never what is written. *)
From Coq Require Import List String ZArith.
Import ListNotations.
Open Scope string_scope.
Open Scope list_scope.
From MoSql Require Import Base.Json Model.Scrub Proofs.Slots Proofs.Simplified Proofs.Calls.

(* to_simple (scrub under normal_op) = scrub under simple_op, for every raw tree without fake call-shaped dicts,
   and a statement scrubs away under one callback iff it does under the other *)
Theorem C12_normal_to_simple : forall fm r,
  nofakeb fm r = true ->
  match scrub_s MNormal fm r, scrub_s MSimple fm r with
  | Some rn, Some rs => to_simple (fst rn) = fst rs
  | None, None => True
  | _, _ => False
  end.
Proof. exact normal_to_simple. Qed.

(* in normal form args, when present, is a list, and kwargs, when present, a non-empty dict: by construction of the node *)
Theorem C12_normal_shape : forall op ar kw r,
  call_res MNormal op ar kw = Some r ->
  exists a k, fst r = JDict (("op", JStr op) :: a ++ k)
    /\ (a = [] \/ exists l, a = [("args", JList l)] /\ l <> [])
    /\ (k = [] \/ exists d, k = [("kwargs", d)] /\ d <> JDict []).
Proof. exact call_normal_shape. Qed.

(* fmap = renaming the operation of every normal-form node, nothing else touched; swaps such as {add: sub, sub: add}
   are covered because the rename map is applied exactly once per node *)
Theorem C12_fmap_is_rename : forall fm r,
  nofakeb_n fm r = true ->
  match scrub_s MNormal fm r, scrub_s MNormal [] r with
  | Some rf, Some r0 => fst rf = rename_ops fm (fst r0)
  | None, None => True
  | _, _ => False
  end.
Proof. exact fmap_is_rename. Qed.

(* non-vacuity: the raw result of  select f(a, NULL) over NULL from t  (a call with a NULL argument and a NULL keyword argument) meets the premises *)
Example C12_premise_satisfiable :
  let r0 := RPR true [("select", [RPR true [("value", [RCall "f" (RList [RStr "a"; RMark]) [("over", RMark)]])] []]); ("from", [RStr "t"])] [] in
  goodb MSimple [] r0 = true /\ goodb MNormal [("f", "g")] r0 = true /\ nofakeb [] r0 = true /\ nofakeb_n [("f", "g")] r0 = true /\
  parse_result MSimple [] (JInt 7%Z) r0
    = Some (JDict [("select", JDict [("value", JDict [("over", JInt 7%Z); ("f", JList [JStr "a"; JInt 7%Z])])]); ("from", JStr "t")]).
Proof. vm_compute. repeat split; reflexivity. Qed.

(* listed finding C12:hand-written-operator-dicts at model level: a node that a parse action hands over as a literal {op: args} dictionary
   (2x, MERGE ... THEN DELETE) is not an application for scrub: it is neither written in normal form nor renamed, while the Call is *)
Theorem C12_literal_dictionary_refuted :
  let r := RDict [("mul", RList [RInt 2%Z; RStr "x"])] in
  scrub_s MNormal [("mul", "times")] r = Some (JDict [("mul", JList [JInt 2%Z; JStr "x"])], []) /\
  scrub_s MNormal [("mul", "times")] (RCall "mul" (RList [RInt 2%Z; RStr "x"]) []) = Some (JDict [("op", JStr "times"); ("args", JList [JInt 2%Z; JStr "x"])], []).
Proof. vm_compute. split; reflexivity. Qed.

(* listed finding C12:keyword-argument-named-like-operation: simple_op writes kwargs[op] = args (goodb is false exactly there); normal_op keeps both *)
Theorem C12_keyword_named_like_operation_refuted :
  let r := RCall "f" (RList [RStr "x"]) [("f", RInt 1%Z)] in
  goodb MSimple [] r = false /\ scrub_s MSimple [] r = Some (JDict [("f", JStr "x")], []) /\
  scrub_s MNormal [] r = Some (JDict [("op", JStr "f"); ("args", JList [JStr "x"]); ("kwargs", JDict [("f", JInt 1%Z)])], []).
Proof. vm_compute. repeat split; reflexivity. Qed.
