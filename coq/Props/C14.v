(* C14 -- malformed input is rejected, never answered (expression reader and literal actions). *)
From Coq Require Import List NArith Bool.
Import ListNotations.
From MoSql Require Import Model.Infix Model.Expr Model.Fmt Proofs.TableChecks Generated.Tables Model.L1 Proofs.Balanced.
From MoSql Require Import Model.Lit Model.Ident Proofs.LitProofs Proofs.IdentProofs.

(* the expression reader / reducer returns a tree for the whole token string only if its parentheses are balanced:
   an unbalanced expression is never answered *)
Theorem C14_accepted_is_balanced : forall f ts v, parse' f ts = Some (v, []) -> bal jv ts.
Proof. intros f ts v. apply accepted_balanced. Qed.

(* the parse actions that evaluate token text never fail on tokens whose content has no backslash, carriage return or NUL *)
Theorem C14_literal_actions_total_on_clean : forall s, clean s = true ->
  single_literal (quote SQ s) = Ok s /\ double_literal (quote DQ s) = Ok s /\
  double_column (quote DQ s) = Ok (lit_field s) /\ backtick_column (quote BT s) = Ok (lit_field s) /\ square_column (bracket s) = Ok (lit_field s).
Proof. intros s H. repeat split; auto using single_literal_roundtrip, double_literal_roundtrip, double_column_quote, backtick_column_quote, square_column_quote. Qed.

(* ... and do fail (a non-ParseException in the implementation) outside that class: a trailing backslash, \x without digits, NUL *)
Open Scope N_scope.
Example C14_literal_crash_refuted :
  single_literal (quote SQ [97; 92]) = Err /\ single_literal (quote SQ [92; 120]) = Err /\ single_literal (quote SQ [97; 0]) = Err.
Proof. vm_compute. repeat split; reflexivity. Qed.
