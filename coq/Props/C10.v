(* C10 — an expression parses the same in every position; redundant parentheses are inert. *)
From Coq Require Import List Arith Bool String.
Import ListNotations.
From MoSql Require Import Base.Json Model.Scrub Proofs.Slots Proofs.Simplified.
From MoSql Require Import Model.Infix Model.Expr Model.Fmt Proofs.TableChecks Generated.Tables Model.L1 Oblig.O_L1 Proofs.WfBool.

(* two parenthesisations of one operator tree (extra parentheses around complete expressions, operands, at any depth) that both
   respect the library's edge rule parse to the same tree *)
Theorem C10_parentheses_inert : forall a1 a2, strip a1 = strip a2 ->
  pwfb a1 = true -> wfb (flat' a1) = true -> pwfb a2 = true -> wfb (flat' a2) = true ->
  exists f1 f2 v, parse' f1 (tokens' a1) = Some (v, []) /\ parse' f2 (tokens' a2) = Some (v, []).
Proof. exact (parens_inert tables_ok_true). Qed.

(* a position is a named wrapper around the one shared expression element; scrub makes the wrapper transparent: under the wrapper's
   key one finds exactly the scrubbed expression, whatever else the clause holds (every callback mode, every rename map) *)
Theorem C10_wrapper_transparent : forall m fm k e flat before v,
  scrub_s m fm e = Some v ->
  ~ In k (keys (filter_map (kv_opt (fun vs => pack_s (filter_map (scrub_s m fm) vs))) before)) ->
  exists d ps, scrub_s m fm (RPR true (before ++ [(k, [e])]) flat) = Some (JDict d, ps) /\ dict_get k d = Some (fst v).
Proof. exact wrapper_transparent. Qed.
