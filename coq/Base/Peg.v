From Coq Require Import List Arith Lia Bool.
Import ListNotations.

(* Deep-embedded token-level PEG with untyped results and a three-valued outcome *)
Inductive tok := TId (n:nat) | TLp | TRp | TComma.
Definition tok_eqb (a b:tok) : bool :=
  match a, b with TId x, TId y => Nat.eqb x y | TLp, TLp | TRp, TRp | TComma, TComma => true | _, _ => false end.
Inductive val := VId (n:nat) | VList (l:list val).

Inductive gram :=
| GId | GLit (t:tok) | GSeq (gs:list gram) | GAlt (gs:list gram) | GMany (g:gram) | GGroup (g:gram) | GRef (nt:nat).

Inductive res := Ok (v:list val) (r:list tok) | Fail | Fuel.

Section Interp.
Variable env : nat -> gram.
Fixpoint interp (fuel:nat) (g:gram) (ts:list tok) : res :=
  match fuel with O => Fuel | S f =>
  match g with
  | GId => match ts with TId n :: r => Ok [VId n] r | _ => Fail end
  | GLit t => match ts with t' :: r => if tok_eqb t t' then Ok [] r else Fail | [] => Fail end
  | GSeq gs =>
      (fix seq (gs:list gram) (ts:list tok) : res :=
         match gs with
         | [] => Ok [] ts
         | g :: gs' => match interp f g ts with
                       | Ok v r => match seq gs' r with Ok v' r' => Ok (v ++ v') r' | x => x end
                       | x => x end
         end) gs ts
  | GAlt gs =>
      (fix alt (gs:list gram) : res :=
         match gs with
         | [] => Fail
         | g :: gs' => match interp f g ts with Fail => alt gs' | x => x end
         end) gs
  | GMany g =>
      match interp f g ts with
      | Ok v r => if Nat.ltb (length r) (length ts)
                  then match interp f (GMany g) r with Ok v' r' => Ok (v ++ v') r' | Fail => Ok v r | Fuel => Fuel end
                  else Ok [] ts
      | Fail => Ok [] ts
      | Fuel => Fuel
      end
  | GGroup g => match interp f g ts with Ok v r => Ok [VList v] r | x => x end
  | GRef nt => interp f (env nt) ts
  end end.

Fixpoint iseq (f:nat) (gs:list gram) (ts:list tok) : res :=
  match gs with
  | [] => Ok [] ts
  | g :: gs' => match interp f g ts with
                | Ok v r => match iseq f gs' r with Ok v' r' => Ok (v ++ v') r' | x => x end
                | x => x end
  end.
Fixpoint ialt (f:nat) (gs:list gram) (ts:list tok) : res :=
  match gs with
  | [] => Fail
  | g :: gs' => match interp f g ts with Fail => ialt f gs' ts | x => x end
  end.
Lemma interp_seq f gs ts : interp (S f) (GSeq gs) ts = iseq f gs ts.
Proof. simpl. revert ts. induction gs as [|g gs IH]; intros ts; simpl; auto.
  destruct (interp f g ts); auto. rewrite IH. reflexivity. Qed.
Lemma interp_alt f gs ts : interp (S f) (GAlt gs) ts = ialt f gs ts.
Proof. simpl. induction gs as [|g gs IH]; simpl; auto. destruct (interp f g ts); auto. Qed.

Lemma interp_many f g ts : interp (S f) (GMany g) ts =
  match interp f g ts with
  | Ok v r => if Nat.ltb (length r) (length ts)
              then match interp f (GMany g) r with Ok v' r' => Ok (v ++ v') r' | Fail => Ok v r | Fuel => Fuel end
              else Ok [] ts
  | Fail => Ok [] ts
  | Fuel => Fuel
  end.
Proof. reflexivity. Qed.

(* fuel monotonicity: a definite answer (Ok or Fail) is stable under more fuel *)
Lemma interp_mono : forall f g ts, interp f g ts <> Fuel -> forall f', f <= f' -> interp f' g ts = interp f g ts.
Proof.
  induction f as [|f IH]; intros g ts H f' Hle; [exfalso; apply H; reflexivity|].
  destruct f' as [|f']; [lia|]. assert (Hle' : f <= f') by lia.
  destruct g.
  - reflexivity.
  - reflexivity.
  - rewrite !interp_seq in *. revert ts H. induction gs as [|g gs IHgs]; intros ts H; simpl in *; auto.
    destruct (interp f g ts) as [v r| |] eqn:E; try (exfalso; apply H; reflexivity).
    + rewrite (IH g ts) by (auto; rewrite E; discriminate). rewrite E.
      destruct (iseq f gs r) as [v' r'| |] eqn:E2; try (exfalso; apply H; reflexivity).
      * rewrite IHgs by (rewrite E2; discriminate). rewrite E2. reflexivity.
      * rewrite IHgs by (rewrite E2; discriminate). rewrite E2. reflexivity.
    + rewrite (IH g ts) by (auto; rewrite E; discriminate). rewrite E. reflexivity.
  - rewrite !interp_alt in *. induction gs as [|g gs IHgs]; simpl in *; auto.
    destruct (interp f g ts) as [v r| |] eqn:E; try (exfalso; apply H; reflexivity).
    + rewrite (IH g ts) by (auto; rewrite E; discriminate). rewrite E. reflexivity.
    + rewrite (IH g ts) by (auto; rewrite E; discriminate). rewrite E. apply IHgs. exact H.
  - simpl in *. destruct (interp f g ts) as [v r| |] eqn:E; try (exfalso; apply H; reflexivity).
    + rewrite (IH g ts) by (auto; rewrite E; discriminate). rewrite E.
      destruct (Nat.ltb (length r) (length ts)); auto.
      destruct (interp f (GMany g) r) as [v' r'| |] eqn:E2; try (exfalso; apply H; reflexivity).
      * rewrite (IH (GMany g) r) by (auto; rewrite E2; discriminate). rewrite E2. reflexivity.
      * rewrite (IH (GMany g) r) by (auto; rewrite E2; discriminate). rewrite E2. reflexivity.
    + rewrite (IH g ts) by (auto; rewrite E; discriminate). rewrite E. reflexivity.
  - simpl in *. destruct (interp f g ts) as [v r| |] eqn:E; try (exfalso; apply H; reflexivity).
    + rewrite (IH g ts) by (auto; rewrite E; discriminate). rewrite E. reflexivity.
    + rewrite (IH g ts) by (auto; rewrite E; discriminate). rewrite E. reflexivity.
  - simpl in *. apply IH; auto.
Qed.
End Interp.

Section Runs.
Variable env : nat -> gram.
Definition runs (g:gram) (ts:list tok) (x:res) : Prop := x <> Fuel /\ exists f, interp env f g ts = x.

Lemma runs_at g ts x : runs g ts x -> exists f, forall f', f <= f' -> interp env f' g ts = x.
Proof. intros [Hx [f Hf]]. exists f. intros f' Hle. rewrite <- Hf. apply interp_mono; auto. rewrite Hf; auto. Qed.

Lemma runs_lit t r : runs (GLit t) (t :: r) (Ok [] r).
Proof. split; [discriminate|]. exists 1. simpl. destruct t; simpl; try rewrite Nat.eqb_refl; reflexivity. Qed.
Lemma runs_lit_fail t t' r : tok_eqb t t' = false -> runs (GLit t) (t' :: r) Fail.
Proof. intros H. split; [discriminate|]. exists 1. simpl. rewrite H. reflexivity. Qed.
Lemma runs_id n r : runs GId (TId n :: r) (Ok [VId n] r).
Proof. split; [discriminate|]. exists 1. reflexivity. Qed.
Lemma runs_id_fail t r : (forall n, t <> TId n) -> runs GId (t :: r) Fail.
Proof. intros H. split; [discriminate|]. exists 1. simpl. destruct t; auto. exfalso; eapply H; eauto. Qed.

Lemma runs_seq_nil ts : runs (GSeq []) ts (Ok [] ts).
Proof. split; [discriminate|]. exists 1. reflexivity. Qed.
Lemma runs_seq_cons g gs ts v r v' r' :
  runs g ts (Ok v r) -> runs (GSeq gs) r (Ok v' r') -> runs (GSeq (g :: gs)) ts (Ok (v ++ v') r').
Proof. intros H1 H2. destruct (runs_at _ _ _ H1) as [f1 F1]. destruct (runs_at _ _ _ H2) as [f2 F2].
  split; [discriminate|]. exists (S (max f1 (S f2))).
  rewrite interp_seq. simpl. rewrite F1 by lia.
  specialize (F2 (S (max f1 (S f2))) ltac:(lia)). rewrite interp_seq in F2. rewrite F2. reflexivity. Qed.

Lemma runs_alt_first g gs ts v r : runs g ts (Ok v r) -> runs (GAlt (g :: gs)) ts (Ok v r).
Proof. intros H1. destruct (runs_at _ _ _ H1) as [f1 F1]. split; [discriminate|]. exists (S f1).
  rewrite interp_alt. simpl. rewrite F1 by lia. reflexivity. Qed.
Lemma runs_alt_skip g gs ts x : runs g ts Fail -> runs (GAlt gs) ts x -> runs (GAlt (g :: gs)) ts x.
Proof. intros H1 H2. destruct (runs_at _ _ _ H1) as [f1 F1]. destruct (runs_at _ _ _ H2) as [f2 F2].
  split; [apply H2|]. exists (S (max f1 (S f2))).
  rewrite interp_alt. simpl. rewrite F1 by lia.
  specialize (F2 (S (max f1 (S f2))) ltac:(lia)). rewrite interp_alt in F2. exact F2. Qed.

Lemma runs_group g ts v r : runs g ts (Ok v r) -> runs (GGroup g) ts (Ok [VList v] r).
Proof. intros H1. destruct (runs_at _ _ _ H1) as [f1 F1]. split; [discriminate|]. exists (S f1).
  simpl. rewrite F1 by lia. reflexivity. Qed.
Lemma runs_ref nt ts x : runs (env nt) ts x -> runs (GRef nt) ts x.
Proof. intros H1. destruct (runs_at _ _ _ H1) as [f1 F1]. split; [apply H1|]. exists (S f1).
  simpl. apply F1. lia. Qed.

Lemma runs_many_stop g ts : runs g ts Fail -> runs (GMany g) ts (Ok [] ts).
Proof. intros H1. destruct (runs_at _ _ _ H1) as [f1 F1]. split; [discriminate|]. exists (S f1).
  rewrite interp_many. rewrite F1 by lia. reflexivity. Qed.
Lemma runs_many_step g ts v r v' r' :
  runs g ts (Ok v r) -> length r < length ts -> runs (GMany g) r (Ok v' r') -> runs (GMany g) ts (Ok (v ++ v') r').
Proof. intros H1 Hlt H2. destruct (runs_at _ _ _ H1) as [f1 F1]. destruct (runs_at _ _ _ H2) as [f2 F2].
  split; [discriminate|]. exists (S (max f1 f2)).
  rewrite interp_many. rewrite F1 by lia. apply Nat.ltb_lt in Hlt. rewrite Hlt. rewrite F2 by lia. reflexivity. Qed.
Lemma runs_seq_fail_first g gs ts : runs g ts Fail -> runs (GSeq (g :: gs)) ts Fail.
Proof. intros H1. destruct (runs_at _ _ _ H1) as [f1 F1]. split; [discriminate|]. exists (S f1).
  rewrite interp_seq. simpl. rewrite F1 by lia. reflexivity. Qed.
End Runs.

(* ---------- the example grammar and its round trip ---------- *)
Definition g_item := GAlt [GId; GRef 1].
Definition g_tail := GMany (GSeq [GLit TComma; GRef 0]).
Definition g_list := GGroup (GSeq [GLit TLp; GRef 0; g_tail; GLit TRp]).
Definition env (nt:nat) : gram := match nt with 0 => g_item | _ => g_list end.

Fixpoint pr (v:val) : list tok :=
  match v with
  | VId n => [TId n]
  | VList l => TLp :: (fix go (l:list val) : list tok :=
                        match l with [] => [] | x :: t => pr x ++ (match t with [] => [] | _ => TComma :: go t end) end) l ++ [TRp]
  end.
Fixpoint pr_items (l:list val) : list tok :=
  match l with [] => [] | x :: t => pr x ++ (match t with [] => [] | _ => TComma :: pr_items t end) end.
Lemma pr_list l : pr (VList l) = TLp :: pr_items l ++ [TRp].
Proof. reflexivity. Qed.

Inductive wfv : val -> Prop :=
| WId n : wfv (VId n)
| WList l : l <> [] -> Forall wfv l -> wfv (VList l).

Fixpoint tail_toks (l:list val) : list tok := match l with [] => [] | x :: t => TComma :: pr x ++ tail_toks t end.
Lemma pr_items_cons x t : pr_items (x :: t) = pr x ++ tail_toks t.
Proof. revert x. induction t as [|y t IH]; intros x; simpl; [rewrite app_nil_r; reflexivity|].
  f_equal. f_equal. specialize (IH y). simpl in IH. exact IH. Qed.

Lemma pr_nonempty v : 1 <= length (pr v).
Proof. destruct v; simpl; lia. Qed.


(* the tail (',' item)* followed by ')' *)
Lemma tail_rt l rest :
  Forall (fun x => forall rest, runs env (GRef 0) (pr x ++ rest) (Ok [x] rest)) l ->
  runs env g_tail (tail_toks l ++ TRp :: rest) (Ok l (TRp :: rest)).
Proof.
  induction l as [|x t IH]; intros HF.
  - simpl. apply runs_many_stop. apply runs_seq_fail_first. apply runs_lit_fail. reflexivity.
  - inversion HF as [|? ? Hx Ht]; subst.
    replace (tail_toks (x :: t) ++ TRp :: rest) with (TComma :: pr x ++ (tail_toks t ++ TRp :: rest))
      by (simpl; rewrite <- app_assoc; reflexivity).
    unfold g_tail.
    eapply runs_many_step with (v:=[x]) (r:=tail_toks t ++ TRp :: rest) (v':=t).
    + eapply runs_seq_cons with (v:=[]) (v':=[x]); [apply runs_lit|].
      eapply runs_seq_cons with (v:=[x]) (v':=[]); [apply Hx | apply runs_seq_nil].
    + simpl. rewrite !app_length. simpl. pose proof (pr_nonempty x). lia.
    + apply IH. exact Ht.
Qed.

Theorem item_rt : forall v, wfv v -> forall rest, runs env (GRef 0) (pr v ++ rest) (Ok [v] rest).
Proof.
  fix IH 2. intros v Hwf rest. destruct Hwf as [n | l Hne HF].
  - apply runs_ref. simpl. apply runs_alt_first. apply runs_id.
  - apply runs_ref. simpl env. unfold g_item. apply runs_alt_skip.
    { rewrite pr_list. apply runs_id_fail. discriminate. }
    apply runs_alt_first. apply runs_ref. simpl env. unfold g_list.
    destruct l as [|x t]; [congruence|].
    assert (Hx : wfv x) by (inversion HF; auto).
    assert (Ht : Forall (fun y => forall rest, runs env (GRef 0) (pr y ++ rest) (Ok [y] rest)) t).
    { inversion HF as [|? ? _ Ht0]; subst. clear - IH Ht0. induction Ht0; constructor; auto. }
    rewrite pr_list, pr_items_cons.
    replace ((TLp :: (pr x ++ tail_toks t) ++ [TRp]) ++ rest)
      with (TLp :: pr x ++ (tail_toks t ++ TRp :: rest))
      by (simpl; rewrite <- !app_assoc; reflexivity).
    apply runs_group.
    eapply runs_seq_cons with (v:=[]) (v':=x :: t); [apply runs_lit|].
    eapply runs_seq_cons with (v:=[x]) (v':=t); [apply IH; exact Hx|].
    replace t with (t ++ []) at 2 by apply app_nil_r.
    eapply runs_seq_cons with (v:=t) (v':=[]); [apply tail_rt; exact Ht|].
    eapply runs_seq_cons with (v:=[]) (v':=[]); [apply runs_lit|apply runs_seq_nil].
Qed.
Print Assumptions item_rt.
