(* JSON values as the library returns them, plus the internal NULL marker that scrub leaves behind. *)
From Coq Require Import List ZArith String Ascii Bool Lia.
Import ListNotations.
Open Scope string_scope.
Open Scope list_scope.

(* bytes -> string, used by the harness to write non-ASCII strings *)
Fixpoint bs (l : list nat) : string :=
  match l with [] => EmptyString | b :: t => String (ascii_of_nat b) (bs t) end.

Inductive jv :=
| JMark                      (* utils.SQL_NULL, the internal Call("null") object; never plain JSON *)
| JNull
| JBool (b : bool)
| JInt (z : Z)
| JFloat (repr : string)     (* floats are opaque tokens: Python's repr of the float *)
| JStr (s : string)
| JList (l : list jv)
| JDict (d : list (string * jv)).

Section JvInd.
Variable P : jv -> Prop.
Hypotheses (HMark : P JMark) (HNull : P JNull) (HBool : forall b, P (JBool b)) (HInt : forall z, P (JInt z))
  (HFloat : forall f, P (JFloat f)) (HStr : forall s, P (JStr s))
  (HList : forall l, Forall P l -> P (JList l))
  (HDict : forall d, Forall (fun kv => P (snd kv)) d -> P (JDict d)).
Fixpoint jv_ind' (v : jv) : P v :=
  match v with
  | JMark => HMark | JNull => HNull | JBool b => HBool b | JInt z => HInt z | JFloat f => HFloat f | JStr s => HStr s
  | JList l => HList l ((fix go l : Forall P l :=
        match l with [] => Forall_nil _ | x :: t => Forall_cons x (jv_ind' x) (go t) end) l)
  | JDict d => HDict d ((fix go l : Forall (fun kv => P (snd kv)) l :=
        match l with [] => Forall_nil _ | kv :: t => Forall_cons kv (jv_ind' (snd kv)) (go t) end) d)
  end.
End JvInd.

(* strict structural equality (dict order significant); the harness sorts nothing: Python dicts are ordered *)
Fixpoint jv_eqb (a b : jv) {struct a} : bool :=
  match a, b with
  | JMark, JMark => true | JNull, JNull => true
  | JBool x, JBool y => Bool.eqb x y
  | JInt x, JInt y => Z.eqb x y
  | JFloat x, JFloat y => String.eqb x y
  | JStr x, JStr y => String.eqb x y
  | JList x, JList y =>
      (fix go x y := match x, y with
                     | [], [] => true
                     | a :: x', b :: y' => jv_eqb a b && go x' y'
                     | _, _ => false end) x y
  | JDict x, JDict y =>
      (fix go x y := match x, y with
                     | [], [] => true
                     | (k, a) :: x', (k', b) :: y' => String.eqb k k' && jv_eqb a b && go x' y'
                     | _, _ => false end) x y
  | _, _ => false
  end.

Lemma jv_eqb_eq : forall a b, jv_eqb a b = true -> a = b.
Proof.
  induction a as [| |x|x|x|x|l IH|d IH] using jv_ind'; intros [| |y|y|y|y|m|e] H; simpl in H; try discriminate; auto.
  - apply Bool.eqb_prop in H. congruence.
  - apply Z.eqb_eq in H. congruence.
  - apply String.eqb_eq in H. congruence.
  - apply String.eqb_eq in H. congruence.
  - f_equal. revert m H. induction IH as [|a l Ha Hl IHl]; intros [|b m] H; try discriminate; auto.
    apply andb_true_iff in H as [H1 H2]. f_equal; auto.
  - f_equal. revert e H. induction IH as [|[k a] l Ha Hl IHl]; intros [|[k' b] m] H; try discriminate; auto.
    apply andb_true_iff in H as [H1 H2]. apply andb_true_iff in H1 as [H0 H1].
    apply String.eqb_eq in H0. simpl in Ha. f_equal; auto. f_equal; auto.
Qed.

(* plain JSON: no internal marker anywhere *)
Fixpoint plain (v : jv) : bool :=
  match v with
  | JMark => false
  | JList l => forallb plain l
  | JDict d => forallb (fun kv => plain (snd kv)) d
  | _ => true
  end.

Definition keys {A} (d : list (string * A)) : list string := map fst d.

Fixpoint dict_get (k : string) (d : list (string * jv)) : option jv :=
  match d with [] => None | (k', v) :: t => if String.eqb k k' then Some v else dict_get k t end.

Fixpoint mem (k : string) (l : list string) : bool :=
  match l with [] => false | x :: t => String.eqb k x || mem k t end.

Lemma mem_In k l : mem k l = true <-> In k l.
Proof. induction l as [|x t IH]; simpl; [split; [discriminate|tauto]|].
  rewrite orb_true_iff, IH, String.eqb_eq. split; intros [H|H]; auto. Qed.

Definition filter_map {A B} (f : A -> option B) : list A -> list B :=
  fix go l := match l with
              | [] => []
              | x :: t => match f x with Some v => v :: go t | None => go t end
              end.

Lemma filter_map_Forall {A B} (f:A -> option B) (P:A->Prop) (Q:B->Prop) l :
  Forall P l -> (forall x v, P x -> f x = Some v -> Q v) -> Forall Q (filter_map f l).
Proof. intros HP H. induction HP as [|x t Hx Ht IH]; simpl; auto.
  destruct (f x) eqn:E; auto. constructor; eauto. Qed.
