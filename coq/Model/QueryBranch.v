(* The branch decision of Formatter.ordered_query (formatting.py:595-613) and what the set-operation branch writes:
     if json.keys() & set(unordered_clauses) - {"from"}:            regular query   -> unordered_query, then the ordered clauses
     elif "from" not in json and len(json.keys() - agg_kwargs) == 1: aggregate form  -> OP(args [ORDER BY ..] [LIMIT ..])
     else:                                                          set operation with a tail -> dispatch(json["from"]), then the ordered clauses *)
From Coq Require Import List String Bool Lia.
From MoSql Require Import Base.Json Model.QueryFmt.
Import ListNotations.
Open Scope string_scope.
Open Scope list_scope.

Inductive branch := Regular | Aggregate (op : string) | SetOp.
Definition without (k : string) (l : list string) : list string := filter (fun x => negb (String.eqb x k)) l.
Definition has (d : dict) (k : string) : bool := match dict_get k d with Some _ => true | None => false end.
Definition branch_of (uo agg : list string) (d : dict) : branch :=
  if existsb (has d) (without "from" uo) then Regular
  else if has d "from" then SetOp
  else match filter (fun k => negb (mem k agg)) (keys d) with [op] => Aggregate op | _ => SetOp end.

(* what is written, as (clause, value) pairs; None = format raises (the set-operation branch reads json["from"]) *)
Definition written (uo oo agg : list string) (d : dict) : option dict :=
  match branch_of uo agg d with
  | Regular => Some (query_clauses uo oo d)
  | SetOp => match dict_get "from" d with Some v => Some (("from", v) :: emit oo d) | None => None end
  | Aggregate op => match dict_get op d with Some v => Some ((op, v) :: emit oo d) | None => None end   (* the argument, then the ordered clauses *)
  end.
Definition is_regular (b : branch) : bool := match b with Regular => true | _ => false end.
