(* The clause loops of Formatter.unordered_query / ordered_query (formatting.py:595-645):
     part for clause in <clause list> if clause in json for part in [render(clause)] if part
   as a function from the query object to the sequence of (clause, value) pairs that are written.  Every clause renderer starts its
   text with the clause's keyword, so `if part` never removes one (checked against the implementation by the harness); a clause is
   written because its key is PRESENT, whatever its value (LIMIT 0, OFFSET 0). *)
From Coq Require Import List String Bool Lia Permutation.
From MoSql Require Import Base.Json.
Import ListNotations.
Open Scope string_scope.
Open Scope list_scope.

Definition dict := list (string * jv).
Definition pick (d : dict) (k : string) : option (string * jv) := match dict_get k d with Some v => Some (k, v) | None => None end.
Definition emit (order : list string) (d : dict) : dict := filter_map (pick d) order.
(* unordered_query, then the ordered clauses behind it *)
Definition query_clauses (unordered ordered : list string) (d : dict) : dict := emit unordered d ++ emit ordered d.

Fixpoint nodupb (l : list string) : bool := match l with [] => true | x :: t => negb (mem x t) && nodupb t end.
Definition subsetb (a b : list string) : bool := forallb (fun x => mem x b) a.
