(* L5: the API state machine (mo_sql_parsing/__init__.py).  State = what survives between calls: the parser cache, the module
   globals utils.null_locations / scrub_op / fmap, and the heap of trees already handed to callers (needed to express that a
   stale slot would write into an EARLIER result).  The per-line effect list of _parse is not fixed here: it is extracted from
   the AST of __init__.py on every run (Generated/ApiShape.v) and the theorems hold for the shapes accepted by shape_okb.
   Grammar matching is a Section variable: a pure function of (dialect, all_columns, text). *)
From Coq Require Import List ZArith String Bool Lia.
From MoSql Require Import Base.Json Model.Scrub.
Import ListNotations.
Open Scope string_scope.
Open Scope list_scope.

Inductive effect :=
| E_ResetNL        (* _utils.null_locations = [] *)
| E_InstallOp      (* _utils.scrub_op = calls *)
| E_InstallFmap    (* _utils.fmap = fmap or {} *)
| E_Match          (* parse_result = parser.parse_string(line, parse_all=True) *)
| E_Scrub          (* output = scrub(parse_result)   -- reads scrub_op / fmap, appends to null_locations *)
| E_Subst          (* for o, n in _utils.null_locations: o[n] = null *)
| E_Acc.           (* accumulate output *)

Definition effect_eqb (a b : effect) : bool :=
  match a, b with
  | E_ResetNL, E_ResetNL | E_InstallOp, E_InstallOp | E_InstallFmap, E_InstallFmap | E_Match, E_Match
  | E_Scrub, E_Scrub | E_Subst, E_Subst | E_Acc, E_Acc => true
  | _, _ => false end.

Record call := { c_dialect : nat; c_allcols : bool; c_sql : nat; c_cb : mode; c_fm : fmap_t; c_null : jv }.

(* a tree handed to a caller lives in the heap under a tag; slots recorded by scrub point into a tagged tree *)
Record st := {
  s_cache : list (nat * bool);
  s_nl : list (nat * path);
  s_op : mode;
  s_fm : fmap_t;
  s_heap : list (nat * jv);
  s_next : nat
}.

Definition init : st := {| s_cache := []; s_nl := []; s_op := MSimple; s_fm := []; s_heap := []; s_next := 0 |}.

Section Api.
(* None = the grammar rejects (ParseException); Some lines = one raw result per DELIMITER block *)
Variable gmatch : nat -> bool -> nat -> option (list raw).

Fixpoint heap_upd (tag : nat) (f : jv -> jv) (h : list (nat * jv)) : list (nat * jv) :=
  match h with [] => [] | (t, v) :: r => if Nat.eqb t tag then (t, f v) :: r else (t, v) :: heap_upd tag f r end.
Fixpoint heap_get (tag : nat) (h : list (nat * jv)) : option jv :=
  match h with [] => None | (t, v) :: r => if Nat.eqb t tag then Some v else heap_get tag r end.

(* local variables of one iteration of the loop over lines *)
Record loc := { l_raw : option raw; l_out : option nat (* tag of this line's output in the heap *) }.

Definition run_effect (c : call) (line : raw) (e : effect) (sl : st * loc) : st * loc :=
  let '(s, l) := sl in
  match e with
  | E_ResetNL => ({| s_cache := s_cache s; s_nl := []; s_op := s_op s; s_fm := s_fm s; s_heap := s_heap s; s_next := s_next s |}, l)
  | E_InstallOp => ({| s_cache := s_cache s; s_nl := s_nl s; s_op := c_cb c; s_fm := s_fm s; s_heap := s_heap s; s_next := s_next s |}, l)
  | E_InstallFmap => ({| s_cache := s_cache s; s_nl := s_nl s; s_op := s_op s; s_fm := c_fm c; s_heap := s_heap s; s_next := s_next s |}, l)
  | E_Match => (s, {| l_raw := Some line; l_out := l_out l |})
  | E_Scrub =>
      match l_raw l with
      | None => sl
      | Some r =>
          match scrub_s (s_op s) (s_fm s) r with
          | None => (s, {| l_raw := l_raw l; l_out := None |})
          | Some (v, ps) =>
              let tag := s_next s in
              ({| s_cache := s_cache s; s_nl := s_nl s ++ map (fun p => (tag, p)) ps; s_op := s_op s; s_fm := s_fm s;
                  s_heap := s_heap s ++ [(tag, v)]; s_next := S tag |},
               {| l_raw := l_raw l; l_out := Some tag |})
          end
      end
  | E_Subst =>
      ({| s_cache := s_cache s; s_nl := s_nl s; s_op := s_op s; s_fm := s_fm s;
          s_heap := fold_left (fun h tp => heap_upd (fst tp) (set_at (snd tp) (c_null c)) h) (s_nl s) (s_heap s);
          s_next := s_next s |}, l)
  | E_Acc => sl
  end.

Definition run_line (sh : list effect) (c : call) (s : st) (line : raw) : st * option nat :=
  let '(s', l) := fold_left (fun sl e => run_effect c line e sl) sh (s, {| l_raw := None; l_out := None |}) in
  (s', l_out l).

Fixpoint run_lines (sh : list effect) (c : call) (s : st) (lines : list raw) : st * list nat :=
  match lines with
  | [] => (s, [])
  | ln :: rest =>
      let '(s1, o) := run_line sh c s ln in
      let '(s2, os) := run_lines sh c s1 rest in
      (s2, match o with Some t => t :: os | None => os end)
  end.

(* what parse() returns: None | single tree | list; RejectedCall = ParseException *)
Inductive result := Rejected | Returned (trees : list jv).

Definition add_cache (k : nat * bool) (l : list (nat * bool)) : list (nat * bool) :=
  if existsb (fun k' => Nat.eqb (fst k) (fst k') && Bool.eqb (snd k) (snd k')) l then l else l ++ [k].

Definition run_call (sh : list effect) (s : st) (c : call) : st * result :=
  let s0 := {| s_cache := add_cache (c_dialect c, c_allcols c) (s_cache s); s_nl := s_nl s; s_op := s_op s; s_fm := s_fm s;
               s_heap := s_heap s; s_next := s_next s |} in
  match gmatch (c_dialect c) (c_allcols c) (c_sql c) with
  | None => (s0, Rejected)
  | Some lines =>
      let '(s1, tags) := run_lines sh c s0 lines in
      (s1, Returned (filter_map (fun t => heap_get t (s_heap s1)) tags))
  end.

Definition run_hist (sh : list effect) (s : st) (h : list call) : st := fold_left (fun s c => fst (run_call sh s c)) h s.

(* accepted shapes: the three per-call installations in any order, then match, scrub, substitute, accumulate *)
Definition ok_shapes : list (list effect) :=
  map (fun pre => pre ++ [E_Match; E_Scrub; E_Subst; E_Acc])
    [[E_ResetNL; E_InstallOp; E_InstallFmap]; [E_ResetNL; E_InstallFmap; E_InstallOp];
     [E_InstallOp; E_ResetNL; E_InstallFmap]; [E_InstallOp; E_InstallFmap; E_ResetNL];
     [E_InstallFmap; E_ResetNL; E_InstallOp]; [E_InstallFmap; E_InstallOp; E_ResetNL]].
Fixpoint shape_eqb (a b : list effect) : bool :=
  match a, b with [], [] => true | x :: a', y :: b' => effect_eqb x y && shape_eqb a' b' | _, _ => false end.
Definition shape_okb (sh : list effect) : bool := existsb (shape_eqb sh) ok_shapes.

End Api.
