(* C02: set-operation folding of to_union_call (utils.py:657-688): sources s0 op1 s1 op2 s2 ... are folded left to right;
   a run of the same UNION-family operator extends one n-ary node; ORDER BY / LIMIT / OFFSET (and FETCH / locking) written after the
   chain wrap the whole set operation as {"from": chain, ...}. *)
From Coq Require Import List String Bool.
From MoSql Require Import Base.Json.
Import ListNotations.
Open Scope string_scope.
Open Scope list_scope.

Definition is_union (op : string) : bool := String.eqb op "union" || String.eqb op "union_all" || String.eqb op "union_distinct".

(* acc[op].append(so) : acc is the node built in the previous step, {op: [...]} *)
Definition append_operand (acc : jv) (op : string) (so : jv) : jv :=
  match acc with
  | JDict [(k, JList xs)] => if String.eqb k op then JDict [(k, JList (xs ++ [so]))] else acc
  | _ => acc
  end.

(* the loop of to_union_call *)
Fixpoint fold_union (acc : jv) (last : option string) (l : list (string * jv)) : jv :=
  match l with
  | [] => acc
  | (op, so) :: t =>
      if (match last with Some lo => String.eqb op lo | None => false end) && is_union op
      then fold_union (append_operand acc op so) (Some op) t
      else fold_union (JDict [(op, JList [acc; so])]) (Some op) t
  end.
Definition to_union (s0 : jv) (l : list (string * jv)) : jv := fold_union s0 None l.

(* specification: left-nested grouping in which a maximal run of one UNION-family operator is a single n-ary node *)
Fixpoint take_run (op : string) (l : list (string * jv)) : list jv * list (string * jv) :=
  match l with
  | (op', so) :: t => if String.eqb op' op then let '(r, rest) := take_run op t in (so :: r, rest) else ([], l)
  | [] => ([], [])
  end.
Fixpoint group (fuel : nat) (acc : jv) (l : list (string * jv)) : jv :=
  match fuel with O => acc | S f =>
    match l with
    | [] => acc
    | (op, so) :: t =>
        if is_union op then let '(r, rest) := take_run op t in group f (JDict [(op, JList (acc :: so :: r))]) rest
        else group f (JDict [(op, JList [acc; so])]) t
    end
  end.
Definition spec_union (s0 : jv) (l : list (string * jv)) : jv := group (List.length l) s0 l.

(* trailing clauses attach to the whole chain *)
Definition with_tail (chain : jv) (tail : list (string * jv)) : jv :=
  match tail with [] => chain | _ => JDict (("from", chain) :: tail) end.

(* ---------------- join chains (to_join_call) ----------------
   A join that carries no ON / USING takes the join that follows it as its `child`; the grammar therefore hands to_join_call a nest
   J o1 (Some (J o2 (Some ...))), and the action flattens it back: [output, *child].  Joins with ON / USING end a nest; ZeroOrMore(join)
   concatenates the nests. *)
Inductive jnest := JN (out : jv) (child : option jnest).

Fixpoint to_join_call (n : jnest) : list jv :=
  match n with JN o c => o :: match c with Some c' => to_join_call c' | None => [] end end.

(* how the grammar nests a run of joins: every join but the last of the run is ON-less and takes the rest as its child *)
Fixpoint nest (first : jv) (rest : list jv) : jnest :=
  match rest with [] => JN first None | r :: rs => JN first (Some (nest r rs)) end.

Definition from_list (t0 : jv) (runs : list (jv * list jv)) : list jv :=
  t0 :: List.concat (map (fun r => to_join_call (nest (fst r) (snd r))) runs).

