(* L0: identifiers.  mo_dots.literal_field / split_field (dots inside a name are escaped so that path segments stay
   distinguishable), the quoted-identifier decoders double_column / backtick_column / square_column (utils.py:798-833),
   and the formatter's escape (formatting.py:46-61). *)
From Coq Require Import List NArith Bool Lia.
From MoSql Require Import Model.Lit.
Import ListNotations.
Open Scope N_scope.

Definition DOT : N := 46.
Definition BSP : N := 8.    (* backspace, the stand-in for a dot at the start or end of a name *)
Definition BT : N := 96.    (* backtick *)
Definition LBR : N := 91.
Definition RBR : N := 93.

(* literal_field:  ESCAPE_DOTS1 replaces a dot at the very start and at the very end by backspace; ESCAPE_DOTS2 doubles every other dot *)
Fixpoint lit_rest (l : str) : str :=      (* everything after the first character *)
  match l with
  | [] => []
  | [c] => if c =? 46 then [8] else [c]
  | c :: ((c2 :: t2) as t) =>
      (* Python's $ also matches before a final newline *)
      if (c =? 46) && (c2 =? 10) && (match t2 with [] => true | _ => false end) then [8; 10]
      else if c =? 46 then 46 :: 46 :: lit_rest t else c :: lit_rest t
  end.
Definition lit_field (s : str) : str :=
  match s with
  | [] => []
  | c :: t => (if c =? 46 then 8 else c) :: lit_rest t
  end.

(* UNESCAPE_DOTS: backspace or a pair of dots -> one dot, left to right *)
Fixpoint unesc (l : str) : str :=
  match l with
  | c :: ((c2 :: t2) as t) => if (c =? 46) && (c2 =? 46) then 46 :: unesc t2 else (if c =? 8 then 46 else c) :: unesc t
  | [c] => [if c =? 8 then 46 else c]
  | [] => []
  end.

(* SPLIT_DOTS: a dot that has no dot before it and no dot after it separates; empty pieces are dropped by split_field *)
Fixpoint split_go (prev : N) (l : str) (cur : str) : list str :=
  match l with
  | [] => [rev cur]
  | c :: t =>
      let next_is_dot := match t with c2 :: _ => c2 =? 46 | [] => false end in
      if (c =? 46) && negb (prev =? 46) && negb next_is_dot then rev cur :: split_go c t [] else split_go c t (c :: cur)
  end.
Definition nonempty (s : str) : bool := match s with [] => false | _ => true end.
Definition split_field (s : str) : list str := map unesc (filter nonempty (split_go 0 s [])).

Fixpoint join_dot (l : list str) : str :=
  match l with [] => [] | [s] => s | s :: t => s ++ 46 :: join_dot t end.

(* quoted identifiers (after the fix that builds a triple-quoted literal, exactly the string decoders of Lit.v) *)
Definition map_res {A B} (f : A -> B) (r : res A) : res B := match r with Ok a => Ok (f a) | Err => Err end.
Definition double_column (tok : str) : res str := map_res lit_field (py_triple (undouble DQ (strip_ends tok))).
(* .replace("``", "`").replace('"', '\\"') *)
Fixpoint single_of_double (q : N) (l : str) : str :=
  match l with
  | c :: ((c2 :: t2) as t) => if (c =? q) && (c2 =? q) then q :: single_of_double q t2 else c :: single_of_double q t
  | l => l
  end.
Definition backtick_column (tok : str) : res str := map_res lit_field (py_triple (escape_char DQ (single_of_double BT (strip_ends tok)))).
Definition square_column (tok : str) : res str := map_res lit_field (py_triple (escape_char DQ (single_of_double RBR (strip_ends tok)))).
Definition bracket (s : str) : str := LBR :: dbl RBR s ++ [RBR].

(* formatter escape of one segment: quote_char + seg.replace(q, qq) + quote_char *)
Definition fmt_quote (q : N) (seg : str) : str := quote q seg.
