(* C19: the shape decision of INSERT / REPLACE ... VALUES: to_row, get_literal, to_values (utils.py:564-592) and to_insert_call /
   to_replace_call (utils.py:717-750), composed with scrub, as a function from the written rows to the statement's tree.
   A cell is what get_literal distinguishes: an int, a float, a bool, a string literal, or anything else (NULL, a name, an expression, a
   signed number -- get_literal answers None for all of them). *)
From Coq Require Import List ZArith String Bool Lia.
From MoSql Require Import Base.Json Model.Ddl.
Import ListNotations.
Open Scope string_scope.
Open Scope list_scope.

Inductive cell :=
| CInt (z : Z) | CFloat (repr : string) (zero : bool) | CBool (b : bool) | CStr (s : string)
| COther (v : jv).

(* the cell's tree in a select list *)
Definition sel (c : cell) : jv :=
  match c with
  | CInt z => JInt z | CFloat r _ => JFloat r | CBool b => JBool b
  | CStr s => JDict [("literal", JStr s)]
  | COther v => v
  end.
(* get_literal; None is Python's None *)
Definition lit (c : cell) : option jv :=
  match c with
  | CInt z => Some (JInt z) | CFloat r _ => Some (JFloat r) | CBool b => Some (JBool b) | CStr s => Some (JStr s)
  | COther _ => None
  end.
Definition litv (c : cell) : jv := match lit c with Some j => j | None => JNull end.
(* Python truthiness of get_literal's answer *)
Definition truthy (c : cell) : bool :=
  match c with
  | CInt z => negb (Z.eqb z 0) | CFloat _ zero => negb zero | CBool b => b
  | CStr s => negb (String.eqb s "")
  | COther _ => false
  end.

(* to_row: a row of one column keeps the Group around its value, which get_literal does not look into *)
Definition row_select (row : list cell) : jv :=
  match row with
  | [c] => JDict [("select", JDict [("value", sel c)])]
  | _ => JDict [("select", JList (map (fun c => JDict [("value", sel c)]) row))]
  end.
Definition row_literal (row : list cell) : bool := (2 <=? List.length row)%nat && forallb truthy row.
(* to_values: len(rows) > 1 and all(flatten(values)) *)
Definition literal_form (rows : list (list cell)) : bool := (2 <=? List.length rows)%nat && forallb row_literal rows.
Definition query_json (rows : list (list cell)) : jv :=
  match rows with
  | [r] => row_select r
  | _ => JDict [("union_all", JList (map row_select rows))]
  end.

(* tokens["columns"]: absent, ONE name (a bare string), or a list of names *)
Definition cols_t := option (string + list string).
Definition cols_json (c : string + list string) : jv := match c with inl s => JStr s | inr l => JList (map JStr l) end.

(* to_insert_call / to_replace_call + scrub (default callback): kwargs first, then kwargs[verb] = table *)
Definition insert_json (verb table : string) (cols : cols_t) (rows : list (list cell)) : jv :=
  if literal_form rows then
    match cols with
    | Some c => JDict [("values", JList (map (fun row => zip_row (py_iter c) (map litv row)) rows)); (verb, JStr table)]
    | None => JDict [("values", JList (map (fun row => JList (map litv row)) rows)); (verb, JStr table)]
    end
  else
    JDict ((match cols with Some c => [("columns", cols_json c)] | None => [] end) ++ [("query", query_json rows); (verb, JStr table)]).

(* reading the cells back from the query form *)
Definition select_cells (s : jv) : list jv :=
  match s with
  | JDict [("select", JDict [("value", v)])] => [v]
  | JDict [("select", JList l)] => map (fun d => match d with JDict [("value", v)] => v | _ => JNull end) l
  | _ => []
  end.
Definition query_cells (q : jv) : list (list jv) :=
  match q with
  | JDict [("union_all", JList l)] => map select_cells l
  | s => [select_cells s]
  end.
