(* L2: raw parse result -> JSON.  Model of utils.scrub (utils.py:63-111), simple_op / normal_op
   (__init__.py:139-154), the fmap renaming and the NULL-slot bookkeeping (null_locations) together with the
   substitution loop of _parse (__init__.py:112-113).

   A ParseResults enters the model as what scrub OBSERVES of it: truthiness (result == None is `not bool(result)`),
   list(result.items()) and list(result).  Container identity is modelled by PATHS into the returned value. *)
From Coq Require Import List ZArith String Bool Lia.
From MoSql Require Import Base.Json.
Import ListNotations.
Open Scope string_scope.
Open Scope list_scope.

Inductive raw :=
| RNone | RMark
| RStr (s : string) | RInt (z : Z) | RBool (b : bool) | RFloat (f : string)
| RCall (op : string) (args : raw) (kwargs : list (string * raw))   (* Call.kwargs is always a Python dict *)
| RDict (kvs : list (string * raw))
| RList (xs : list raw)
| RPR (truthy : bool) (named : list (string * list raw)) (flat : list raw).

(* which calls= callback is installed *)
Inductive mode :=
| MSimple        (* simple_op, the default *)
| MNormal        (* normal_op *)
| MRecord.       (* the harness's custom callback: {"call": op, "a": args (if not None), "k": kwargs (if non-empty)} *)

Definition fmap_t := list (string * string).
Fixpoint fmap_get (fm : fmap_t) (op : string) : string :=
  match fm with [] => op | (k, v) :: t => if String.eqb op k then v else fmap_get t op end.

Inductive step := K (k : string) | I (i : nat).
Definition path := list step.
Definition res := (jv * list path)%type.      (* value, recorded NULL slots as paths into the value *)

Definition is_mark (v : jv) : bool := match v with JMark => true | _ => false end.

(* ---- containers together with the slots recorded for them ---- *)
Fixpoint list_slots (i : nat) (l : list res) : list path :=
  match l with [] => [] | (v, ps) :: t => map (cons (I i)) ps ++ list_slots (S i) t end.
Fixpoint list_marks (i : nat) (l : list res) : list path :=
  match l with [] => [] | (v, _) :: t => (if is_mark v then [[I i]] else []) ++ list_marks (S i) t end.
(* a Python list built from already scrubbed elements *)
Definition pack_l (out : list res) : res :=
  (JList (map fst out), list_slots 0 out ++ list_marks 0 out).
(* scrub's list rule: [] -> None, [x] -> x, else the list *)
Definition pack_s (out : list res) : option res :=
  match out with
  | [] => None
  | [x] => Some x
  | _ => Some (pack_l out)
  end.

Fixpoint dict_slots (l : list (string * res)) : list path :=
  match l with [] => [] | (k, (v, ps)) :: t => map (cons (K k)) ps ++ dict_slots t end.
Fixpoint dict_marks (l : list (string * res)) : list path :=
  match l with [] => [] | (k, (v, _)) :: t => (if is_mark v then [[K k]] else []) ++ dict_marks t end.
Definition pack_d (out : list (string * res)) : res :=
  (JDict (map (fun kv => (fst kv, fst (snd kv))) out), dict_slots out ++ dict_marks out).

(* kwargs[op] = value : replaces in place when the key exists, appends otherwise (Python dict) *)
Fixpoint dict_set (k : string) (v : jv) (d : list (string * jv)) : list (string * jv) :=
  match d with
  | [] => [(k, v)]
  | (k', v') :: t => if String.eqb k k' then (k, v) :: t else (k', v') :: dict_set k v t
  end.

Definition kv_opt {A B} (f : A -> option B) (kv : string * A) : option (string * B) :=
  match f (snd kv) with Some v => Some (fst kv, v) | None => None end.

Definition dict_nonempty (r : res) : bool := match fst r with JDict [] => false | _ => true end.

(* after the fix of utils.py:77-84: under a callback other than simple_op a sole NULL argument is passed as [NULL] *)
Definition nonsimple_args (ar : option res) : option res :=
  match ar with Some (JMark, ps) => Some (pack_l [(JMark, ps)]) | x => x end.

(* listwrap *)
Definition wrap_args (ar : option res) : list (string * res) :=
  match ar with
  | None => []
  | Some (JList [], _) => []
  | Some (JList l, ps) => [("args", (JList l, ps))]
  | Some r => [("args", pack_l [r])]
  end.

Definition call_res (m : mode) (op : string) (ar : option res) (kw : res) : option res :=
  match m with
  | MSimple =>
      match kw with
      | (JDict d, pk) =>
          let '(va, pa) := match ar with Some x => x | None => (JDict [], []) end in
          Some (JDict (dict_set op va d),
                pk ++ map (cons (K op)) pa ++ (if is_mark va then [[K op]] else []))
      | _ => None
      end
  | MNormal =>
      Some (pack_d ([("op", (JStr op, []))] ++ wrap_args (nonsimple_args ar)
                    ++ (if dict_nonempty kw then [("kwargs", kw)] else [])))
  | MRecord =>
      Some (pack_d ([("call", (JStr op, []))]
                    ++ (match nonsimple_args ar with Some r => [("a", r)] | None => [] end)
                    ++ (if dict_nonempty kw then [("k", kw)] else [])))
  end.

Section WithOptions.
Variable m : mode.
Variable fm : fmap_t.

Fixpoint scrub_s (r : raw) : option res :=
  match r with
  | RMark => Some (JMark, [])
  | RNone => None
  | RStr s => Some (JStr s, []) | RInt z => Some (JInt z, []) | RBool b => Some (JBool b, []) | RFloat f => Some (JFloat f, [])
  | RCall op a k =>
      let kw := pack_d (filter_map (kv_opt scrub_s) k) in
      call_res m (fmap_get fm op) (scrub_s a) kw
  | RDict kvs => Some (pack_d (filter_map (kv_opt scrub_s) kvs))
  | RList xs => pack_s (filter_map scrub_s xs)
  | RPR truthy named flat =>
      if negb truthy then None else
      match filter_map (kv_opt (fun vs => pack_s (filter_map scrub_s vs))) named with
      | [] => pack_s (filter_map scrub_s flat)
      | out => Some (pack_d out)
      end
  end.
End WithOptions.

(* ---- the substitution loop:  for o, n in null_locations: o[n] = null ---- *)
Fixpoint list_upd (i : nat) (f : jv -> jv) (l : list jv) : list jv :=
  match l, i with
  | [], _ => []
  | x :: t, O => f x :: t
  | x :: t, S i' => x :: list_upd i' f t
  end.
Fixpoint dict_upd (k : string) (f : jv -> jv) (d : list (string * jv)) : list (string * jv) :=
  match d with
  | [] => []
  | (k', v) :: t => if String.eqb k k' then (k', f v) :: t else (k', v) :: dict_upd k f t
  end.
Fixpoint set_at (p : path) (x : jv) (v : jv) : jv :=
  match p with
  | [] => x
  | K k :: p' => match v with JDict d => JDict (dict_upd k (set_at p' x) d) | _ => v end
  | I i :: p' => match v with JList l => JList (list_upd i (set_at p' x) l) | _ => v end
  end.
Definition apply_all (x : jv) (ps : list path) (v : jv) : jv := fold_left (fun v p => set_at p x v) ps v.

(* what _parse returns for one statement: scrub, then substitute; None when the statement scrubs away *)
Definition parse_result (m : mode) (fm : fmap_t) (x : jv) (r : raw) : option jv :=
  match scrub_s m fm r with
  | Some (v, ps) => Some (apply_all x ps v)
  | None => None
  end.

(* ---- the specification of null=X: replace every marker below the root ---- *)
Fixpoint subst (x : jv) (v : jv) : jv :=
  match v with
  | JMark => x
  | JList l => JList (map (subst x) l)
  | JDict d => JDict (map (fun kv => (fst kv, subst x (snd kv))) d)
  | _ => v
  end.
(* the root itself is never a slot: nothing holds it *)
Definition subst' (x : jv) (v : jv) : jv := match v with JMark => JMark | _ => subst x v end.

(* ---- the documented simplified form ---- *)
Inductive simplified : jv -> Prop :=
| SMark : simplified JMark
| SStr s : simplified (JStr s) | SInt z : simplified (JInt z)
| SBool b : simplified (JBool b) | SFloat f : simplified (JFloat f)
| SList l : 2 <= List.length l -> Forall simplified l -> simplified (JList l)
| SDict d : Forall (fun kv => simplified (snd kv)) d -> simplified (JDict d).

(* the same, except that an "args" entry may hold a list of any positive length (normal_op, README) *)
Inductive simplified_n : jv -> Prop :=
| NMark : simplified_n JMark
| NStr s : simplified_n (JStr s) | NInt z : simplified_n (JInt z)
| NBool b : simplified_n (JBool b) | NFloat f : simplified_n (JFloat f)
| NList l : 2 <= List.length l -> Forall simplified_n l -> simplified_n (JList l)
| NDict d : Forall (fun kv => simplified_n (snd kv) \/
                               (fst kv = "args" /\ exists l, snd kv = JList l /\ 1 <= List.length l /\ Forall simplified_n l)) d ->
            simplified_n (JDict d).

(* ---- C12: the rewrite of the property text:  {"op","args","kwargs"} -> {op: args, **kwargs} ---- *)
Definition unwrap_args (a : option jv) : jv :=
  match a with
  | None => JDict []
  | Some (JList [x]) => x
  | Some v => v
  end.
Definition as_normal (d : list (string * jv)) : option (string * option jv * list (string * jv)) :=
  match d with
  | [("op", JStr op)] => Some (op, None, [])
  | [("op", JStr op); ("args", JList l)] => Some (op, Some (JList l), [])
  | [("op", JStr op); ("kwargs", JDict k)] => Some (op, None, k)
  | [("op", JStr op); ("args", JList l); ("kwargs", JDict k)] => Some (op, Some (JList l), k)
  | _ => None
  end.
Fixpoint to_simple (v : jv) : jv :=
  match v with
  | JList l => JList (map to_simple l)
  | JDict d =>
      let d' := map (fun kv => (fst kv, to_simple (snd kv))) d in
      match as_normal d' with
      | Some (op, a, k) => JDict (dict_set op (unwrap_args a) k)
      | None => JDict d'
      end
  | _ => v
  end.

(* fmap = rename the operation of every normal-form node *)
Fixpoint rename_ops (fm : fmap_t) (v : jv) : jv :=
  match v with
  | JList l => JList (map (rename_ops fm) l)
  | JDict d =>
      let d' := map (fun kv => (fst kv, rename_ops fm (snd kv))) d in
      match d' with
      | ("op", JStr op) :: rest =>
          match as_normal d' with
          | Some _ => JDict (("op", JStr (fmap_get fm op)) :: rest)
          | None => JDict d'
          end
      | _ => JDict d'
      end
  | _ => v
  end.
