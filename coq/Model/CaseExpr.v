(* CASE expressions: the parse actions to_when_call / to_case_call / to_switch_call (utils.py:475-497), first as builders of raw
   results (composed with the scrub model of Model/Scrub.v), then as the JSON they come to; and Formatter._case
   (formatting.py:414-426) as a function from the JSON to the list of WHEN ... THEN ... / ELSE ... parts it writes.
   Operands are the trees of the operand expressions (any jv); "the text of an operand parses back to the operand's tree" is
   what the other C03 / C04 theorems provide and is not restated here. *)
From Coq Require Import List ZArith String Bool Lia.
From MoSql Require Import Base.Json Model.Scrub.
Import ListNotations.
Open Scope string_scope.
Open Scope list_scope.

(* ---- source: CASE [subject] (WHEN w THEN t)* [ELSE e] END ---- *)
Record csrc := { subj : option jv; arms : list (jv * jv); other : option jv }.

(* ---- parse actions on raw results ---- *)
Definition to_when_call (w t : raw) : raw := RCall "when" (RList [w]) [("then", t)].
Definition opt_list {A} (o : option A) : list A := match o with Some e => [e] | None => [] end.
(* tokens["case"] is the group of the results of to_when_call *)
Definition to_case_call (cases : list raw) (elze : option raw) : raw := RCall "case" (RList (cases ++ opt_list elze)) [].
(* acc.append(Call("when", [Call("eq", [value] + c.args, {})], c.kwargs)) for each c = Call("when", [w], {"then": t}) *)
Definition switch_arm (value : raw) (wt : raw * raw) : raw :=
  RCall "when" (RList [RCall "eq" (RList [value; fst wt]) []]) [("then", snd wt)].
Definition to_switch_call (value : raw) (cases : list (raw * raw)) (elze : option raw) : raw :=
  RCall "case" (RList (map (switch_arm value) cases ++ opt_list elze)) [].
Definition case_raw (s : option raw) (cases : list (raw * raw)) (elze : option raw) : raw :=
  match s with
  | None => to_case_call (map (fun wt => to_when_call (fst wt) (snd wt)) cases) elze
  | Some v => to_switch_call v cases elze
  end.

(* ---- the JSON that comes out (default callback) ---- *)
Definition when_json (w t : jv) : jv := JDict [("then", t); ("when", w)].      (* kwargs first, then kwargs[op] = args *)
Definition eq_json (v w : jv) : jv := JDict [("eq", JList [v; w])].
Definition arm_json (s : option jv) (a : jv * jv) : jv :=
  match s with None => when_json (fst a) (snd a) | Some v => when_json (eq_json v (fst a)) (snd a) end.
(* scrub's list rule on the arguments, and simple_op's {} for no arguments *)
Definition args_json (l : list jv) : jv := match l with [] => JDict [] | [x] => x | _ => JList l end.
Definition case_items (c : csrc) : list jv := map (arm_json (subj c)) (arms c) ++ opt_list (other c).
Definition case_args (c : csrc) : jv := args_json (case_items c).
Definition case_json (c : csrc) : jv := JDict [("case", case_args c)].

(* ---- Formatter._case ---- *)
Inductive part := PWhen (w t : jv) | PElse (e : jv).
Definition is_arm (v : jv) : option (jv * jv) :=
  match v with
  | JDict d => match dict_get "when" d, dict_get "then" d with Some w, Some t => Some (w, t) | _, _ => None end
  | _ => None
  end.
Definition fmt_part (ch : jv) : part := match is_arm ch with Some (w, t) => PWhen w t | None => PElse ch end.
(* for check in checks if isinstance(checks, list) else [checks] *)
Definition as_list (v : jv) : list jv := match v with JList l => l | _ => [v] end.
Definition fmt_parts (checks : jv) : list part := map fmt_part (as_list checks).

(* ---- the grammar on what the formatter wrote: CASE (WHEN e THEN e)* [ELSE e] END (never a subject) ---- *)
Fixpoint read_parts (ps : list part) : option (list (jv * jv) * option jv) :=
  match ps with
  | [] => Some ([], None)
  | [PElse e] => Some ([], Some e)
  | PElse _ :: _ => None
  | PWhen w t :: r => match read_parts r with Some (a, e) => Some ((w, t) :: a, e) | None => None end
  end.
Definition reread (c : csrc) : option csrc :=
  match read_parts (fmt_parts (case_args c)) with Some (a, e) => Some {| subj := None; arms := a; other := e |} | None => None end.

(* ---- premises ---- *)
Definition is_list (v : jv) : bool := match v with JList _ => true | _ => false end.
Definition no_arm (v : jv) : bool := match is_arm v with Some _ => false | None => true end.
(* something is written between CASE and END; an ELSE operand does not look like a WHEN arm ({"when":, "then":} is not the tree of any
   expression); an ELSE operand standing alone is not a list (lists are not trees of expressions either) *)
Definition wf (c : csrc) : bool :=
  negb (match case_items c with [] => true | _ => false end)
  && match other c with Some e => no_arm e && negb (match arms c with [] => is_list e | _ => false end) | None => true end.

(* ---- operands, read back from the JSON ---- *)
Definition item_ops (s : bool) (v : jv) : list jv :=
  match is_arm v with
  | Some (w, t) =>
      (if s then match w with JDict [(_, JList [a; b])] => [a; b] | _ => [w] end else [w]) ++ [t]
  | None => [v]
  end.
Definition json_ops (s : bool) (checks : jv) : list jv := flat_map (item_ops s) (as_list checks).
Definition written_ops (c : csrc) : list jv :=
  flat_map (fun a => opt_list (subj c) ++ [fst a; snd a]) (arms c) ++ opt_list (other c).
Definition has_subj (c : csrc) : bool := match subj c with Some _ => true | None => false end.
