(* L0: plain decimal integers: str(n) and int(text), via the standard library's decimal representation. *)
From Coq Require Import List NArith Bool.
From Coq Require Import DecimalN DecimalFacts.
Import ListNotations.
Open Scope N_scope.
Definition str := list N.
(* ---------------- integers ---------------- *)
Definition digit_of (d : N) : option (Decimal.uint -> Decimal.uint) :=
  match d with
  | 48 => Some Decimal.D0 | 49 => Some Decimal.D1 | 50 => Some Decimal.D2 | 51 => Some Decimal.D3 | 52 => Some Decimal.D4
  | 53 => Some Decimal.D5 | 54 => Some Decimal.D6 | 55 => Some Decimal.D7 | 56 => Some Decimal.D8 | 57 => Some Decimal.D9 | _ => None end.
Fixpoint uint_of_chars (l : str) : option Decimal.uint :=
  match l with
  | [] => Some Decimal.Nil
  | c :: t => match digit_of c, uint_of_chars t with Some d, Some u => Some (d u) | _, _ => None end
  end.
Fixpoint chars_of_uint (u : Decimal.uint) : str :=
  match u with
  | Decimal.Nil => []
  | Decimal.D0 u => 48 :: chars_of_uint u | Decimal.D1 u => 49 :: chars_of_uint u | Decimal.D2 u => 50 :: chars_of_uint u
  | Decimal.D3 u => 51 :: chars_of_uint u | Decimal.D4 u => 52 :: chars_of_uint u | Decimal.D5 u => 53 :: chars_of_uint u
  | Decimal.D6 u => 54 :: chars_of_uint u | Decimal.D7 u => 55 :: chars_of_uint u | Decimal.D8 u => 56 :: chars_of_uint u
  | Decimal.D9 u => 57 :: chars_of_uint u
  end.
(* str(n) for a non-negative Python int, and int(text) for a digit string *)
Definition dec (n : N) : str := chars_of_uint (N.to_uint n).
Definition parse_dec (l : str) : option N := match l with [] => None | _ => option_map N.of_uint (uint_of_chars l) end.
