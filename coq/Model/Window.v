(* C20: window frames.  _to_bound_call / _to_between_call (windows.py:18-58) for integer offsets, and the frame printer of
   Formatter.value (formatting.py:250-290). *)
From Coq Require Import List ZArith Bool Lia.
Import ListNotations.
Open Scope Z_scope.

Inductive bound := UnbPrec | Prec (n : Z) | Cur | Foll (n : Z) | UnbFoll.
Inductive frame := Single (b : bound) | Between (lo hi : bound).

(* a {min, max} dict with possibly absent entries *)
Definition mm := (option Z * option Z)%type.

(* _to_bound_call *)
Definition to_bound (b : bound) : mm :=
  match b with
  | Cur => (Some 0, Some 0)
  | UnbPrec => (None, Some 0)
  | Prec n => (Some (- n), Some 0)
  | UnbFoll => (Some 0, None)
  | Foll n => (Some 0, Some n)
  end.
Definition is0 (o : option Z) : bool := match o with Some z => Z.eqb z 0 | None => false end.
(* _to_between_call *)
Definition to_between (lo hi : bound) : mm :=
  let minn := to_bound lo in let maxx := to_bound hi in
  if is0 (snd maxx) then (fst minn, fst maxx)
  else if is0 (fst minn) then (snd minn, snd maxx)
  else (fst minn, snd maxx).
Definition mframe (f : frame) : mm := match f with Single b => to_bound b | Between lo hi => to_between lo hi end.

(* the specification of the property: PRECEDING negative, FOLLOWING positive, CURRENT ROW zero, UNBOUNDED absent;
   a single bound is the frame start, the end being CURRENT ROW *)
Definition spec_lo (b : bound) : option Z := match b with UnbPrec => None | Prec n => Some (- n) | Cur => Some 0 | Foll n => Some n | UnbFoll => None end.
Definition spec_hi (b : bound) : option Z := match b with UnbFoll => None | Prec n => Some (- n) | Cur => Some 0 | Foll n => Some n | UnbPrec => None end.
Definition spec (f : frame) : mm :=
  match f with Single b => (spec_lo b, Some 0) | Between lo hi => (spec_lo lo, spec_hi hi) end.

(* valid forms: offsets positive; single: UNBOUNDED PRECEDING | n PRECEDING | CURRENT ROW; between: lower <= upper,
   UNBOUNDED FOLLOWING is not a lower bound, UNBOUNDED PRECEDING not an upper bound *)
Definition pos_off (b : bound) : bool := match b with Prec n | Foll n => 0 <? n | _ => true end.
Definition axis (b : bound) : option Z := match b with Prec n => Some (- n) | Cur => Some 0 | Foll n => Some n | _ => None end.
Definition valid (f : frame) : bool :=
  match f with
  | Single b => pos_off b && match b with UnbPrec | Prec _ | Cur => true | _ => false end
  | Between lo hi =>
      pos_off lo && pos_off hi
      && match lo with UnbFoll => false | _ => true end && match hi with UnbPrec => false | _ => true end
      && match axis lo, axis hi with Some a, Some b => a <=? b | _, _ => true end
  end.

(* the formatter's frame printer, as a function from {min, max} to the frame it writes (None = it writes no frame at all) *)
Definition wordy (v : Z) : bound := if v <? 0 then Prec (- v) else Foll v.
Definition fmt_frame (r : mm) : option frame :=
  match r with
  | (None, None) => None
  | (None, Some mx) => if mx =? 0 then Some (Single UnbPrec) else Some (Between UnbPrec (wordy mx))
  | (Some mn, None) => if mn =? 0 then Some (Single UnbFoll) else Some (Between (wordy mn) UnbFoll)
  | (Some mn, Some mx) =>
      if mn =? 0 then (if mx =? 0 then Some (Single Cur) else Some (Single (wordy mx)))
      else if mx =? 0 then Some (Single (wordy mn)) else Some (Between (wordy mn) (wordy mx))
  end.
