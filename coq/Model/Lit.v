(* L0: string and numeric literals.  Strings are lists of code points (N).
   Models: the token regexes ansi_string / mysql_doublequote_string (utils.py:843-845) as hand-written recognisers, single_literal /
   double_literal (utils.py:768-783) including Pythonsqs evaluation of the triple-quoted literal they build (ast.literal_eval), the
   formattersqs _literal for strings (formatting.py:451-469), int_num / parse_int for plain decimal integers. *)
From Coq Require Import List NArith Bool Lia.
Import ListNotations.
Open Scope N_scope.

Definition str := list N.
Definition SQ : N := 39.   (* sq *)
Definition DQ : N := 34.   (* dq *)
Definition BS : N := 92.   (* \ *)
Definition CR : N := 13.
Definition LF : N := 10.

Inductive res (A : Type) := Ok (a : A) | Err.
Arguments Ok {A} a. Arguments Err {A}.

(* ---------------- Python: evaluating  dqdqdq body dqdqdq  (tokenizer + string-literal escapes) ---------------- *)
Fixpoint universal_newlines (l : str) : str :=
  match l with
  | [] => []
  | c :: t =>
      if c =? 13 then
        10 :: match t with
              | c2 :: t2 => if c2 =? 10 then universal_newlines t2 else universal_newlines t
              | [] => []
              end
      else c :: universal_newlines t
  end.

Definition is_oct (c : N) : bool := (48 <=? c) && (c <=? 55).
Definition hexval (c : N) : option N :=
  if (48 <=? c) && (c <=? 57) then Some (c - 48)
  else if (97 <=? c) && (c <=? 102) then Some (c - 87)
  else if (65 <=? c) && (c <=? 70) then Some (c - 55)
  else None.
Fixpoint hexn (n : nat) (l : str) (acc : N) : option (N * str) :=
  match n with
  | O => Some (acc, l)
  | S n' => match l with
            | c :: t => match hexval c with Some v => hexn n' t (acc * 16 + v) | None => None end
            | [] => None end
  end.
Definition simple_escape (d : N) : option N :=
  if d =? 92 then Some 92 else if d =? 39 then Some 39 else if d =? 34 then Some 34
  else if d =? 97 then Some 7 else if d =? 98 then Some 8 else if d =? 102 then Some 12
  else if d =? 110 then Some 10 else if d =? 114 then Some 13 else if d =? 116 then Some 9 else if d =? 118 then Some 11
  else None.

(* the body of the literal, after newline normalisation; a raw dq cannot occur (the callers escape every one);
   fuel = length of the body is always enough *)
Fixpoint py_body (fuel : nat) (l : str) : res str :=
  match fuel with
  | O => match l with [] => Ok [] | _ => Err end
  | S f =>
    match l with
    | [] => Ok []
    | c :: t =>
      if c =? 92 then
        match t with
        | [] => Err                                        (* the backslash would escape the closing quote: unterminated *)
        | d :: t' =>
          if d =? 10 then py_body f t'                     (* line continuation *)
          else match simple_escape d with
          | Some v => match py_body f t' with Ok r => Ok (v :: r) | Err => Err end
          | None =>
            if is_oct d then
              (* up to three octal digits *)
              let '(v, rest) :=
                match t' with
                | d2 :: t2 => if is_oct d2 then
                                match t2 with
                                | d3 :: t3 => if is_oct d3 then (((d - 48) * 8 + (d2 - 48)) * 8 + (d3 - 48), t3) else ((d - 48) * 8 + (d2 - 48), t2)
                                | [] => ((d - 48) * 8 + (d2 - 48), t2) end
                              else (d - 48, t')
                | [] => (d - 48, t') end in
              match py_body f rest with Ok r => Ok (v :: r) | Err => Err end
            else if d =? 120 then                          (* \xhh *)
              match hexn 2 t' 0 with Some (v, rest) => match py_body f rest with Ok r => Ok (v :: r) | Err => Err end | None => Err end
            else if d =? 117 then                          (* \uXXXX *)
              match hexn 4 t' 0 with Some (v, rest) => match py_body f rest with Ok r => Ok (v :: r) | Err => Err end | None => Err end
            else if d =? 85 then                           (* \UXXXXXXXX *)
              match hexn 8 t' 0 with
              | Some (v, rest) => if v <=? 1114111 then match py_body f rest with Ok r => Ok (v :: r) | Err => Err end else Err
              | None => Err end
            else if d =? 78 then Err                       (* \N{...}: named characters are not modelled (reported as an error) *)
            else match py_body f t' with Ok r => Ok (92 :: d :: r) | Err => Err end   (* unknown escape: kept *)
          end
        end
      else if (c =? 34) && (match t with [] => true | _ => false end) then Err   (* a raw quote right before the closing quotes: four quotes, the literal ends early *)
      else match py_body f t with Ok r => Ok (c :: r) | Err => Err end
    end
  end.

Definition has_nul (l : str) : bool := existsb (N.eqb 0) l.
Definition py_triple (body : str) : res str :=
  if has_nul body then Err else let b := universal_newlines body in py_body (length b) b.

(* ---------------- SQL string tokens ---------------- *)
(* sq(?:sqsq|[^sq])*sq : returns the token (with its quotes) and the rest *)
Fixpoint lex_q (q : N) (l : str) : option (str * str) :=   (* after the opening quote *)
  match l with
  | [] => None
  | c :: t =>
      if c =? q then
        match t with
        | c2 :: t2 => if c2 =? q then match lex_q q t2 with Some (tok, r) => Some (q :: q :: tok, r) | None => None end
                      else Some ([q], t)
        | [] => Some ([q], [])
        end
      else match lex_q q t with Some (tok, r) => Some (c :: tok, r) | None => None end
  end.
Definition lex_string (q : N) (l : str) : option (str * str) :=
  match l with
  | c :: t => if c =? q then match lex_q q t with Some (tok, r) => Some (q :: tok, r) | None => None end else None
  | [] => None
  end.

(* s.replace(q q, \ q) , left to right, non-overlapping *)
Fixpoint undouble (q : N) (l : str) : str :=
  match l with
  | c :: ((c2 :: t2) as t) => if (c =? q) && (c2 =? q) then 92 :: q :: undouble q t2 else c :: undouble q t
  | l => l
  end.
Fixpoint escape_char (q : N) (l : str) : str :=
  match l with [] => [] | c :: t => if c =? q then 92 :: q :: escape_char q t else c :: escape_char q t end.

Definition strip_ends (l : str) : str := removelast (tl l).

(* utils.single_literal without encoding prefix:  dqdqdq + tok[1:-1].replace(dqsqsqdq, dq\\sqdq).replace(sqdqsq, sq\\dqsq) + dqdqdq *)
Definition single_literal (tok : str) : res str := py_triple (escape_char DQ (undouble SQ (strip_ends tok))).
(* utils.double_literal:  dqdqdq + tok[1:-1].replace(sqdqdqsq, sq\\dqsq) + dqdqdq   -- a lone dq cannot occur inside the token *)
Definition double_literal (tok : str) : res str := py_triple (undouble DQ (strip_ends tok)).

(* formatter _literal for a string:  sq + s.replace(dqsqdq, dqsqsqdq) + sq *)
Fixpoint dbl (q : N) (s : str) : str :=
  match s with [] => [] | c :: t => if c =? q then q :: q :: dbl q t else c :: dbl q t end.
Definition quote (q : N) (s : str) : str := q :: dbl q s ++ [q].

Definition clean (s : str) : bool := forallb (fun c => negb (c =? 92) && negb (c =? 13) && negb (c =? 0)) s.

