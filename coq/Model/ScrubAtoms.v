(* Model part.  C05 at the scrub stage: which of the atoms (strings, numbers) held by a raw parse result reach the returned tree.
   scrub drops (a) entries that scrub to nothing, which hold no atom it would have visited, (b) the unnamed tokens of a result that
   also has named ones, (c) under simple_op, a keyword argument named like the operation.  Nothing else: every atom scrub VISITS
   is in the returned value. *)
From Coq Require Import List ZArith String Bool Lia.
From MoSql Require Import Base.Json Model.Scrub.
Import ListNotations.
Open Scope string_scope.
Open Scope list_scope.

Inductive atom := AStr (s : string) | AInt (z : Z) | AFloat (f : string).

Definition atom_eqb (a b : atom) : bool :=
  match a, b with
  | AStr x, AStr y => String.eqb x y
  | AInt x, AInt y => Z.eqb x y
  | AFloat x, AFloat y => String.eqb x y
  | _, _ => false
  end.

(* atoms of a returned value: leaves and dictionary keys *)
Fixpoint jatoms (v : jv) : list atom :=
  match v with
  | JStr s => [AStr s] | JInt z => [AInt z] | JFloat f => [AFloat f]
  | JList l => flat_map jatoms l
  | JDict d => flat_map (fun kv => AStr (fst kv) :: jatoms (snd kv)) d
  | _ => []
  end.

(* every atom held anywhere in a raw result: leaves, and the keys of dictionaries (option words, named arguments) *)
Fixpoint ratoms (r : raw) : list atom :=
  match r with
  | RStr s => [AStr s] | RInt z => [AInt z] | RFloat f => [AFloat f]
  | RCall op a k => ratoms a ++ flat_map (fun kv => AStr (fst kv) :: ratoms (snd kv)) k
  | RDict kvs => flat_map (fun kv => AStr (fst kv) :: ratoms (snd kv)) kvs
  | RList xs => flat_map ratoms xs
  | RPR t named flat => flat_map (fun kv => flat_map ratoms (snd kv)) named ++ flat_map ratoms flat
  | _ => []
  end.

Section Vis.
Variable m : mode.
Variable fm : fmap_t.

Definition alive (r : raw) : bool := match scrub_s m fm r with Some _ => true | None => false end.

(* the atoms scrub visits (a dictionary key with the entry it keeps): of a result with surviving named tokens only the named ones, otherwise the flat ones *)
Fixpoint vis (r : raw) : list atom :=
  match r with
  | RStr s => [AStr s] | RInt z => [AInt z] | RFloat f => [AFloat f]
  | RCall op a k => vis a ++ flat_map (fun kv => (if alive (snd kv) then [AStr (fst kv)] else []) ++ vis (snd kv)) k
  | RDict kvs => flat_map (fun kv => (if alive (snd kv) then [AStr (fst kv)] else []) ++ vis (snd kv)) kvs
  | RList xs => flat_map vis xs
  | RPR t named flat =>
      if negb t then [] else
      if existsb (fun kv => existsb alive (snd kv)) named
      then flat_map (fun kv => flat_map vis (snd kv)) named
      else flat_map vis flat
  | _ => []
  end.

(* the atoms that are held but not visited *)
Definition hidden (r : raw) : list atom :=
  filter (fun a => negb (existsb (atom_eqb a) (vis r))) (ratoms r).

End Vis.
