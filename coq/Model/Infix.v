From Coq Require Import List Arith Lia Bool Wf_nat.
Import ListNotations.

Section Infix.
Variable V : Type.
Definition item := (V * option nat)%type.
Inductive entry := EPre (o:nat) | ESuf (o:nat) | EBin (o:nat) | ETern (o0 o1:nat).
Variables (bpre bsuf : V -> V -> V) (bbin : V -> V -> V -> V) (btern : V -> V -> V -> V -> V -> V).

Definition is_mark (o:nat) (it:item) : bool :=
  match snd it with Some o' => Nat.eqb o o' | None => false end.

(* ---------- the scans of make_tree ---------- *)
Fixpoint scan_bin (o:nat) (l:list item) : option (list item) :=
  match l with
  | [] => None
  | x :: t =>
    match t with
    | m :: y :: rest =>
        if is_mark o m then Some ((bbin (fst x) (fst m) (fst y), None) :: rest)
        else option_map (cons x) (scan_bin o t)
    | _ => None
    end
  end.

Fixpoint scan_suf (o:nat) (l:list item) : option (list item) :=
  match l with
  | [] => None
  | x :: t =>
    match t with
    | m :: rest =>
        if is_mark o m then Some ((bsuf (fst x) (fst m), None) :: rest)
        else option_map (cons x) (scan_suf o t)
    | _ => None
    end
  end.

Fixpoint scan_tern (o0 o1:nat) (l:list item) : option (list item) :=
  match l with
  | [] => None
  | x :: t =>
    match t with
    | m0 :: y :: m1 :: z :: rest =>
        if is_mark o0 m0 && is_mark o1 m1
        then Some ((btern (fst x) (fst m0) (fst y) (fst m1) (fst z), None) :: rest)
        else option_map (cons x) (scan_tern o0 o1 t)
    | _ => None
    end
  end.

(* prefix: right-most marked item that has a successor *)
Fixpoint scan_pre (o:nat) (l:list item) : option (list item) :=
  match l with
  | [] => None
  | x :: t =>
    match scan_pre o t with
    | Some t' => Some (x :: t')
    | None =>
      if is_mark o x then
        match t with
        | y :: rest => Some ((bpre (fst x) (fst y), None) :: rest)
        | [] => None
        end
      else None
    end
  end.

Definition try_entry (e:entry) (l:list item) : option (list item) :=
  match e with
  | EPre o => scan_pre o l
  | ESuf o => scan_suf o l
  | EBin o => scan_bin o l
  | ETern o0 o1 => scan_tern o0 o1 l
  end.

Fixpoint try_levels (es:list entry) (l:list item) : option (list item) :=
  match es with
  | [] => None
  | e :: es' => match try_entry e l with Some l' => Some l' | None => try_levels es' l end
  end.

Fixpoint reduce_all (fuel:nat) (tbl:list entry) (l:list item) : option V :=
  match l with
  | [] => None
  | [x] => Some (fst x)
  | x :: _ =>
    match fuel with
    | O => None
    | S f => match try_levels tbl l with
             | Some l' => reduce_all f tbl l'
             | None => Some (fst x)
             end
    end
  end.

(* ---------- scan specifications ---------- *)
Definition nomark (o:nat) (l:list item) : Prop := forall it, In it l -> is_mark o it = false.

Lemma nomark_app o l1 l2 : nomark o (l1 ++ l2) <-> nomark o l1 /\ nomark o l2.
Proof. unfold nomark; split.
  - intros H; split; intros it Hi; apply H; apply in_or_app; auto.
  - intros [H1 H2] it Hi; apply in_app_or in Hi; destruct Hi; auto.
Qed.
Lemma nomark_cons o x l : nomark o (x :: l) <-> is_mark o x = false /\ nomark o l.
Proof. unfold nomark; split.
  - intros H; split; [apply H; left; auto| intros it Hi; apply H; right; auto].
  - intros [H1 H2] it [<-|Hi]; auto.
Qed.
Lemma nomark_nil o : nomark o []. Proof. intros it []. Qed.

Lemma scan_bin_none o l : nomark o l -> scan_bin o l = None.
Proof. induction l as [|x t IH]; intros H; simpl; auto.
  destruct t as [|m [|y rest]]; auto.
  apply nomark_cons in H; destruct H as [_ H].
  pose proof H as H'. apply nomark_cons in H'; destruct H' as [Hm _]. rewrite Hm.
  rewrite (IH H). reflexivity.
Qed.
Lemma scan_suf_none o l : nomark o l -> scan_suf o l = None.
Proof. induction l as [|x t IH]; intros H; simpl; auto.
  destruct t as [|m rest]; auto.
  apply nomark_cons in H; destruct H as [_ H].
  pose proof H as H'. apply nomark_cons in H'; destruct H' as [Hm _]. rewrite Hm.
  rewrite (IH H). reflexivity.
Qed.
Lemma scan_tern_none o0 o1 l : nomark o0 l -> scan_tern o0 o1 l = None.
Proof. induction l as [|x t IH]; intros H; simpl; auto.
  destruct t as [|m0 [|y [|m1 [|z rest]]]]; auto.
  apply nomark_cons in H; destruct H as [_ H].
  pose proof H as H'. apply nomark_cons in H'; destruct H' as [Hm _]. rewrite Hm. cbn [andb].
  rewrite (IH H). reflexivity.
Qed.
Lemma scan_pre_none o l : nomark o l -> scan_pre o l = None.
Proof. induction l as [|x t IH]; intros H; simpl; auto.
  apply nomark_cons in H; destruct H as [Hx H]. rewrite (IH H), Hx. reflexivity.
Qed.

Lemma head_nomark o A x rest h t :
  nomark o (A ++ [x]) -> A ++ x :: rest = h :: t -> is_mark o h = false.
Proof. intros Hn E. destruct A as [|a A]; simpl in E; injection E as <- _; apply Hn.
  - left; auto.
  - left; auto.
Qed.
Lemma nomark_tail o a A x : nomark o ((a :: A) ++ [x]) -> nomark o (A ++ [x]).
Proof. simpl. intros H. apply nomark_cons in H. tauto. Qed.

Lemma scan_bin_step o x m y rest :
  scan_bin o (x :: m :: y :: rest) =
  if is_mark o m then Some ((bbin (fst x) (fst m) (fst y), None) :: rest)
  else option_map (cons x) (scan_bin o (m :: y :: rest)).
Proof. reflexivity. Qed.
Lemma scan_suf_step o x m rest :
  scan_suf o (x :: m :: rest) =
  if is_mark o m then Some ((bsuf (fst x) (fst m), None) :: rest)
  else option_map (cons x) (scan_suf o (m :: rest)).
Proof. reflexivity. Qed.
Lemma scan_tern_step o0 o1 x m0 y m1 z rest :
  scan_tern o0 o1 (x :: m0 :: y :: m1 :: z :: rest) =
  if is_mark o0 m0 && is_mark o1 m1
  then Some ((btern (fst x) (fst m0) (fst y) (fst m1) (fst z), None) :: rest)
  else option_map (cons x) (scan_tern o0 o1 (m0 :: y :: m1 :: z :: rest)).
Proof. reflexivity. Qed.

Lemma scan_bin_spec o A x m y B :
  nomark o (A ++ [x]) -> is_mark o m = true ->
  scan_bin o (A ++ x :: m :: y :: B) = Some (A ++ (bbin (fst x) (fst m) (fst y), None) :: B).
Proof. induction A as [|a A IH]; intros HA Hm.
  - simpl app. rewrite scan_bin_step, Hm. reflexivity.
  - specialize (IH (nomark_tail _ _ _ _ HA) Hm).
    change ((a :: A) ++ x :: m :: y :: B) with (a :: (A ++ x :: m :: y :: B)).
    destruct (A ++ x :: m :: y :: B) as [|h [|h2 t]] eqn:E.
    + destruct A; discriminate.
    + destruct A as [|? [|? ?]]; discriminate.
    + rewrite scan_bin_step. rewrite (head_nomark _ _ _ _ _ _ (nomark_tail _ _ _ _ HA) E). rewrite IH. reflexivity.
Qed.

Lemma scan_suf_spec o A x m B :
  nomark o (A ++ [x]) -> is_mark o m = true ->
  scan_suf o (A ++ x :: m :: B) = Some (A ++ (bsuf (fst x) (fst m), None) :: B).
Proof. induction A as [|a A IH]; intros HA Hm.
  - simpl app. rewrite scan_suf_step, Hm. reflexivity.
  - specialize (IH (nomark_tail _ _ _ _ HA) Hm).
    change ((a :: A) ++ x :: m :: B) with (a :: (A ++ x :: m :: B)).
    destruct (A ++ x :: m :: B) as [|h t] eqn:E.
    + destruct A; discriminate.
    + rewrite scan_suf_step. rewrite (head_nomark _ _ _ _ _ _ (nomark_tail _ _ _ _ HA) E). rewrite IH. reflexivity.
Qed.

Lemma scan_tern_spec o0 o1 A x m0 y m1 z B :
  nomark o0 (A ++ [x]) -> is_mark o0 m0 = true -> is_mark o1 m1 = true ->
  scan_tern o0 o1 (A ++ x :: m0 :: y :: m1 :: z :: B)
  = Some (A ++ (btern (fst x) (fst m0) (fst y) (fst m1) (fst z), None) :: B).
Proof. induction A as [|a A IH]; intros HA Hm0 Hm1.
  - simpl app. rewrite scan_tern_step, Hm0, Hm1. reflexivity.
  - specialize (IH (nomark_tail _ _ _ _ HA) Hm0 Hm1).
    change ((a :: A) ++ x :: m0 :: y :: m1 :: z :: B) with (a :: (A ++ x :: m0 :: y :: m1 :: z :: B)).
    destruct (A ++ x :: m0 :: y :: m1 :: z :: B) as [|h [|h2 [|h3 [|h4 t]]]] eqn:E.
    + destruct A; discriminate.
    + destruct A as [|? [|? ?]]; discriminate.
    + destruct A as [|? [|? [|? ?]]]; discriminate.
    + destruct A as [|? [|? [|? [|? ?]]]]; discriminate.
    + rewrite scan_tern_step. rewrite (head_nomark _ _ _ _ _ _ (nomark_tail _ _ _ _ HA) E). cbn [andb]. rewrite IH. reflexivity.
Qed.

Lemma scan_pre_step o x t :
  scan_pre o (x :: t) =
  match scan_pre o t with
  | Some t' => Some (x :: t')
  | None => if is_mark o x then
              match t with y :: rest => Some ((bpre (fst x) (fst y), None) :: rest) | [] => None end
            else None
  end.
Proof. reflexivity. Qed.

Lemma scan_pre_spec o A x y B :
  nomark o (y :: B) -> is_mark o x = true ->
  scan_pre o (A ++ x :: y :: B) = Some (A ++ (bpre (fst x) (fst y), None) :: B).
Proof. intros HB Hx. induction A as [|a A IH].
  - simpl app. rewrite scan_pre_step, (scan_pre_none _ _ HB), Hx. reflexivity.
  - simpl app. rewrite scan_pre_step, IH. reflexivity.
Qed.

(* ---------- trees ---------- *)
Variable tbl : list entry.
Definition main (e:entry) : nat := match e with EPre o | ESuf o | EBin o => o | ETern o _ => o end.
Hypothesis main_inj : forall i j ei ej,
  nth_error tbl i = Some ei -> nth_error tbl j = Some ej -> main ei = main ej -> i = j.
Hypothesis partner_looser : forall k o0 o1 j ej,
  nth_error tbl k = Some (ETern o0 o1) -> nth_error tbl j = Some ej -> main ej = o1 -> k < j.

Inductive ast :=
| Leaf (v:V)
| NPre (k:nat) (tv:V) (c:ast)
| NSuf (k:nat) (tv:V) (c:ast)
| NBin (k:nat) (tv:V) (l r:ast)
| NTern (k:nat) (tv0 tv1:V) (a b c:ast).

Definition le_lvl (e:ast) (L:nat) : Prop :=
  match e with Leaf _ => True
  | NPre k _ _ | NSuf k _ _ | NBin k _ _ _ | NTern k _ _ _ _ _ => k <= L end.
Definition lt_lvl (e:ast) (L:nat) : Prop :=
  match e with Leaf _ => True
  | NPre k _ _ | NSuf k _ _ | NBin k _ _ _ | NTern k _ _ _ _ _ => k < L end.

Fixpoint wf (e:ast) : Prop :=
  match e with
  | Leaf _ => True
  | NPre k _ c => (exists o, nth_error tbl k = Some (EPre o)) /\ le_lvl c k /\ wf c
  | NSuf k _ c => (exists o, nth_error tbl k = Some (ESuf o)) /\ le_lvl c k /\ wf c
  | NBin k _ l r => (exists o, nth_error tbl k = Some (EBin o)) /\ le_lvl l k /\ lt_lvl r k /\ wf l /\ wf r
  | NTern k _ _ a b c => (exists o0 o1, nth_error tbl k = Some (ETern o0 o1))
                         /\ le_lvl a k /\ lt_lvl b k /\ lt_lvl c k /\ wf a /\ wf b /\ wf c
  end.

Definition mainof (k:nat) : nat := match nth_error tbl k with Some e => main e | None => 0 end.
Definition partnerof (k:nat) : nat := match nth_error tbl k with Some (ETern _ o1) => o1 | _ => 0 end.

Fixpoint frontier (e:ast) : list item :=
  match e with
  | Leaf v => [(v, None)]
  | NPre k tv c => (tv, Some (mainof k)) :: frontier c
  | NSuf k tv c => frontier c ++ [(tv, Some (mainof k))]
  | NBin k tv l r => frontier l ++ (tv, Some (mainof k)) :: frontier r
  | NTern k tv0 tv1 a b c =>
      frontier a ++ (tv0, Some (mainof k)) :: frontier b ++ (tv1, Some (partnerof k)) :: frontier c
  end.

Fixpoint eval (e:ast) : V :=
  match e with
  | Leaf v => v
  | NPre _ tv c => bpre tv (eval c)
  | NSuf _ tv c => bsuf (eval c) tv
  | NBin _ tv l r => bbin (eval l) tv (eval r)
  | NTern _ tv0 tv1 a b c => btern (eval a) tv0 (eval b) tv1 (eval c)
  end.

Fixpoint size (e:ast) : nat :=
  match e with
  | Leaf _ => 0
  | NPre _ _ c | NSuf _ _ c => S (size c)
  | NBin _ _ l r => S (size l + size r)
  | NTern _ _ _ a b c => S (size a + size b + size c)
  end.

Fixpoint all_ge (m:nat) (e:ast) : Prop :=
  match e with
  | Leaf _ => True
  | NPre k _ c | NSuf k _ c => m <= k /\ all_ge m c
  | NBin k _ l r => m <= k /\ all_ge m l /\ all_ge m r
  | NTern k _ _ a b c => m <= k /\ all_ge m a /\ all_ge m b /\ all_ge m c
  end.

Fixpoint has (m:nat) (e:ast) : Prop :=
  match e with
  | Leaf _ => False
  | NPre k _ c | NSuf k _ c => k = m \/ has m c
  | NBin k _ l r => k = m \/ has m l \/ has m r
  | NTern k _ _ a b c => k = m \/ has m a \/ has m b \/ has m c
  end.

Lemma has_dec m e : has m e \/ ~ has m e.
Proof. induction e as [v|k tv c IH|k tv c IH|k tv l IHl r IHr|k tv0 tv1 a IHa b IHb c IHc]; simpl.
  - tauto.
  - destruct (Nat.eq_dec k m); tauto.
  - destruct (Nat.eq_dec k m); tauto.
  - destruct (Nat.eq_dec k m); tauto.
  - destruct (Nat.eq_dec k m); tauto.
Qed.


Lemma all_ge_S m e : all_ge m e -> ~ has m e -> all_ge (S m) e.
Proof. induction e; simpl; intros; try tauto.
  - assert (k <> m) by tauto. intuition lia.
  - assert (k <> m) by tauto. intuition lia.
  - assert (k <> m) by tauto. intuition lia.
  - assert (k <> m) by tauto. intuition lia.
Qed.
Lemma all_ge_mono m m' e : m' <= m -> all_ge m e -> all_ge m' e.
Proof. induction e; simpl; intros; try tauto; intuition lia. Qed.

Lemma lt_ge_leaf e m : lt_lvl e m -> all_ge m e -> exists v, e = Leaf v.
Proof. destruct e; simpl; intros; try (exfalso; lia). eauto. Qed.
Lemma le_ge_nohas_leaf e m : le_lvl e m -> all_ge m e -> ~ has m e -> exists v, e = Leaf v.
Proof. destruct e; simpl; intros; try (exfalso; assert (k <> m) by tauto; lia). eauto. Qed.

Lemma is_mark_tok o v o' : is_mark o (v, Some o') = Nat.eqb o o'.
Proof. reflexivity. Qed.
Lemma is_mark_opnd o v : is_mark o (v, None) = false.
Proof. reflexivity. Qed.

Lemma mainof_eq k e : nth_error tbl k = Some e -> mainof k = main e.
Proof. unfold mainof. intros ->. reflexivity. Qed.
Lemma partnerof_eq k o0 o1 : nth_error tbl k = Some (ETern o0 o1) -> partnerof k = o1.
Proof. unfold partnerof. intros ->. reflexivity. Qed.

(* the main token of a node on a level other than k is not marked with entry k's operator *)
Lemma main_tok_nomark k ek j ej v :
  nth_error tbl k = Some ek -> nth_error tbl j = Some ej -> j <> k ->
  is_mark (main ek) (v, Some (mainof j)) = false.
Proof. intros Hk Hj Hne. rewrite is_mark_tok, (mainof_eq _ _ Hj). apply Nat.eqb_neq.
  intros E. apply Hne. symmetry. eapply main_inj; eauto. Qed.
(* the partner token of a ternary on level j >= k is not marked with entry k's operator *)
Lemma partner_tok_nomark k ek j o0 o1 v :
  nth_error tbl k = Some ek -> nth_error tbl j = Some (ETern o0 o1) -> k <= j ->
  is_mark (main ek) (v, Some (partnerof j)) = false.
Proof. intros Hk Hj Hle. rewrite is_mark_tok, (partnerof_eq _ _ _ Hj). apply Nat.eqb_neq.
  intros E. pose proof (partner_looser _ _ _ _ _ Hj Hk E). lia. Qed.

Lemma nomark_frontier k ek e :
  nth_error tbl k = Some ek -> wf e -> all_ge (S k) e -> nomark (main ek) (frontier e).
Proof. intros Hk. induction e as [v|j tv c IH|j tv c IH|j tv l IHl r IHr|j tv0 tv1 a IHa b IHb c IHc];
  simpl; intros Hwf Hge.
  - apply nomark_cons; split; [reflexivity|apply nomark_nil].
  - destruct Hwf as ([o Ho] & _ & Hc). destruct Hge as [Hj Hgc].
    apply nomark_cons; split; [eapply main_tok_nomark; eauto; lia | auto].
  - destruct Hwf as ([o Ho] & _ & Hc). destruct Hge as [Hj Hgc].
    apply nomark_app; split; [auto|].
    apply nomark_cons; split; [eapply main_tok_nomark; eauto; lia | apply nomark_nil].
  - destruct Hwf as ([o Ho] & _ & _ & Hl & Hr). destruct Hge as (Hj & Hgl & Hgr).
    apply nomark_app; split; [auto|].
    apply nomark_cons; split; [eapply main_tok_nomark; eauto; lia | auto].
  - destruct Hwf as ((o0 & o1 & Ho) & _ & _ & _ & Ha & Hb & Hc). destruct Hge as (Hj & Hga & Hgb & Hgc).
    apply nomark_app; split; [auto|].
    apply nomark_cons; split; [eapply main_tok_nomark; eauto; lia |].
    apply nomark_app; split; [auto|].
    apply nomark_cons; split; [eapply partner_tok_nomark; eauto; lia | auto].
Qed.


Definition step_ok (m:nat) (e e':ast) : Prop :=
  wf e' /\ eval e' = eval e /\ size e' < size e /\ all_ge m e'
  /\ (forall L, le_lvl e L -> le_lvl e' L) /\ (forall L, lt_lvl e L -> lt_lvl e' L).

Ltac finish_step :=
  unfold step_ok in *; simpl in *;
  repeat match goal with H : _ /\ _ |- _ => destruct H end;
  repeat split; eauto; try lia; try congruence.


(* a redex on level m: the window of items it occupies and the value it reduces to *)
Inductive redex_at (m:nat) : list item -> V -> Prop :=
| RSuf o vx tv : nth_error tbl m = Some (ESuf o) ->
    redex_at m [(vx,None); (tv, Some o)] (bsuf vx tv)
| RBin o vx tv vy : nth_error tbl m = Some (EBin o) ->
    redex_at m [(vx,None); (tv, Some o); (vy,None)] (bbin vx tv vy)
| RTern o0 o1 vx tv0 vy tv1 vz : nth_error tbl m = Some (ETern o0 o1) ->
    redex_at m [(vx,None); (tv0, Some o0); (vy,None); (tv1, Some o1); (vz,None)] (btern vx tv0 vy tv1 vz).

Definition not_pre (m:nat) : Prop := forall o, nth_error tbl m <> Some (EPre o).

Lemma decomp_left m em e :
  nth_error tbl m = Some em -> not_pre m -> wf e -> all_ge m e -> has m e ->
  exists A W v B e',
    frontier e = A ++ W ++ B
    /\ redex_at m W v
    /\ nomark (main em) A
    /\ frontier e' = A ++ (v, None) :: B
    /\ step_ok m e e'.
Proof.
  intros Hm Hnp.
  induction e as [u|k tv c IH|k tv c IH|k tv l IHl r IHr|k tv0 tv1 a IHa b IHb c IHc];
    simpl; intros Hwf Hge Hhas.
  - contradiction.
  - (* NPre *)
    destruct Hwf as ([o' Ho'] & Hle & Hc). destruct Hge as [Hk Hgc].
    destruct Hhas as [->|Hh]; [exfalso; eapply Hnp; eauto|].
    assert (k <> m) by (intros ->; eapply Hnp; eauto).
    destruct (IH Hc Hgc Hh) as (A & W & v & B & c' & HF & HR & HA & HF' & Hok).
    exists ((tv, Some (mainof k)) :: A), W, v, B, (NPre k tv c').
    split; [simpl; rewrite HF; reflexivity|].
    split; [auto|].
    split; [apply nomark_cons; split; auto; eapply main_tok_nomark; eauto|].
    split; [simpl; rewrite HF'; reflexivity|].
    finish_step.
  - (* NSuf *)
    destruct Hwf as ([o' Ho'] & Hle & Hc). destruct Hge as [Hk Hgc].
    destruct (has_dec m c) as [Hh|Hn].
    + destruct (IH Hc Hgc Hh) as (A & W & v & B & c' & HF & HR & HA & HF' & Hok).
      exists A, W, v, (B ++ [(tv, Some (mainof k))]), (NSuf k tv c').
      split; [simpl; rewrite HF; repeat rewrite <- app_assoc; reflexivity|].
      split; [auto|]. split; [auto|].
      split; [simpl; rewrite HF'; repeat (rewrite <- app_assoc; simpl); reflexivity|].
      finish_step.
    + assert (k = m) by tauto. subst k.
      destruct (le_ge_nohas_leaf _ _ Hle Hgc Hn) as [vx ->].
      exists [], [(vx,None); (tv, Some o')], (bsuf vx tv), [], (Leaf (bsuf vx tv)).
      split; [simpl; rewrite (mainof_eq _ _ Ho'); reflexivity|].
      split; [constructor; auto|].
      split; [apply nomark_nil|].
      split; [reflexivity|].
      finish_step.
  - (* NBin *)
    destruct Hwf as ([o' Ho'] & Hlel & Hltr & Hl & Hr). destruct Hge as (Hk & Hgl & Hgr).
    destruct (has_dec m l) as [Hhl|Hnl].
    + destruct (IHl Hl Hgl Hhl) as (A & W & v & B & l' & HF & HR & HA & HF' & Hok).
      exists A, W, v, (B ++ (tv, Some (mainof k)) :: frontier r), (NBin k tv l' r).
      split; [simpl; rewrite HF; repeat rewrite <- app_assoc; reflexivity|].
      split; [auto|]. split; [auto|].
      split; [simpl; rewrite HF'; repeat (rewrite <- app_assoc; simpl); reflexivity|].
      finish_step.
    + destruct (Nat.eq_dec k m) as [->|Hne].
      * destruct (lt_ge_leaf _ _ Hltr Hgr) as [vy ->].
        destruct (le_ge_nohas_leaf _ _ Hlel Hgl Hnl) as [vx ->].
        exists [], [(vx,None); (tv, Some o'); (vy,None)], (bbin vx tv vy), [], (Leaf (bbin vx tv vy)).
        split; [simpl; rewrite (mainof_eq _ _ Ho'); reflexivity|].
        split; [constructor; auto|].
        split; [apply nomark_nil|].
        split; [reflexivity|].
        finish_step.
      * assert (Hhr : has m r) by tauto.
        destruct (IHr Hr Hgr Hhr) as (A & W & v & B & r' & HF & HR & HA & HF' & Hok).
        exists (frontier l ++ (tv, Some (mainof k)) :: A), W, v, B, (NBin k tv l r').
        split; [simpl; rewrite HF; repeat (rewrite <- app_assoc; simpl); reflexivity|].
        split; [auto|].
        split.
        { apply nomark_app; split.
          - eapply nomark_frontier; eauto. apply all_ge_S; auto.
          - apply nomark_cons; split; auto. eapply main_tok_nomark; eauto. }
        split; [simpl; rewrite HF'; repeat (rewrite <- app_assoc; simpl); reflexivity|].
        finish_step.
  - (* NTern *)
    destruct Hwf as ((o0 & o1 & Ho') & Hlea & Hltb & Hltc & Ha & Hb & Hc).
    destruct Hge as (Hk & Hga & Hgb & Hgc).
    destruct (has_dec m a) as [Hha|Hna].
    + destruct (IHa Ha Hga Hha) as (A & W & v & B & a' & HF & HR & HA & HF' & Hok).
      exists A, W, v,
        (B ++ (tv0, Some (mainof k)) :: frontier b ++ (tv1, Some (partnerof k)) :: frontier c),
        (NTern k tv0 tv1 a' b c).
      split; [simpl; rewrite HF; repeat rewrite <- app_assoc; reflexivity|].
      split; [auto|]. split; [auto|].
      split; [simpl; rewrite HF'; repeat (rewrite <- app_assoc; simpl); reflexivity|].
      finish_step.
    + destruct (Nat.eq_dec k m) as [->|Hne].
      * destruct (lt_ge_leaf _ _ Hltb Hgb) as [vy ->].
        destruct (lt_ge_leaf _ _ Hltc Hgc) as [vz ->].
        destruct (le_ge_nohas_leaf _ _ Hlea Hga Hna) as [vx ->].
        exists [], [(vx,None); (tv0, Some o0); (vy,None); (tv1, Some o1); (vz,None)],
          (btern vx tv0 vy tv1 vz), [], (Leaf (btern vx tv0 vy tv1 vz)).
        split; [simpl; rewrite (mainof_eq _ _ Ho'), (partnerof_eq _ _ _ Ho'); reflexivity|].
        split; [constructor; auto|].
        split; [apply nomark_nil|].
        split; [reflexivity|].
        finish_step.
      * destruct (has_dec m b) as [Hhb|Hnb].
        -- destruct (IHb Hb Hgb Hhb) as (A & W & v & B & b' & HF & HR & HA & HF' & Hok).
           exists (frontier a ++ (tv0, Some (mainof k)) :: A), W, v,
             (B ++ (tv1, Some (partnerof k)) :: frontier c), (NTern k tv0 tv1 a b' c).
           split; [simpl; rewrite HF; repeat (rewrite <- app_assoc; simpl); reflexivity|].
           split; [auto|].
           split.
           { apply nomark_app; split.
             - eapply nomark_frontier; eauto. apply all_ge_S; auto.
             - apply nomark_cons; split; auto. eapply main_tok_nomark; eauto. }
           split; [simpl; rewrite HF'; repeat (rewrite <- app_assoc; simpl); reflexivity|].
           finish_step.
        -- assert (Hhc : has m c) by tauto.
           destruct (IHc Hc Hgc Hhc) as (A & W & v & B & c' & HF & HR & HA & HF' & Hok).
           exists (frontier a ++ (tv0, Some (mainof k)) :: frontier b ++ (tv1, Some (partnerof k)) :: A),
             W, v, B, (NTern k tv0 tv1 a b c').
           split; [simpl; rewrite HF; repeat (rewrite <- app_assoc; simpl); reflexivity|].
           split; [auto|].
           split.
           { apply nomark_app; split.
             - eapply nomark_frontier; eauto. apply all_ge_S; auto.
             - apply nomark_cons; split; [eapply main_tok_nomark; eauto|].
               apply nomark_app; split.
               + eapply nomark_frontier; eauto. apply all_ge_S; auto.
               + apply nomark_cons; split; auto.
                 eapply partner_tok_nomark; eauto. }
           split; [simpl; rewrite HF'; repeat (rewrite <- app_assoc; simpl); reflexivity|].
           finish_step.
Qed.


Lemma decomp_right m o e :
  nth_error tbl m = Some (EPre o) -> wf e -> all_ge m e -> has m e ->
  exists A tv vy B e',
    frontier e = A ++ (tv, Some o) :: (vy, None) :: B
    /\ nomark o B
    /\ frontier e' = A ++ (bpre tv vy, None) :: B
    /\ step_ok m e e'.
Proof.
  intros Hm.
  assert (Hmain : main (EPre o) = o) by reflexivity.
  induction e as [u|k tv c IH|k tv c IH|k tv l IHl r IHr|k tv0 tv1 a IHa b IHb c IHc];
    simpl; intros Hwf Hge Hhas.
  - contradiction.
  - (* NPre *)
    destruct Hwf as ([o' Ho'] & Hle & Hc). destruct Hge as [Hk Hgc].
    destruct (has_dec m c) as [Hh|Hn].
    + destruct (IH Hc Hgc Hh) as (A & tv' & vy & B & c' & HF & HB & HF' & Hok).
      exists ((tv, Some (mainof k)) :: A), tv', vy, B, (NPre k tv c').
      split; [simpl; rewrite HF; reflexivity|].
      split; [auto|].
      split; [simpl; rewrite HF'; reflexivity|].
      finish_step.
    + assert (k = m) by tauto. subst k. rewrite Hm in Ho'. injection Ho' as <-.
      destruct (le_ge_nohas_leaf _ _ Hle Hgc Hn) as [vy ->].
      exists [], tv, vy, [], (Leaf (bpre tv vy)).
      split; [simpl; rewrite (mainof_eq _ _ Hm); reflexivity|].
      split; [apply nomark_nil|].
      split; [reflexivity|].
      finish_step.
  - (* NSuf *)
    destruct Hwf as ([o' Ho'] & Hle & Hc). destruct Hge as [Hk Hgc].
    assert (Hne : k <> m) by (intros ->; rewrite Hm in Ho'; discriminate).
    destruct Hhas as [->|Hh]; [congruence|].
    destruct (IH Hc Hgc Hh) as (A & tv' & vy & B & c' & HF & HB & HF' & Hok).
    exists A, tv', vy, (B ++ [(tv, Some (mainof k))]), (NSuf k tv c').
    split; [simpl; rewrite HF; repeat (rewrite <- app_assoc; simpl); reflexivity|].
    split.
    { apply nomark_app; split; auto. apply nomark_cons; split; [|apply nomark_nil].
      rewrite <- Hmain. eapply main_tok_nomark; eauto. }
    split; [simpl; rewrite HF'; repeat (rewrite <- app_assoc; simpl); reflexivity|].
    finish_step.
  - (* NBin *)
    destruct Hwf as ([o' Ho'] & Hlel & Hltr & Hl & Hr). destruct Hge as (Hk & Hgl & Hgr).
    assert (Hne : k <> m) by (intros ->; rewrite Hm in Ho'; discriminate).
    destruct (has_dec m r) as [Hhr|Hnr].
    + destruct (IHr Hr Hgr Hhr) as (A & tv' & vy & B & r' & HF & HB & HF' & Hok).
      exists (frontier l ++ (tv, Some (mainof k)) :: A), tv', vy, B, (NBin k tv l r').
      split; [simpl; rewrite HF; repeat (rewrite <- app_assoc; simpl); reflexivity|].
      split; [auto|].
      split; [simpl; rewrite HF'; repeat (rewrite <- app_assoc; simpl); reflexivity|].
      finish_step.
    + assert (Hhl : has m l) by tauto.
      destruct (IHl Hl Hgl Hhl) as (A & tv' & vy & B & l' & HF & HB & HF' & Hok).
      exists A, tv', vy, (B ++ (tv, Some (mainof k)) :: frontier r), (NBin k tv l' r).
      split; [simpl; rewrite HF; repeat (rewrite <- app_assoc; simpl); reflexivity|].
      split.
      { apply nomark_app; split; auto. apply nomark_cons; split.
        - rewrite <- Hmain. eapply main_tok_nomark; eauto.
        - rewrite <- Hmain. eapply nomark_frontier; eauto. apply all_ge_S; auto. }
      split; [simpl; rewrite HF'; repeat (rewrite <- app_assoc; simpl); reflexivity|].
      finish_step.
  - (* NTern *)
    destruct Hwf as ((o0 & o1 & Ho') & Hlea & Hltb & Hltc & Ha & Hb & Hc).
    destruct Hge as (Hk & Hga & Hgb & Hgc).
    assert (Hne : k <> m) by (intros ->; rewrite Hm in Ho'; discriminate).
    destruct (has_dec m c) as [Hhc|Hnc].
    + destruct (IHc Hc Hgc Hhc) as (A & tv' & vy & B & c' & HF & HB & HF' & Hok).
      exists (frontier a ++ (tv0, Some (mainof k)) :: frontier b ++ (tv1, Some (partnerof k)) :: A),
        tv', vy, B, (NTern k tv0 tv1 a b c').
      split; [simpl; rewrite HF; repeat (rewrite <- app_assoc; simpl); reflexivity|].
      split; [auto|].
      split; [simpl; rewrite HF'; repeat (rewrite <- app_assoc; simpl); reflexivity|].
      finish_step.
    + destruct (has_dec m b) as [Hhb|Hnb].
      * destruct (IHb Hb Hgb Hhb) as (A & tv' & vy & B & b' & HF & HB & HF' & Hok).
        exists (frontier a ++ (tv0, Some (mainof k)) :: A), tv', vy,
          (B ++ (tv1, Some (partnerof k)) :: frontier c), (NTern k tv0 tv1 a b' c).
        split; [simpl; rewrite HF; repeat (rewrite <- app_assoc; simpl); reflexivity|].
        split.
        { apply nomark_app; split; auto. apply nomark_cons; split.
          - rewrite <- Hmain. eapply partner_tok_nomark; eauto.
          - rewrite <- Hmain. eapply nomark_frontier; eauto. apply all_ge_S; auto. }
        split; [simpl; rewrite HF'; repeat (rewrite <- app_assoc; simpl); reflexivity|].
        finish_step.
      * assert (Hha : has m a) by tauto.
        destruct (IHa Ha Hga Hha) as (A & tv' & vy & B & a' & HF & HB & HF' & Hok).
        exists A, tv', vy,
          (B ++ (tv0, Some (mainof k)) :: frontier b ++ (tv1, Some (partnerof k)) :: frontier c),
          (NTern k tv0 tv1 a' b c).
        split; [simpl; rewrite HF; repeat (rewrite <- app_assoc; simpl); reflexivity|].
        split.
        { apply nomark_app; split; auto. apply nomark_cons; split.
          - rewrite <- Hmain. eapply main_tok_nomark; eauto.
          - apply nomark_app; split.
            + rewrite <- Hmain. eapply nomark_frontier; eauto. apply all_ge_S; auto.
            + apply nomark_cons; split.
              * rewrite <- Hmain. eapply partner_tok_nomark; eauto.
              * rewrite <- Hmain. eapply nomark_frontier; eauto. apply all_ge_S; auto. }
        split; [simpl; rewrite HF'; repeat (rewrite <- app_assoc; simpl); reflexivity|].
        finish_step.
Qed.

(* ---------- one step of the reducer on the frontier of a well-formed tree ---------- *)
Lemma try_entry_step m em e :
  nth_error tbl m = Some em -> wf e -> all_ge m e -> has m e ->
  exists e', try_entry em (frontier e) = Some (frontier e') /\ step_ok m e e'.
Proof.
  intros Hm Hwf Hge Hh.
  destruct em as [o|o|o|o0 o1].
  - destruct (decomp_right m o e Hm Hwf Hge Hh) as (A & tv & vy & B & e' & HF & HB & HF' & Hok).
    exists e'. split; auto. simpl. rewrite HF, HF'.
    apply (scan_pre_spec o A (tv, Some o) (vy, None) B).
    + apply nomark_cons; split; auto.
    + rewrite is_mark_tok. apply Nat.eqb_refl.
  - assert (Hnp : not_pre m) by (intros o' E; rewrite Hm in E; discriminate).
    destruct (decomp_left m _ e Hm Hnp Hwf Hge Hh) as (A & W & v & B & e' & HF & HR & HA & HF' & Hok).
    exists e'. split; auto. simpl. rewrite HF, HF'.
    inversion HR as [o' vx tv E| o' vx tv vy E | o0 o1 vx tv0 vy tv1 vz E]; subst; rewrite Hm in E; try discriminate.
    injection E as <-. simpl.
    apply (scan_suf_spec o A (vx,None) (tv, Some o) B).
    + apply nomark_app; split; auto. apply nomark_cons; split; [reflexivity|apply nomark_nil].
    + rewrite is_mark_tok. apply Nat.eqb_refl.
  - assert (Hnp : not_pre m) by (intros o' E; rewrite Hm in E; discriminate).
    destruct (decomp_left m _ e Hm Hnp Hwf Hge Hh) as (A & W & v & B & e' & HF & HR & HA & HF' & Hok).
    exists e'. split; auto. simpl. rewrite HF, HF'.
    inversion HR as [o' vx tv E| o' vx tv vy E | o0 o1 vx tv0 vy tv1 vz E]; subst; rewrite Hm in E; try discriminate.
    injection E as <-. simpl.
    apply (scan_bin_spec o A (vx,None) (tv, Some o) (vy,None) B).
    + apply nomark_app; split; auto. apply nomark_cons; split; [reflexivity|apply nomark_nil].
    + rewrite is_mark_tok. apply Nat.eqb_refl.
  - assert (Hnp : not_pre m) by (intros o' E; rewrite Hm in E; discriminate).
    destruct (decomp_left m _ e Hm Hnp Hwf Hge Hh) as (A & W & v & B & e' & HF & HR & HA & HF' & Hok).
    exists e'. split; auto. simpl. rewrite HF, HF'.
    inversion HR as [o' vx tv E| o' vx tv vy E | o0' o1' vx tv0 vy tv1 vz E]; subst; rewrite Hm in E; try discriminate.
    injection E as <- <-. simpl.
    apply (scan_tern_spec o0 o1 A (vx,None) (tv0, Some o0) (vy,None) (tv1, Some o1) (vz,None) B).
    + apply nomark_app; split; auto. apply nomark_cons; split; [reflexivity|apply nomark_nil].
    + rewrite is_mark_tok. apply Nat.eqb_refl.
    + rewrite is_mark_tok. apply Nat.eqb_refl.
Qed.


Lemma try_entry_none k ek m e :
  nth_error tbl k = Some ek -> k < m -> wf e -> all_ge m e -> try_entry ek (frontier e) = None.
Proof.
  intros Hk Hlt Hwf Hge.
  assert (Hn : nomark (main ek) (frontier e)).
  { eapply nomark_frontier; eauto. eapply all_ge_mono; [|eauto]. lia. }
  destruct ek; simpl in *.
  - apply scan_pre_none; auto.
  - apply scan_suf_none; auto.
  - apply scan_bin_none; auto.
  - apply scan_tern_none; auto.
Qed.

Lemma try_levels_hit es : forall m em l l',
  nth_error es m = Some em ->
  (forall k ek, k < m -> nth_error es k = Some ek -> try_entry ek l = None) ->
  try_entry em l = Some l' -> try_levels es l = Some l'.
Proof.
  induction es as [|e0 es IH]; intros m em l l' Hm Hlow Hhit.
  - destruct m; discriminate.
  - destruct m as [|m].
    + simpl in Hm. injection Hm as ->. simpl. rewrite Hhit. reflexivity.
    + simpl. rewrite (Hlow 0 e0) by (simpl; auto; lia).
      eapply IH; eauto. intros k ek Hk Hek. apply (Hlow (S k) ek); [lia|auto].
Qed.

Lemma has_entry m e : wf e -> has m e -> exists em, nth_error tbl m = Some em.
Proof. induction e; simpl; intros Hwf Hh.
  - contradiction.
  - destruct Hwf as ([o Ho] & _ & Hc). destruct Hh as [<-|Hh]; eauto.
  - destruct Hwf as ([o Ho] & _ & Hc). destruct Hh as [<-|Hh]; eauto.
  - destruct Hwf as ([o Ho] & _ & _ & Hl & Hr). destruct Hh as [<-|[Hh|Hh]]; eauto.
  - destruct Hwf as ((o0 & o1 & Ho) & _ & _ & _ & Ha & Hb & Hc). destruct Hh as [<-|[Hh|[Hh|Hh]]]; eauto.
Qed.

Lemma all_ge_of_least m e : (forall k, has k e -> m <= k) -> all_ge m e.
Proof. induction e as [v|k tv c IH|k tv c IH|k tv l IHl r IHr|k tv0 tv1 a IHa b IHb c IHc];
  simpl; intros H.
  - exact I.
  - split; [apply H; auto | apply IH; intros; apply H; auto].
  - split; [apply H; auto | apply IH; intros; apply H; auto].
  - split; [apply H; auto | split; [apply IHl|apply IHr]; intros; apply H; auto].
  - split; [apply H; auto | split; [apply IHa|split;[apply IHb|apply IHc]]; intros; apply H; auto].
Qed.

Lemma frontier_nonempty e : 1 <= length (frontier e).
Proof. destruct e; simpl; try rewrite !app_length; simpl; lia. Qed.

Lemma frontier_len2 e : (forall v, e <> Leaf v) -> 2 <= length (frontier e).
Proof. destruct e; intros H.
  - exfalso; eapply H; eauto.
  - simpl. pose proof (frontier_nonempty e). lia.
  - simpl. rewrite app_length. simpl. pose proof (frontier_nonempty e). lia.
  - simpl. rewrite app_length. simpl. pose proof (frontier_nonempty e1). lia.
  - simpl. rewrite app_length. simpl. pose proof (frontier_nonempty e1). lia.
Qed.

Lemma root_has e : (forall v, e <> Leaf v) -> exists k, has k e.
Proof. destruct e; intros H; simpl; eauto. exfalso; eapply H; eauto. Qed.

Theorem T1_reduce : forall n e, size e <= n -> wf e ->
  reduce_all n tbl (frontier e) = Some (eval e).
Proof.
  induction n as [|n IH]; intros e Hsz Hwf.
  - destruct e; simpl in Hsz; try lia. reflexivity.
  - destruct e as [v|k tv c|k tv c|k tv l r|k tv0 tv1 a b c] eqn:Ee; [reflexivity| | | |];
    rewrite <- Ee in *;
    (assert (Hnl : forall v, e <> Leaf v) by (intros v; rewrite Ee; discriminate));
    clear Ee;
    destruct (root_has e Hnl) as [k0 Hk0];
    destruct (dec_inh_nat_subset_has_unique_least_element (fun m => has m e) (fun m => has_dec m e)
                (ex_intro _ k0 Hk0)) as (m & [Hhm Hleast] & _);
    pose proof (all_ge_of_least m e Hleast) as Hge;
    destruct (has_entry m e Hwf Hhm) as [em Hem];
    destruct (try_entry_step m em e Hem Hwf Hge Hhm) as (e' & Hstep & Hok);
    pose proof (frontier_len2 e Hnl) as Hlen;
    destruct (frontier e) as [|x [|y rest]] eqn:EF; simpl in Hlen; try lia;
    (assert (Htl : try_levels tbl (x :: y :: rest) = Some (frontier e'))
      by (eapply try_levels_hit; eauto; intros k1 ek Hk1 Hek; rewrite <- EF; eapply try_entry_none; eauto));
    cbn [reduce_all]; rewrite Htl;
    destruct Hok as (Hwf' & Hev & Hsz' & _);
    rewrite <- Hev; apply IH; auto; lia.
Qed.

End Infix.

Check T1_reduce.

