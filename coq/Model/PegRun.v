(* Running the engine model on one concrete input: the oracle is data (computed by the real terminal and whitespace objects). *)
From Coq Require Import List NArith Bool.
From MoSql Require Import Model.Peg.
Import ListNotations.
Local Open Scope N_scope.

Fixpoint assocN (k : N) (l : list (N * N)) : N :=
  match l with [] => 0 | (k', v) :: r => if k =? k' then N.succ v else assocN k r end.

(* tm: for every position the terminals that match there and where they end; sk: per whitespace engine the position after skipping, per position *)
Definition mk_oracle (tm : list (list (N * N))) (sk : list (list N)) (dash : list N) : oracle := fun q =>
  match q with
  | QT t p => assocN t (nth (N.to_nat p) tm [])
  | QS w p => nth (N.to_nat p) (nth (N.to_nat w) sk []) p
  | QD a b => if existsb (fun d => (a <=? d) && (d <? b)) dash then 1 else 0
  end.

Definition query_eqb (a b : query) : bool :=
  match a, b with
  | QT x y, QT x' y' | QS x y, QS x' y' | QD x y, QD x' y' => (x =? x') && (y =? y')
  | _, _ => false
  end.
Definition in_log (q : query) (l : list query) : bool := existsb (query_eqb q) l.

(* verdict code: 0 = rejected, e + 1 = accepted with the whole input consumed up to e, 1000000 + c = abort c *)
Definition verdict (r : res) : N := match r with Ok e _ => N.succ e | Fail => 0 | Abort c => 1000000 + c end.

(* one correspondence case: same verdict as the Python twin, and the same set of oracle queries *)
Definition case_ok (T : table) (root w0 : N) (fuel : nat) (len : N) (tm : list (list (N * N))) (sk : list (list N)) (dash : list N)
                   (expect : N) (elog : list query) : bool :=
  let '(r, l) := parse_all T (mk_oracle tm sk dash) len fuel root w0 in
  (verdict r =? expect) && forallb (fun q => in_log q elog) l && forallb (fun q => in_log q l) elog.
