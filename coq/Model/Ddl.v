(* C19: INSERT ... VALUES pairing of to_insert_call (utils.py:691-706):  data = [dict(zip(columns, row)) for row in values] *)
From Coq Require Import List String Ascii Bool Lia.
From MoSql Require Import Base.Json.
Import ListNotations.
Open Scope string_scope.
Open Scope list_scope.

(* dict(zip(cols, row)) for distinct column names *)
Definition zip_row (cols : list string) (row : list jv) : jv := JDict (combine cols row).
Definition insert_values (cols : list string) (rows : list (list jv)) : jv := JList (map (zip_row cols) rows).

(* reading a row back by column name *)
Definition decode_row (cols : list string) (d : jv) : list (option jv) :=
  match d with JDict kv => map (fun c => dict_get c kv) cols | _ => [] end.

(* what Python's zip iterates over: the list of names, or - when the grammar hands over ONE listed column as a bare string - its characters *)
Definition py_iter (c : string + list string) : list string :=
  match c with inl s => map (fun a => String a EmptyString) (list_ascii_of_string s) | inr l => l end.
