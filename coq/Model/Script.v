(* C13: scripts.  (1) the grammar-level statement list  many_command = ;* stmt? (;+ stmt?)*  over a token stream in which a
   statement is one token; (2) the result assembly of _parse (skip falsy outputs, splice lists, None / single / list);
   (3) the textual DELIMITER pre-pass parse_delimiters (__init__.py:157-188), written without regular expressions. *)
From Coq Require Import List NArith ZArith String Bool Lia.
From MoSql Require Import Base.Json Model.Lit.
Import ListNotations.

(* ---------------- (1) many_command ---------------- *)
Inductive stok := Semi | Stmt (id : nat).

Fixpoint skip_semis (l : list stok) : list stok := match l with Semi :: t => skip_semis t | _ => l end.
(* after the optional first statement:  ( ;+ stmt? )*  and then the end of input (parse_all=True) *)
Fixpoint many_rest (fuel : nat) (l : list stok) : option (list nat) :=
  match fuel with O => None | S f =>
  match l with
  | [] => Some []
  | Stmt _ :: _ => None                      (* a statement must be preceded by at least one semicolon *)
  | Semi :: t =>
      match skip_semis t with
      | Stmt s :: t' => match many_rest f t' with Some r => Some (s :: r) | None => None end
      | rest => many_rest f rest
      end
  end end.
Definition many_command (l : list stok) : option (list nat) :=
  match skip_semis l with
  | Stmt s :: t => match many_rest (S (List.length t)) t with Some r => Some (s :: r) | None => None end
  | rest => many_rest (S (List.length rest)) rest
  end.

Fixpoint stmts_of (l : list stok) : list nat := match l with [] => [] | Semi :: t => stmts_of t | Stmt s :: t => s :: stmts_of t end.
Fixpoint well_sep (l : list stok) : bool :=
  match l with
  | Stmt _ :: ((Stmt _ :: _) as t) => false
  | _ :: t => well_sep t
  | [] => true
  end.

(* ---------------- (2) assembly of the per-line outputs ---------------- *)
Definition truthy (v : jv) : bool :=
  match v with JNull => false | JBool b => b | JInt z => negb (Z.eqb z 0) | JStr s => negb (String.eqb s ""%string) | JList [] => false | JDict [] => false | JFloat f => negb (String.eqb f "0.0"%string) | _ => true end.
Fixpoint accumulate (outs : list (option jv)) : list jv :=
  match outs with
  | [] => []
  | None :: t => accumulate t
  | Some v :: t => if truthy v then (match v with JList l => l | _ => [v] end) ++ accumulate t else accumulate t
  end.
Inductive answer := ANone | ATree (t : jv) | AList (l : list jv).
Definition assemble (outs : list (option jv)) : answer :=
  match accumulate outs with [] => ANone | [t] => ATree t | l => AList l end.

(* ---------------- (3) parse_delimiters ---------------- *)
Open Scope N_scope.
(* Python str.isspace for the code points that matter here *)
Definition is_ws (c : N) : bool :=
  ((9 <=? c) && (c <=? 13)) || ((28 <=? c) && (c <=? 32)) || (c =? 133) || (c =? 160) || (c =? 5760) || ((8192 <=? c) && (c <=? 8202))
  || (c =? 8232) || (c =? 8233) || (c =? 8239) || (c =? 8287) || (c =? 12288).
Definition lower (c : N) : N := if (65 <=? c) && (c <=? 90) then c + 32 else c.
Definition DELIM : str := [100; 101; 108; 105; 109; 105; 116; 101; 114].   (* delimiter *)

Fixpoint prefix_ci (p l : str) : option str :=
  match p, l with
  | [], _ => Some l
  | a :: p', b :: l' => if lower b =? a then prefix_ci p' l' else None
  | _, [] => None
  end.
Fixpoint skip_ws (l : str) : str := match l with c :: t => if is_ws c then skip_ws t else l | [] => [] end.
Fixpoint upto_nl (l : str) : str * str := match l with [] => ([], []) | c :: t => if c =? 10 then ([], l) else let '(a, b) := upto_nl t in (c :: a, b) end.
Fixpoint ws_run (l : str) : nat := match l with c :: t => if is_ws c then S (ws_run t) else O | [] => O end.

(* at a line start: \s* delimiter \s+ ([^\n]+) $   -- returns (group, rest after the match) *)
Definition directive_at (l : str) : option (str * str) :=
  match prefix_ci DELIM (skip_ws l) with
  | None => None
  | Some after =>
      let k := ws_run after in
      (* \s+ greedy with backtracking: m = k, k-1, ..., 1 whitespace characters; the group must be non-empty up to the line end *)
      (fix try (m : nat) : option (str * str) :=
         match m with
         | O => None
         | S m' => let r := skipn m after in
                   let '(g, rest) := upto_nl r in
                   match g with [] => try m' | _ => Some (g, rest) end
         end) k
  end.
(* first directive: scan line starts *)
Fixpoint find_directive (fuel : nat) (at_line_start : bool) (before : str) (l : str) : option (str * str * str * str) :=
  (* returns (block before the match, matched text, group, rest) *)
  match fuel with O => None | S f =>
    match (if at_line_start then directive_at l else None) with
    | Some (g, rest) => Some (rev before, firstn (List.length l - List.length rest) l, g, rest)
    | None => match l with
              | [] => None
              | c :: t => find_directive f (c =? 10) (c :: before) t
              end
    end
  end.

Fixpoint rstrip_rev (l : str) : str := match l with c :: t => if is_ws c then rstrip_rev t else l | [] => [] end.
Definition strip (l : str) : str := rev (rstrip_rev (rev (skip_ws l))).

(* splitter = escape(delimiter) + \s*(\n|$) *)
Fixpoint starts_with (p l : str) : option str :=
  match p, l with [], _ => Some l | a :: p', b :: l' => if a =? b then starts_with p' l' else None | _, [] => None end.
Definition ender (after : str) : option str :=     (* \s*(\n|$) greedy with backtracking; returns the rest after the match *)
  let k := ws_run after in
  (fix try (m : nat) : option str :=
     let r := skipn m after in
     match r with
     | [] => Some []
     | c :: t => if c =? 10 then Some t else match m with O => None | S m' => try m' end
     end) k.
Fixpoint split_block (fuel : nat) (d : str) (cur : str) (l : str) : list str :=
  match fuel with O => [rev cur ++ l] | S f =>
    match l with
    | [] => [rev cur]
    | c :: t =>
        match (match d with [] => None | _ => starts_with d l end) with
        | Some after => match ender after with
                        | Some rest => rev cur :: split_block f d [] rest
                        | None => split_block f d (c :: cur) t
                        end
        | None => split_block f d (c :: cur) t
        end
    end
  end.

Definition SEMI : str := [59].
Fixpoint parse_delimiters (fuel : nat) (d : str) (sql : str) : list str :=
  match fuel with O => [] | S f =>
    match find_directive (S (List.length sql)) true [] sql with
    | Some (block, matched, g, rest) =>
        let b := strip block in
        (match b with [] => [] | _ => if (if list_eq_dec N.eq_dec d SEMI then true else false) then [b] else split_block (S (List.length b)) d [] b end)
        ++ matched :: parse_delimiters f (strip g) rest
    | None =>
        let b := strip sql in
        match b with [] => [] | _ => if (if list_eq_dec N.eq_dec d SEMI then true else false) then [b] else split_block (S (List.length b)) d [] b end
    end
  end.
Definition mparse_delimiters (sql : str) : list str := parse_delimiters (S (List.length sql)) SEMI sql.
