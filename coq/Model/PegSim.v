(* Similarity of two grammar tables (or of a table with itself), as a decidable check.
   R pairs node ids; EQN lists leaf pairs that are accepted as equivalent by hypothesis (the dialects' identifier terminals);
   DT lists terminals assumed never to match (on dialect-neutral input: the ones that must begin with a quote, bracket or at-sign).
   Alternatives that are dead with respect to DT are skipped on either side. *)
From Coq Require Import List NArith Bool.
From MoSql Require Import Model.Peg.
Import ListNotations.
Local Open Scope N_scope.

Definition pair_eqb (p q : N * N) : bool := (fst p =? fst q) && (snd p =? snd q).
Definition inb (p : N * N) (l : list (N * N)) : bool := existsb (pair_eqb p) l.

Definition veto_eqb (a b : veto) : bool :=
  match a, b with VNone, VNone | VAlways, VAlways | VNonEmpty, VNonEmpty | VNoDash, VNoDash => true | _, _ => false end.

Definition lookup (T : table) (i : N) : option entry := nth_error T (N.to_nat i).

Section Dead.
Variable DT : list N.
Fixpoint deadb (T : table) (d : nat) (i : N) : bool :=
  match d with
  | O => false
  | S d' =>
      match lookup T i with
      | None => false
      | Some en =>
          match e_node en with
          | NTerm t => memb t DT
          | NSeq _ ((k, _) :: _) => deadb T d' k
          | NWrap _ k | NRaw k | NLook k => deadb T d' k
          | NAlt kids => forallb (fun kp : N * bool => deadb T d' (fst kp)) kids
          | _ => false
          end
      end
  end.
End Dead.

Definition DEPTH : nat := 12.

Section Sim.
Variables (T1 T2 : table) (R EQN : list (N * N)) (DT : list N).

Definition dead1 (i : N) : bool := deadb DT T1 DEPTH i.
Definition dead2 (j : N) : bool := deadb DT T2 DEPTH j.
Definition inR (a b : N) : bool := inb (a, b) R.

Fixpoint list_simb {A B : Type} (f : A -> B -> bool) (l1 : list A) (l2 : list B) : bool :=
  match l1, l2 with
  | [], [] => true
  | a :: r1, b :: r2 => f a b && list_simb f r1 r2
  | _, _ => false
  end.

(* alternatives pair up in order once the dead ones are dropped *)
Definition live1 (kp : N * bool) : bool := negb (dead1 (fst kp)).
Definition live2 (kp : N * bool) : bool := negb (dead2 (fst kp)).
Definition alt_simb (k1 k2 : list (N * bool)) : bool :=
  list_simb (fun a b : N * bool => inR (fst a) (fst b) && eqb (snd a) (snd b)) (filter live1 k1) (filter live2 k2).

(* the one live alternative of a MatchFirst, if there is exactly one *)
Definition alt_single (k1 : list (N * bool)) : option (N * bool) :=
  match filter live1 k1 with [kp] => Some kp | _ => None end.

Definition is_seq (T : table) (i : N) : bool := match lookup T i with Some en => match e_node en with NSeq _ _ => true | _ => false end | None => false end.

Definition opt_eqb (a b : option N) : bool := match a, b with None, None => true | Some x, Some y => x =? y | _, _ => false end.

(* on the children of a MatchAll the relation must be one-to-one: the engine compares them by identity *)
Definition local_bij (l : list (N * N)) : bool :=
  forallb (fun p => forallb (fun q => eqb (fst p =? fst q) (snd p =? snd q)) l) l.

Definition node_simb (i j : N) : bool :=
  inb (i, j) EQN ||
  match lookup T1 i, lookup T2 j with
  | Some e1, Some e2 =>
      let v := veto_eqb (e_veto e1) (e_veto e2) in
      match e_node e1, e_node e2 with
      | NTerm t1, NTerm t2 => v && (t1 =? t2)
      | NSeq w1 k1, NSeq w2 k2 => v && (w1 =? w2) && list_simb (fun a b : N * bool => inR (fst a) (fst b) && eqb (snd a) (snd b)) k1 k2
      | NAlt k1, NAlt k2 => v && alt_simb k1 k2
      | NOr k1, NOr k2 => v && list_simb inR k1 k2
      | NOpt a, NOpt b => v && inR a b
      | NMany w1 a mn1 mx1 s1 z1, NMany w2 b mn2 mx2 s2 z2 => v && (w1 =? w2) && inR a b && (mn1 =? mn2) && (mx1 =? mx2) && opt_eqb s1 s2 && eqb z1 z2
      | NWrap p1 a, NWrap p2 b => v && eqb p1 p2 && inR a b
      | NRaw a, NRaw b => v && inR a b
      | NNot a, NNot b => v && inR a b
      | NLook a, NLook b => v && inR a b
      | NAll w1 k1, NAll w2 k2 => v && (w1 =? w2) && list_simb (fun a b : N * (N * N) => inR (fst a) (fst b) && (fst (snd a) =? fst (snd b)) && (snd (snd a) =? snd (snd b))) k1 k2
                                  && local_bij (combine (map fst k1) (map fst k2))
      | NAlt k1, _ => match e_veto e1, e_veto e2 with
                      | VNone, VNone => match alt_single k1 with Some (a, pa) => inR a j && (pa || is_seq T1 a) | None => false end
                      | _, _ => false end
      | _, _ => false
      end
  | _, _ => false
  end.

Definition simb : bool := forallb (fun p : N * N => node_simb (fst p) (snd p)) R.
End Sim.

(* the identity relation on a table of n nodes: a table is similar to itself *)
Definition id_rel (n : nat) : list (N * N) := map (fun i => (N.of_nat i, N.of_nat i)) (seq 0 n).

(* sequence / repetition / any-order nodes that do not skip comments, with the number of gaps they look at *)
Definition ws_sites (T : table) (aware : list N) : list (N * N) :=
  concat (map (fun ie : nat * entry => let '(i, en) := ie in
    match e_node en with
    | NSeq w kids => if memb w aware || Nat.leb (length kids) 1 then [] else [(N.of_nat i, w)]
    | NMany w _ _ _ _ _ | NAll w _ => if memb w aware then [] else [(N.of_nat i, w)]
    | _ => []
    end) (combine (seq 0 (length T)) T)).
