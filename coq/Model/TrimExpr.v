(* TRIM([BOTH | LEADING | TRAILING] [characters] [FROM] value): to_trim_call (utils.py:309-313) + scrub, and Formatter._trim
   (formatting.py:503-518) as a function from the tree to the parts it writes. *)
From Coq Require Import List ZArith String Bool.
From MoSql Require Import Base.Json.
Import ListNotations.
Open Scope string_scope.
Open Scope list_scope.

Record tsrc := { dir : option string; chars : option jv; val : jv }.

(* kwargs {"characters": chars, "direction": direction} (None entries dropped by scrub), then kwargs["trim"] = value;
   without FROM the single expression is the value and only the direction is a keyword argument *)
Definition okv (k : string) (o : option jv) : list (string * jv) := match o with Some v => [(k, v)] | None => [] end.
Definition trim_json (s : tsrc) : jv :=
  JDict (okv "characters" (chars s) ++ okv "direction" (option_map JStr (dir s)) ++ [("trim", val s)]).

(* Python truthiness of a JSON value *)
Definition py_truthy (v : jv) : bool :=
  match v with
  | JMark => true | JNull => false | JBool b => b | JInt z => negb (Z.eqb z 0)
  | JFloat r => negb (String.eqb r "0.0" || String.eqb r "-0.0")
  | JStr s => negb (String.eqb s "") | JList l => negb (match l with [] => true | _ => false end)
  | JDict d => negb (match d with [] => true | _ => false end)
  end.

(* what _trim writes: [DIRECTION] [characters] [FROM] value *)
Record tparts := { p_dir : option jv; p_chars : option jv; p_from : bool; p_val : option jv }.
Definition keep (o : option jv) : option jv := match o with Some v => if py_truthy v then Some v else None | None => None end.
Definition fmt_trim (j : jv) : tparts :=
  match j with
  | JDict d =>
      let c := keep (dict_get "characters" d) in
      let dd := keep (dict_get "direction" d) in
      {| p_dir := dd; p_chars := c; p_from := (match c with Some _ => true | None => false end) || (match dd with Some _ => true | None => false end);
         p_val := dict_get "trim" d |}
  | _ => {| p_dir := None; p_chars := None; p_from := false; p_val := None |}
  end.

(* the TRIM grammar on those parts *)
Definition reread_trim (p : tparts) : option tsrc :=
  match p_val p, p_dir p with
  | Some v, None => Some {| dir := None; chars := p_chars p; val := v |}
  | Some v, Some (JStr d) => Some {| dir := Some d; chars := p_chars p; val := v |}
  | _, _ => None
  end.

Definition twf (s : tsrc) : bool :=
  match chars s with Some c => py_truthy c | None => true end
  && match dir s with Some d => negb (String.eqb d "") | None => true end.
