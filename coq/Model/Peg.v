(* Model of the mo_parsing matching engine over a flat table of grammar nodes.
   The table is generated from the live parser graphs (Generated/Grammar.v); terminals, whitespace skipping and the
   one text-dependent parse-action veto are oracles (answered by the real regex objects in the correspondence run).
   Every query put to the oracle is logged, so that theorems can speak about "the positions the run looked at".
   Python twin: harness/peg.py (class Model); it is compared with the traced engine on every run. *)
From Coq Require Import List NArith Bool Lia.
Import ListNotations.
Local Open Scope N_scope.

Inductive query := QT (t pos : N) | QS (w pos : N) | QD (a b : N).
(* answers: QT -> 0 = no match, e + 1 = matched up to e;  QS -> position after skipping;  QD -> 0 = no dash in [a,b), else 1 *)
Definition oracle := query -> N.

Inductive res := Ok (e : N) (fl : bool) | Fail | Abort (c : N).     (* Abort 0 = out of fuel, 1 = engine would loop for ever, 2 = dangling node id *)
Definition out := (res * list query)%type.

Inductive veto := VNone | VAlways | VNonEmpty | VNoDash.
Inductive node :=
| NTerm (t : N)
| NSeq (w : N) (kids : list (N * bool))            (* child, is look-behind *)
| NAlt (kids : list (N * bool))                      (* child, result handed up unchanged *)
| NOr (kids : list N)
| NOpt (k : N)
| NMany (w k mn mx : N) (stop : option N) (zero : bool)
| NWrap (pass : bool) (k : N)
| NRaw (k : N)
| NNot (k : N)
| NLook (k : N)
| NAll (w : N) (kids : list (N * (N * N))).    (* child, min, max *)
Record entry := { e_node : node; e_veto : veto }.
Definition table := list entry.

Definition is_abort (r : res) : bool := match r with Abort _ => true | _ => false end.

(* sequencing: an abort stops everything; otherwise the continuation sees the result *)
Definition bindr (m : out) (k : res -> out) : out :=
  match m with
  | (Abort c, l) => (Abort c, l)
  | (r, l) => let '(r', l') := k r in (r', l ++ l')
  end.
Definition ret (r : res) : out := (r, []).

Section Run.
Variable T : table.
Variable o : oracle.
Variable len : N.

Definition ask (q : query) (k : N -> out) : out := let '(r, l) := k (o q) in (r, q :: l).

Section Step.
Variable rec : N -> bool -> N -> out.

Fixpoint seq_loop (w : N) (kids : list (N * bool)) (e idx : N) : out :=
  match kids with
  | [] => ret (Ok e false)
  | (k, lb) :: ks =>
      let go (idx' : N) :=
        bindr (rec k false idx') (fun r => match r with
          | Ok e' fl => seq_loop w ks (if (idx' =? e') && fl then e else e') idx'
          | x => ret x end) in
      if idx <? e then (if lb then go e else ask (QS w e) go) else go idx
  end.

Fixpoint alt_loop (kids : list (N * bool)) (pos : N) : out :=
  match kids with
  | [] => ret Fail
  | (k, pass) :: ks => bindr (rec k false pos) (fun r => match r with
      | Ok e fl => ret (Ok e (pass && fl))
      | _ => alt_loop ks pos end)
  end.

Fixpoint or_loop (kids : list N) (pos : N) (best : option N) : out :=
  match kids with
  | [] => ret (match best with Some e => Ok e false | None => Fail end)
  | k :: ks => bindr (rec k false pos) (fun r => match r with
      | Ok e _ => or_loop ks pos (match best with Some b => if b <? e then Some e else Some b | None => Some e end)
      | _ => or_loop ks pos best end)
  end.

(* the while loop of Many.parse_impl; n bounds the iterations; an iteration that does not move the end would repeat for ever *)
Fixpoint many_loop (w k mx : N) (stop : option N) (n : nat) (e cnt last : N) (fin : N -> N -> N -> out) : out :=
  match n with
  | O => ret (Abort 0)
  | S n' =>
      if e <? len then
        ask (QS w e) (fun idx =>
          let body :=
            bindr (rec k false idx) (fun r => match r with
              | Ok e' _ => if e' =? e then ret (Abort 1)
                           else if e' =? idx then many_loop w k mx stop n' e' cnt last fin
                           else if mx <=? N.succ cnt then fin e' (N.succ cnt) e'
                           else many_loop w k mx stop n' e' (N.succ cnt) e' fin
              | _ => fin e cnt last end) in
          match stop with
          | Some t => ask (QT t idx) (fun a => if a =? 0 then body else fin e cnt last)
          | None => body
          end)
      else fin e cnt last
  end.

Definition many_fin (pos mn mx : N) (zero : bool) (e cnt last : N) : out :=
  if (cnt <? mn) || (mx <? cnt) then ret (if zero then Ok pos true else Fail)
  else if 0 <? cnt then ret (Ok last false)
  else ret (Ok e ((mn =? 0) && (e =? pos))).

(* MatchAll: phase 1 finds an order, phase 2 parses again in that order *)
Definition titem := (N * (N * N) * N)%type.          (* child, (min, max), count so far *)

Fixpoint all_scan (todo : list titem) (e : N) (j : nat) (found : nat -> N -> out) (none : out) : out :=
  match todo with
  | [] => none
  | (k, _, _) :: ts => bindr (rec k false e) (fun r => match r with
      | Ok loc _ => if loc =? e then all_scan ts e (S j) found none else found j loc
      | _ => all_scan ts e (S j) found none end)
  end.

Fixpoint bump (todo : list titem) (j : nat) : list titem * N :=
  match todo with
  | [] => ([], 0)
  | (k, (mi, ma), c) :: ts =>
      match j with
      | O => (if ma <=? N.succ c then ts else (k, (mi, ma), N.succ c) :: ts, k)
      | S j' => let '(ts', k') := bump ts j' in ((k, (mi, ma), c) :: ts', k')
      end
  end.

Fixpoint all_phase2 (w : N) (order : list N) (e last : N) : out :=
  match order with
  | [] => ret (Ok last false)
  | k :: ks => bindr (rec k false e) (fun r => match r with
      | Ok e' _ => ask (QS w e') (fun e'' => all_phase2 w ks e'' e')
      | x => ret x end)
  end.

Definition memb (k : N) (l : list N) : bool := existsb (N.eqb k) l.

Definition all_fin (w : N) (kids : list (N * (N * N))) (pos : N) (todo : list titem) (order : list N) : out :=
  if existsb (fun it : titem => let '(_, (mi, _), c) := it in c <? mi) todo then ret Fail
  else if existsb (fun kd : N * (N * N) => let '(k, (mi, _)) := kd in negb (memb k order) && (0 <? mi)) kids then ret Fail
  else let order' := order ++ filter (fun k => negb (memb k order)) (map fst kids) in
       match order' with [] => ret (Ok pos false) | _ => all_phase2 w order' pos pos end.

Fixpoint all_phase1 (w : N) (n : nat) (todo : list titem) (e : N) (order : list N) (fin : list titem -> list N -> out) : out :=
  match n with
  | O => ret (Abort 0)
  | S n' =>
      match todo with
      | [] => fin todo order
      | _ => all_scan todo e O
               (fun j loc => ask (QS w loc) (fun e' => let '(todo', k) := bump todo j in all_phase1 w n' todo' e' (order ++ [k]) fin))
               (fin todo order)
      end
  end.

Definition step (n : nat) (nd : node) (pos : N) : out :=
  match nd with
  | NTerm t => ask (QT t pos) (fun a => ret (if a =? 0 then Fail else Ok (N.pred a) false))
  | NSeq w kids => seq_loop w kids pos pos
  | NAlt kids => alt_loop kids pos
  | NOr kids => or_loop kids pos None
  | NOpt k => bindr (rec k false pos) (fun r => ret (match r with Ok e _ => Ok e (e =? pos) | _ => Ok pos true end))
  | NMany w k mn mx stop zero => many_loop w k mx stop n pos 0 pos (many_fin pos mn mx zero)
  | NWrap pass k => bindr (rec k false pos) (fun r => ret (match r with Ok e fl => Ok e (pass && fl) | x => x end))
  | NRaw k => bindr (rec k true pos) (fun r => ret (match r with Ok e _ => Ok e false | x => x end))
  | NNot k => bindr (rec k false pos) (fun r => ret (match r with Ok _ _ => Fail | _ => Ok pos false end))
  | NLook k => bindr (rec k false pos) (fun r => ret (match r with Ok _ _ => Ok pos false | x => x end))
  | NAll w kids => all_phase1 w n (map (fun kd : N * (N * N) => (fst kd, snd kd, 0)) kids) pos [] (all_fin w kids pos)
  end.
End Step.

Definition apply_veto (v : veto) (raw : bool) (pos : N) (r : res) : out :=
  match r with
  | Ok e fl =>
      if raw then ret r else
      match v with
      | VNone => ret r
      | VAlways => ret Fail
      | VNonEmpty => if e =? pos then ret Fail else ret r
      | VNoDash => ask (QD pos e) (fun d => ret (if d =? 0 then r else Fail))
      end
  | x => ret x
  end.

Fixpoint run (f : nat) (i : N) (raw : bool) (pos : N) : out :=
  match f with
  | O => ret (Abort 0)
  | S f' =>
      match nth_error T (N.to_nat i) with
      | None => ret (Abort 2)
      | Some en => bindr (step (run f') f' (e_node en) pos) (apply_veto (e_veto en) raw pos)
      end
  end.
End Run.

(* the whole-input parse of Parser._parse_once with parse_all: skip, match the root, skip, demand the end of the string *)
Definition parse_all (T : table) (o : oracle) (len : N) (fuel : nat) (root w0 : N) : out :=
  ask o (QS w0 0) (fun start =>
    bindr (run T o len fuel root false start) (fun r => match r with
      | Ok e fl => ask o (QS w0 e) (fun e' => ret (if e' =? len then Ok e' fl else Fail))
      | x => ret x end)).
