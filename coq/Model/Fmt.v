From Coq Require Import List Arith Lia Bool.
Import ListNotations.
Require Import Infix Expr.

(* Formatter -> parenthesised token tree -> reader/reducer: parse (format t) = t, generic in the tables *)
Inductive jv := JA (n:nat) | JC (name:nat) (args:list jv) | JT (sp:nat).

Inductive okind := KBin | KNary | KPre | KTern.
Record opinfo := { kind : okind; lvl : nat; sp : nat; sp2 : nat; fprec : nat; ordered : bool }.

Section Fmt.
Variable tbl : list entry.
Variable info : nat -> option opinfo.     (* formatter vocabulary: operator name -> how it is written *)
Variable name_of : nat -> nat.            (* spelling -> name : binary_ops / parser_name *)
Variable is_flat : nat -> bool.           (* the associative set of to_json_operator *)

(* ---- model of to_json_operator on these values ---- *)
Definition flat_args (name:nat) (v:jv) : list jv :=
  match v with JC n args => if Nat.eqb n name then args else [v] | _ => [v] end.
Definition bbin (x t y:jv) : jv :=
  match t with
  | JT s => let name := name_of s in
            if is_flat name then JC name (flat_args name x ++ flat_args name y) else JC name [x; y]
  | _ => JA 0 end.
Definition bpre (t y:jv) : jv := match t with JT s => JC (name_of s) [y] | _ => JA 0 end.
Definition bsuf (x t:jv) : jv := match t with JT s => JC (name_of s) [x] | _ => JA 0 end.
Definition btern (x t0 y t1 z:jv) : jv := match t0 with JT s => JC (name_of s) [x; y; z] | _ => JA 0 end.
Definition wrap (v:jv) : jv := v.

(* ---- model of Operator.func / prefix renderer: Python's  prec > op_prec  or  prec == op_prec and not ordered ---- *)
Definition needs_paren (i:opinfo) (p:nat) : bool :=
  negb (Nat.ltb (fprec i) p || (Nat.eqb p (fprec i) && negb (ordered i))).

Definition slot_prec (i:opinfo) (s:nat) : nat :=
  match kind i with
  | KBin => match s with 0 => fprec i + 1 | _ => fprec i - 1 end
  | KNary | KTern => fprec i
  | KPre => fprec i + 1
  end.

Fixpoint mformat (t:jv) (p:nat) : past jv :=
  match t with
  | JA n => PLeaf jv (JA n)
  | JT s => PLeaf jv (JT s)
  | JC name args =>
    match info name with
    | None => PLeaf jv t
    | Some i =>
      let body :=
        match kind i, args with
        | KBin, [l; r] =>
            Some (PBin jv (lvl i) (JT (sp i)) (mformat l (slot_prec i 0)) (mformat r (slot_prec i 1)))
        | KNary, a0 :: rest =>
            Some (fold_left (fun acc a => PBin jv (lvl i) (JT (sp i)) acc (mformat a (slot_prec i 1)))
                            rest (mformat a0 (slot_prec i 0)))
        | KPre, [c] => Some (PPre jv (lvl i) (JT (sp i)) (mformat c (slot_prec i 0)))
        | KTern, [a; b; c] =>
            Some (PTern jv (lvl i) (JT (sp i)) (JT (sp2 i))
                    (mformat a (slot_prec i 0)) (mformat b (slot_prec i 1)) (mformat c (slot_prec i 2)))
        | _, _ => None
        end in
      match body with
      | Some b => if needs_paren i p then PParen jv b else b
      | None => PLeaf jv t
      end
    end
  end.

(* ---- table consistency (each is a finite check on the generated tables) ---- *)
Hypothesis H_sp : forall n i, info n = Some i -> name_of (sp i) = n.
Hypothesis H_flat : forall n i, info n = Some i ->
  is_flat n = match kind i with KNary => true | _ => false end.
Hypothesis H_tbl : forall n i, info n = Some i ->
  match kind i with
  | KBin | KNary => exists o, nth_error tbl (lvl i) = Some (EBin o)
  | KPre => exists o, nth_error tbl (lvl i) = Some (EPre o)
  | KTern => exists o0 o1, nth_error tbl (lvl i) = Some (ETern o0 o1)
  end.
Definition slot_ok (i:opinfo) (s:nat) (l:nat) : Prop :=
  match kind i with
  | KPre => l <= lvl i
  | _ => match s with 0 => l <= lvl i | _ => l < lvl i end
  end.
(* the formatter omits parentheses only where the parser's own levels allow it *)
Hypothesis H_edges : forall P iP C iC s, info P = Some iP -> info C = Some iC ->
  needs_paren iC (slot_prec iP s) = false -> slot_ok iP s (lvl iC).

Notation past := (past jv).
Notation flat := (Expr.flat jv bpre bsuf bbin btern wrap).
Notation peval := (Expr.peval jv bpre bsuf bbin btern wrap).
Notation pwf := (Expr.pwf jv bpre bsuf bbin btern wrap tbl).
Notation wf := (Infix.wf jv tbl).

Definition arity_ok (name:nat) (k:okind) (args:list jv) : Prop :=
  match k with
  | KBin => length args = 2
  | KPre => length args = 1
  | KTern => length args = 3
  | KNary => 2 <= length args /\ Forall (fun a => flat_args name a = [a]) args
  end.
Inductive nf : jv -> Prop :=
| NfA n : nf (JA n)
| NfOut name args : info name = None -> nf (JC name args)
| NfOp name i args : info name = Some i -> Forall nf args -> arity_ok name (kind i) args -> nf (JC name args).

Section JvInd.
Variable P : jv -> Prop.
Hypotheses (HA : forall n, P (JA n)) (HT : forall s, P (JT s))
  (HC : forall name args, Forall P args -> P (JC name args)).
Fixpoint jv_ind' (t:jv) : P t :=
  match t with
  | JA n => HA n | JT s => HT s
  | JC name args => HC name args ((fix go l : Forall P l :=
        match l with [] => Forall_nil _ | x :: r => Forall_cons x (jv_ind' x) (go r) end) args)
  end.
End JvInd.

Definition root_is (e:ast jv) (k:nat) : Prop :=
  match e with
  | Leaf _ _ => False
  | NPre _ k' _ _ | NSuf _ k' _ _ | NBin _ k' _ _ _ | NTern _ k' _ _ _ _ _ => k' = k
  end.
Lemma root_is_le e k L : root_is e k -> k <= L -> le_lvl jv e L.
Proof. destruct e; simpl; intros; subst; auto; contradiction. Qed.
Lemma root_is_lt e k L : root_is e k -> k < L -> lt_lvl jv e L.
Proof. destruct e; simpl; intros; subst; auto; contradiction. Qed.

Definition chain (i:opinfo) (acc:past) (rest:list jv) : past :=
  fold_left (fun acc a => PBin jv (lvl i) (JT (sp i)) acc (mformat a (slot_prec i 1))) rest acc.

Definition mbody (i:opinfo) (args:list jv) : option past :=
  match kind i, args with
  | KBin, [l; r] =>
      Some (PBin jv (lvl i) (JT (sp i)) (mformat l (slot_prec i 0)) (mformat r (slot_prec i 1)))
  | KNary, a0 :: rest => Some (chain i (mformat a0 (slot_prec i 0)) rest)
  | KPre, [c] => Some (PPre jv (lvl i) (JT (sp i)) (mformat c (slot_prec i 0)))
  | KTern, [a; b; c] =>
      Some (PTern jv (lvl i) (JT (sp i)) (JT (sp2 i))
              (mformat a (slot_prec i 0)) (mformat b (slot_prec i 1)) (mformat c (slot_prec i 2)))
  | _, _ => None
  end.

Lemma mformat_op name args i p : info name = Some i ->
  mformat (JC name args) p =
  match mbody i args with
  | Some b => if needs_paren i p then PParen jv b else b
  | None => PLeaf jv (JC name args)
  end.
Proof. intros H. cbn [mformat]. rewrite H. unfold mbody, chain.
  destruct (kind i); destruct args as [|a0 [|a1 [|a2 [|a3 r]]]]; reflexivity. Qed.

Lemma chain_root i : forall rest acc, root_is (flat acc) (lvl i) -> root_is (flat (chain i acc rest)) (lvl i).
Proof. unfold chain. induction rest as [|a r IH]; intros acc H; cbn [fold_left]; auto. apply IH. reflexivity. Qed.

Lemma mbody_root name i args b :
  info name = Some i -> arity_ok name (kind i) args -> mbody i args = Some b -> root_is (flat b) (lvl i).
Proof.
  intros Hi Har Hb. unfold mbody in Hb. unfold arity_ok in Har. destruct (kind i) eqn:Ek.
  - destruct args as [|l [|r [|? ?]]]; simpl in Har; try lia. injection Hb as <-. reflexivity.
  - destruct Har as [Hlen _]. destruct args as [|a0 [|a1 rest]]; simpl in Hlen; try lia.
    injection Hb as <-. unfold chain. cbn [fold_left]. apply (chain_root i rest). reflexivity.
  - destruct args as [|c [|? ?]]; simpl in Har; try lia. injection Hb as <-. reflexivity.
  - destruct args as [|a [|b0 [|c [|? ?]]]]; simpl in Har; try lia. injection Hb as <-. reflexivity.
Qed.

Definition head_info (t:jv) : option opinfo := match t with JC name _ => info name | _ => None end.

(* what the parent needs to know about a formatted child *)
Lemma child_root c p :
  nf c ->
  (exists v, flat (mformat c p) = Leaf jv v) \/
  (exists iC, head_info c = Some iC /\ needs_paren iC p = false /\ root_is (flat (mformat c p)) (lvl iC)).
Proof.
  intros Hnf. inversion Hnf as [n|name args Hnone|name i args Hi HF Har]; subst.
  - left. eexists. reflexivity.
  - left. cbn [mformat]. rewrite Hnone. eexists. reflexivity.
  - rewrite (mformat_op name args i p Hi).
    destruct (mbody i args) as [b|] eqn:Eb; [|left; eexists; reflexivity].
    destruct (needs_paren i p) eqn:Ep; [left; eexists; reflexivity|].
    right. exists i. simpl. repeat split; auto. eapply mbody_root; eauto.
Qed.

Lemma child_slot_ok P iP s c :
  info P = Some iP -> nf c ->
  match kind iP with
  | KPre => le_lvl jv (flat (mformat c (slot_prec iP s))) (lvl iP)
  | _ => match s with
         | 0 => le_lvl jv (flat (mformat c (slot_prec iP s))) (lvl iP)
         | _ => lt_lvl jv (flat (mformat c (slot_prec iP s))) (lvl iP)
         end
  end.
Proof.
  intros HP Hnf.
  destruct (child_root c (slot_prec iP s) Hnf) as [[v Hv]|(iC & Hh & Hp & Hr)].
  - rewrite Hv. destruct (kind iP); destruct s; simpl; exact I.
  - assert (Hinfo : exists C, info C = Some iC).
    { destruct c; simpl in Hh; try discriminate. eauto. }
    destruct Hinfo as [C HC].
    pose proof (H_edges P iP C iC s HP HC Hp) as Hok. unfold slot_ok in Hok.
    destruct (kind iP); destruct s; try (eapply root_is_le; eauto); try (eapply root_is_lt; eauto).
Qed.


Definition okp (a:past) (t:jv) : Prop := pwf a /\ wf (flat a) /\ peval a = t.

Lemma paren_ok b t i p : okp b t -> okp (if needs_paren i p then PParen jv b else b) t.
Proof. intros (H1 & H2 & H3). destruct (needs_paren i p); [|repeat split; auto].
  repeat split; simpl; auto. Qed.

Lemma bbin_plain name i x y : info name = Some i -> kind i = KBin -> bbin x (JT (sp i)) y = JC name [x; y].
Proof. intros Hi Hk. unfold bbin. rewrite (H_sp name i Hi), (H_flat name i Hi), Hk. reflexivity. Qed.
Lemma bbin_flat name i prefix y : info name = Some i -> kind i = KNary -> flat_args name y = [y] ->
  bbin (JC name prefix) (JT (sp i)) y = JC name (prefix ++ [y]).
Proof. intros Hi Hk Hy. unfold bbin. rewrite (H_sp name i Hi), (H_flat name i Hi), Hk.
  cbn [flat_args]. rewrite Nat.eqb_refl, Hy. reflexivity. Qed.
Lemma bbin_flat0 name i x y : info name = Some i -> kind i = KNary ->
  flat_args name x = [x] -> flat_args name y = [y] -> bbin x (JT (sp i)) y = JC name [x; y].
Proof. intros Hi Hk Hx Hy. unfold bbin. rewrite (H_sp name i Hi), (H_flat name i Hi), Hk, Hx, Hy. reflexivity. Qed.

Definition childok (a:jv) : Prop := nf a /\ forall p, okp (mformat a p) a.

Lemma chain_ok name i : info name = Some i -> kind i = KNary -> forall rest acc prefix,
  Forall (fun a => childok a /\ flat_args name a = [a]) rest ->
  pwf acc -> wf (flat acc) -> root_is (flat acc) (lvl i) -> peval acc = JC name prefix ->
  okp (chain i acc rest) (JC name (prefix ++ rest)).
Proof.
  intros Hi Hk. unfold chain.
  induction rest as [|a r IH]; intros acc prefix HF H1 H2 H3 H4; cbn [fold_left].
  - rewrite app_nil_r. repeat split; auto.
  - inversion HF as [|? ? [[Hnf Hok] Hfa] HFr]; subst.
    destruct (Hok (slot_prec i 1)) as (Ha1 & Ha2 & Ha3).
    replace (prefix ++ a :: r) with ((prefix ++ [a]) ++ r) by (rewrite <- app_assoc; reflexivity).
    apply IH; auto.
    + simpl. split; auto.
    + simpl. pose proof (H_tbl name i Hi) as Ht. rewrite Hk in Ht.
      pose proof (child_slot_ok name i 1 a Hi Hnf) as Hs. rewrite Hk in Hs.
      repeat split; auto. eapply root_is_le; eauto.
    + reflexivity.
    + simpl. rewrite H4, Ha3. apply bbin_flat; auto.
Qed.

Theorem fmt_ok : forall t, nf t -> forall p, okp (mformat t p) t.
Proof.
  induction t as [n|s|name args IH] using jv_ind'; intros Hnf p.
  - repeat split; simpl; auto.
  - inversion Hnf.
  - inversion Hnf as [|? ? Hnone|? i ? Hi HF Har]; subst.
    + cbn [mformat]. rewrite Hnone. repeat split; simpl; auto.
    + assert (HC : Forall childok args).
      { clear - IH HF. induction IH; inversion HF; subst; constructor; auto. split; auto. }
      rewrite (mformat_op name args i p Hi).
      pose proof (H_tbl name i Hi) as Ht.
      unfold mbody. unfold arity_ok in Har. destruct (kind i) eqn:Ek.
      * (* binary *)
        destruct args as [|l [|r [|? ?]]]; simpl in Har; try lia.
        inversion HC as [|? ? [Hnl Hl] HC']; subst. inversion HC' as [|? ? [Hnr Hr] _]; subst.
        apply paren_ok.
        destruct (Hl (slot_prec i 0)) as (L1 & L2 & L3). destruct (Hr (slot_prec i 1)) as (R1 & R2 & R3).
        pose proof (child_slot_ok name i 0 l Hi Hnl) as Sl. pose proof (child_slot_ok name i 1 r Hi Hnr) as Sr.
        rewrite Ek in Sl, Sr.
        repeat split; simpl; auto. rewrite L3, R3. apply bbin_plain; auto.
      * (* n-ary *)
        destruct Har as [Hlen Hfa]. destruct args as [|a0 [|a1 rest]]; simpl in Hlen; try lia.
        apply paren_ok.
        inversion HC as [|? ? [Hn0 H0] HC']; subst. inversion HC' as [|? ? [Hn1 H1] HCr]; subst.
        inversion Hfa as [|? ? F0 Hfa']; subst. inversion Hfa' as [|? ? F1 Hfar]; subst.
        destruct (H0 (slot_prec i 0)) as (A1 & A2 & A3). destruct (H1 (slot_prec i 1)) as (B1 & B2 & B3).
        pose proof (child_slot_ok name i 0 a0 Hi Hn0) as S0. pose proof (child_slot_ok name i 1 a1 Hi Hn1) as S1.
        rewrite Ek in S0, S1.
        unfold chain. cbn [fold_left].
        change (a0 :: a1 :: rest) with ([a0; a1] ++ rest).
        apply (chain_ok name i Hi Ek rest); auto.
        -- clear - HCr Hfar. induction HCr; inversion Hfar; subst; constructor; auto.
        -- simpl. split; auto.
        -- simpl. repeat split; auto.
        -- reflexivity.
        -- simpl. rewrite A3, B3. apply bbin_flat0; auto.
      * (* prefix *)
        destruct args as [|c [|? ?]]; simpl in Har; try lia.
        inversion HC as [|? ? [Hnc Hc] _]; subst.
        apply paren_ok.
        destruct (Hc (slot_prec i 0)) as (C1 & C2 & C3).
        pose proof (child_slot_ok name i 0 c Hi Hnc) as Sc. rewrite Ek in Sc.
        repeat split; simpl; auto. rewrite C3. unfold bpre. rewrite (H_sp name i Hi). reflexivity.
      * (* ternary *)
        destruct args as [|a [|b [|c [|? ?]]]]; simpl in Har; try lia.
        inversion HC as [|? ? [Hna Ha] HC']; subst. inversion HC' as [|? ? [Hnb Hb] HC'']; subst.
        inversion HC'' as [|? ? [Hnc Hc] _]; subst.
        apply paren_ok.
        destruct (Ha (slot_prec i 0)) as (A1 & A2 & A3). destruct (Hb (slot_prec i 1)) as (B1 & B2 & B3).
        destruct (Hc (slot_prec i 2)) as (C1 & C2 & C3).
        pose proof (child_slot_ok name i 0 a Hi Hna) as Sa. pose proof (child_slot_ok name i 1 b Hi Hnb) as Sb.
        pose proof (child_slot_ok name i 2 c Hi Hnc) as Sc. rewrite Ek in Sa, Sb, Sc.
        repeat split; simpl; auto. rewrite A3, B3, C3. unfold btern. rewrite (H_sp name i Hi). reflexivity.
Qed.

(* end to end: what the reader/reducer makes of the formatter's tokens *)
Hypothesis main_inj : forall i j ei ej,
  nth_error tbl i = Some ei -> nth_error tbl j = Some ej -> main ei = main ej -> i = j.
Hypothesis partner_looser : forall k o0 o1 j ej,
  nth_error tbl k = Some (ETern o0 o1) -> nth_error tbl j = Some ej -> main ej = o1 -> k < j.

Theorem format_then_parse : forall t p, nf t ->
  exists f, parse_expr jv bpre bsuf bbin btern wrap tbl f (tokens jv tbl (mformat t p)) = Some (t, []).
Proof.
  intros t p Hnf. destruct (fmt_ok t Hnf p) as (H1 & H2 & H3).
  destruct (parse_tokens jv bpre bsuf bbin btern wrap tbl main_inj partner_looser (mformat t p) [] H1 H2 I) as [f Hf].
  exists f. rewrite app_nil_r in Hf. rewrite Hf, H3. reflexivity.
Qed.

End Fmt.
Print Assumptions format_then_parse.
