From Coq Require Import List Arith Lia Bool.
Import ListNotations.
From MoSql Require Import Model.Infix Model.Expr.

(* L3 expression core: formatter -> parenthesised token tree -> reader/reducer.
   parse (format t) = t for every normal-form tree all of whose edges are "ok" (edges_okb), generic in the tables.

   Values: atoms, applications (operator name, operands), operator-token payloads.  Names, spellings and precedences are
   numbers here; Generated/Tables.v instantiates them from /repo (harness/extract_tables.py).

   The formatter is table driven: [beh name p] says, for operator [name] rendered in a context of precedence [p], whether the whole
   rendering is put in parentheses and, for each operand slot, the precedence passed down and whether the renderer wraps that operand
   in explicit parentheses (as Formatter._not does).  The table is obtained by running every renderer of formatting.py with a recording
   dispatch, for every precedence of the finite precedence domain. *)
Inductive jv := JA (n:nat) | JC (name:nat) (args:list jv) | JT (sp:nat).

Inductive okind := KBin | KNary | KPre | KTern | KBinNull.
Record opinfo := { kind : okind; lvl : nat; sp : nat; sp2 : nat; ratom : bool }.

Definition null_atom : jv := JA 0.
Definition is_null (v:jv) : bool := match v with JA 0 => true | _ => false end.

Section Fmt.
Variable tbl : list entry.
Variable info : nat -> option opinfo.     (* formatter vocabulary: operator name -> how it is written *)
Variable name_of : nat -> nat.            (* spelling -> name : binary_ops / parser_name *)
Variable is_flat : nat -> bool.           (* the associative set of to_json_operator *)
Variable fold_of : nat -> option nat.     (* eq / neq / eq! / ne! with a bare NULL operand -> missing / exists *)
Variable beh : nat -> nat -> bool * list (nat * bool).

(* ---- model of to_json_operator on these values ---- *)
Definition flat_args (name:nat) (v:jv) : list jv :=
  match v with JC n args => if Nat.eqb n name then args else [v] | _ => [v] end.
Definition bbin (x t y:jv) : jv :=
  match t with
  | JT s => let name := name_of s in
            match fold_of name with
            | Some f => if is_null y then JC f [x] else if is_null x then JC f [y] else JC name [x; y]
            | None => if is_flat name then JC name (flat_args name x ++ flat_args name y) else JC name [x; y]
            end
  | _ => JA 0 end.
Definition bpre (t y:jv) : jv := match t with JT s => JC (name_of s) [y] | _ => JA 0 end.
Definition bsuf (x t:jv) : jv := match t with JT s => JC (name_of s) [x] | _ => JA 0 end.
Definition btern (x t0 y t1 z:jv) : jv := match t0 with JT s => JC (name_of s) [x; y; z] | _ => JA 0 end.
Definition wrap (v:jv) : jv := v.

Notation past := (past jv).

Definition slot (slots : list (nat * bool)) (k:nat) : nat * bool := nth k slots (200, false).
Definition nslot (k:nat) : nat := match k with 0 => 0 | _ => 1 end.     (* n-ary chains: first operand / all the others *)

Definition fchild (b:past) (sl:nat*bool) : past := if snd sl then PParen jv b else b.

Fixpoint mformat (t:jv) (p:nat) : past :=
  match t with
  | JA n => PLeaf jv (JA n)
  | JT s => PLeaf jv (JT s)
  | JC name args =>
    match info name with
    | None => PLeaf jv t
    | Some i =>
      let '(selfp, slots) := beh name p in
      let ch c k := fchild (mformat c (fst (slot slots k))) (slot slots k) in
      let body :=
        match kind i, args with
        | KBin, [l; r] => Some (PBin jv (lvl i) (JT (sp i)) (ch l 0) (ch r 1))
        | KNary, a0 :: rest =>
            Some (fold_left (fun acc a => PBin jv (lvl i) (JT (sp i)) acc (ch a 1)) rest (ch a0 0))
        | KPre, [c] => Some (PPre jv (lvl i) (JT (sp i)) (ch c 0))
        | KTern, [a; b; c] => Some (PTern jv (lvl i) (JT (sp i)) (JT (sp2 i)) (ch a 0) (ch b 1) (ch c 2))
        | KBinNull, [c] => Some (PBin jv (lvl i) (JT (sp i)) (ch c 0) (PLeaf jv null_atom))
        | _, _ => None
        end in
      match body with
      | Some b => if selfp then PParen jv b else b
      | None => PLeaf jv t
      end
    end
  end.

(* ---- the edge condition: wherever the formatter leaves an operand without parentheses, the parser's levels must allow it ---- *)
Definition exposed (c:jv) (sl:nat*bool) : option opinfo :=
  if snd sl then None else
  match c with
  | JC n _ => match info n with
              | Some iC => if fst (beh n (fst sl)) then None else Some iC
              | None => None end
  | _ => None
  end.
Definition slot_okb (iP:opinfo) (s:nat) (l:nat) : bool :=
  match kind iP with
  | KPre => Nat.leb l (lvl iP)
  | _ => match s with 0 => Nat.leb l (lvl iP) | _ => Nat.ltb l (lvl iP) end
  end.
Definition edge_okb (iP:opinfo) (s:nat) (c:jv) (sl:nat*bool) : bool :=
  match exposed c sl with Some iC => slot_okb iP s (lvl iC) | None => true end.

Fixpoint edges_okb (t:jv) (p:nat) : bool :=
  match t with
  | JC name args =>
    match info name with
    | None => true
    | Some i =>
      let slots := snd (beh name p) in
      let sidx k := match kind i with KNary => nslot k | _ => k end in
      (fix go (k:nat) (l:list jv) : bool :=
         match l with
         | [] => true
         | c :: r => edge_okb i (sidx k) c (slot slots (sidx k)) && edges_okb c (fst (slot slots (sidx k))) && go (S k) r
         end) 0 args
    end
  | _ => true
  end.

(* ---- table consistency (each is a finite check on the generated tables, Oblig/) ---- *)
Hypothesis H_sp : forall n i, info n = Some i ->
  match kind i with KBinNull => fold_of (name_of (sp i)) = Some n | _ => name_of (sp i) = n end.
Hypothesis H_flat : forall n i, info n = Some i ->
  match kind i with
  | KNary => is_flat n = true /\ fold_of n = None
  | KBin => is_flat n = false
  | _ => True end.
Hypothesis H_tbl : forall n i, info n = Some i ->
  match kind i with
  | KBin | KNary | KBinNull => exists o, nth_error tbl (lvl i) = Some (EBin o)
  | KPre => exists o, nth_error tbl (lvl i) = Some (EPre o)
  | KTern => exists o0 o1, nth_error tbl (lvl i) = Some (ETern o0 o1)
  end.

Notation flat := (Expr.flat jv bpre bsuf bbin btern wrap).
Notation peval := (Expr.peval jv bpre bsuf bbin btern wrap).
Notation pwf := (Expr.pwf jv bpre bsuf bbin btern wrap tbl).
Notation wf := (Infix.wf jv tbl).

(* ---- normal form: what the parser itself produces over this vocabulary ---- *)
Definition arity_ok (name:nat) (i:opinfo) (args:list jv) : Prop :=
  match kind i with
  | KBin => length args = 2 /\ (fold_of name <> None -> Forall (fun a => is_null a = false) args)
            /\ (ratom i = true -> exists l n, args = [l; JA n])
  | KPre | KBinNull => length args = 1
  | KTern => length args = 3
  | KNary => 2 <= length args /\ Forall (fun a => flat_args name a = [a]) args
  end.
Inductive nf : jv -> Prop :=
| NfA n : nf (JA n)
| NfOut name args : info name = None -> nf (JC name args)
| NfOp name i args : info name = Some i -> Forall nf args -> arity_ok name i args -> nf (JC name args).

Section JvInd.
Variable P : jv -> Prop.
Hypotheses (HA : forall n, P (JA n)) (HT : forall s, P (JT s))
  (HC : forall name args, Forall P args -> P (JC name args)).
Fixpoint jv_ind' (t:jv) : P t :=
  match t with
  | JA n => HA n | JT s => HT s
  | JC name args => HC name args ((fix go l : Forall P l :=
        match l with [] => Forall_nil _ | x :: r => Forall_cons x (jv_ind' x) (go r) end) args)
  end.
End JvInd.

Definition root_is (e:ast jv) (k:nat) : Prop :=
  match e with
  | Leaf _ _ => False
  | NPre _ k' _ _ | NSuf _ k' _ _ | NBin _ k' _ _ _ | NTern _ k' _ _ _ _ _ => k' = k
  end.
Lemma root_is_le e k L : root_is e k -> k <= L -> le_lvl jv e L.
Proof. destruct e; simpl; intros; subst; auto; contradiction. Qed.
Lemma root_is_lt e k L : root_is e k -> k < L -> lt_lvl jv e L.
Proof. destruct e; simpl; intros; subst; auto; contradiction. Qed.

Definition ch (slots:list (nat*bool)) (c:jv) (k:nat) : past :=
  fchild (mformat c (fst (slot slots k))) (slot slots k).

Definition chain (i:opinfo) (slots:list (nat*bool)) (acc:past) (rest:list jv) : past :=
  fold_left (fun acc a => PBin jv (lvl i) (JT (sp i)) acc (ch slots a 1)) rest acc.

Definition mbody (i:opinfo) (slots:list (nat*bool)) (args:list jv) : option past :=
  match kind i, args with
  | KBin, [l; r] => Some (PBin jv (lvl i) (JT (sp i)) (ch slots l 0) (ch slots r 1))
  | KNary, a0 :: rest => Some (chain i slots (ch slots a0 0) rest)
  | KPre, [c] => Some (PPre jv (lvl i) (JT (sp i)) (ch slots c 0))
  | KTern, [a; b; c] => Some (PTern jv (lvl i) (JT (sp i)) (JT (sp2 i)) (ch slots a 0) (ch slots b 1) (ch slots c 2))
  | KBinNull, [c] => Some (PBin jv (lvl i) (JT (sp i)) (ch slots c 0) (PLeaf jv null_atom))
  | _, _ => None
  end.

Lemma mformat_op name args i p : info name = Some i ->
  mformat (JC name args) p =
  match mbody i (snd (beh name p)) args with
  | Some b => if fst (beh name p) then PParen jv b else b
  | None => PLeaf jv (JC name args)
  end.
Proof. intros H. cbn [mformat]. rewrite H. destruct (beh name p) as [selfp slots]. cbn [fst snd].
  unfold mbody, chain, ch.
  destruct (kind i); destruct args as [|a0 [|a1 [|a2 [|a3 r]]]]; reflexivity. Qed.

Lemma chain_root i slots : forall rest acc, root_is (flat acc) (lvl i) -> root_is (flat (chain i slots acc rest)) (lvl i).
Proof. unfold chain. induction rest as [|a r IH]; intros acc H; cbn [fold_left]; auto. apply IH. reflexivity. Qed.

Lemma mbody_root name i slots args b :
  info name = Some i -> arity_ok name i args -> mbody i slots args = Some b -> root_is (flat b) (lvl i).
Proof.
  intros Hi Har Hb. unfold mbody in Hb. unfold arity_ok in Har. destruct (kind i) eqn:Ek.
  - destruct Har as [Hlen _]. destruct args as [|l [|r [|? ?]]]; simpl in Hlen; try lia. injection Hb as <-. reflexivity.
  - destruct Har as [Hlen _]. destruct args as [|a0 [|a1 rest]]; simpl in Hlen; try lia.
    injection Hb as <-. unfold chain. cbn [fold_left]. apply (chain_root i slots rest). reflexivity.
  - destruct args as [|c [|? ?]]; simpl in Har; try lia. injection Hb as <-. reflexivity.
  - destruct args as [|a [|b0 [|c [|? ?]]]]; simpl in Har; try lia. injection Hb as <-. reflexivity.
  - destruct args as [|c [|? ?]]; simpl in Har; try lia. injection Hb as <-. reflexivity.
Qed.

(* what the parent needs to know about a formatted child *)
Lemma child_root slots c k :
  nf c ->
  (exists v, flat (ch slots c k) = Leaf jv v) \/
  (exists iC, exposed c (slot slots k) = Some iC /\ root_is (flat (ch slots c k)) (lvl iC)).
Proof.
  intros Hnf. unfold ch, fchild, exposed. destruct (snd (slot slots k)) eqn:Ew.
  { left. eexists. reflexivity. }
  inversion Hnf as [n|name args Hnone|name i args Hi HF Har]; subst.
  - left. eexists. reflexivity.
  - left. cbn [mformat]. rewrite Hnone. eexists. reflexivity.
  - rewrite (mformat_op name args i _ Hi). rewrite Hi.
    destruct (mbody i (snd (beh name (fst (slot slots k)))) args) as [b|] eqn:Eb; [|left; eexists; reflexivity].
    destruct (fst (beh name (fst (slot slots k)))) eqn:Ep; [left; eexists; reflexivity|].
    right. exists i. split; auto. eapply mbody_root; eauto.
Qed.

Lemma child_slot_ok iP s slots c k :
  nf c -> edge_okb iP s c (slot slots k) = true ->
  match kind iP with
  | KPre => le_lvl jv (flat (ch slots c k)) (lvl iP)
  | _ => match s with
         | 0 => le_lvl jv (flat (ch slots c k)) (lvl iP)
         | _ => lt_lvl jv (flat (ch slots c k)) (lvl iP)
         end
  end.
Proof.
  intros Hnf He.
  destruct (child_root slots c k Hnf) as [[v Hv]|(iC & Hx & Hr)].
  - rewrite Hv. destruct (kind iP); destruct s; simpl; exact I.
  - unfold edge_okb in He. rewrite Hx in He. unfold slot_okb in He.
    destruct (kind iP); destruct s;
      try (apply Nat.leb_le in He; eapply root_is_le; eauto);
      try (apply Nat.ltb_lt in He; eapply root_is_lt; eauto).
Qed.

Definition okp (a:past) (t:jv) : Prop := pwf a /\ wf (flat a) /\ peval a = t.

Lemma paren_ok b t (w:bool) : okp b t -> okp (if w then PParen jv b else b) t.
Proof. intros (H1 & H2 & H3). destruct w; [|repeat split; auto].
  repeat split; simpl; auto. Qed.

Lemma bbin_plain name i x y : info name = Some i -> kind i = KBin ->
  (fold_of name <> None -> is_null x = false /\ is_null y = false) ->
  bbin x (JT (sp i)) y = JC name [x; y].
Proof. intros Hi Hk Hn. unfold bbin. pose proof (H_sp name i Hi) as Hs. rewrite Hk in Hs. rewrite Hs.
  pose proof (H_flat name i Hi) as Hf. rewrite Hk in Hf.
  destruct (fold_of name) eqn:Ef.
  - destruct Hn as [Hx Hy]; [discriminate|]. rewrite Hx, Hy. reflexivity.
  - rewrite Hf. reflexivity. Qed.
Lemma bbin_flat name i prefix y : info name = Some i -> kind i = KNary -> flat_args name y = [y] ->
  bbin (JC name prefix) (JT (sp i)) y = JC name (prefix ++ [y]).
Proof. intros Hi Hk Hy. unfold bbin. pose proof (H_sp name i Hi) as Hs. rewrite Hk in Hs. rewrite Hs.
  pose proof (H_flat name i Hi) as Hf. rewrite Hk in Hf. destruct Hf as [Hf1 Hf2]. rewrite Hf2, Hf1.
  cbn [flat_args]. rewrite Nat.eqb_refl, Hy. reflexivity. Qed.
Lemma bbin_flat0 name i x y : info name = Some i -> kind i = KNary ->
  flat_args name x = [x] -> flat_args name y = [y] -> bbin x (JT (sp i)) y = JC name [x; y].
Proof. intros Hi Hk Hx Hy. unfold bbin. pose proof (H_sp name i Hi) as Hs. rewrite Hk in Hs. rewrite Hs.
  pose proof (H_flat name i Hi) as Hf. rewrite Hk in Hf. destruct Hf as [Hf1 Hf2]. rewrite Hf2, Hf1, Hx, Hy. reflexivity. Qed.
Lemma bbin_null name i x : info name = Some i -> kind i = KBinNull ->
  bbin x (JT (sp i)) null_atom = JC name [x].
Proof. intros Hi Hk. unfold bbin. pose proof (H_sp name i Hi) as Hs. rewrite Hk in Hs. rewrite Hs. reflexivity. Qed.

(* a child together with what the induction knows about it *)
Definition childok (a:jv) : Prop := nf a /\ forall p, edges_okb a p = true -> okp (mformat a p) a.

Lemma ch_ok slots a k : childok a -> edges_okb a (fst (slot slots k)) = true -> okp (ch slots a k) a.
Proof. intros [Hnf Hok] He. unfold ch, fchild. apply paren_ok. apply Hok. exact He. Qed.

Lemma chain_ok name i slots : info name = Some i -> kind i = KNary -> forall rest acc prefix,
  Forall (fun a => childok a /\ flat_args name a = [a]
                   /\ edge_okb i 1 a (slot slots 1) = true /\ edges_okb a (fst (slot slots 1)) = true) rest ->
  pwf acc -> wf (flat acc) -> root_is (flat acc) (lvl i) -> peval acc = JC name prefix ->
  okp (chain i slots acc rest) (JC name (prefix ++ rest)).
Proof.
  intros Hi Hk. unfold chain.
  induction rest as [|a r IH]; intros acc prefix HF H1 H2 H3 H4; cbn [fold_left].
  - rewrite app_nil_r. repeat split; auto.
  - inversion HF as [|? ? (Hc & Hfa & He1 & He2) HFr]; subst.
    destruct (ch_ok slots a 1 Hc He2) as (Ha1 & Ha2 & Ha3).
    replace (prefix ++ a :: r) with ((prefix ++ [a]) ++ r) by (rewrite <- app_assoc; reflexivity).
    apply IH; auto.
    + simpl. split; auto.
    + simpl. pose proof (H_tbl name i Hi) as Ht. rewrite Hk in Ht.
      pose proof (child_slot_ok i 1 slots a 1 (proj1 Hc) He1) as Hs. rewrite Hk in Hs.
      repeat split; auto. eapply root_is_le; eauto.
    + reflexivity.
    + simpl. rewrite H4, Ha3. apply bbin_flat; auto.
Qed.

Lemma edges_unfold name i args p : info name = Some i ->
  edges_okb (JC name args) p =
  (fix go (k:nat) (l:list jv) : bool :=
     match l with
     | [] => true
     | c :: r => edge_okb i (match kind i with KNary => nslot k | _ => k end) c
                   (slot (snd (beh name p)) (match kind i with KNary => nslot k | _ => k end))
                 && edges_okb c (fst (slot (snd (beh name p)) (match kind i with KNary => nslot k | _ => k end))) && go (S k) r
     end) 0 args.
Proof. intros H. cbn [edges_okb]. rewrite H. reflexivity. Qed.

Lemma nary_rest_edges i slots : forall rest k,
  (fix go (k:nat) (l:list jv) : bool :=
     match l with
     | [] => true
     | c :: r => edge_okb i (nslot k) c (slot slots (nslot k)) && edges_okb c (fst (slot slots (nslot k))) && go (S k) r
     end) (S k) rest = true ->
  Forall (fun a => edge_okb i 1 a (slot slots 1) = true /\ edges_okb a (fst (slot slots 1)) = true) rest.
Proof.
  induction rest as [|a r IH]; intros k H; constructor.
  - apply andb_true_iff in H as [H _]. apply andb_true_iff in H as [H1 H2]. simpl in *. auto.
  - apply andb_true_iff in H as [_ H]. apply (IH (S k)). exact H.
Qed.

Theorem fmt_ok : forall t, nf t -> forall p, edges_okb t p = true -> okp (mformat t p) t.
Proof.
  induction t as [n|s|name args IH] using jv_ind'; intros Hnf p He.
  - repeat split; simpl; auto.
  - inversion Hnf.
  - inversion Hnf as [|? ? Hnone|? i ? Hi HF Har]; subst.
    + cbn [mformat]. rewrite Hnone. repeat split; simpl; auto.
    + assert (HC : Forall childok args).
      { clear - IH HF. induction IH; inversion HF; subst; constructor; auto. split; auto. }
      rewrite (mformat_op name args i p Hi).
      rewrite (edges_unfold name i args p Hi) in He.
      set (slots := snd (beh name p)) in *.
      pose proof (H_tbl name i Hi) as Ht.
      unfold mbody. unfold arity_ok in Har. destruct (kind i) eqn:Ek.
      * (* binary *)
        destruct Har as (Hlen & Hnn & _). destruct args as [|l [|r [|? ?]]]; simpl in Hlen; try lia.
        inversion HC as [|? ? Hcl HC']; subst. inversion HC' as [|? ? Hcr _]; subst.
        apply andb_true_iff in He as [He Her]. apply andb_true_iff in He as [El1 El2].
        apply andb_true_iff in Her as [Her _]. apply andb_true_iff in Her as [Er1 Er2].
        apply paren_ok.
        destruct (ch_ok slots l 0 Hcl El2) as (L1 & L2 & L3). destruct (ch_ok slots r 1 Hcr Er2) as (R1 & R2 & R3).
        pose proof (child_slot_ok i 0 slots l 0 (proj1 Hcl) El1) as Sl.
        pose proof (child_slot_ok i 1 slots r 1 (proj1 Hcr) Er1) as Sr.
        rewrite Ek in Sl, Sr.
        repeat split; simpl; auto. rewrite L3, R3. apply bbin_plain; auto.
        intros Hf. specialize (Hnn Hf). inversion Hnn as [|? ? Hx Hnn']; subst. inversion Hnn'; subst. auto.
      * (* n-ary *)
        destruct Har as [Hlen Hfa]. destruct args as [|a0 [|a1 rest]]; simpl in Hlen; try lia.
        apply paren_ok.
        inversion HC as [|? ? Hc0 HC']; subst. inversion HC' as [|? ? Hc1 HCr]; subst.
        inversion Hfa as [|? ? F0 Hfa']; subst. inversion Hfa' as [|? ? F1 Hfar]; subst.
        apply andb_true_iff in He as [He Her]. apply andb_true_iff in He as [E01 E02].
        apply andb_true_iff in Her as [He1 Her]. apply andb_true_iff in He1 as [E11 E12].
        cbn [nslot] in *.
        destruct (ch_ok slots a0 0 Hc0 E02) as (A1 & A2 & A3). destruct (ch_ok slots a1 1 Hc1 E12) as (B1 & B2 & B3).
        pose proof (child_slot_ok i 0 slots a0 0 (proj1 Hc0) E01) as S0.
        pose proof (child_slot_ok i 1 slots a1 1 (proj1 Hc1) E11) as S1.
        rewrite Ek in S0, S1.
        unfold chain. cbn [fold_left].
        change (a0 :: a1 :: rest) with ([a0; a1] ++ rest).
        apply (chain_ok name i slots Hi Ek rest); auto.
        -- pose proof (nary_rest_edges i slots rest 1 Her) as HE.
           clear - HCr Hfar HE. induction HCr; inversion Hfar; inversion HE; subst; constructor; auto.
        -- simpl. split; auto.
        -- simpl. repeat split; auto.
        -- reflexivity.
        -- simpl. rewrite A3, B3. apply bbin_flat0; auto.
      * (* prefix *)
        destruct args as [|c [|? ?]]; simpl in Har; try lia.
        inversion HC as [|? ? Hcc _]; subst.
        apply andb_true_iff in He as [He _]. apply andb_true_iff in He as [E1 E2].
        apply paren_ok.
        destruct (ch_ok slots c 0 Hcc E2) as (C1 & C2 & C3).
        pose proof (child_slot_ok i 0 slots c 0 (proj1 Hcc) E1) as Sc. rewrite Ek in Sc.
        repeat split; simpl; auto. rewrite C3. unfold bpre.
        pose proof (H_sp name i Hi) as Hs. rewrite Ek in Hs. rewrite Hs. reflexivity.
      * (* ternary *)
        destruct args as [|a [|b [|c [|? ?]]]]; simpl in Har; try lia.
        inversion HC as [|? ? Hca HC']; subst. inversion HC' as [|? ? Hcb HC'']; subst.
        inversion HC'' as [|? ? Hcc _]; subst.
        apply andb_true_iff in He as [He Her]. apply andb_true_iff in He as [Ea1 Ea2].
        apply andb_true_iff in Her as [He Her]. apply andb_true_iff in He as [Eb1 Eb2].
        apply andb_true_iff in Her as [He _]. apply andb_true_iff in He as [Ec1 Ec2].
        apply paren_ok.
        destruct (ch_ok slots a 0 Hca Ea2) as (A1 & A2 & A3). destruct (ch_ok slots b 1 Hcb Eb2) as (B1 & B2 & B3).
        destruct (ch_ok slots c 2 Hcc Ec2) as (C1 & C2 & C3).
        pose proof (child_slot_ok i 0 slots a 0 (proj1 Hca) Ea1) as Sa.
        pose proof (child_slot_ok i 1 slots b 1 (proj1 Hcb) Eb1) as Sb.
        pose proof (child_slot_ok i 2 slots c 2 (proj1 Hcc) Ec1) as Sc. rewrite Ek in Sa, Sb, Sc.
        repeat split; simpl; auto. rewrite A3, B3, C3. unfold btern.
        pose proof (H_sp name i Hi) as Hs. rewrite Ek in Hs. rewrite Hs. reflexivity.
      * (* IS [NOT] NULL *)
        destruct args as [|c [|? ?]]; simpl in Har; try lia.
        inversion HC as [|? ? Hcc _]; subst.
        apply andb_true_iff in He as [He _]. apply andb_true_iff in He as [E1 E2].
        apply paren_ok.
        destruct (ch_ok slots c 0 Hcc E2) as (C1 & C2 & C3).
        pose proof (child_slot_ok i 0 slots c 0 (proj1 Hcc) E1) as Sc. rewrite Ek in Sc.
        repeat split; simpl; auto. rewrite C3. apply bbin_null; auto.
Qed.

(* end to end: what the reader/reducer makes of the formatter's tokens *)
Hypothesis main_inj : forall i j ei ej,
  nth_error tbl i = Some ei -> nth_error tbl j = Some ej -> main ei = main ej -> i = j.
Hypothesis partner_looser : forall k o0 o1 j ej,
  nth_error tbl k = Some (ETern o0 o1) -> nth_error tbl j = Some ej -> main ej = o1 -> k < j.

Theorem format_then_parse : forall t p, nf t -> edges_okb t p = true ->
  exists f, parse_expr jv bpre bsuf bbin btern wrap tbl f (tokens jv tbl (mformat t p)) = Some (t, []).
Proof.
  intros t p Hnf He. destruct (fmt_ok t Hnf p He) as (H1 & H2 & H3).
  destruct (parse_tokens jv bpre bsuf bbin btern wrap tbl main_inj partner_looser (mformat t p) [] H1 H2 I) as [f Hf].
  exists f. rewrite app_nil_r in Hf. rewrite Hf, H3. reflexivity.
Qed.

End Fmt.
