From Coq Require Import List Arith Lia Bool.
Import ListNotations.
From MoSql Require Import Model.Infix.

(* Token-level expression reader with parentheses on top of the reducer: parse (tokens a) = value of a *)
Section Expr.
Variable V : Type.
Variables (bpre bsuf : V -> V -> V) (bbin : V -> V -> V -> V) (btern : V -> V -> V -> V -> V -> V).
Variable wrap : V -> V.                       (* Group layers put around a parenthesised value *)
Variable tbl : list entry.
Hypothesis main_inj : forall i j ei ej,
  nth_error tbl i = Some ei -> nth_error tbl j = Some ej -> main ei = main ej -> i = j.
Hypothesis partner_looser : forall k o0 o1 j ej,
  nth_error tbl k = Some (ETern o0 o1) -> nth_error tbl j = Some ej -> main ej = o1 -> k < j.

Inductive tok := TAtom (v:V) | TPre (o:nat) (tv:V) | TSuf (o:nat) (tv:V) | TBin (o:nat) (tv:V) | TLp | TRp.

Notation item := (item V).

(* reader: two states, as in  decorated + ZeroOrMore(ops + decorated)  with  atom := base | '(' flat ')' *)
Fixpoint read (fuel:nat) (expect_operand:bool) (ts:list tok) (acc:list item) : option (list item * list tok) :=
  match fuel with O => None | S f =>
  if expect_operand then
    match ts with
    | TPre o tv :: r => read f true r (acc ++ [(tv, Some o)])
    | TAtom v :: r => read f false r (acc ++ [(v, None)])
    | TLp :: r =>
        match read f true r [] with
        | Some (inner, TRp :: r') =>
            match reduce_all V bpre bsuf bbin btern (length inner) tbl inner with
            | Some v => read f false r' (acc ++ [(wrap v, None)])
            | None => None
            end
        | _ => None
        end
    | _ => None
    end
  else
    match ts with
    | TSuf o tv :: r => read f false r (acc ++ [(tv, Some o)])
    | TBin o tv :: r => read f true r (acc ++ [(tv, Some o)])
    | _ => Some (acc, ts)
    end
  end.

Definition parse_expr (fuel:nat) (ts:list tok) : option (V * list tok) :=
  match read fuel true ts [] with
  | Some (items, r) =>
      match reduce_all V bpre bsuf bbin btern (length items) tbl items with
      | Some v => Some (v, r) | None => None end
  | None => None
  end.

(* parenthesised trees *)
Inductive past :=
| PLeaf (v:V)
| PParen (a:past)
| PPre (k:nat) (tv:V) (c:past)
| PSuf (k:nat) (tv:V) (c:past)
| PBin (k:nat) (tv:V) (l r:past)
| PTern (k:nat) (tv0 tv1:V) (a b c:past).

Fixpoint peval (a:past) : V :=
  match a with
  | PLeaf v => v
  | PParen a => wrap (peval a)
  | PPre _ tv c => bpre tv (peval c)
  | PSuf _ tv c => bsuf (peval c) tv
  | PBin _ tv l r => bbin (peval l) tv (peval r)
  | PTern _ tv0 tv1 a b c => btern (peval a) tv0 (peval b) tv1 (peval c)
  end.

(* the flat view: parenthesised sub-trees become leaves *)
Fixpoint flat (a:past) : ast V :=
  match a with
  | PLeaf v => Leaf V v
  | PParen a => Leaf V (wrap (peval a))
  | PPre k tv c => NPre V k tv (flat c)
  | PSuf k tv c => NSuf V k tv (flat c)
  | PBin k tv l r => NBin V k tv (flat l) (flat r)
  | PTern k tv0 tv1 a b c => NTern V k tv0 tv1 (flat a) (flat b) (flat c)
  end.

Lemma eval_flat a : eval V bpre bsuf bbin btern (flat a) = peval a.
Proof. induction a; simpl; congruence. Qed.

(* well-formed: every parenthesis-free region satisfies the edge rule *)
Fixpoint pwf (a:past) : Prop :=
  match a with
  | PLeaf _ => True
  | PParen a => pwf a /\ wf V tbl (flat a)
  | PPre _ _ c | PSuf _ _ c => pwf c
  | PBin _ _ l r => pwf l /\ pwf r
  | PTern _ _ _ a b c => pwf a /\ pwf b /\ pwf c
  end.

Fixpoint tokens (a:past) : list tok :=
  match a with
  | PLeaf v => [TAtom v]
  | PParen a => TLp :: tokens a ++ [TRp]
  | PPre k tv c => TPre (mainof tbl k) tv :: tokens c
  | PSuf k tv c => tokens c ++ [TSuf (mainof tbl k) tv]
  | PBin k tv l r => tokens l ++ TBin (mainof tbl k) tv :: tokens r
  | PTern k tv0 tv1 a b c =>
      tokens a ++ TBin (mainof tbl k) tv0 :: tokens b ++ TBin (partnerof tbl k) tv1 :: tokens c
  end.

Fixpoint psize (a:past) : nat :=
  match a with
  | PLeaf _ => 1
  | PParen a => 2 + psize a
  | PPre _ _ c | PSuf _ _ c => 1 + psize c
  | PBin _ _ l r => 1 + psize l + psize r
  | PTern _ _ _ a b c => 2 + psize a + psize b + psize c
  end.

Lemma read_mono : forall f eo ts acc x, read f eo ts acc = Some x -> forall f', f <= f' -> read f' eo ts acc = Some x.
Proof.
  induction f as [|f IH]; intros eo ts acc x H f' Hle; [discriminate|].
  destruct f' as [|f']; [lia|]. assert (Hle' : f <= f') by lia.
  simpl in *. destruct eo.
  - destruct ts as [|t r]; try discriminate. destruct t; try discriminate.
    + eapply IH; eauto.
    + eapply IH; eauto.
    + destruct (read f true r []) as [[inner r1]|] eqn:E; try discriminate.
      rewrite (IH _ _ _ _ E _ Hle').
      destruct r1 as [|t1 r1]; try discriminate. destruct t1; try discriminate.
      destruct (reduce_all V bpre bsuf bbin btern (length inner) tbl inner); try discriminate.
      eapply IH; eauto.
  - destruct ts as [|t r]; auto. destruct t; auto; eapply IH; eauto.
Qed.

(* the reader reconstructs the frontier of the flat view; a follow token that is not a suffix/binary operator stops it *)
Definition stops (rest:list tok) : Prop :=
  match rest with [] => True | TRp :: _ => True | _ => False end.

Lemma read_after_stop f rest acc : stops rest -> read (S f) false rest acc = Some (acc, rest).
Proof. intros H. simpl. destruct rest as [|t r]; auto. destruct t; simpl in H; try contradiction; auto. Qed.


Definition reads (eo:bool) (ts:list tok) (acc:list item) (x:list item * list tok) : Prop :=
  exists f, read f eo ts acc = Some x.

Lemma reads_step_pre o tv r acc x : reads true r (acc ++ [(tv, Some o)]) x -> reads true (TPre o tv :: r) acc x.
Proof. intros [f H]. exists (S f). exact H. Qed.
Lemma reads_step_atom v r acc x : reads false r (acc ++ [(v, None)]) x -> reads true (TAtom v :: r) acc x.
Proof. intros [f H]. exists (S f). exact H. Qed.
Lemma reads_step_suf o tv r acc x : reads false r (acc ++ [(tv, Some o)]) x -> reads false (TSuf o tv :: r) acc x.
Proof. intros [f H]. exists (S f). exact H. Qed.
Lemma reads_step_bin o tv r acc x : reads true r (acc ++ [(tv, Some o)]) x -> reads false (TBin o tv :: r) acc x.
Proof. intros [f H]. exists (S f). exact H. Qed.
Lemma reads_step_paren r inner r' v acc x :
  reads true r [] (inner, TRp :: r') ->
  reduce_all V bpre bsuf bbin btern (length inner) tbl inner = Some v ->
  reads false r' (acc ++ [(wrap v, None)]) x -> reads true (TLp :: r) acc x.
Proof. intros [f1 H1] Hr [f2 H2]. exists (S (max f1 f2)). simpl.
  rewrite (read_mono _ _ _ _ _ H1 (max f1 f2)) by lia. rewrite Hr.
  apply (read_mono _ _ _ _ _ H2). lia. Qed.

Lemma size_le_frontier (e:ast V) : size V e < length (frontier V tbl e).
Proof. induction e; simpl; repeat rewrite app_length; simpl; repeat rewrite app_length; simpl; lia. Qed.

Lemma read_tokens : forall a, pwf a -> forall rest acc x,
  reads false rest (acc ++ frontier V tbl (flat a)) x -> reads true (tokens a ++ rest) acc x.
Proof.
  induction a as [v|a IH|k tv c IH|k tv c IH|k tv l IHl r IHr|k tv0 tv1 a IHa b IHb c IHc];
    simpl; intros Hwf rest acc x H.
  - apply reads_step_atom. exact H.
  - destruct Hwf as [Hp Hw].
    eapply reads_step_paren with (inner := frontier V tbl (flat a)) (v := peval a).
    + rewrite <- app_assoc. apply IH; auto. simpl.
      exists 1. reflexivity.
    + rewrite <- eval_flat. apply T1_reduce; auto. pose proof (size_le_frontier (flat a)). lia.
    + exact H.
  - apply reads_step_pre. apply IH; auto. rewrite <- app_assoc. exact H.
  - rewrite <- app_assoc. apply IH; auto. simpl. apply reads_step_suf. rewrite <- app_assoc. exact H.
  - destruct Hwf as [Hl Hr]. rewrite <- app_assoc. apply IHl; auto. simpl.
    apply reads_step_bin. apply IHr; auto. rewrite <- !app_assoc. exact H.
  - destruct Hwf as (Ha & Hb & Hc). rewrite <- app_assoc. apply IHa; auto. simpl.
    apply reads_step_bin. rewrite <- app_assoc. apply IHb; auto. simpl.
    apply reads_step_bin. apply IHc; auto. repeat (rewrite <- app_assoc; simpl). repeat (rewrite <- app_assoc in H; simpl in H). exact H.
Qed.

Theorem parse_tokens : forall a rest, pwf a -> wf V tbl (flat a) -> stops rest ->
  exists f, parse_expr f (tokens a ++ rest) = Some (peval a, rest).
Proof.
  intros a rest Hp Hw Hs.
  destruct (read_tokens a Hp rest [] (frontier V tbl (flat a), rest)) as [f Hf].
  { exists 1. apply (read_after_stop 0). exact Hs. }
  exists f. unfold parse_expr. rewrite Hf.
  rewrite (T1_reduce V bpre bsuf bbin btern tbl main_inj partner_looser _ (flat a)); auto.
  - rewrite eval_flat. reflexivity.
  - pose proof (size_le_frontier (flat a)). lia.
Qed.

End Expr.

