(* The L1/L3 expression core instantiated with the tables regenerated from /repo (Generated/Tables.v). *)
From Coq Require Import List Arith Bool String.
Import ListNotations.
From MoSql Require Import Model.Infix Model.Expr Model.Fmt Proofs.TableChecks Generated.Tables.

Definition minfo := info info_tbl.
Definition mname_of := name_of name_of_tbl.
Definition mis_flat := is_flat flat_names.
Definition mfold_of := fold_of fold_tbl.
Definition mbeh := beh beh_tbl.

Definition mformat' := mformat minfo mbeh.
Definition edges_ok' := edges_okb minfo mbeh.
Definition nf' := nf minfo mfold_of.
Definition tokens' := tokens jv tbl.
Definition parse' := parse_expr jv (bpre mname_of) (bsuf mname_of) (bbin mname_of mis_flat mfold_of) (btern mname_of) wrap tbl.

Definition tables_ok : bool := fmt_tables_okb tbl info_tbl name_of_tbl flat_names fold_tbl.

(* ---- token encoding for the harness: (tag, id) ;  0 atom n | 1 prefix spelling | 2 infix spelling | 3 ( | 4 ) | 5 suffix | 9 other ---- *)
Definition show_tok (t : tok jv) : nat * nat :=
  match t with
  | TAtom _ (JA n) => (0, n)
  | TAtom _ _ => (9, 0)
  | TPre _ _ (JT s) => (1, s)
  | TBin _ _ (JT s) => (2, s)
  | TSuf _ _ (JT s) => (5, s)
  | TLp _ => (3, 0)
  | TRp _ => (4, 0)
  | _ => (9, 1)
  end.
Definition show (ts : list (tok jv)) : list (nat * nat) := map show_tok ts.

(* decode the harness's token list (the implementation's output text, tokenised) back into model tokens *)
Definition mainop (s:nat) : nat :=
  match nth_error spellings s with Some (e, _, _) => mainof tbl e | None => 0 end.
Definition unshow_tok (c : nat * nat) : tok jv :=
  match c with
  | (0, n) => TAtom jv (JA n)
  | (1, s) => TPre jv (mainop s) (JT s)
  | (2, s) => TBin jv (mainop s) (JT s)
  | (3, _) => TLp jv
  | (4, _) => TRp jv
  | (5, s) => TSuf jv (mainop s) (JT s)
  | _ => TRp jv
  end.
Definition unshow (l : list (nat * nat)) : list (tok jv) := map unshow_tok l.

Fixpoint jv_eqb (a b : jv) {struct a} : bool :=
  match a, b with
  | JA x, JA y => Nat.eqb x y
  | JT x, JT y => Nat.eqb x y
  | JC n x, JC m y => Nat.eqb n m &&
      (fix go x y := match x, y with
                     | [], [] => true
                     | a :: x', b :: y' => jv_eqb a b && go x' y'
                     | _, _ => false end) x y
  | _, _ => false
  end.

(* ---- the exclusion set, computed from the tables: (parent, slot, child) triples where the formatter leaves the child exposed
        although the parser's levels do not allow it, in some reachable precedence context ---- *)
Definition slots_of (i:opinfo) : list nat :=
  match kind i with
  | KBin => if ratom i then [0] else [0; 1]
  | KNary => [0; 1]
  | KPre | KBinNull => [0]
  | KTern => [0; 1; 2]
  end.
Definition step_precs (ps : list nat) : list nat :=
  flat_map (fun p => flat_map (fun ni => map fst (snd (mbeh (fst ni) p))) info_tbl) ps.
Fixpoint addn (l acc : list nat) : list nat :=
  match l with [] => acc | x :: t => if memn x acc then addn t acc else addn t (acc ++ [x]) end.
Fixpoint reach (fuel:nat) (ps : list nat) : list nat :=
  match fuel with O => ps | S f => reach f (addn (step_precs ps) ps) end.
Definition reach_precs : list nat := reach 6 (addn (map snd ctx_precs) []).

Definition bad_at (P:nat) (iP:opinfo) (p:nat) (s:nat) (C:nat) (iC:opinfo) : bool :=
  let sl := slot (snd (mbeh P p)) s in
  if snd sl then false else if fst (mbeh C (fst sl)) then false else negb (slot_okb iP s (lvl iC)).
Definition bad_triples : list (nat * nat * nat) :=
  flat_map (fun Pi => flat_map (fun s => flat_map (fun Ci =>
     if existsb (fun p => bad_at (fst Pi) (snd Pi) p s (fst Ci) (snd Ci)) reach_precs then [(fst Pi, s, fst Ci)] else [])
     info_tbl) (slots_of (snd Pi))) info_tbl.
