(* The L1/L3 expression core instantiated with the tables regenerated from /repo (Generated/Tables.v). *)
From Coq Require Import List Arith Bool String.
Import ListNotations.
From MoSql Require Import Model.Infix Model.Expr Model.Fmt Proofs.TableChecks Generated.Tables.

Definition minfo := info info_tbl.
Definition mname_of := name_of name_of_tbl.
Definition mis_flat := is_flat flat_names.
Definition mfold_of := fold_of fold_tbl.
Definition mbeh := beh beh_tbl.

Definition mformat' := mformat minfo mbeh.
Definition edges_ok' := edges_okb minfo mbeh.
Definition nf' := nf minfo mfold_of.
Definition tokens' := tokens jv tbl.
Definition parse' := parse_expr jv (bpre mname_of) (bsuf mname_of) (bbin mname_of mis_flat mfold_of) (btern mname_of) wrap tbl.

Definition tables_ok : bool := fmt_tables_okb tbl info_tbl name_of_tbl flat_names fold_tbl.

(* ---- token encoding for the harness: (tag, id) ;  0 atom n | 1 prefix spelling | 2 infix spelling | 3 ( | 4 ) | 5 suffix | 9 other ---- *)
Definition show_tok (t : tok jv) : nat * nat :=
  match t with
  | TAtom _ (JA n) => (0, n)
  | TAtom _ _ => (9, 0)
  | TPre _ _ (JT s) => (1, s)
  | TBin _ _ (JT s) => (2, s)
  | TSuf _ _ (JT s) => (5, s)
  | TLp _ => (3, 0)
  | TRp _ => (4, 0)
  | _ => (9, 1)
  end.
Definition show (ts : list (tok jv)) : list (nat * nat) := map show_tok ts.

(* decode the harness's token list (the implementation's output text, tokenised) back into model tokens *)
Definition mainop (s:nat) : nat :=
  match nth_error spellings s with Some (e, _, _) => mainof tbl e | None => 0 end.
Definition unshow_tok (c : nat * nat) : tok jv :=
  match c with
  | (0, n) => TAtom jv (JA n)
  | (1, s) => TPre jv (mainop s) (JT s)
  | (2, s) => TBin jv (mainop s) (JT s)
  | (3, _) => TLp jv
  | (4, _) => TRp jv
  | (5, s) => TSuf jv (mainop s) (JT s)
  | _ => TRp jv
  end.
Definition unshow (l : list (nat * nat)) : list (tok jv) := map unshow_tok l.

Fixpoint jv_eqb (a b : jv) {struct a} : bool :=
  match a, b with
  | JA x, JA y => Nat.eqb x y
  | JT x, JT y => Nat.eqb x y
  | JC n x, JC m y => Nat.eqb n m &&
      (fix go x y := match x, y with
                     | [], [] => true
                     | a :: x', b :: y' => jv_eqb a b && go x' y'
                     | _, _ => false end) x y
  | _, _ => false
  end.

(* ---- the exclusion set, computed from the tables: (parent, slot, child) triples where the formatter leaves the child exposed
        although the parser's levels do not allow it, in some reachable precedence context ---- *)
Definition slots_of (i:opinfo) : list nat :=
  match kind i with
  | KBin => if ratom i then [0] else [0; 1]
  | KNary => [0; 1]
  | KPre | KBinNull => [0]
  | KTern => [0; 1; 2]
  end.
Definition step_precs (ps : list nat) : list nat :=
  flat_map (fun p => flat_map (fun ni => map fst (snd (mbeh (fst ni) p))) info_tbl) ps.
Fixpoint addn (l acc : list nat) : list nat :=
  match l with [] => acc | x :: t => if memn x acc then addn t acc else addn t (acc ++ [x]) end.
Fixpoint reach (fuel:nat) (ps : list nat) : list nat :=
  match fuel with O => ps | S f => reach f (addn (step_precs ps) ps) end.
Definition reach_precs : list nat := reach 6 (addn (map snd ctx_precs) []).

Definition bad_at (P:nat) (iP:opinfo) (p:nat) (s:nat) (C:nat) (iC:opinfo) : bool :=
  let sl := slot (snd (mbeh P p)) s in
  if snd sl then false else if fst (mbeh C (fst sl)) then false else negb (slot_okb iP s (lvl iC)).
Definition bad_triples : list (nat * nat * nat) :=
  flat_map (fun Pi => flat_map (fun s => flat_map (fun Ci =>
     if existsb (fun p => bad_at (fst Pi) (snd Pi) p s (fst Ci) (snd Ci)) reach_precs then [(fst Pi, s, fst Ci)] else [])
     info_tbl) (slots_of (snd Pi))) info_tbl.

(* ================= C01: the parser's levels against the reference order (Spec/RefOrder.v) ================= *)
From MoSql Require Import Spec.RefOrder.
Open Scope string_scope.

Fixpoint words_eqb (a b : list string) : bool :=
  match a, b with [] , [] => true | x :: a', y :: b' => String.eqb x y && words_eqb a' b' | _, _ => false end.
Definition kind_str (e : entry) : string :=
  match e with EPre _ => "pre" | ESuf _ => "suf" | EBin _ => "bin" | ETern _ _ => "tern" end.
Definition ref_find (k : string) (ws : list string) : option (nat * string) :=
  match find (fun r => String.eqb (fst (fst (fst r))) k && words_eqb (snd (fst (fst r))) ws) ref_tbl with
  | Some r => Some (snd (fst r), snd r) | None => None end.
Definition name_str (n : nat) : string := nth n names "".
(* reference level and documented name of spelling s, when it belongs to the property's vocabulary *)
Definition ref_of_sp (s : nat) : option (nat * string) :=
  match nth_error spellings s with
  | Some (e, ws, _) => match nth_error tbl e with Some en => ref_find (kind_str en) ws | None => None end
  | None => None end.
(* every spelling of the vocabulary gets its documented name *)
Definition names_ok : bool :=
  forallb (fun i => match nth_error spellings i, ref_of_sp i with
                    | Some (_, _, Some n), Some (_, doc) => String.eqb (name_str n) doc
                    | Some (_, _, None), Some _ => false
                    | _, _ => true end) (seq 0 (List.length spellings)).
(* the flattening set is the documented one *)
Definition flatten_ok : bool :=
  forallb (fun n => existsb (String.eqb (name_str n)) ref_flatten) flat_names
  && forallb (fun s => existsb (fun n => String.eqb (name_str n) s) flat_names) ref_flatten.
(* reference level of an entry: all its vocabulary spellings must agree *)
Definition entry_ref (e : nat) : option nat :=
  let ls := flat_map (fun i => match nth_error spellings i with
                               | Some (e', _, _) => if Nat.eqb e e' then match ref_of_sp i with Some (l, _) => [l] | None => [] end else []
                               | None => [] end) (seq 0 (List.length spellings)) in
  match ls with [] => None | l :: r => if forallb (Nat.eqb l) r then Some l else Some 0 end.
Definition eslots (e : entry) : list nat :=
  match e with EPre _ | ESuf _ => [0] | EBin _ => [0; 1] | ETern _ _ => [0; 1; 2] end.
Definition edge_rule (e : entry) (s : nat) (lc lp : nat) : bool :=
  match e with
  | EPre _ | ESuf _ => Nat.leb lc lp
  | _ => match s with 0 => Nat.leb lc lp | _ => Nat.ltb lc lp end
  end.
(* (parent entry, slot, child entry) triples where the reference order lets the child stand without parentheses
   but the library's levels do not *)
Definition bad_ref_triples : list (nat * nat * nat) :=
  flat_map (fun P => match nth_error tbl P, entry_ref P with
    | Some eP, Some rP =>
        flat_map (fun s => flat_map (fun C => match entry_ref C with
             | Some rC => if edge_rule eP s rC rP && negb (edge_rule eP s C P) then [(P, s, C)] else []
             | None => [] end) (seq 0 (List.length tbl))) (eslots eP)
    | _, _ => [] end) (seq 0 (List.length tbl)).

(* boolean versions of the well-formedness premises of parse_tokens, so that they can be evaluated on concrete trees *)
Definition le_lvlb (e : ast jv) (L : nat) : bool :=
  match e with Leaf _ _ => true
  | NPre _ k _ _ | NSuf _ k _ _ | NBin _ k _ _ _ | NTern _ k _ _ _ _ _ => Nat.leb k L end.
Definition lt_lvlb (e : ast jv) (L : nat) : bool :=
  match e with Leaf _ _ => true
  | NPre _ k _ _ | NSuf _ k _ _ | NBin _ k _ _ _ | NTern _ k _ _ _ _ _ => Nat.ltb k L end.
Fixpoint wfb (e : ast jv) : bool :=
  match e with
  | Leaf _ _ => true
  | NPre _ k _ c => match nth_error tbl k with Some (EPre _) => true | _ => false end && le_lvlb c k && wfb c
  | NSuf _ k _ c => match nth_error tbl k with Some (ESuf _) => true | _ => false end && le_lvlb c k && wfb c
  | NBin _ k _ l r => match nth_error tbl k with Some (EBin _) => true | _ => false end
                      && le_lvlb l k && lt_lvlb r k && wfb l && wfb r
  | NTern _ k _ _ a b c => match nth_error tbl k with Some (ETern _ _) => true | _ => false end
                      && le_lvlb a k && lt_lvlb b k && lt_lvlb c k && wfb a && wfb b && wfb c
  end.
Definition flat' := flat jv (bpre mname_of) (bsuf mname_of) (bbin mname_of mis_flat mfold_of) (btern mname_of) wrap.
Definition peval' := peval jv (bpre mname_of) (bsuf mname_of) (bbin mname_of mis_flat mfold_of) (btern mname_of) wrap.
Fixpoint pwfb (a : past jv) : bool :=
  match a with
  | PLeaf _ _ => true
  | PParen _ a => pwfb a && wfb (flat' a)
  | PPre _ _ _ c | PSuf _ _ _ c => pwfb c
  | PBin _ _ _ l r => pwfb l && pwfb r
  | PTern _ _ _ _ a b c => pwfb a && pwfb b && pwfb c
  end.
