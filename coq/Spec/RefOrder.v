(* The reference operator order of property C01: SQLite's (https://www.sqlite.org/lang_expr.html, which keywords.py cites),
   refined by the library's own levels for IS, IN, LIKE and BETWEEN, and the documented operator names.
   Hand-written and small on purpose: this is the specification the regenerated tables are compared with.
   An entry: (kind, spelling words, reference level (smaller = tighter), documented name). *)
From Coq Require Import List String.
Import ListNotations.
Open Scope string_scope.
Open Scope list_scope.

Definition ref_tbl : list (string * list string * nat * string) := [
  (* unary prefix operators: tightest in SQLite *)
  ("pre", ["~"], 1, "binary_not"); ("pre", ["+"], 1, "pos"); ("pre", ["-"], 1, "neg");
  ("bin", ["||"], 3, "concat");
  ("bin", ["*"], 4, "mul"); ("bin", ["/"], 4, "div"); ("bin", ["%"], 4, "mod");
  ("bin", ["+"], 5, "add"); ("bin", ["-"], 5, "sub");
  (* SQLite: & and | on ONE level *)
  ("bin", ["&"], 6, "binary_and"); ("bin", ["|"], 6, "binary_or");
  ("bin", ["<"], 7, "lt"); ("bin", ["<="], 7, "lte"); ("bin", [">"], 7, "gt"); ("bin", [">="], 7, "gte");
  ("bin", ["="], 8, "eq"); ("bin", ["=="], 8, "eq"); ("bin", ["!="], 8, "neq"); ("bin", ["<>"], 8, "neq");
  (* the library's own levels, between the = family and NOT, in the library's order *)
  ("tern", ["between"], 10, "between"); ("tern", ["not"; "between"], 11, "not_between");
  ("bin", ["in"], 12, "in"); ("bin", ["not"; "in"], 13, "nin");
  ("bin", ["is"; "not"], 14, "neq"); ("bin", ["is"], 15, "eq");
  ("bin", ["like"], 16, "like"); ("bin", ["ilike"], 17, "ilike");
  ("bin", ["not"; "like"], 18, "not_like"); ("bin", ["not"; "ilike"], 19, "not_ilike");
  ("bin", ["rlike"], 20, "rlike"); ("bin", ["not"; "rlike"], 21, "not_rlike");
  ("pre", ["not"], 30, "not");
  ("bin", ["and"], 31, "and");
  ("bin", ["or"], 32, "or")
].

(* chains of these operators are flattened into one n-ary node *)
Definition ref_flatten : list string := ["add"; "mul"; "and"; "or"; "concat"; "binary_and"; "binary_or"].
