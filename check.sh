#!/bin/bash
# ./check.sh <property id> <quick|thorough|replay> [replay file]
# Runs the check of one property against /repo's current working tree.
cd "$(dirname "$0")" || exit 2
export PYTHONPATH=/repo:/verif/harness
export PYTHONHASHSEED=0
export PYTHONDONTWRITEBYTECODE=1
export MO_SQL_PARSING_VERIF=1
ID="$1"; TIER="${2:-${VERIF_TIER:-quick}}"; shift; shift
exec /venv/bin/python -X faulthandler /verif/harness/check.py "$ID" "$TIER" "$@"
