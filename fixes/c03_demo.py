import sys
from mo_sql_parsing import parse, format
bad = 0
for sql in ["insert into t2 (c1) values (f(c3))",
            "select a from t join u on false",
            "select a from t join u on 0",
            "select a from t, u join v on x"]:
    t = parse(sql)
    s = format(t)
    try:
        t2 = parse(s)
    except Exception as e:
        t2 = "rejected: %s" % type(e).__name__
    if t2 != t:
        bad += 1
        print("ROUND TRIP FAILS:", sql, "->", s, "->", t2)
sys.exit(1 if bad else 0)
