# demonstration for the fix (follow-up of 28034a0): the joined WITH lists keep the normal_op shape of a sole argument (C12)
from mo_sql_parsing import parse, normal_op
t = parse("with a as (select f(x)) (with b as (select 1) select 2)", calls=normal_op); print(t)
raise SystemExit(0 if t["with"][0]["value"]["select"]["value"] == {"op": "f", "args": ["x"]} else 1)
