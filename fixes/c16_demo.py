import sys, threading, time; sys.path.insert(0,'/repo'); sys.setswitchinterval(1e-6)
import mo_sql_parsing as M
stop=False
def fmt():
    while not stop:
        try: M.format({'select': {'value': 'a b'}, 'from': 'order'})
        except Exception as e: pass
ts=[threading.Thread(target=fmt) for _ in range(3)]
[t.start() for t in ts]
time.sleep(0.2)
bad=0
for f,n in ((M.parse,'c'),(M.parse_mysql,'m'),(M.parse_sqlserver,'s'),(M.parse_bigquery,'b')):
    for ac in (None,'*'):
        try: f("select a from t", all_columns=ac)
        except Exception as e: bad+=1; print(n,ac,type(e).__name__, e, '<-', repr(e.__cause__)[:100])
stop=True; [t.join() for t in ts]
print("cold parse failures:", bad, "of 8")
