# demonstration for three formatter fixes: WITHIN GROUP before OVER, OVER <window name>, NULLS FIRST / LAST (C20, C03)
from mo_sql_parsing import parse, format
bad = 0
for q in ["select percentile_cont(0.5) within group (order by x) over (partition by a) as p from t", "select sum(x) over w as s from t", "select a from t order by b desc nulls first", "select rank() over (order by c nulls last) from t"]:
    t = parse(q); f = format(t); print(f)
    try:
        bad += parse(f) != t
    except Exception as e:
        print("   does not parse back:", str(e)[:60]); bad += 1
raise SystemExit(1 if bad else 0)
