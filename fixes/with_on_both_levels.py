# demonstration for the fix: WITH before a parenthesised query that has its own WITH keeps both (C05, C02)
from mo_sql_parsing import parse
t = parse("with x as (select 1) (with y as (select 2) select b from y)"); print(t)
raise SystemExit(0 if [w["name"] for w in t["with"]] == ["x", "y"] else 1)
