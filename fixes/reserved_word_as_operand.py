# demonstration for the fix: a reserved word is not accepted where a value is expected (C14)
from mo_sql_parsing import parse
bad = 0
for q in ["select a from t where a = and", "select a from t group by having", "select a from t where a like like", "select distinct from t"]:
    try:
        print(q, "->", parse(q)); bad += 1
    except Exception as e:
        print(q, "-> rejected:", type(e).__name__)
print(parse("select pivot from t"), parse("select a from t where a = 1 and b"))
raise SystemExit(1 if bad else 0)
