# demonstration for the fix: format() of a FETCH clause (C03)
from mo_sql_parsing import parse, format
bad = 0
for q in ["select a from t fetch first 5 rows only", "select a from t order by a offset 3 rows fetch next 7 rows only"]:
    t = parse(q)
    try:
        f = format(t)
        ok = parse(f) == t
    except Exception as e:
        f, ok = repr(e), False
    print(q, "->", f, "round trip:", ok)
    bad += not ok
raise SystemExit(1 if bad else 0)
