# demonstration for the fix: commit b56412d (format writes WITH TIES / PERCENT of a TOP clause).
# Fails (exit 1) on the tree before the fix, passes (exit 0) after it.  Run: PYTHONPATH=/repo /venv/bin/python fixes/top_with_ties.py
import sys
from mo_sql_parsing import parse, format

bad = 0
for sql in ("select top 5 with ties a from t order by a", "select top 5 percent with ties a from t", "select top f(x) with ties * from t", "select top 5 a from t", "select top 5 percent a from t"):
    tree = parse(sql)
    try:
        text = format(tree)
        back = parse(text)
    except Exception as e:
        print("FAIL", sql, "->", repr(e)); bad += 1; continue
    if back != tree:
        print("FAIL", sql, "->", text, "->", back); bad += 1
    else:
        print("ok  ", sql, "->", text)
sys.exit(1 if bad else 0)
