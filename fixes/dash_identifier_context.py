# demonstration for the fix: a dash belongs to a name only between two name characters (C18, C09)
from mo_sql_parsing import parse, parse_mysql, parse_bigquery, parse_sqlserver
bad = 0
for q in ["select a-(b) from t", "select a-\nb from t", "select a-'x' from t", "select total-\tdiscount from t"]:
    rs = []
    for P in (parse, parse_mysql, parse_sqlserver, parse_bigquery):
        try:
            rs.append(str(P(q)))
        except Exception as e:
            rs.append("rejected: " + str(e)[:50])
    print(repr(q), rs[0] if len(set(rs)) == 1 else rs)
    bad += len(set(rs)) != 1
raise SystemExit(1 if bad else 0)
