# demonstration for the fix: several name => value parameters (C05)
from mo_sql_parsing import parse
t = parse("select f(a => 1, b => 2) from t")
print(t)
raise SystemExit(0 if t == {"select": {"value": {"a": 1, "b": 2, "f": {}}}, "from": "t"} else 1)
