# demonstration for the fix: WITH inside a parenthesised query (C05)
from mo_sql_parsing import parse
bad = 0
for q in ["(with b as (select 1 as x) select x from b)", "create table t as (with b as (select 1 as x) select x from b)"]:
    t = parse(q)
    ok = "'with'" in str(t)
    print(q, "->", t, "kept" if ok else "DROPPED")
    bad += not ok
raise SystemExit(1 if bad else 0)
