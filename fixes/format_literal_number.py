# demonstration for the fix: format of {"literal": <number or bool>} and of the {op: {column: value}} form with a number (C06)
from mo_sql_parsing import parse, format
a = format({"select": {"value": "a"}, "from": "t", "where": {"eq": {"x": 5}}}); b = format({"select": {"value": {"literal": 5}}}); print(a, "|", b)
raise SystemExit(0 if parse(a)["where"] == {"eq": ["x", 5]} and parse(b) == {"select": {"value": 5}} else 1)
