# demonstration for the fix: ON / OFF of an EXPLAIN option in any letter case (C09)
from mo_sql_parsing import parse
a = parse("explain (analyze on) select 1"); b = parse("EXPLAIN (ANALYZE ON) SELECT 1"); print(a, b)
raise SystemExit(0 if a == b and parse("EXPLAIN ANALYZE OFF SELECT 1") == parse("explain analyze off select 1") else 1)
