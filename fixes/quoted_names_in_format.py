# demonstration for the fix: format quotes the CTE name, the qualifier of .*, and the table of DELETE / INSERT (C07, C03)
from mo_sql_parsing import parse, format
bad = 0
for q in ['with "my cte" as (select 1) select * from "my cte"', 'select "my t".* from "my t"', 'delete from "my t" where a = 1', 'insert into "my t" values (1, 2)', 'insert into "order" (a) select 1']:
    t = parse(q); f = format(t); print(f.replace("\n", " "))
    try:
        bad += parse(f) != t
    except Exception as e:
        print("  does not parse back:", str(e)[:80]); bad += 1
raise SystemExit(1 if bad else 0)
