# demonstration for the fix: the targets of FETCH cursor INTO are recorded (C05)
from mo_sql_parsing import parse
t = parse("fetch xc1 into xv2, xv3"); print(t)
raise SystemExit(0 if t == {"fetch": "xc1", "into": ["xv2", "xv3"]} else 1)
