# demonstration for the fix: format() of INSERT ... VALUES without a column list (C03)
from mo_sql_parsing import parse, format
bad = 0
for q in ["insert into t1 values ('a2', 5.5), ('a9', 'a2')", "insert into t values (1, 2), (3, 4)"]:
    t = parse(q)
    f = format(t)
    try:
        ok = parse(f) == t
    except Exception as e:
        ok = False
    print(q, "->", f.replace("\n", " "), "round trip:", ok)
    bad += not ok
raise SystemExit(1 if bad else 0)
