import sys, json; sys.path.insert(0,'/repo')
from mo_sql_parsing import parse, normal_op
def show(*a, **k):
    try:
        r=parse(*a, **k); 
        try: print(json.dumps(r))
        except Exception as e: print('NOT JSON', r, e)
    except Exception as e: print('EXC', type(e).__name__, e)
show("select f(null) from t", calls=normal_op)
show("select f(null) from t", calls=normal_op, null=None)
show("select f(null) from t", fmap={'f':'g'})
show("select f(null) from t", fmap={'f':'g'}, null=0)
show("select f(null, 1) from t", calls=normal_op, null=0)
show("select f(null) from t", calls=lambda op,args,kwargs: {'o':op,'a':args,'k':kwargs}, null=0)
show("select f(null) from t")
show("select f(null) from t", null=3)
