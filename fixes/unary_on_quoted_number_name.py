# demonstration for the fix: a quoted name that reads as a number is still a name under unary minus / plus (C07)
from mo_sql_parsing import parse
a, b = parse('select -"1" from t'), parse('select +"1e3" from t')
print(a, b)
raise SystemExit(0 if a["select"]["value"] == {"neg": "1"} and b["select"]["value"] == {"pos": "1e3"} else 1)
