# demonstration for the fix: CREATE SCHEMA / INDEX OR REPLACE returns plain JSON (C08, C19)
import json
from mo_sql_parsing import parse
try:
    a = json.dumps(parse("create schema or replace s")); b = json.dumps(parse("create index or replace i on t (a)")); print(a, b)
    raise SystemExit(0 if json.loads(a) == {"create_schema": {"replace": True, "name": "s"}} else 1)
except TypeError as e:
    print("not JSON:", e); raise SystemExit(1)
