# demonstration for two fixes: MERGE ... WHEN MATCHED AND <condition>, and DATE / TIMESTAMP <keyword> (C14: no non-parse exception)
from mo_sql_parsing import parse
bad = 0
for q in ["MERGE INTO t USING s ON t.a=s.a WHEN MATCHED AND s.x=1 THEN DELETE", "select date today", "select timestamp now"]:
    try:
        print(q, "->", parse(q))
    except Exception as e:
        print(q, "-> raised", type(e).__name__); bad += 1
raise SystemExit(1 if bad else 0)
