# demonstration for the fix: a type parameter 0 is kept by format (C03)
from mo_sql_parsing import parse, format
t = parse("select cast(a as timestamp(0)) from t")
f = format(t); print(f)
raise SystemExit(0 if parse(f) == t else 1)
