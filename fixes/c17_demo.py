import sys; sys.path.insert(0,'/repo')
from mo_sql_parsing import parse
r=parse("select null from t"); r['select']['value']['x']=1
print(parse("select null from t"))
r=parse("select * from t"); print(r); r['select']['all_columns']['x']=1
print(parse("select * from u"))
r=parse("delete from t"); print(r)
r2=parse("select f() from t"); r2['select']['value']['f']['k']=2; print(parse("select g() from t"))
r3=parse("select now from t"); print(r3)
