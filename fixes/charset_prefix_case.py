# demonstration for the fix: the character-set introducer of a string is case-insensitive, so format's _UTF8'a' parses back (C06, C03)
from mo_sql_parsing import parse, format
t = parse("select _utf8'a'"); f = format(t); print(f)
raise SystemExit(0 if parse(f) == t else 1)
