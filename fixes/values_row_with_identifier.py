# demonstration for the fix: a VALUES row holding an identifier that contains the word literal (C06 / C14: no non-parse exception)
from mo_sql_parsing import parse
t = parse("INSERT INTO t (a, b) VALUES (1, 'x'), (2, is_literal)"); print(t)
raise SystemExit(0)
