# demonstration for the fix: STRUCT(<one bare column>) keeps the whole name (C05)
from mo_sql_parsing import parse
t = parse("select struct(xab1) from t"); print(t)
raise SystemExit(0 if t["select"]["value"] == {"create_struct": "xab1"} else 1)
