# demonstration for the fix: a tail after a parenthesised query (C05 / C02)
from mo_sql_parsing import parse
bad = 0
for q, key, val in [("(select a from t) limit 5", "limit", 5), ("(select a from t) order by a", "orderby", {"value": "a"}), ("(select a from t) offset 3", "offset", 3)]:
    t = parse(q)
    ok = t.get(key) == val
    print(q, "->", t, "kept" if ok else "DROPPED")
    bad += not ok
assert parse("(select a from t)") == parse("select a from t")
raise SystemExit(1 if bad else 0)
