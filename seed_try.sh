#!/bin/bash
# usage: ./seed_try.sh <seed name> [VERIF_SEED]   apply one seeded change, run its property's quick check, undo; prints the VIOLATION lines
cd "$(dirname "$0")"
d=seeded/$1; pid=$(python3 -c "import json; print(json.load(open('$d/meta.json'))['breaks_property'])")
git -C /repo status --short | grep -q . && { echo "/repo is not clean"; exit 2; }
git -C /repo apply /verif/$d/patch.diff || exit 3
VERIF_SEED=${2:-0} ./check.sh $pid quick 2>&1 | grep -E "^VIOLATION|^OK" | head -${3:-4}
git -C /repo checkout -- .
