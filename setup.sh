#!/bin/bash
# Build the Coq development from files on disk (offline).  Generated tables come from /repo's working tree.
set -e
cd "$(dirname "$0")"
export PYTHONPATH=/repo:/verif/harness PYTHONHASHSEED=0 PYTHONDONTWRITEBYTECODE=1
mkdir -p .work evidence replays coq/Generated
if [ -f harness/regen.py ]; then /venv/bin/python harness/regen.py; fi
cd coq
coq_makefile -f _CoqProject -o Makefile > /dev/null
timeout 3000 make -j"$(nproc)" 2>&1 | tail -n 40
echo "setup done"
