#!/bin/bash
# run every claimed check once (quick) on the current tree; summary lines only.  usage: ./run_all.sh [seed] [tier]
cd "$(dirname "$0")"
export VERIF_SEED=${1:-0}
TIER=${2:-quick}
for id in $(python3 -c "import json; print(' '.join(c['property_id'] for c in json.load(open('MANIFEST.json'))['checks']))"); do
  out=$(./check.sh $id $TIER 2>&1); rc=$?
  echo "$id rc=$rc $(echo "$out" | grep -c '^VIOLATION') violations | $(echo "$out" | grep '^OK\|^VIOLATION' | head -2 | cut -c1-160 | tr '\n' ' ')"
done
