#!/usr/bin/env python3
# Writes /verif/MANIFEST.json from the table below (kept here so the manifest stays valid and consistent).
import json, os
CLAIMED = {
 "C02": dict(technique="Coq proof over a model of the set-operation fold and clause assembly (Model/Clause.v): the fold over every chain of operands and operators equals the left-nested specification; tied by differential execution of the fold model on the operand/operator chains of generated queries, plus an expected-tree query generator",
             text="Theorems in Props/C02.v (union fold = left-nested spec for every chain; same-operator flattening only on the left spine; parenthesised operands opaque). Generator builds SELECT / FROM / JOIN / WHERE / GROUP BY / HAVING / ORDER BY / LIMIT / OFFSET / FETCH / CTE / set-operation queries together with the tree the property requires and compares with parse under all entry points",
             design="6/C02", note="Partial: clause assembly inside one SELECT is decided by the generator oracle against hand-stated expected shapes; the theorem covers the set-operation fold and the tail clauses' attachment"),
 "C19": dict(technique="Coq proof over a model of the INSERT pairing (Model/Ddl.v: zip of the column list with every row, rows in order, round trip back to rows) with a refutation theorem for unequal lengths; tied by differential execution of the model on generated INSERT statements, plus an expected-tree DDL/DML generator",
             text="Theorems C19_insert_pairing, C19_row_recoverable, C19_rows_in_order, C19_truncation_refuted (Props/C19.v). Generator: CREATE TABLE (35 types x 13 options x table constraints), INSERT / REPLACE (with / without column list, literal and general rows), UPDATE, DELETE, DROP, CREATE VIEW / INDEX with the tree the property requires",
             design="6/C19", note="Partial: CREATE TABLE / UPDATE / DELETE shapes are decided by the generator oracle; the theorems cover the INSERT ... VALUES pairing. Rows whose length differs from the column list are a listed finding (zip truncates)"),
 "C20": dict(technique="Coq proof over a model of the window frame calls (_to_bound_call / _to_between_call) and the formatter's frame rendering: recorded frame = specification, rendered frame parses back; tied by differential execution on all bound pairs and generated OVER clauses",
             text="Theorems in Props/C20.v (recorded = spec for every bound pair; rendered round trip for every well-formed frame). Oracle: every (mode, bound, bound) combination with integer / expression limits, PARTITION BY / ORDER BY lists, named windows and WITHIN GROUP, parsed and formatted",
             design="6/C20", note="Partial: the listed findings (expression bound following, min>max frames) are pinned by witness; the expression inside a bound is opaque to the model"),
 "C08": dict(technique="Coq proof over a model of scrub/simple_op/normal_op (all raw trees), tied by differential execution of the model (vm_compute) on captured raw parse results",
             text="Theorems C08_plain_json / C08_simplified_simple / C08_simplified_normal (Props/C08.v) hold for every raw parse tree, callback mode, rename map and null value; "
                  "the model is re-validated against utils.scrub + the substitution loop on every run on thousands of captured raw results, and the raw results are checked to lie in the modelled universe",
             design="6/C08", note="Trusted: Coq kernel + vm_compute; the dump of ParseResults observations (truthiness, items(), iteration) is computed by the real engine; statement generator coverage bounds the correspondence"),
 "C11": dict(technique="Coq proof that the recorded NULL slots (as paths) are exactly the marker positions, for every raw tree / callback mode / rename map; tied by differential execution of the model on captured raw results plus a sentinel-substitution oracle",
             text="Theorems C11_null_is_substitution / C11_any_two_nulls (Props/C11.v): the substitution loop over the recorded slots equals replacing every marker, for every raw tree under simple_op, normal_op and a custom callback and every fmap, given duplicate-free keys and no operator/kwarg-name collision (premise evaluated on every captured raw result). "
                  "The model is re-validated against utils.scrub + _parse on every run; the direct oracle compares parse(null=X) with substitute(parse(null=sentinel), X) for 7 values of X over the option matrix",
             design="6/C11", note="Trusted: Coq kernel + vm_compute; ParseResults observations computed by the real engine; NULL foldings (missing/exists) happen in parse actions before scrub and are covered by the oracle only"),
 "C12": dict(technique="Coq proofs normal_to_simple and fmap_is_rename over the scrub model (all raw trees), tied by differential execution of the model on captured raw results plus direct to_simple/rename oracles",
             text="Theorems C12_normal_to_simple, C12_normal_shape, C12_fmap_is_rename (Props/C12.v) for every raw tree without fake call-shaped dicts (premise measured per run); model re-validated against the implementation under simple_op/normal_op/fmap on every run; "
                  "oracle: to_simple(parse(calls=normal_op)) == parse(), normal-form shape, parse(fmap=m) == rename for single renames and swaps, crossed with null and all_columns",
             design="6/C12", note="Trusted: Coq kernel + vm_compute; the reading that to_simple puts the operator key last (dict equality is order-insensitive in Python)"),
 "C01": dict(technique="Coq proof (T1_reduce / parse_tokens) over a model of the engine's infix reducer and to_json_operator, instantiated with KNOWN_OPS / spellings / names regenerated from /repo; obligations by vm_compute against the reference order; differential execution model vs parser; SQLite value vectors validate the spec",
             text="Theorem C01_parse_is_tree (Props/C01.v): every parenthesised operator tree of any depth whose parenthesis-free regions obey the library's edge rule is read and reduced to exactly its own tree (nesting, left association, n-ary flattening, operand order, names), for the regenerated table; C01_names / C01_flatten_set compare the regenerated names and flattening set with Spec/RefOrder.v; "
                  "the obligation that every (parent, slot, child) where the reference order omits parentheses is accepted by the library's levels is evaluated on every run and must be covered by the listed findings; the model is differential-tested against parse on thousands of token strings (including garbage)",
             design="6/C01", note="Trusted: Coq kernel + vm_compute; extraction of the infix table from the live parser (harness/extract_tables.py); the abstract token/atom encoding (atoms are identifiers and NULL; calls/CASE/CAST are opaque atoms); Spec/RefOrder.v as the reading of the reference order (local precedence rule)"),
 "C04": dict(technique="Coq proof format_then_parse (formatter model -> parenthesised token tree -> reader/reducer), generic in tables regenerated from /repo (precedence, KNOWN_OPS, every renderer's behaviour probed over the finite precedence domain); exclusion set computed by vm_compute; differential execution of formatter and parser models",
             text="Theorem C04_format_then_parse (Props/C04.v): for every tree in normal form over the formatter's infix vocabulary, of any depth, whose edges pass the decidable check edges_ok', and every context precedence, parsing the formatter's tokens returns exactly the tree. The set of (parent, slot, child) triples violating the edge condition is recomputed from the tables on every run and must be covered by the listed findings; "
                  "a new triple is concretised (depth-2 tree and all one-level contexts in 5 clause positions) and replayed. Model formatter tokens and model parser are compared with the implementation on every run (exhaustive depth 2, random to depth 5)",
             design="6/C04", note="Trusted: Coq kernel + vm_compute; behaviour probing of Formatter methods with a recording dispatch (assumes a renderer's parenthesisation depends only on the context precedence); atoms abstract; SQLite value comparison for C04 is not built (structural round trip only)"),
 "C03": dict(technique="Coq proof parse_format_parse (composition of the reader/reducer theorem and the formatter theorem on the parser's own output) for the expression core; statement level by round-trip oracle with hazard-feature classification and a corpus baseline",
             text="Theorem C03_parse_format_parse (Props/C03.v): for every written expression obeying the library's edge rule whose parse tree is in the formatter's normal form and passes edges_ok', format's tokens parse back to exactly that tree in every context (fixed point). "
                  "Statement level (queries, set operations, CTEs, windows, INSERT, DELETE) is decided by the round-trip oracle: a generated or baseline corpus statement whose tree carries none of the listed hazard features must round-trip, format must not raise, and formatting the re-parsed tree must give the same text",
             design="6/C03", note="Partial: the clause-level formatter (clause order, joins, set operations, windows, DML) is not modelled in Coq; it is reached by the oracle only. Trusted as for C01/C04."),
 "C05": dict(technique="Coq proof that the reducer and to_json_operator keep every operand (leaves_kept, on top of the engine-level theorem), model tied by differential execution; atom-substitution oracle on corpus and generated statements",
             text="Theorem C05_operands_kept (Props/C05.v): for every operator tree obeying the library's edge rule, every atom written in the text (other than a bare NULL that is folded) occurs in the returned tree. "
                  "Statement level: every identifier / number / string occurrence (independent lexer) of every accepted corpus and generated statement is replaced by a fresh atom; if still accepted the fresh atom must be in the tree; losses must match a listed finding by syntactic pattern",
             design="6/C05", note="Partial: scrub and the clause-shaping parse actions are covered by the oracle and by the C08/C11 correspondence, not by a leaf-preservation theorem."),
 "C10": dict(technique="Coq proofs: two parenthesisations of one operator tree parse alike (from parse_tokens), and scrub makes a named wrapper transparent (wrapper_transparent, all callback modes); one-expression-grammar fact extracted from the live parser; position x parenthesis oracle",
             text="Theorems C10_parentheses_inert and C10_wrapper_transparent (Props/C10.v). Every generated expression is embedded in 17 syntactic positions, bare / with redundant parentheses at every node / wrapped, and the subtree at the position's path must be identical everywhere; the translator fails closed if the built parser contains more than one infix table (a clause with its own expression grammar)",
             design="6/C10", note="Partial: the per-position wrappers (select_column / to_select_call, sort_column, one_param ...) are not individually modelled; their transparency is the oracle's job. The three documented literal foldings are excluded by the generator."),
 "C15": dict(technique="Coq proof history_independence over an API state machine whose per-line effect list is extracted from the AST of __init__.py on every run (shape obligation by vm_compute); purity premise checked on the live grammar graphs; fresh-process history differential",
             text="Theorems C15_history_independence / C15_result_is_function_of_arguments (Props/C15.v): for every pure grammar-matching function, every history and every call, the result is the pure function spec of the call's arguments (the same parse_result as C08/C11/C12). The obligation shape_okb parse_shape is re-evaluated on the extracted shape; C15_stale_reset_refuted shows what a missing reset does. "
                  "The purity premise is checked by re-walking every already built parser graph after each later build (several first-creation orders); histories (pairs, random short and long sequences over a 40-call alphabet) run in fresh interpreters and every step is compared with the single-call result",
             design="6/C15", note="Trusted: Coq kernel; the AST pattern translator (fails closed on unrecognised statements); grammar matching as a Section variable (purity is what the graph check and the differential test)"),
 "C16": dict(technique="Coq: all entry points locked (extracted shape, vm_compute) + any serial order gives solo results (corollary of history independence) + refuted interleaving for an unlocked entry point; thread stress and deterministic victim/intruder schedule replay against fresh-process results",
             text="Theorems C16_all_entry_points_locked, C16_any_serial_order, C16_unlocked_refuted (Props/C16.v). Stress: 2-8 threads in fresh interpreters, barrier start, switch interval 1e-6, cold and warm, first calls on different dialects; replay: for all 16 ordered (victim, intruder) pairs the intruder is scheduled between the victim's match and its scrub; every result is compared with the call's solo result, and every thread must finish",
             design="6/C16", note="Partial: mutual exclusion of threading.Lock, the GIL and the engine's own RLock are runtime behaviour that the model takes as given (a locked call is atomic); pre-emption points inside a call are explored by the stress run only"),
 "C17": dict(technique="Coq proof over the API machine with a heap of returned trees: a call writes only into trees it allocates itself and its result does not depend on the heap; AST obligations (fresh default NULL, no write through the formatter's argument); identity / mutate-and-reparse / snapshot oracle",
             text="Theorems C17_earlier_results_untouched, C17_mutation_cannot_leak, C17_fresh_default_null, C17_formatter_does_not_write (Props/C17.v). Oracle: no container of a result is shared with an earlier result, a module-level object or another place of the same result; every container is mutated and the statement plus a probe set re-parsed; earlier results are compared with deep snapshots after later calls; format is run on snapshots",
             design="6/C17", note="Trusted: container identity is modelled by tags and paths, not by a general heap; the scan for writes in formatting.py is syntactic (assignments / mutating method calls through a parameter)"),
 "C06": dict(technique="Coq proofs over a char-level model of the string token regexes, single_literal / double_literal (including Python's evaluation of the triple-quoted literal) and decimal integers; differential execution of the model against the implementation's functions (exhaustive short strings); system-level literal oracle",
             text="Theorems C06_single_quoted, C06_double_quoted (every string without backslash / CR / NUL, of any length, decodes to itself), C06_one_token (the quoted text is exactly one token whatever it contains), C06_int_exact (integers of any magnitude) in Props/C06.v. "
                  "The model is compared with single_literal, double_literal, the live token regexes, Formatter._literal, str and parse_int on all strings to length 3-4 over a 16-symbol alphabet plus random long ones; every literal is also parsed in 5 positions x 4 entry points and formatted back",
             design="6/C06", note="Partial: floats are decided by the oracle only (float() / repr are not modelled); strings containing backslash, CR or NUL are listed findings (literal decoding goes through ast.literal_eval)"),
 "C07": dict(technique="Coq proofs over a char-level model of mo_dots.literal_field / split_field and the three quoted-identifier decoders (path round trip for any number of segments; the three styles decode alike); hazard table by probing every keyword-like terminal of the live grammar; differential execution",
             text="Theorems C07_path_segments_distinguishable (split(join(escape segs)) = segs for every list of non-empty segments without U+0008), C07_double_quoted / C07_backticked / C07_bracketed (same name from every style, for names without backslash / CR / NUL), C07_quoted_segment_one_token in Props/C07.v. "
                  "Every word-like terminal of the built grammar is formatted bare in 18 contexts x both quote characters and re-parsed; names over a 16-symbol alphabet are parsed in every style / position / dialect and placed in trees for format->parse",
             design="6/C07", note="Partial: the formatter's quoting DECISION (VALID, is_keyword) is not modelled in Coq, it is covered by the exhaustive hazard probe and the oracle; interval / top and VALID-wider-than-IDENT_CHAR are listed findings"),
 "C13": dict(technique="Coq proofs over models of the statement-list grammar, the result assembly of _parse and a regex-free transcription of parse_delimiters; differential execution against parse_delimiters and the grammar; script oracle",
             text="Theorems C13_statement_list (any separators / empty statements: the statements come back in order), C13_none_single_list, C13_empty_block_skipped in Props/C13.v; the parse_delimiters model is compared with the implementation on thousands of random scripts (directives in varied case and spacing, 6 delimiters, exotic whitespace) and many_command with the grammar on all separator/statement sequences to length 6-8; "
                  "scripts of 0-6 statements (with ';' inside literals, quoted identifiers and comments) and DELIMITER blocks must parse to the list of the individual trees",
             design="6/C13", note="Partial: no theorem about parse_delimiters beyond its executable model (the DELIMITER pre-pass ignores quoting: a listed design limitation reachable only with a directive line inside a string)"),
 "C14": dict(technique="Coq proof that the expression reader answers only balanced token strings, totality of the literal parse actions on clean tokens with refuted crash witnesses; mutation / deletion / truncation oracle with a time limit",
             text="Theorems C14_accepted_is_balanced, C14_literal_actions_total_on_clean, C14_literal_crash_refuted in Props/C14.v; the model reader is compared with the implementation on balanced, unbalanced and dangling token strings. "
                  "Oracle: for accepted statements every parenthesis / closing-quote deletion, truncation inside a bracket, dangling reserved operator or keyword, nesting to depth 25 and random token mutations across 4 dialects must give ParseException (position inside the input) or a tree, within 20 s; certainly ill-formed inputs must be rejected",
             design="6/C14", note="Partial: termination and crash-freedom of the third-party engine on arbitrary text are searched, not proved"),
}
PENDING_REASON = "check not built yet in this session (planned, see DESIGN.md section 8); not claimed until its theorem and tie exist"
ALL = ["C%02d" % i for i in range(1, 21)]

def main():
    checks = []
    for pid in ALL:
        if pid not in CLAIMED:
            continue
        c = CLAIMED[pid]
        checks.append(dict(
            property_id=pid,
            quick_cmd="./check.sh %s quick" % pid,
            thorough_cmd="./check.sh %s thorough" % pid,
            evidence_file="/verif/evidence/%s.json" % pid,
            replay_cmd_template="./check.sh %s replay {path}" % pid,
            engine="coq",
            level_claimed=dict(category="proof", text=c["text"], design_ref=c["design"]),
            level_note=c["note"],
            technique=c["technique"],
        ))
    m = dict(
        version=1,
        setup_cmd="./setup.sh",
        hooks=dict(guard="MO_SQL_PARSING_VERIF", enable="no source hooks are used; checks import /repo's working tree directly (PYTHONPATH=/repo)",
                   baseline_off_cmd="cd /repo && /venv/bin/python -m pytest -q -p no:cacheprovider --timeout=900",
                   source_commits=[], add_only=True),
        engines=[dict(name="coq", path="/verif/coq", serves_properties=[c["property_id"] for c in checks],
                      kind_free_text="Coq 8.16.1 development (models, proofs, property theorems) + Python harness (translators, correspondence, oracles)")],
        checks=checks,
        notes="Machine-checked proof in Coq; see DESIGN.md. Genuine defects repaired by fix: commits are listed in known_findings.json (fixed entries).",
        not_applicable=[dict(property_id=p, reason=PENDING_REASON) for p in ALL if p not in CLAIMED],
    )
    with open("/verif/MANIFEST.json", "w") as f:
        json.dump(m, f, indent=1)

if __name__ == "__main__":
    main()
