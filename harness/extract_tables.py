# Translator: reads /repo's live objects and source ASTs and returns the tables the Coq models are instantiated with.
# Fail-closed: anything unrecognised raises ExtractError.
import ast, inspect, json, sys
import impl
from impl import M


class ExtractError(Exception):
    pass


def find_op_lists(parser):
    """the op_list closures of every infix_notation reachable from the parser (walk of live objects)"""
    seen, found = set(), []

    def check(fn, d=0):
        if d > 4 or not getattr(fn, "__closure__", None):
            return
        fv = fn.__code__.co_freevars
        if "op_list" in fv and "num" not in fv:
            pass
        if "op_list" in fv:
            ol = fn.__closure__[fv.index("op_list")].cell_contents
            if not any(ol is x for x in found):
                found.append(ol)
            return
        for c in fn.__closure__:
            try:
                v = c.cell_contents
            except ValueError:
                continue
            if callable(v):
                check(v, d + 1)

    def walk(e):
        if id(e) in seen:
            return
        seen.add(id(e))
        for pa in getattr(e, "parse_action", None) or []:
            check(pa)
        for attr in ("expr", "exprs"):
            try:
                v = getattr(e, attr)
            except Exception:
                continue
            if v is None:
                continue
            if isinstance(v, (list, tuple)):
                for x in v:
                    walk(x)
            else:
                walk(v)

    walk(parser.element)
    return found, len(seen)


def spellings(e):
    """all word sequences an operator element can match (Literal / Keyword / And / MatchFirst / Or / Group / Suppress)"""
    cls = type(e).__name__
    if cls in ("Literal", "SingleCharLiteral", "CaselessLiteral", "Keyword", "CaselessKeyword"):
        return [[e.parser_config.match]]
    if cls == "And":
        acc = [[]]
        for c in e.exprs:
            acc = [a + b for a in acc for b in spellings(c)]
        return acc
    if cls in ("MatchFirst", "Or"):
        acc = []
        for c in e.exprs:
            acc += spellings(c)
        return acc
    if cls in ("Group", "Suppress", "TokenConverter"):
        return spellings(e.expr)
    raise ExtractError("operator element of unknown class %s (%s)" % (cls, e))


def expression_oplist(dialect="common_parser"):
    from mo_parsing.infix import LEFT_ASSOC, RIGHT_ASSOC
    impl.build_all()
    P = M.lookup_parsers[dialect][None]
    found, nodes = find_op_lists(P)
    cands = [ol for ol in found if len(ol) > 20]
    if len(cands) != 1:
        raise ExtractError("expected exactly one expression infix table, found %d" % len(cands))
    ol = cands[0]
    opids = {}

    def oid(o):
        return opids.setdefault(id(o), len(opids))

    entries = []
    for idx, (expr, op, sup, arity, assoc, pa) in enumerate(ol):
        if arity == 1:
            kind = "pre" if assoc is RIGHT_ASSOC else "suf"
        elif arity == 2:
            if assoc is not LEFT_ASSOC:
                raise ExtractError("right-associative binary entry %d: not modelled" % idx)
            kind = "bin"
        else:
            if assoc is not LEFT_ASSOC:
                raise ExtractError("right-associative ternary entry %d" % idx)
            kind = "tern"
        if kind == "tern":
            ops = [oid(op[0]), oid(op[1])]
            try:
                sps = [spellings(op[0]), spellings(op[1])]
            except ExtractError:
                sps = None
            pname = [op[0].parser_name, op[1].parser_name]
            if sup != (False, False):
                raise ExtractError("suppressed ternary operator")
        else:
            ops = [oid(op)]
            try:
                sps = spellings(op)
            except ExtractError:
                sps = None
            pname = op.parser_name
            if sup:
                raise ExtractError("suppressed operator entry %d" % idx)
        actions = [getattr(getattr(p, "__wrapped__", p), "__name__", "?") for p in pa]
        entries.append(dict(idx=idx, kind=kind, ops=ops, spellings=sps, parser_name=pname, nactions=len(pa)))
    return entries, nodes


def probe_name(kind, words, words2=None):
    """documented name the parser gives a spelling: parse  a <sp> b  and read the key (system-level probe)"""
    sp = " ".join(words)
    if kind == "bin":
        sql = "select x1 %s x2 from t" % sp
    elif kind == "pre":
        sql = "select %s x1 from t" % sp
    elif kind == "tern":
        sql = "select x1 %s x2 %s x3 from t" % (sp, " ".join(words2))
    else:
        return None
    st, v = impl.outcome(M.parse, sql)
    if st != "ok":
        return None
    try:
        val = v["select"]["value"]
    except Exception:
        return None
    if not isinstance(val, dict) or len(val) != 1:
        return dict(odd=json.dumps(val))
    (k, args), = val.items()
    return k


def flatten_set():
    """the associative set literal in to_json_operator (`if op in {...}`), from the AST; fail closed"""
    from mo_sql_parsing import utils
    src = inspect.getsource(utils.to_json_operator)
    tree = ast.parse(src)
    sets = []
    for n in ast.walk(tree):
        if isinstance(n, ast.Compare) and len(n.ops) == 1 and isinstance(n.ops[0], ast.In) and isinstance(n.comparators[0], ast.Set):
            if isinstance(n.left, ast.Name) and n.left.id == "op":
                sets.append(sorted(ast.literal_eval(n.comparators[0])))
    if len(sets) != 1:
        raise ExtractError("to_json_operator: expected one `op in {...}` test, found %d" % len(sets))
    return sets[0]


def formatter_ops():
    """the Operator(...) closure cells of every Formatter._x"""
    from mo_sql_parsing.formatting import Formatter
    out = {}
    for k, v in vars(Formatter).items():
        if callable(v) and getattr(v, "__closure__", None) and v.__code__.co_name == "func":
            cells = dict(zip(v.__code__.co_freevars, [c.cell_contents for c in v.__closure__]))
            out[k[1:]] = dict(op=cells["op"], op_prec=cells["op_prec"], ordered=bool(cells["ordered"]))
    return out


PROBE_PRECS = None


def all_precs():
    from mo_sql_parsing.keywords import precedence
    vals = set()
    for v in precedence.values():
        vals.update([v, v + 0.5, v - 0.5])
    vals.add(100)
    return sorted(vals)


class _Stub:
    """stands in for a child during behaviour probing: records the prec it is dispatched with"""
    pass


def formatter_behaviour(names, arities, extra_precs=()):
    """For every formatter operator name and every context prec of the finite prec domain: is the rendering parenthesised as a whole,
    and with which prec / explicit parentheses is each operand rendered.  Obtained by running the real method with a recording dispatch."""
    from mo_sql_parsing.formatting import Formatter
    precs = sorted(set(all_precs()) | set(extra_precs))
    beh = {}
    for name in names:
        ar = arities[name]
        per_prec = {}
        for p in precs:
            f = Formatter()
            log = []
            kids = ["\x01K%d\x02" % i for i in range(ar)]
            real_dispatch = Formatter.dispatch

            def dispatch(json, prec=100, _log=log, _kids=kids):
                if isinstance(json, str) and json in _kids:
                    _log.append((_kids.index(json), prec))
                    return json
                return real_dispatch(f, json, prec)

            f.dispatch = dispatch
            arg = kids[0] if ar == 1 else list(kids)
            if name in ("in", "nin"):
                arg = [kids[0], {"literal": [1, 2]}]
                ar_eff = 1
            else:
                ar_eff = ar
            try:
                txt = f.op({name: arg}, p)
            except Exception as e:
                raise ExtractError("formatter method for %s raised %r at prec %s" % (name, e, p))
            slots = []
            for i in range(ar_eff):
                got = [pp for (j, pp) in log if j == i]
                if len(got) != 1:
                    raise ExtractError("formatter %s dispatches operand %d %d times" % (name, i, len(got)))
                k = kids[i]
                pos = txt.index(k)
                wrapped = pos > 0 and txt[pos - 1] == "(" and txt[pos + len(k):pos + len(k) + 1] == ")"
                slots.append((got[0], wrapped))
            t = txt.strip()
            selfp = t.startswith("(") and t.endswith(")") and not (ar_eff == 1 and slots[0][1] and t.index(kids[0]) == 1 and len(t) == len(kids[0]) + 2)
            # order of operands in the text must be the written order
            poss = [txt.index(kids[i]) for i in range(ar_eff)]
            if poss != sorted(poss):
                raise ExtractError("formatter %s reorders operands" % name)
            per_prec[p] = dict(selfp=selfp, slots=slots, text=txt.replace("\x01", "<").replace("\x02", ">"))
        beh[name] = per_prec
    return beh, precs


def extract_l1():
    from mo_sql_parsing import utils
    from mo_sql_parsing.keywords import precedence
    entries, nodes = expression_oplist()
    for e in entries:
        e["names"] = None
        if e["spellings"] is None:
            continue
        if e["kind"] == "tern":
            e["names"] = [dict(words=w, words2=w2, name=probe_name("tern", w, w2)) for w in e["spellings"][0] for w2 in e["spellings"][1]]
        elif e["kind"] in ("bin", "pre"):
            e["names"] = [dict(words=w, name=probe_name(e["kind"], w)) for w in e["spellings"]]
    return dict(entries=entries, grammar_nodes=nodes, binary_ops=dict(utils.binary_ops), flatten=flatten_set(),
                precedence=dict(precedence), formatter_ops=formatter_ops())


if __name__ == "__main__":
    t = extract_l1()
    for e in t["entries"]:
        print(e["idx"], e["kind"], e["ops"], e["parser_name"], e["names"])
    print(t["flatten"])
    print(t["formatter_ops"])
