# The call alphabet of C15 / C16 and the fresh-process driver.
import json, os, subprocess, sys

CALLS = [
    ("parse", "select a, b from t where c = null", {}),
    ("parse", "select f(null) from t", {"null": None}),
    ("parse", "select f(null), g(x, null) from t", {"calls": "normal_op"}),
    ("parse", "select f(null), g(x, null) from t", {"calls": "normal_op", "null": 0}),
    ("parse", "select * from t", {"all_columns": "*"}),
    ("parse", "select * from t", {}),
    ("parse", "select a +", {}),
    ("parse", "select 'a\\'", {}),
    ("parse", "select a+b-c", {"fmap": {"add": "plus"}}),
    ("parse", "select a+b-c", {"fmap": {"add": "sub", "sub": "add"}, "calls": "normal_op"}),
    ("parse", "select a+b-c", {}),
    ("parse_mysql", "select \"x\" from t", {}),
    ("parse_mysql", "select f(null) from `t`", {"null": "NULL"}),
    ("parse_mysql", "select \"x", {}),
    ("parse_sqlserver", "select [x] from t", {}),
    ("parse_sqlserver", "select [x] from t", {"all_columns": "*"}),
    ("parse_sqlserver", "select top 3 a from [t u]", {"calls": "normal_op"}),
    ("parse_bigquery", "select a-b from `t`", {}),
    ("parse_bigquery", "select \"s\", [1, 2] from t", {"null": {"n": 1}}),
    ("parse_bigquery", "select a from", {}),
    ("parse", "select 1; select 2", {}),
    ("parse", "select null; select f(null)", {"null": "N", "calls": "normal_op"}),
    ("parse", "select a from t", {"all_columns": "bad"}),
    ("parse", "select \"x\" from t", {}),
    ("parse", "select sum(a) over (order by b range between x preceding and current row) from t", {}),
    ("parse", "select case when a is null then null else coalesce(b, null) end from t", {}),
    ("parse", "insert into t (a, b) values (null, 1), (2, null)", {"null": None}),
    ("parse", "create table t (a int default null, b varchar(10) not null)", {}),
    ("parse", "update t set a = null where b in (1, 2)", {"calls": "normal_op"}),
    ("parse", "", {}),
    ("parse_mysql", 'create table t (a enum("x","y"), b set("p"))', {}),
    ("parse", 'create table t (a enum("x","y"))', {}),
    ("parse_bigquery", "create table t (a struct<x-y int>)", {}),
    ("parse_sqlserver", "select cast(a as varchar(10)), [b c] from t", {}),
    ("parse", "delimiter //\nselect 1//\nselect 2//", {}),
    ("format", {"select": {"value": "a b"}, "from": "select"}, {}),
    ("format", {"select": [{"value": {"add": ["a", {"mul": ["b", "c"]}]}}, {"value": {"literal": "it's"}}], "from": "t", "where": {"missing": "x"}}, {}),
    ("format", {"select": {"value": "a`b"}, "from": "t"}, {"ansi_quotes": False}),
    ("format", {"nonsense": {"x": object.__name__}}, {}),
    ("format", {"select": {"value": "order"}, "from": ["t", {"left join": "u", "on": {"eq": ["t.a", "u.a"]}}], "orderby": {"value": "a", "sort": "desc"}, "limit": 3}, {}),
    # one tree under every formatter option, one statement under other parse options: a memo keyed too coarsely shows on these
    ("format", {"select": [{"value": "order"}, {"value": "t.my col"}, {"value": "a"}], "from": "select"}, {}),
    ("format", {"select": [{"value": "order"}, {"value": "t.my col"}, {"value": "a"}], "from": "select"}, {"ansi_quotes": False}),
    ("format", {"select": [{"value": "order"}, {"value": "t.my col"}, {"value": "a"}], "from": "select"}, {"should_quote": "always"}),
    ("format", {"select": [{"value": "order"}, {"value": "t.my col"}, {"value": "a"}], "from": "select"}, {"should_quote": "never"}),
    ("parse_mysql", "select a+b-c", {}),
    ("parse", "select a+b-c", {"null": None, "all_columns": "*"}),
    # other values of all_columns than the two documented ones, next to a statement that only one of the two grammars accepts
    ("parse", "select * x from t", {"all_columns": "*"}),
    ("parse", "select * x from t", {"all_columns": True}),
    ("parse", "select * x from t", {}),
    ("parse_mysql", "select * x from t", {"all_columns": 1}),
    ("parse_mysql", "select * x from t", {"all_columns": "*"}),
    # a call inside a window frame bound is simplified while the grammar is still matching (windows._to_bound_call): it sees whatever
    # callback and rename map are installed at that moment
    ("parse", "select sum(x) over (order by d range between interval 1 day preceding and current row) from t", {}),
    ("parse", "select sum(x) over (order by d range between interval 1 day preceding and current row) from t", {"calls": "normal_op"}),
    ("parse", "select sum(x) over (order by d range between interval 1 day preceding and current row) from t", {"fmap": {"interval": "iv", "sum": "total"}}),
    ("parse_sqlserver", "select sum(x) over (order by d range between interval 1 day preceding and current row) from t", {}),
    # deeply nested input (the interpreter's recursion limit is process-wide state)
    ("parse", "select " + "(" * 75 + "1" + ")" * 75, {}),
    ("parse", "select " + "(" * 160 + "1" + ")" * 160, {}),
    ("parse", "select " + "f(" * 60 + "1" + ")" * 60, {}),
]


def related_pairs():
    """calls that share their argument and differ in options or entry point: every ordered pair of them is always run"""
    out = []
    for i, a in enumerate(CALLS):
        for j, b in enumerate(CALLS):
            if i != j and a[1] == b[1] and (a[0] == "format") == (b[0] == "format"):
                out.append((i, j))
    return out


DRIVER = r'''
import sys, json, warnings
warnings.filterwarnings("ignore")
sys.path.insert(0, "/repo")
import mo_sql_parsing as M
from mo_parsing import ParseException
calls = json.loads(sys.stdin.read())
def run(c):
    fn, arg, kw = c
    kw = dict(kw)
    if kw.get("calls") == "normal_op": kw["calls"] = M.normal_op
    if kw.get("should_quote") == "always": kw["should_quote"] = lambda s: True
    if kw.get("should_quote") == "never": kw["should_quote"] = lambda s: False
    try:
        r = getattr(M, fn)(arg, **kw)
        out = ["ok", json.loads(json.dumps(r, default=lambda o: "<<%s>>" % type(o).__name__))]
    except ParseException as e:
        out = ["pe", getattr(e, "start", None)]
    except Exception as e:
        out = ["exc", type(e).__name__]
    st = state()
    if st != STATE0:
        out.append({"process_state_changed": [STATE0, st]})
    return out
import os, decimal, locale
def state():
    return [sys.getrecursionlimit(), sys.getswitchinterval(), os.getcwd(), len(warnings.filters), str(decimal.getcontext().prec), locale.setlocale(locale.LC_ALL, None), len(os.environ)]
STATE0 = state()
print(json.dumps([run(c) for c in calls]))
'''


def fresh(seq, timeout=120):
    """run a sequence of calls in a fresh interpreter; returns the list of outcomes (one per call) or an error string"""
    env = dict(os.environ, PYTHONHASHSEED="0", PYTHONPATH="/repo")
    try:
        p = subprocess.run(["/venv/bin/python", "-c", DRIVER], input=json.dumps(seq), capture_output=True, text=True, env=env, timeout=timeout)
    except subprocess.TimeoutExpired:
        return "TIMEOUT"
    lines = p.stdout.strip().splitlines()
    if not lines:
        return "ERR " + p.stderr[-400:]
    try:
        return json.loads(lines[-1])
    except Exception:
        return "ERR " + p.stdout[-300:]
