# C05 — an accepted statement loses no identifier, number or string.
import json, re, collections
from common import *
import impl, l1, gens
from props import c01

THMS = ["C05_operands_kept"]

TOK = re.compile(r"""
   (?P<ws>\s+|--[^\n]*|\#[^\n]*|/\*.*?\*/)
 | (?P<str>(?:[nN]|_\w+)?'(?:''|[^'])*')
 | (?P<dq>"(?:""|[^"])*")
 | (?P<bt>`(?:``|[^`])*`)
 | (?P<br>\[(?:\]\]|[^\]])*\])
 | (?P<num>\d+\.\d*(?:[eE][+-]?\d+)?|\.\d+(?:[eE][+-]?\d+)?|\d+)
 | (?P<word>[A-Za-z_@$À-ƿ][A-Za-z0-9_@$À-ƿ]*)
 | (?P<op>.)
""", re.X | re.S)


def leaves(t, acc):
    if isinstance(t, dict):
        for k, v in t.items():
            acc.add(str(k).lower())
            leaves(v, acc)
    elif isinstance(t, list):
        for v in t:
            leaves(v, acc)
    elif isinstance(t, bool) or t is None:
        pass
    elif isinstance(t, (int, float)):
        acc.add(repr(abs(t)))
    else:
        acc.add(str(t).lower())
    return acc


def found(atom, kind, t):
    acc = leaves(t, set())
    if kind == "num":
        return any(a == atom or a == atom + ".0" or atom in a for a in acc)
    return any(atom.lower() in a for a in acc)


# ---- classification of a loss into the listed findings (by the syntactic pattern around the lost atom)
def enclosing_open(sql, pos):
    depth = 0
    for i in range(pos - 1, -1, -1):
        if sql[i] == ")":
            depth += 1
        elif sql[i] == "(":
            if depth == 0:
                return i
            depth -= 1
    return None


def match_close(sql, op):
    depth = 0
    for i in range(op, len(sql)):
        if sql[i] == "(":
            depth += 1
        elif sql[i] == ")":
            depth -= 1
            if depth == 0:
                return i
    return None


def classify(sql, s, e, fresh, kind, tree=None):
    before = sql[:s].lower()
    after = sql[e:].lower()
    op = enclosing_open(sql, s)
    if op is not None and before[:op].rstrip().endswith("over") and re.match(r"\s*\)", after) and kind == "word":
        return "C05:window-trailing-word"
    m = None
    for m in re.finditer(r"filter\s*\(\s*where\b", sql, re.I):
        cl = match_close(sql, sql.index("(", m.start()))
        if cl is None:
            continue
        m2 = re.match(r"\s*over\s*\(", sql[cl + 1:], re.I)
        if m2:
            cl2 = match_close(sql, cl + 1 + m2.end() - 1)
            if cl2 is not None and m.start() <= s <= cl2:
                return "C05:filter-then-over"
    if re.search(r"\b(key|index)\b[^;]*\)\s*$", before) and kind == "word":
        return "C05:index-using"
    if re.search(r"\b(key|index)\b[^;]*\)\s*\w+\s+$", before) and kind == "word":
        return "C05:index-using"
    if re.search(r"\bfetch\b[^;]*\binto\b[^;]*$", before):
        return "C05:fetch-into"
    if re.search(r"#>>?[^\n]*$", before):
        # the JSON path operators #> and #>> start with the comment character: the rest of the line is skipped as a comment
        return "C05:hash-operator-read-as-comment"
    if re.search(r"(\]|::\s*\w+)\s*(\.\s*\w*|\[[^\]]*)$", before) or re.search(r"(\]|::\s*\w+)\s*\.\s*\w+\s*\[[^\]]*$", before):
        # a postfix accessor written after a postfix operator of a tighter level: the reducer stops and the tail is dropped
        return "C05:postfix-after-postfix"
    mb = list(re.finditer(r"\bbetween\b", before))
    if mb and not re.search(r"\band\b", before[mb[-1].end():] + " " + after.split(")")[0]):
        # BETWEEN whose AND is missing: the reducer keeps the first operand only
        return "C05:between-without-and"
    if re.search(r"(?:[-+*/%|&<>=~]|\b(?:and|or|not|like|in|is|between)\b)\s*(?:[-+~]|not\b)", before) and tree is not None:
        # signature of the reducer's blind operand slots: the prefix operator's own text stands where its operand should be
        def has_optoken(t):
            if isinstance(t, dict):
                return any(has_optoken(v) for v in t.values())
            if isinstance(t, list):
                return any(has_optoken(v) for v in t)
            return t in ("not", "~", "-", "+")
        if has_optoken(tree):
            return "C05:prefix-after-operator"
    return None


def oracle_statement(ctx, f, entry, sql, known, stats):
    toks = [(m.lastgroup, m.start(), m.end()) for m in TOK.finditer(sql)]
    n = 0
    for kind, s, e in toks:
        if kind not in ("word", "num", "str", "dq", "bt"):
            continue
        n += 1
        if kind == "num":
            fresh = "987654321"
        elif kind == "str":
            fresh = "'zq%dxq'" % n
        elif kind == "dq":
            fresh = '"zq%dxq"' % n
        elif kind == "bt":
            fresh = "`zq%dxq`" % n
        else:
            fresh = "zq%dxq" % n
        var = sql[:s] + fresh + sql[e:]
        st, t = impl.outcome(f, var)
        if st != "ok":
            continue        # the replacement changed acceptance: not an atom position (keyword etc.)
        stats["checked"] += 1
        ctx.count(1, (var,))
        atom = fresh.strip("'\"`")
        if not found(atom, kind, t):
            key = classify(var, s, s + len(fresh), fresh, kind, t)
            if key and key in known:
                ctx.known(key, "%s e.g. %s" % (known[key]["what"], known[key]["witness"]))
                stats["known"] += 1
                continue
            ctx.violation("input", dict(entry=entry, sql=var, lost_atom=atom, atom_kind=kind, returned=short(t, 900),
                                        requires="every identifier, number and string written in an accepted statement occurs in the tree"))


SCRUB_HEADER = """From Coq Require Import List ZArith String Bool.
From MoSql Require Import Base.Json Model.Scrub Model.ScrubAtoms Proofs.Slots.
Import ListNotations.
Open Scope string_scope. Open Scope list_scope.
Definition case := (mode * fmap_t * jv * raw * option jv * list atom)%type.
Definition corr (c : case) : bool :=
  let '(m, fm, x, r, e, _) := c in
  match parse_result m fm x r, e with Some v, Some w => jv_eqb v w | None, None => true | _, _ => false end.
Definition good (c : case) : bool := let '(m, fm, x, r, e, _) := c in goodb m fm r.
Fixpoint idx_where {A} (f : A -> bool) (i : nat) (l : list A) : list nat :=
  match l with [] => [] | a :: t => (if f a then [i] else []) ++ idx_where f (S i) t end.
(* which of the candidate atoms (user-written tokens that the raw result holds) does scrub never visit *)
Definition hid (c : case) : list nat :=
  let '(m, fm, x, r, e, cand) := c in
  let h := hidden m fm r in idx_where (fun a => existsb (atom_eqb a) h) 0 cand.
"""


def user_atoms(sql, gw):
    """value -> (kind, start, end) of the first token that writes it; words that the grammar knows as keywords are left out"""
    out = {}
    for m in TOK.finditer(sql):
        kind, txt = m.lastgroup, m.group(0)
        if kind == "word":
            if len(txt) > 1 and txt.lower() in gw:
                continue        # (one-letter grammar words are the duration units; as identifiers they are ordinary atoms)
            val = txt
        elif kind == "num":
            try:
                val = int(txt)
            except ValueError:
                try:
                    val = float(txt)
                except ValueError:
                    continue
        elif kind == "str":
            val = txt[txt.index("'") + 1:-1].replace("''", "'")
        elif kind == "dq":
            val = txt[1:-1].replace('""', '"')
        elif kind == "bt":
            val = txt[1:-1].replace("``", "`")
        else:
            continue
        out.setdefault((type(val).__name__, val), (kind, m.start(), m.end()))
    return out


def catom(v):
    if isinstance(v, str):
        return "(AStr %s)" % cstr(v)
    if isinstance(v, int):
        return "(AInt %s)" % cz(v)
    return "(AFloat %s)" % cstr(repr(v))


def scrub_stage(ctx, stmts, known):
    """the scrub stage at model level (Props/C05s.v): capture the raw result that reaches scrub, evaluate Model.ScrubAtoms.hidden on it inside Coq,
    and demand that every user-written atom which scrub never visits and the tree does not hold either belongs to a listed finding"""
    import l2, concurrent.futures as cf
    from props import c07
    okp, outp = ctx.prove("Props.C05s", THMS_S)
    gw = set(c07.grammar_words())
    l2.U = impl.build_all()
    l2.FLAT_ATOMS = True
    cases, meta = [], []
    try:
        for entry, sql in stmts:
            st, val, cap, x = l2.run_case(entry, sql, "simple", "default", None)
            if st != "ok" or len(cap) != 1:
                continue
            raw, out = cap[0]
            try:
                term = l2.dump(raw, {})
            except l2.Outside:
                continue
            if len(term) > 60000:
                continue
            ua = user_atoms(sql, gw)
            held = {(type(a).__name__, a) for a in l2.leaf_atoms(raw, [])}
            cand = [k for k in ua if k in held]
            base = l2.coq_case("simple", None, x, term, out)
            cases.append("(%s, %s)" % (base[1:-1], clist([catom(v) for _, v in cand])))
            meta.append(dict(entry=entry, sql=sql, cand=cand, where=[ua[k] for k in cand], tree=val))
    finally:
        l2.FLAT_ATOMS = False
    shard = 150
    shards = [cases[i:i + shard] for i in range(0, len(cases), shard)]

    def one(i):
        body = SCRUB_HEADER + "Definition cases : list case := [\n" + ";\n".join(shards[i]) + "\n].\n"
        body += "Eval vm_compute in idx_where (fun c => negb (corr c)) 0 cases.\nEval vm_compute in idx_where (fun c => negb (good c)) 0 cases.\nEval vm_compute in map hid cases.\n"
        ok, out = ctx.coq_eval("c05s_%d" % i, body)
        if not ok:
            return None, out
        parts = re.findall(r"=\s*(\[.*?\])\s*:\s*list", out, re.S)
        if len(parts) != 3:
            return None, out
        return [json.loads(b.replace(";", ",")) for b in parts], out

    mism, ungood, hid = [], [], []
    with cf.ThreadPoolExecutor(max_workers=min(NCPU, 12)) as ex:
        for i, (res, out) in enumerate(ex.map(one, range(len(shards)))):
            if res is None:
                ctx.obligation("scrub stage evaluated in Coq", False, out[-1500:])
                ctx.violation("obligation", dict(broken="Model/ScrubAtoms.v case file could not be evaluated by coqc", log=out[-1500:]), no_input=True)
                return
            mism += [i * shard + j for j in res[0]]
            ungood += [i * shard + j for j in res[1]]
            hid += res[2]
    ctx.checker_cmds.append("coqc -Q coq MoSql <generated case files> (Eval vm_compute)")
    ctx.traces += len(cases)
    ctx.obligation("correspondence: Model.Scrub.parse_result = utils.scrub + NULL substitution on %d captured raw results (all statement kinds)" % len(cases), not mism)
    for i in mism[:5]:
        ctx.violation("input", dict(entry=meta[i]["entry"], sql=meta[i]["sql"], returned=short(meta[i]["tree"], 600), broken="correspondence Model.Scrub vs utils.scrub (C05_scrub_keeps_visited is proved about the model)"), no_input=True)
    n_hidden = n_lost = 0
    for i, idxs in enumerate(hid):
        mt = meta[i]
        for j in idxs:
            n_hidden += 1
            (tn, v), (kind, s, e) = mt["cand"][j], mt["where"][j]
            acc = leaves(mt["tree"], set())
            if tn in ("int", "float"):
                here = repr(abs(v)) in acc
            else:
                here = any(v.lower() == a or v.lower() in a.split(".") for a in acc)    # exact leaf or key, or one segment of a dotted path
            if here:
                continue
            n_lost += 1
            key = classify(mt["sql"], s, e, mt["sql"][s:e], kind, mt["tree"])
            if key and key in known:
                ctx.known(key, "%s e.g. %s" % (known[key]["what"], known[key]["witness"]))
                continue
            ctx.violation("input", dict(entry=mt["entry"], sql=mt["sql"], lost_atom=str(v), atom_kind=kind, returned=short(mt["tree"], 900),
                                        mechanism="the raw parse result holds this atom only in an unnamed token beside named ones: Model.ScrubAtoms.hidden lists it and scrub never visits it",
                                        requires="every identifier, number and string written in an accepted statement occurs in the tree"))
    ctx.extra["scrub_stage"] = dict(raw_results=len(cases), premise_goodb_fails_on=len(ungood), user_atoms_hidden_from_scrub=n_hidden, of_which_absent_from_the_tree=n_lost,
                                    theorem="on the %d results where goodb holds, every visited atom is in the tree (C05_scrub_keeps_visited); hidden atoms are checked one by one" % (len(cases) - len(ungood)))


THMS_S = ["C05_scrub_keeps_visited", "C05_scrubbed_away_is_empty", "C05_scrub_keeps_all", "C05_unnamed_beside_named_refuted"]


def run(ctx):
    T = l1.load_tables()
    ctx.rule = ("accepted statements = captured corpus + grammar-directed generator + expression generator; for every identifier / number / string occurrence found by an independent lexer "
                "the atom is replaced by a fresh one of the same class; if still accepted the fresh atom must occur in the tree; distinct non-trivial = distinct accepted substituted statements")
    if l1.STALE:
        ctx.obligation("tables regenerated from /repo", False, l1.STALE)
        ctx.violation("obligation", dict(broken="translator fails closed: " + l1.STALE), no_input=True)
        return
    ok, out = ctx.prove("Props.C05", THMS)
    known = ctx.finding_keys()
    stats = collections.Counter()
    rnd = ctx.rng("c05")
    stmts = [(c["parser"], c["sql"]) for c in impl.corpus() if len(c["sql"]) < 1500]
    if not ctx.thorough:
        stmts = [s for i, s in enumerate(stmts) if i % 4 == ctx.seed % 4]
    g = gens.G(rnd, null_rate=0.02, max_depth=2)
    g.paren_query = True
    g.ordered_set = True
    gen = [g.statement() for _ in range(ctx.n(400, 6000))]
    stmts += [("common_parser", x) for x in gen if len(x) < 260][:ctx.n(110, 2500)]
    # every shape of INSERT / REPLACE rows (the literal-rows and the general path of to_insert_call differ by column and row count)
    for verb in ("insert into", "replace into"):
        for ncol in range(0, 4):
            for nrows in range(1, 4):
                for lit in (True, False):
                    cols = ["col%dx%d" % (ncol, i) for i in range(ncol)]
                    width = ncol or rnd.randint(1, 3)
                    val = (lambda: rnd.choice([str(rnd.randint(100, 999)), "'s%d'" % rnd.randint(10, 99)])) if lit else (lambda: g.expr(1))
                    rows = ", ".join("(" + ", ".join(val() for _ in range(width)) + ")" for _ in range(nrows))
                    stmts.append(("common_parser", "%s tab%d%s values %s" % (verb, nrows, " (" + ", ".join(cols) + ")" if cols else "", rows)))
    # witnesses of listed findings that the generators do not produce
    stmts += [("common_parser", "select a from t where c1 between 7 or c2"), ("common_parser", "select c1 not between 3 from t"),
              ("common_parser", "select c1[1].q2[3] from t"), ("common_parser", "select c1::int[2] from t"), ("common_parser", "select c1 #> c2 from t9"),
              ("common_parser", "select sum(x1) over (partition by p1 w2) from t3"), ("common_parser", "create index xi1 on xt2 (xa3) xo5 xo6")]
    # runs of joins without ON / USING (the grammar nests them, to_join_call flattens the nest back), also in DML
    stmts += [("common_parser", x) for x in (
        "select c1 from t1 cross join t2 cross join t3 cross join t4",
        "select c1 from t1 natural join t2 cross join t3 x3 left join t4 x4 on x3.k3 = x4.k4 and x4.c4 = 's1' join t5 on x4.k5 = t5.k6",
        "select c1, c2 from t1 join t2 on t1.k1 = t2.k2, t3, t4 x4, t5 where x4.c4 < 102",
        "select c1 from t1 lateral view f1(c2) x1 as k1 lateral view f2(c3) x2 as k2 lateral view f3(c4, 103) x3 as k3",
        "select c1 from t1 cross apply f1(t1.k1) x1 cross apply f2(x1.k2, 's2') x2 outer apply f3(x2.k3) x3",
        "select c1 from t1 join t2 join t3 join t4 on t3.k1 = t4.k2 on t2.k3 = t3.k4 on t1.k5 = t2.k6",
        "update t1 set c1 = 104 from t2 cross join t3 cross join t4 join t5 on t4.k4 = t5.k5 where t1.k1 = t5.k6",
        "delete from t1 using t2 natural join t3 natural join t4 natural join t5 x5 where t1.k1 = x5.k5",
        "with x1 as (select c1 from t1 cross join t2 cross join t3 inner join t4 on t3.k3 = t4.k4) select c2 from x1")]
    # every tail clause after a set operation, alone and in combination (each has its own slot in to_union_call)
    for tail in ("order by a1", "limit 7", "offset 3", "fetch first 5 rows only", "for update of t1", "order by a1 fetch first 5 rows only", "limit 7 for update of t1",
                 "order by a1 limit 7 offset 3", "order by a1 offset 3 rows fetch next 5 rows only"):
        stmts.append(("common_parser", "select a1 from t1 union select b1 from u1 " + tail))
        stmts.append(("common_parser", "select a1 from t1 union all select b1 from u1 intersect select c1 from v1 " + tail))
    for entry, sql in stmts:
        f = impl.ENTRY[entry]
        st, _ = impl.outcome(f, sql)
        if st != "ok":
            continue
        stats["statements"] += 1
        oracle_statement(ctx, f, entry, sql, known, stats)
    ctx.extra["oracle"] = dict(stats)
    scrub_stage(ctx, [x for x in stmts if len(x[1]) < 700], known)
    from props import casex
    casex.case_stage(ctx, "C05")
    ctx.sample(dict(statement=stmts[-1][1]))
    # ---- model level: parse' on token strings; every leaf of a premise-satisfying tree is in the model's result, and model = implementation
    lv, bad, log = c01.ref_levels(ctx, T) if ok else (None, None, out)
    if lv is None:
        ctx.violation("obligation", dict(broken="Props/C05.v / Model/L1 does not build", log=(log or "")[-1500:]), no_input=True)
        return
    gg = c01.Gen(T, rnd, lv)
    lib_need = lambda kind, e, s, c: not c01.rule(kind, s, c, e)
    cases, meta = [], []
    for _ in range(ctx.n(600, 8000)):
        gg.n = 0
        t = gg.tree(rnd.randint(1, 4))
        a = c01.paren(T, t, lib_need if rnd.random() < 0.7 else (lambda *x: rnd.random() < 0.3), 0.1, rnd)
        tk = c01.toks(T, a, gg.and_sid)
        text = l1.text_of_tokens(tk)
        st, v = impl.outcome(impl.M.parse, "select " + text)
        r = None
        if st == "ok":
            r = l1.from_json(v["select"]["value"]) or ("A", 999999)
        cases.append("(%s, %s, %s)" % (c01.cpast(a, gg.and_sid), l1.ctoks(tk), "None" if r is None else "(Some %s)" % l1.coq_tree(r)))
        meta.append(dict(sql=text, impl=short(v, 400)))
    res, log = c01.run_cases(ctx, "c05", cases)
    if res is None:
        ctx.obligation("correspondence evaluated", False, log[-2000:])
        ctx.violation("obligation", dict(what="correspondence check could not be evaluated by coqc", log=log[-2000:]), no_input=True)
        return
    ctx.traces += len(cases)
    ctx.obligation("correspondence: model reader/reducer/to_json_operator = implementation on %d token strings" % len(cases), not res["parse"] and not res["tok"])
    ctx.extra["premise_holds_on"] = len(cases) - len(res["prem"])
    for i in (res["parse"] + res["tok"])[:5]:
        ctx.violation("input", dict(sql="select " + meta[i]["sql"], returned=meta[i]["impl"], which=("parse" if i in res["parse"] else "token rendering"), case=cases[i], broken="correspondence model vs implementation parser (C05_operands_kept is proved about the model)"), no_input=True)


def replay(ctx, rep):
    st, t = impl.outcome(impl.ENTRY[rep.get("entry", "common_parser")], rep["sql"])
    print(st, t)
    if st == "ok" and not found(rep["lost_atom"], rep["atom_kind"], t):
        print("VIOLATION property=C05 replay=%s" % ctx.replay)
        return 1
    return 0
