# C12 — calls= and fmap= change how applications are written, never what is written.
import json, copy
from common import *
import impl, l2, gens
from props import c11

THMS = ["C12_normal_to_simple", "C12_normal_shape", "C12_fmap_is_rename", "C12_literal_dictionary_refuted", "C12_keyword_named_like_operation_refuted"]


def is_node(d):
    return type(d) is dict and "op" in d and set(d) <= {"op", "args", "kwargs"}


def to_simple(x):
    if type(x) is list:
        return [to_simple(v) for v in x]
    if type(x) is dict:
        if is_node(x):
            args = x.get("args")
            if args is None:
                a = {}
            elif type(args) is not list:
                a = to_simple(args)          # not the documented shape (shape_violation reports it): read it as the sole argument
            else:
                a = [to_simple(v) for v in args]
                if len(a) == 1:
                    a = a[0]
            out = {k: to_simple(v) for k, v in (x.get("kwargs") or {}).items()}
            out[x["op"]] = a
            return out
        return {k: to_simple(v) for k, v in x.items()}
    return x


def strip_frames(x):
    """the tree without the frame of every OVER clause"""
    if type(x) is list:
        return [strip_frames(v) for v in x]
    if type(x) is dict:
        return {k: ({kk: strip_frames(vv) for kk, vv in v.items() if kk != "range"} if k == "over" and type(v) is dict else strip_frames(v)) for k, v in x.items()}
    return x


def shape_violation(x, path="$"):
    if type(x) is list:
        for i, v in enumerate(x):
            r = shape_violation(v, "%s[%d]" % (path, i))
            if r:
                return r
    elif type(x) is dict:
        if is_node(x):
            if "args" in x and (type(x["args"]) is not list or not x["args"]):
                return path + ": args is not a non-empty list"
            if "kwargs" in x and (type(x["kwargs"]) is not dict or not x["kwargs"]):
                return path + ": kwargs is not a non-empty dict"
            if not isinstance(x["op"], str):
                return path + ": op is not a string"
        for k, v in x.items():
            r = shape_violation(v, path + "." + k)
            if r:
                return r
    return None


def rename(x, m):
    if type(x) is list:
        return [rename(v, m) for v in x]
    if type(x) is dict:
        out = {k: rename(v, m) for k, v in x.items()}
        if is_node(x) and isinstance(x["op"], str):
            out["op"] = m.get(x["op"], x["op"])
        return out
    return x


def ops_of(x, acc):
    if type(x) is list:
        for v in x:
            ops_of(v, acc)
    elif type(x) is dict:
        if is_node(x) and isinstance(x["op"], str):
            acc.add(x["op"])
        for v in x.values():
            ops_of(v, acc)
    return acc


def fake_nodes(simple_tree):
    """does the default tree contain a dict that is not a call but looks like a normal-form node? (then to_simple is ambiguous)"""
    if type(simple_tree) is list:
        return any(fake_nodes(v) for v in simple_tree)
    if type(simple_tree) is dict:
        return is_node(simple_tree) or any(fake_nodes(v) for v in simple_tree.values())
    return False


def oracle(ctx, rnd, parser, sql, nullkw, ac):
    f = impl.ENTRY[parser]
    kw = dict(all_columns=ac, **nullkw)
    impl.outcome(f, "select 1")      # a plain call first: whatever an earlier call installed, this statement starts from the default configuration
    st_s, S = impl.outcome(f, sql, **kw)
    st_n, N = impl.outcome(f, sql, calls=impl.M.normal_op, **kw)
    call = dict(entry=parser, sql=sql, all_columns=ac, **{k: repr(v) for k, v in nullkw.items()})
    if st_s != st_n:
        ctx.violation("input", dict(call=call, observed="acceptance depends on calls=: %s vs %s" % (st_s, st_n), requires="same outcome"))
        return 1
    if st_s != "ok":
        return 0
    if fake_nodes(S):
        return 0  # statement whose default tree already contains an {"op": ...} shaped dict: the rewrite of the property text is ambiguous there
    n = 1
    if canon(to_simple(N)) != canon(S) and "C12:frame-bound-simplified-early" in ctx.finding_keys() and canon(strip_frames(to_simple(N))) == canon(strip_frames(S)):
        # the two representations differ only inside a window frame: the listed finding (frame bounds are simplified while the grammar is still matching)
        fd = ctx.finding_keys()["C12:frame-bound-simplified-early"]
        ctx.known(fd["key"], "%s e.g. %s" % (fd["what"], fd["witness"]))
        return n
    if canon(to_simple(N)) != canon(S):
        ctx.violation("input", dict(call=call, returned_normal=short(N, 1000), returned_default=short(S, 1000),
                                    requires="to_simple(parse(sql, calls=normal_op)) == parse(sql)", to_simple=short(to_simple(N), 1000)))
        return n
    sv = shape_violation(N)
    known = ctx.finding_keys()
    if sv and ".range." in sv and "C12:frame-bound-simplified-early" in known:
        fd = known["C12:frame-bound-simplified-early"]
        ctx.known(fd["key"], "%s e.g. %s" % (fd["what"], fd["witness"]))
        sv = None
    if sv:
        ctx.violation("input", dict(call=call, returned_normal=short(N, 1000), observed=sv, requires="args a non-empty list, kwargs a non-empty dict when present"))
        return n
    ops = sorted(ops_of(N, set()))
    if not ops:
        return n
    maps = [{rnd.choice(ops): "renamed_op"}]
    if len(ops) >= 2:
        a, b = rnd.sample(ops, 2)
        maps.append({a: b, b: a})
        maps.append({a: "r1", b: "r2"})
    for m in maps:
        fk = "fmap" if parser == "common_parser" else "is_null"
        st, Nm = impl.outcome(f, sql, calls=impl.M.normal_op, **{fk: m}, **kw)
        n += 1
        if st != "ok" or canon(Nm) != canon(rename(N, m)):
            ctx.violation("input", dict(call=dict(call, fmap=m, calls="normal_op"), returned=short(Nm, 1000), requires="rename(parse(sql, calls=normal_op), fmap) = " + short(rename(N, m), 1000)))
            return n
        st, Sm = impl.outcome(f, sql, **{fk: m}, **kw)
        n += 1
        if st != "ok" or canon(Sm) != canon(to_simple(rename(N, m))):
            ctx.violation("input", dict(call=dict(call, fmap=m, calls="default"), returned=short(Sm, 1000), requires="to_simple(rename(parse(sql, calls=normal_op), fmap)) = " + short(to_simple(rename(N, m)), 1000)))
            return n
    return n


def run(ctx):
    ctx.rule = ("statements = corpus + generator + NULL-position templates; case = (dialect, sql, null in {default, None}, all_columns) with fmap over operator names occurring "
                "in the statement (single rename, swap, double rename); distinct non-trivial = distinct accepted (sql, null, all_columns) containing at least one call node")
    ctx.prove("Props.C12", THMS)
    l2.U = impl.build_all()
    rnd = ctx.rng("c12")
    stmts = l2.statements(ctx, ctx.n(250, 2500)) + [("common_parser", s) for s in c11.TEMPLATES]
    # expressions that the grammar scrubs while it is still matching (window frame bounds): they see the callback that is installed at that moment
    stmts += [("common_parser", s) for s in ("select sum(x) over (order by b range between a + 1 preceding and current row) from t",
                                             "select sum(x) over (order by b range n * 2 preceding) from t, u where f(a + 1, b) = g(c)",
                                             "select max(x) over (partition by p order by b range between a - 1 preceding and c * 2 following) from t",
                                             "select sum(x) over (order by b range f(a) preceding) from t",
                                             # simplification must happen once, at the end: parse actions that assemble clauses must not simplify on the way
                                             "with a as (select f(x)) (with b as (select g(1)) select h(2))",
                                             "create table t as with a as (select f(x)) (with b as (select g(1)) select h(2))",
                                             "(select f(x) from t) order by g(a) limit 3", "select f(x) from t union all (select g(y) from u) order by h(a)")]
    cases, meta = [], []
    for parser, sql in stmts:
        combos = [(nk, ac) for nk in ({}, {"null": None}) for ac in (None, "*")]
        if not ctx.thorough:
            combos = [rnd.choice(combos)]
        for nullkw, ac in combos:
            n = oracle(ctx, rnd, parser, sql, nullkw, ac)
            ctx.count(max(n, 1))
            if n > 1:
                ctx.count(0, (sql, repr(nullkw), ac))
        # model correspondence for both modes with a rename map
        fm = rnd.choice([None, {"add": "sub", "sub": "add"}, {"f": "g", "eq": "equals"}])
        for mode in ("simple", "normal"):
            st, val, cap, x = l2.run_case(parser, sql, mode, "default", fm)
            if st != "ok" or len(cap) != 1:
                continue
            raw, out = cap[0]
            try:
                term = l2.dump(raw, {})
            except l2.Outside:
                continue
            cases.append(l2.coq_case(mode, fm, x, term, out))
            meta.append(dict(entry=parser, sql=sql, calls=mode, fmap=fm, impl=short(out, 800)))
    ctx.sample(meta[0] if meta else None)
    ctx.sample(meta[-1] if meta else None)
    ctx.log("cases for the model:", len(cases))
    res, log = l2.run_model(ctx, "c12", cases)
    if res is None:
        ctx.obligation("correspondence evaluated", False, log[-2000:])
        ctx.violation("obligation", dict(what="correspondence check could not be evaluated by coqc", log=log[-2000:]), no_input=True)
        return
    ctx.traces = len(cases)
    ctx.obligation("correspondence: model scrub under simple_op / normal_op / fmap = implementation on %d captured raw results" % len(cases), not res["mismatch"])
    ctx.extra["premise_nofake_holds_on"] = len(cases) - len(res["fake"])
    ctx.extra["premise_nofake_fails_on"] = len(res["fake"])
    ctx.extra["premise_nofake_failing_samples"] = [meta[i]["sql"][:200] for i in res["fake"][:5]]
    for i in res["mismatch"][:5]:
        ctx.violation("input", dict(call=meta[i], what="Model/Scrub.v (for which C12_normal_to_simple / C12_fmap_is_rename are proved) and the implementation disagree on this input; the direct oracle passed on it",
                                    broken="correspondence Model.Scrub.parse_result vs utils.scrub / simple_op / normal_op"), no_input=True)


def replay(ctx, rep):
    c = rep["call"]
    n0 = len(ctx.violations)
    nk = {"null": None} if c.get("null") == "None" else {}
    oracle(ctx, ctx.rng("replay"), c["entry"], c["sql"], nk, c.get("all_columns"))
    if len(ctx.violations) > n0:
        print("VIOLATION property=C12 replay=%s" % ctx.replay)
        return 1
    return 0
