# C14 — malformed input is rejected with ParseException, never answered or crashed on.
import json, re, signal, traceback
from common import *
import impl, l0, l1, gens
from props import c01

THMS = ["C14_accepted_is_balanced", "C14_literal_actions_total_on_clean", "C14_literal_crash_refuted"]
THMS_E = ["C14_engine_total", "C14_engine_matches_inside_input"]


class Timeout(Exception):
    pass


def _alarm(signum, frame):
    raise Timeout()


def call(f, sql, limit=20.0):
    """('ok', tree) | ('pe', position) | ('exc', type name, site) | ('timeout',)"""
    signal.signal(signal.SIGALRM, _alarm)
    signal.setitimer(signal.ITIMER_REAL, limit)
    try:
        return ("ok", f(sql))
    except impl.ParseException as e:
        return ("pe", getattr(e, "start", None))
    except Timeout:
        return ("timeout",)
    except RecursionError:
        return ("exc", "RecursionError", "engine")
    except BaseException as e:
        site = "?"
        c = e
        seen = 0
        # find the parse action named in the engine's message or the innermost repo frame
        msg = str(e)
        m = re.search(r"parse action (\w+) should not raise", msg)
        if m:
            site = m.group(1)
        else:
            tb = traceback.extract_tb(e.__traceback__)
            for fr in reversed(tb):
                if "/repo/mo_sql_parsing/" in fr.filename:
                    site = fr.name
                    break
        return ("exc", type(e).__name__, site)
    finally:
        signal.setitimer(signal.ITIMER_REAL, 0)


TOK = re.compile(r"""\s+|--[^\n]*|/\*.*?\*/|'(?:''|[^'])*'|"(?:""|[^"])*"|`(?:``|[^`])*`|\d+\.\d*|\.\d+|\d+|[A-Za-z_@$][A-Za-z0-9_@$]*|<=>|<>|!=|==|<=|>=|\|\||::|:=|.""", re.S)


def tokens(sql):
    return [m.group(0) for m in TOK.finditer(sql)]


def glues_comment(ts, i):
    """does deleting token i glue its neighbours into a comment marker?"""
    a = ts[i - 1] if i > 0 else ""
    b = ts[i + 1] if i + 1 < len(ts) else ""
    j = a[-1:] + b[:1]
    return j in ("--", "/*", "*/") or b[:1] == "#"


def ill_formed_variants(sql, rnd):
    """deletions / truncations that make an accepted statement certainly ill-formed by construction"""
    ts = tokens(sql)
    out = []
    idx = [i for i, t in enumerate(ts) if t in "()"]
    for i in idx:
        if glues_comment(ts, i):
            continue            # "-(-5)" without its parenthesis is "--5)": a comment, not an unbalanced expression
        out.append(("delete parenthesis", "".join(ts[:i] + ts[i + 1:])))
    for i, t in enumerate(ts):
        if len(t) >= 2 and t[0] in "'\"`" and t[-1] == t[0]:
            body = t[1:-1]
            if t[0] not in body:
                # no later quote of the same kind may close it
                rest = "".join(ts[i + 1:])
                if t[0] not in rest:
                    out.append(("delete closing quote", "".join(ts[:i]) + t[:-1] + rest))
    # truncation inside an open bracket
    depth = 0
    for i, t in enumerate(ts):
        if t == "(":
            depth += 1
        elif t == ")":
            depth -= 1
        if depth > 0 and not t.isspace() and rnd.random() < 0.3:
            out.append(("truncate inside an open bracket", "".join(ts[:i + 1])))
    # the last operand of an operator deleted where a clause keyword follows it: "a = <deleted> and b", "x + <deleted> from t", "when a > <deleted> then"
    FOLLOW = {"and", "or", "from", "where", "group", "order", "having", "limit", "union", "then", "else", "end", "when", "on"}
    OPS = {"=", "<", ">", "+", "-", "*", "/", "%", "||", "<>", "!=", "<=", ">=", "and", "or", "like", "between", "in"}
    sig = [i for i, t in enumerate(ts) if not t.isspace()]
    if not re.match(r"\s*\(?\s*(select|with|insert|update|delete)\b", sql, re.I):
        sig = []                # COPY INTO @stage/path/ FROM ... and the like are not expressions
    for n_, (a_, b_, c_) in enumerate(zip(sig, sig[1:], sig[2:])):
        nxt = ts[sig[n_ + 3]] if n_ + 3 < len(sig) else ""
        if nxt == "(" and ts[c_].lower() not in ("then", "else", "end", "when"):
            continue            # a reserved word followed by "(" is read as a function call by design (and(a, b), left(a, 1))
        if ts[a_].lower() in OPS and re.match(r"^(\w+|'[^']*')$", ts[b_]) and ts[b_].lower() not in RESERVED_WORDS and ts[c_].lower() in FOLLOW:
            if ts[a_].lower() in ("and", "or") and ts[c_].lower() in ("and", "or"):
                continue
            out.append(("delete the last operand of an operator", "".join(ts[:b_] + ts[b_ + 1:])))
    # dangling operator / keyword at the very end (reserved words and symbols only: they cannot be read as an alias)
    if re.match(r"\s*\(?\s*(select|with|insert|update|delete)\b", sql, re.I) and not re.search(r"\binterval\b", sql, re.I):
        for tail in (" +", " and", " or", " =", " between 1 and", " not", " like", " in", " ( ", " where", " join", " order by", " group by", " union", " case when"):
            out.append(("dangling operator or keyword", sql.rstrip().rstrip(";") + tail))
        # a ternary operator without its second keyword, in an expression position at the very end
        if re.search(r"\bwhere\b[^()]*$", sql, re.I) and not re.search(r"\b(order|group|limit|offset|fetch|for|union|returning|having|window|qualify)\b[^()]*$", sql, re.I):
            for tail in (" between 1", " not between 2"):
                out.append(("between without and", sql.rstrip().rstrip(";") + tail))
    return out


def classify(o, sql):
    """key of the listed finding that explains a non-ParseException outcome, or None"""
    if o[0] != "exc":
        return None
    typ, site = o[1], o[2]
    if site in ("single_literal", "double_literal", "double_column", "backtick_column", "square_column", "literal_regex", "single_regex") and ("\\" in sql or "\x00" in sql):
        return "C14:literal-eval-crash"
    if site in ("parse_int", "<lambda>") and re.search(r"\d[eE]\+?\d{3}|\d{4000}", sql):
        return "C14:number-conversion-crash"
    if typ == "OverflowError":
        return "C14:number-conversion-crash"
    if site in ("_to_bound_call", "_to_between_call"):
        return "C14:frame-offset-crash"
    return None


RESERVED_WORDS = set()


def reserved_words():
    import extract_tables
    from mo_sql_parsing.keywords import RESERVED
    out = set()
    for w in extract_tables.spellings(RESERVED):
        out.update(x.lower() for x in w)
    return out


def run(ctx):
    ctx.rule = ("for accepted statements (corpus sample + generators, 4 dialects): every single-token deletion that makes the statement certainly ill-formed (each parenthesis, each closing quote), truncations inside an "
                "open bracket, dangling operators / keywords appended, nesting to depth 25, and random token-level mutations (insert / delete / duplicate / splice); outcome must be a tree or ParseException with a position "
                "inside the input, within a 20 s limit; certainly ill-formed inputs must be rejected; distinct non-trivial = distinct mutated texts")
    T = l1.load_tables()
    ok = False
    if not l1.STALE:
        ok, out = ctx.prove("Props.C14", THMS)
    else:
        ctx.obligation("tables regenerated from /repo", False, l1.STALE)
    known = ctx.finding_keys()
    RESERVED_WORDS.update(reserved_words())
    rnd = ctx.rng("c14")
    corp = [(c["parser"], c["sql"]) for c in impl.corpus() if len(c["sql"]) < 400]
    rnd.shuffle(corp)
    g = gens.G(rnd, null_rate=0.05, max_depth=2)
    base = corp[:ctx.n(60, 500)] + [("common_parser", s) for s in (g.statement() for _ in range(ctx.n(120, 1500))) if len(s) < 300]
    # degenerate atoms in every slot a parse action looks into: empty quoted identifiers, empty strings, zero, NULL
    base += [(d, "select %s, a as %s from %s where %s = 1 group by %s order by %s" % (x, x, x, x, x, x)) for d, xs in (("common_parser", ('""', "``", "''", "0", "null")), ("sqlserver_parser", ("[]", '""')), ("mysql_parser", ("``", "[]")), ("bigquery_parser", ("``",))) for x in xs]
    base += [(d, s) for d in ("mysql_parser", "sqlserver_parser", "bigquery_parser") for s in ("select a, 'x' from t where b in (1, 2) and c = f(d)", "select `a` from t join u on (t.x = u.y) order by 1")]
    nbad = 0

    def judge(entry, sql, certainly_bad, how):
        nonlocal nbad
        o = call(impl.ENTRY[entry], sql)
        ctx.count(1, sql)
        if o[0] == "pe":
            pos = o[1]
            if isinstance(pos, int) and not (0 <= pos <= len(sql)):
                ctx.violation("input", dict(entry=entry, sql=sql, observed="ParseException position %r outside the input (length %d)" % (pos, len(sql)), mutation=how))
            return
        if o[0] == "ok":
            if certainly_bad and isinstance(o[1], dict) and "returning" in o[1] and how == "dangling operator or keyword" and "C14:returning-without-keyword" in known:
                k = known["C14:returning-without-keyword"]
                ctx.known("C14:returning-without-keyword", "%s e.g. %s" % (k["what"], k["witness"]))
                return
            if certainly_bad and how == "between without and" and "C14:between-without-and" in known:
                k = known["C14:between-without-and"]
                ctx.known("C14:between-without-and", "%s e.g. %s" % (k["what"], k["witness"]))
                return
            if certainly_bad:
                ctx.violation("input", dict(entry=entry, sql=sql, mutation=how, returned=short(o[1], 600), requires="ParseException: the input is not a complete statement"))
                nbad += 1
            return
        if o[0] == "timeout":
            ctx.violation("input", dict(entry=entry, sql=sql, mutation=how, observed="no answer within 20 s", requires="parse terminates"))
            nbad += 1
            return
        key = classify(o, sql)
        if key and key in known:
            ctx.known(key, "%s e.g. %s" % (known[key]["what"], known[key]["witness"]))
            return
        ctx.violation("input", dict(entry=entry, sql=sql, mutation=how, observed="%s raised in %s" % (o[1], o[2]), requires="a tree or ParseException, never another exception type"))
        nbad += 1

    # every parenthesis deletion of every corpus statement (the certainly-ill-formed class that needs no sampling)
    for entry, sql in corp[ctx.n(60, 500):]:
        ts = tokens(sql)
        idx = [i for i, t in enumerate(ts) if t in "()"]
        if not idx or call(impl.ENTRY[entry], sql)[0] != "ok":
            continue
        for i in (idx if ctx.thorough else idx[:6]):
            if not glues_comment(ts, i):
                judge(entry, "".join(ts[:i] + ts[i + 1:]), True, "delete parenthesis")
        if nbad > 15:
            break
    for entry, sql in base:
        st = call(impl.ENTRY[entry], sql)
        if st[0] not in ("ok", "pe"):
            judge(entry, sql, False, "statement of the pool, unmutated")     # "arbitrary text ... either returns a tree or raises ParseException" holds for the pool itself too
        if st[0] != "ok" or st[1] is None:
            continue
        vs = ill_formed_variants(sql, rnd)
        if not ctx.thorough:
            vs = rnd.sample(vs, min(len(vs), 8))
        for how, v in vs:
            judge(entry, v, how != "dangling operator or keyword" or True, how)
            if nbad > 15:
                break
        # token-level mutation fuzzing: outcome must be a tree or ParseException
        ts = tokens(sql)
        for _ in range(ctx.n(4, 25)):
            m = list(ts)
            op = rnd.choice(["insert", "delete", "duplicate", "splice", "swap"])
            if op == "insert":
                m.insert(rnd.randrange(len(m) + 1), rnd.choice(["(", ")", "'", '"', "`", ",", "select", "from", "null", "+", "-", "not", ";", "1e400", "0x", ".", "::", "[", "]", "\\", "--", "/*", "x preceding", '""', "``", "[]", "''", "()", "0", "null"]))
            elif op == "delete" and m:
                del m[rnd.randrange(len(m))]
            elif op == "duplicate" and m:
                i = rnd.randrange(len(m)); m.insert(i, m[i])
            elif op == "splice":
                other = tokens(rnd.choice(base)[1])
                i = rnd.randrange(len(m) + 1); m[i:i] = other[: rnd.randint(1, 4)]
            elif op == "swap" and len(m) > 1:
                i = rnd.randrange(len(m) - 1); m[i], m[i + 1] = m[i + 1], m[i]
            judge(entry, "".join(m), False, "mutation:" + op)
        if nbad > 15:
            break
    # nesting depth up to 25
    for d in (5, 10, 15, 20, 25):
        judge("common_parser", "select " + "(" * d + "a" + ")" * d + " from t", False, "nesting %d" % d)
        judge("common_parser", "select " + "(" * d + "a" + ")" * (d - 1) + " from t", True, "nesting %d unbalanced" % d)
        judge("common_parser", "select " + "f(" * d + "a" + ")" * d + " from t", False, "call nesting %d" % d)
        judge("common_parser", "select a from " + "(select a from " * min(d, 8) + "t" + ")" * min(d, 8), False, "sub-query nesting")
    # ---- model level: the expression reader accepts only balanced token strings (theorem), and agrees with the implementation on unbalanced ones
    if ok:
        lv, bad, log = c01.ref_levels(ctx, T)
        if lv:
            gg = c01.Gen(T, rnd, lv)
            cases, meta = [], []
            for _ in range(ctx.n(400, 5000)):
                gg.n = 0
                t = gg.tree(rnd.randint(1, 3))
                a = c01.paren(T, t, lambda kind, e, s, c: not c01.rule(kind, s, c, e), 0.3, rnd)
                tk = c01.toks(T, a, gg.and_sid)
                # break the balance / leave an operator dangling
                k = rnd.random()
                if k < 0.4:
                    idx = [i for i, x in enumerate(tk) if x[0] in (3, 4)]
                    if idx:
                        del tk[rnd.choice(idx)]
                elif k < 0.7:
                    ops = [i for i, x in enumerate(tk) if x[0] == 2 and (not T["spell"][x[1]]["words"][-1].isalpha() or T["spell"][x[1]]["words"][-1] in RESERVED_WORDS)]
                    if ops:
                        tk = tk[: rnd.choice(ops) + 1]
                text = l1.text_of_tokens(tk)
                stx, v = impl.outcome(impl.M.parse, "select " + text)
                if stx == "exc":
                    continue
                r = None
                if stx == "ok":
                    r = l1.from_json(v["select"]["value"]) or ("A", 999999)
                cases.append("(%s, %s, %s)" % (c01.cpast(a, gg.and_sid), l1.ctoks(tk), "None" if r is None else "(Some %s)" % l1.coq_tree(r)))
                meta.append(text)
            res, log = c01.run_cases(ctx, "c14", cases)
            if res is not None:
                ctx.traces = len(cases)
                ctx.obligation("correspondence: model reader/reducer accepts and rejects exactly like the implementation on %d balanced / unbalanced / dangling token strings" % len(cases), not res["parse"])
                for i in res["parse"][:5]:
                    ctx.violation("input", dict(sql="select " + meta[i], broken="correspondence model reader vs implementation on malformed expressions"), no_input=True)
    engine_termination(ctx, rnd, base)
    ctx.sample(dict(example_mutations=[v for _, v in ill_formed_variants("select f(a, 'x') from t where b in (1, 2)", rnd)[:6]]))


CERT_HEADER = ("From Coq Require Import List NArith Bool.\nFrom MoSql Require Import Model.Peg Proofs.PegCert Generated.Grammar.\nImport ListNotations.\nLocal Open Scope N_scope.\n")


def engine_termination(ctx, rnd, base):
    """C14_engine_total on the live grammar: Coq re-checks the certificate of every generated table; the theorem's premises about the
    oracles are evaluated on every query that the twin of the engine model puts to the real terminals / whitespace skippers for sampled inputs"""
    import peg, extract_grammar
    ctx.prove("Props.C14e", THMS_E)
    try:
        reg, tabs = peg.all_tables()
    except Exception as e:
        ctx.obligation("grammar translator", False, repr(e))
        ctx.violation("obligation", dict(what="the grammar translator failed closed", error=repr(e)), no_input=True)
        return
    keys = list(tabs) if ctx.thorough else [("common_parser", None), ("common_parser", "*"), ("mysql_parser", None), ("sqlserver_parser", None), ("bigquery_parser", None)]
    names = [extract_grammar.tname(k)[2:] for k in keys]
    checks = ["cert_ok NL_%s NLR_%s RK_%s NLT T_%s && (root_%s <? N.of_nat (List.length T_%s))" % (n, n, n, n, n, n) for n in names]
    bad, log = l0.run_checks(ctx, "c14_cert", CERT_HEADER, checks, shard=1)
    if bad is None:
        ctx.obligation("certificate evaluated", False, log[-1500:])
        ctx.violation("obligation", dict(what="the termination certificate could not be evaluated by coqc", log=log[-1500:]), no_input=True)
        return
    ctx.obligation("termination certificate: cert_ok NL NLR RK NLT T = true and root in range for %s (markings closed, every same-position call goes down in rank, no repetition over a nullable child, ids in range; re-checked by Coq on the generated tables)" % ", ".join(names), not bad)
    cert = {}
    for k in keys:
        try:
            NL, NLR, RK = tabs[k].certificate()
            cert[extract_grammar.tname(k)[2:]] = dict(nodes=len(NL), nullable=sum(NL), nullable_raw=sum(NLR), max_rank=max(RK), fuel_for_length_300=(300 + 1) * (max(RK) + 2) + RK[tabs[k].root] + 2)
        except ValueError as e:
            cert[extract_grammar.tname(k)[2:]] = dict(error=str(e))
    ctx.extra["termination_certificate"] = cert
    if bad:
        ctx.violation("obligation", dict(what="the grammar no longer has a termination certificate: a node can call itself again at the same position (left recursion), or the marking is not closed",
                                         tables=[names[b] for b in bad], detail=cert), no_input=True)
    # the premises about the oracles, on the queries of real runs (accepted and rejected inputs)
    T = tabs[("common_parser", None)]
    nq, worst = 0, []
    texts = [s for _, s in base[:ctx.n(40, 400)]]
    texts += [s[: max(1, len(s) // 2)] for s in texts[:10]] + ["select", "select (", "select 'a", "", "  ", "select a from t where"]
    for sql in texts:
        if len(sql) > 400:
            continue
        m = peg.Model(T, sql)
        m.parse_all()
        nq += len(m.log)
        worst += [(sql, b) for b in m.premise_bad[:2]]
    ctx.traces += len(texts)
    ctx.obligation("premises of C14_engine_total (oracle_ok) on the %d queries that %d runs of the engine twin put to the real terminals and whitespace skippers" % (nq, len(texts)), not worst, str(worst[:2]))
    for sql, b in worst[:3]:
        ctx.violation("input", dict(sql=sql, broken="oracle premise of C14_engine_total: " + str(b)), no_input=True)


def replay(ctx, rep):
    o = call(impl.ENTRY[rep.get("entry", "common_parser")], rep["sql"])
    print(o)
    print("VIOLATION property=C14 replay=%s" % ctx.replay)
    return 1
