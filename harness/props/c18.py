# C18 — dialect entry points differ only in the documented quoting rules.
import json, re, random, sys
sys.path.insert(0, "/verif/harness/props")
from common import *
import impl, gens, l0, peg, lexer

THMS = ["C18_dialect_neutral_nodes", "C18_dialect_neutral", "C18_dialect_neutral_total", "C18_sensitive_refuted"]
HEADER = ("From Coq Require Import List NArith Bool.\nFrom MoSql Require Import Model.Peg Model.PegRun Model.PegSim Generated.Grammar.\nImport ListNotations.\nLocal Open Scope N_scope.\n")
ENTRIES = ["parse", "parse_mysql", "parse_sqlserver", "parse_bigquery"]
PNAME = {"parse": "common_parser", "parse_mysql": "mysql_parser", "parse_sqlserver": "sqlserver_parser", "parse_bigquery": "bigquery_parser"}
SHORT = {"mysql_parser": "mysql", "sqlserver_parser": "sqlserver", "bigquery_parser": "bigquery"}
EXPECTED_EQN = {("identifier", "identifier_with_dashes"), ("identifier", "identifier")}     # the documented difference: how an unquoted identifier is spelt
GLUED_DASH = re.compile(r"[\w$@]-[\w$@]|[\w$@]-$|^-[\w$@]", re.U)
UNI = ["é", "Ünï", "ĀĒ", "ƀƁ", "naïve", "ß_x", "Ωmega", "çà1", "ÿ", "Ǝǝ", "Ɵ9", "ſt", "Đđ", "ō$", "Ʒ"]


def neutral(sql):
    return not any(c in sql for c in peg.SENSITIVE) and not GLUED_DASH.search(sql)


def all_entries(sql, all_columns):
    out = []
    for e in ENTRIES:
        st, got = impl.outcome(getattr(impl.M, e), sql, all_columns=all_columns)
        out.append((st, canon(got) if st == "ok" else None))
    return out


def agree(rs):
    """identical trees, or all reject"""
    if all(r[0] != "ok" for r in rs):
        return True
    return all(r == rs[0] for r in rs)


def unicode_idents(rnd, sql):
    """re-spell some identifiers with letters outside ASCII (the identifier terminals of the dialects are written differently)"""
    names = sorted(set(re.findall(r"\b[a-z]\d+\b", sql)))
    for n in rnd.sample(names, min(len(names), 3)):
        sql = re.sub(r"\b%s\b" % n, rnd.choice(UNI) + n[1:], sql)
    return sql


def premises(reg, tabs, sql, all_columns, dt):
    """the two hypotheses of C18_dialect_neutral on this input, evaluated with the real terminal objects and the twin"""
    bad = []
    for t in dt:
        for p in range(len(sql) + 1):
            if peg.term_at(reg.term_objs[t], sql, p) is not None:
                bad.append(("dead terminal matches", peg.term_sig(reg.term_objs[t])[:60], p))
                break
    base = tabs[("common_parser", all_columns)]
    for name in peg.PARSERS[1:]:
        T2 = tabs[(name, all_columns)]
        R, eqn, probs = RELS[(name, all_columns)]
        m1, m2 = peg.Model(base, sql), peg.Model(T2, sql)
        for (i, j) in eqn:
            for p in range(len(sql) + 1):
                for raw in (False, True):
                    if m1.run(i, p, raw) != m2.run(j, p, raw):
                        bad.append(("identifier terminals disagree", name, p, m1.run(i, p, raw), m2.run(j, p, raw)))
                        break
    return bad


RELS = {}


def run(ctx):
    ctx.rule = ("dialect-neutral statements (no double quote, bracket, backtick, at-sign, no dash glued between name characters) from the query / window / DDL / DML generators, "
                "re-spelt with identifiers outside ASCII, and from the corpus x 4 entry points x all_columns in {None, '*'}; quoted contents x 3 quoting styles x 4 entry points; "
                "distinct non-trivial = distinct (statement, all_columns) pairs")
    ok, out = ctx.prove("Props.C18", THMS)
    rnd = ctx.rng("c18")
    try:
        reg, tabs = peg.all_tables()
    except Exception as e:
        ctx.obligation("translator: every element class and raising parse action of the live grammar is modelled", False, repr(e))
        ctx.violation("obligation", dict(what="the grammar translator failed closed", error=repr(e)), no_input=True)
        reg = None
    broken = []
    if reg:
        ctx.obligation("translator: every element class and raising parse action of the live grammar is modelled (%d terminals)" % len(reg.term_objs), True)
        dt = reg.dead_terms()
        # ---- the lock-step relation of every dialect table with the common one, and the Coq check of it
        checks, labels = [], []
        for ac in (None, "*"):
            base = tabs[("common_parser", ac)]
            for name in peg.PARSERS[1:]:
                R, eqn, probs = peg.relate(base, tabs[(name, ac)], set(dt))
                RELS[(name, ac)] = (R, eqn, probs)
                rn = SHORT[name] + ("_star" if ac else "")
                bn = "common_star" if ac else "common"
                labels.append(rn)
                checks.append("simb T_%s T_%s R_%s EQN_%s DT && inb (root_%s, root_%s) R_%s" % (bn, rn, rn, rn, bn, rn, rn))
                T2 = tabs[(name, ac)]
                names = {(base.nodes[i]["name"], T2.nodes[j]["name"]) for i, j in eqn}
                if probs or not names <= EXPECTED_EQN:
                    broken.append(dict(relation=rn, problems=[list(map(str, p)) for p in probs[:5]], leaf_differences=sorted(names - EXPECTED_EQN)))
        ctx.obligation("lock-step walk: the dialect graphs differ from the common one only by alternatives that start with a quote / bracket / at-sign and by the identifier terminal", not broken, json.dumps(broken)[:600])
        bad, log = l0.run_checks(ctx, "c18_tab", HEADER, checks, shard=1)
        if bad is None:
            ctx.obligation("table obligations evaluated", False, log[-1500:])
            ctx.violation("obligation", dict(what="the table obligations could not be evaluated by coqc", log=log[-1500:]), no_input=True)
            bad = []
        ctx.obligation("table condition: simb T_common T_dialect R EQN DT = true, roots related, for %s (evaluated by Coq on the generated tables)" % ", ".join(labels), not bad)
        broken += [dict(relation=labels[b], coq="simb false") for b in bad]

    # ---- the oracle: neutral statements, four entry points side by side
    import c19
    g = gens.G(rnd)
    g.accessors = True
    d = c19.D(rnd)
    stmts = []
    for i in range(ctx.n(500, 6000)):
        g.n = d.n = 0
        k = i % 10
        s = g.statement() if k < 6 else (d.create()[0] if k < 8 else rnd.choice([d.insert()[0], d.update()[0], d.other()[0]]))
        if i % 3 == 0:
            s = unicode_idents(rnd, s)
        stmts.append(s)
        if i % 4 == 1 and " " in s:
            # the same statement with a comment of each style in some gap, in front and at the end (comments are dialect neutral text)
            toks, gaps, _ = lexer.split_gaps(s)
            ks = [k for k, g in enumerate(gaps) if g]
            c = rnd.choice(["-- note\n", "# note\n", "/* note */", "--note\n", "#note\n"])
            if ks:
                k = rnd.choice(ks)
                gaps[k] = " " + c + " "
                stmts.append(lexer.join(toks, gaps))
            stmts.append(rnd.choice(["# header\n", "-- header\n", "/* header */ "]) + s + rnd.choice([" # end", " -- end", " /* end */"]))
    stmts += [c["sql"] for c in impl.corpus() if len(c["sql"]) < 400]
    # the same statements with the whitespace round operators and parentheses removed (and with a line break / comment right behind an operator):
    # what a terminal sees next to a name then changes, and the dialects' identifier terminals are written differently
    OPCH = set("-+*/%<>=|&~!^(),")
    glued = []
    for s in stmts[:ctx.n(400, 4000)]:
        toks, gaps, tr = lexer.split_gaps(s)
        if len(toks) < 3:
            continue
        g2, changed = list(gaps), False
        for k in range(1, len(toks)):
            a_, b_ = toks[k - 1][1], toks[k][1]
            opa, opb = a_[-1] in OPCH, b_[0] in OPCH
            if g2[k].strip() == "" and g2[k] and (opa != opb or (opa and opb and (a_ in "()," or b_ in "(),"))) and rnd.random() < 0.6:
                g2[k] = rnd.choice(["", "", "", "\n", "\t"]) if opa and not opb and a_ not in "()," else ""
                changed = True
        if changed:
            glued.append(lexer.join(toks, g2, tr))
    stmts += glued
    stmts += ["select '''quoted''' from t", "select '''' || '''' from t", "select * from t where a = '''x''' and b = ''''", "insert into t (a) values ('''a'''), ('''''')", "update t set a = '''' || b || ''''",
              "select a-(b) from t", "select a-\nb from t", "select a-'x' from t", "select a from t where a-(select 1)>0", "select (a)-b from t", "select a*-b from t", "select a-/* c */b from t"]
    disagreements, nneutral, prem_bad = [], 0, []
    for si, sql in enumerate(stmts):
        if not neutral(sql):
            continue
        nneutral += 1
        for ac in (None, "*"):
            rs = all_entries(sql, ac)
            ctx.count(1, (sql, ac))
            if not agree(rs):
                disagreements.append(dict(sql=sql, all_columns=ac, results={e: short(r, 300) for e, r in zip(ENTRIES, rs)}))
        if reg and si % ctx.n(12, 6) == 0 and len(sql) < 200:
            pb = premises(reg, tabs, sql, None, dt)
            ctx.traces += 1
            if pb:
                prem_bad.append(dict(sql=sql, premise=[str(x) for x in pb[:3]]))
    ctx.obligation("premises of C18_dialect_neutral on %d neutral statements: no quote / bracket / at-sign terminal matches anywhere, the dialects' identifier terminals agree at every position" % ctx.traces, not prem_bad, str(prem_bad[:2]))

    # ---- the documented differences, for every content
    contents = ["a", "a b", "x.y", "select", "1", "é", "it's", "a,b", "A", "  ", "a-b", "a/*c*/", "--", "#", "(", "null"] + [rnd.choice(UNI) + str(rnd.randint(0, 9)) for _ in range(ctx.n(10, 100))]
    doc_bad = []
    for c in contents:
        ctx.count(1, ("doc", c))
        dq = all_entries('select "%s" from t' % c.replace('"', '""'), None)
        want_id = ("ok", canon({"select": {"value": c}, "from": "t"}))
        want_str = ("ok", canon({"select": {"value": {"literal": c}}, "from": "t"}))
        if "." in c:
            want_id = None      # a dot inside a quoted identifier is kept with an escape; C07 decides the exact spelling
        for e, r in zip(ENTRIES, dq):
            want = want_id if e in ("parse", "parse_sqlserver") else want_str
            if want is not None and r != want:
                doc_bad.append(dict(sql='select "%s" from t' % c, entry=e, got=short(r, 200), documented="identifier" if want is want_id else "string literal"))
        bt = all_entries("select `%s` from t" % c.replace("`", "``"), None)
        if "." not in c:
            for e, r in zip(ENTRIES, bt):
                if r != want_id:
                    doc_bad.append(dict(sql="select `%s` from t" % c, entry=e, got=short(r, 200), documented="identifier"))
        if "]" not in c and "." not in c:
            sq = all_entries("select [%s] from t" % c, None)
            if sq[2] != want_id:
                doc_bad.append(dict(sql="select [%s] from t" % c, entry="parse_sqlserver", got=short(sq[2], 200), documented="identifier"))
            for idx in (0, 3):
                r = sq[idx]
                if r[0] == "ok" and r == want_id:
                    doc_bad.append(dict(sql="select [%s] from t" % c, entry=ENTRIES[idx], got=short(r, 200), documented="array constructor or index, not an identifier"))
    ctx.obligation("documented differences on %d contents: double quotes (identifier for parse / parse_sqlserver, string for parse_mysql / parse_bigquery), brackets, backticks" % len(contents), not doc_bad, str(doc_bad[:2]))
    for x in disagreements[:8]:
        ctx.violation("input", x)
    for x in doc_bad[:5]:
        ctx.violation("input", x)
    for x in prem_bad[:3]:
        ctx.violation("input", dict(sql=x["sql"], broken="premise of C18_dialect_neutral fails on a neutral statement", premise=x["premise"]), no_input=not disagreements)
    if broken and not disagreements:
        ctx.violation("obligation", dict(what="the dialect tables are no longer similar to the common one", detail=broken[:3]), no_input=True)
    ctx.sample(dict(statements=len(stmts), neutral=nneutral, example=stmts[3] if len(stmts) > 3 else None))


def replay(ctx, rep):
    d = rep.get("detail", rep)
    if "sql" in d and "all_columns" in d:
        rs = all_entries(d["sql"], d["all_columns"])
        for e, r in zip(ENTRIES, rs):
            print(e, short(r, 300))
        if not agree(rs):
            print("VIOLATION property=C18 replay=%s" % ctx.replay)
            return 1
        return 0
    if "sql" in d and "entry" in d:
        print(d["sql"], "->", impl.outcome(getattr(impl.M, d["entry"]), d["sql"]), "documented:", d.get("documented"))
        print("VIOLATION property=C18 replay=%s" % ctx.replay)
        return 1
    print(json.dumps(d)[:2000])
    print("VIOLATION property=C18 replay=%s no-failing-input-found" % ctx.replay)
    return 1
