# C08 — results are plain JSON in the documented simplified form, under every option.
import json
from common import *
import impl, l2

THMS = ["C08_plain_json", "C08_simplified_simple", "C08_simplified_normal", "C08_good_decidable"]


def oracle(value, mode, nullname, path_note=""):
    """direct property oracle on one returned value; returns description of violation or None"""
    if value is None:
        return None
    null = dict(l2.NULLS)[nullname]
    # None is allowed only where null=None was requested; containers supplied by the caller are the caller's business
    def strip(x):
        if nullname == "none" and x is None:
            return 0
        if nullname == "nest" and x == null:
            return 0
        if nullname == "dict" and x == null:
            return 0
        if type(x) is list:
            return [strip(v) for v in x]
        if type(x) is dict:
            return {k: strip(v) for k, v in x.items()}
        return x
    try:
        if json.loads(json.dumps(value, allow_nan=False)) != value:
            return "json round trip changes the value"
    except Exception as e:
        return "json.dumps fails: %s" % type(e).__name__
    if mode == "record":
        return None  # custom callback: only plain-JSON-ness is required of the library
    return l2.simplified_violation(strip(value), normal=(mode == "normal"))


def run(ctx):
    ctx.rule = ("statements = captured test corpus (deduplicated) + grammar-directed generator; a case = (dialect, sql, calls mode, null, "
                "all_columns); non-trivial/distinct = distinct (sql, mode, null, all_columns) accepted by the parser whose raw result has at least one "
                "ParseResults node; the Coq model scrubs the captured raw result and must equal the implementation's substituted output")
    ok, _ = ctx.prove("Props.C08", THMS)
    l2.U = impl.build_all()
    stmts = l2.statements(ctx, ctx.n(300, 3000))
    rnd = ctx.rng("matrix")
    cases, meta = [], []
    outside = []
    for parser, sql in stmts:
        combos = [(m, n, ac) for m in l2.MODES for n in [x[0] for x in l2.NULLS] for ac in (None, "*")]
        if not ctx.thorough:
            combos = [("simple", "default", None)] + rnd.sample(combos, 3)
        for mode, nn, ac in combos:
            st, val, cap, x = l2.run_case(parser, sql, mode, nn, None, all_columns=ac)
            ctx.count(1)
            if st == "exc":
                continue  # C14's business
            if st != "ok":
                continue
            ctx.count(0, (sql, mode, nn, ac))
            v = oracle(val, mode, nn)
            if v:
                ctx.violation("input", dict(call=dict(entry=parser, sql=sql, calls=mode, null=nn, all_columns=ac), returned=short(val, 1500),
                                            requires="plain simplified JSON", observed=v))
                continue
            if len(cap) != 1:
                continue
            raw, out = cap[0]
            try:
                term = l2.dump(raw, {})
            except l2.Outside as e:
                outside.append((parser, sql, str(e)))
                ctx.violation("input", dict(call=dict(entry=parser, sql=sql, calls=mode, null=nn, all_columns=ac),
                                            observed="raw parse result outside the modelled universe: %s" % e,
                                            requires="parse actions return only ParseResults/Call/dict/list/str/number/None (the universe Model/Scrub.v quantifies over)"),
                              no_input=not isinstance(e, l2.Outside))
                continue
            cases.append(l2.coq_case(mode, None, x, term, out))
            meta.append(dict(entry=parser, sql=sql, calls=mode, null=nn, all_columns=ac, impl=short(out, 800)))
    ctx.sample(meta[0] if meta else None)
    ctx.sample(meta[len(meta) // 2] if meta else None)
    ctx.log("cases for the model:", len(cases))
    res, log = l2.run_model(ctx, "c08", cases)
    if res is None:
        ctx.obligation("correspondence Model/Scrub.v vs implementation evaluated", False, log[-2000:])
        ctx.violation("obligation", dict(what="correspondence check could not be evaluated by coqc", log=log[-2000:]), no_input=True)
        return
    ctx.traces = len(cases)
    ctx.obligation("correspondence: model scrub = implementation scrub on %d captured raw results" % len(cases), not res["mismatch"])
    ctx.obligation("premise good (duplicate-free keys, no op/kwarg collision) holds on every captured raw result", not res["ungood"],
                   [meta[i] for i in res["ungood"][:3]])
    ctx.extra["premise_good_checked_on"] = len(cases)
    for i in res["mismatch"][:5]:
        m = meta[i]
        # the model and the code disagree: is the property violated on this input?  the oracle already ran on it and passed.
        ctx.violation("input", dict(call=m, what="Model/Scrub.v (for which C08_plain_json / C08_simplified_* are proved) and utils.scrub disagree on this input; "
                                              "the direct oracle found no deviation from plain simplified JSON on it",
                                    broken="correspondence Model.Scrub.parse_result vs mo_sql_parsing.utils.scrub + substitution loop"), no_input=True)
    for i in res["ungood"][:3]:
        ctx.violation("input", dict(call=meta[i], what="premise `good` of the C08/C11 theorems fails on this raw result (duplicate keys or operator/kwarg name collision)"), no_input=True)


def replay(ctx, rep):
    c = rep.get("call", {})
    st, val, cap, x = l2.run_case(c["entry"], c["sql"], c["calls"], c["null"], None, all_columns=c.get("all_columns"))
    print("outcome:", st, short(val, 2000))
    v = oracle(val, c["calls"], c["null"]) if st == "ok" else None
    print("oracle:", v)
    if v:
        print("VIOLATION property=C08 replay=%s" % ctx.replay)
        return 1
    return 0
