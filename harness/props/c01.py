# C01 — expression trees honour operator precedence, associativity and operand order.
import json, re, sqlite3, itertools
from common import *
import impl, l1

THMS = ["C01_parse_is_tree", "C01_names", "C01_flatten_set"]


def label(T, e):
    ent = T["entries"][e]
    w = ent["spellings"][0] if ent["kind"] != "tern" else ent["spellings"][0][0]
    return "%s:%s" % (ent["kind"], " ".join(w))


def ref_levels(ctx, T):
    """reference level per entry, computed by the Coq side (entry_ref) from Spec/RefOrder.v and the regenerated spellings"""
    ok, out = ctx.coq_eval("ref", "From Coq Require Import List. Import ListNotations.\nFrom MoSql Require Import Model.L1 Generated.Tables.\n"
                                  "Eval vm_compute in (map (fun e => (e, match entry_ref e with Some l => S l | None => 0 end)) (seq 0 (List.length tbl))).\n"
                                  "Eval vm_compute in bad_ref_triples.\n")
    if not ok:
        return None, None, out
    parts = out.split(": list")
    lv = {int(a): int(b) - 1 for a, b in re.findall(r"\(\s*(\d+),\s*(\d+)\)", parts[0]) if int(b) > 0}
    bad = [(int(a), int(b), int(c)) for a, b, c in re.findall(r"\(\s*(\d+),\s*(\d+),\s*(\d+)\)", parts[1])]
    return lv, bad, out


# ---------------------------------------------------------------- parenthesised ASTs
def rule(kind, s, lc, lp):
    if kind in ("pre", "suf"):
        return lc <= lp
    return lc <= lp if s == 0 else lc < lp


class Gen:
    def __init__(self, T, rnd, lv):
        self.T, self.r, self.lv = T, rnd, lv
        self.vocab = [e for e in T["entries"] if e["idx"] in lv and e["sids"]]
        self.extra = [e for e in T["entries"] if e["kind"] in ("bin",) and e["sids"] and e["idx"] not in lv
                      and all(re.fullmatch(r"[a-z ]+|<=>", " ".join(T["spell"][s]["words"])) for s in e["sids"])]
        self.n = 0
        self.and_sid = l1.spelling_id(["and"], ("bin",))

    def atom(self):
        if self.r.random() < 0.06:
            return ("leaf", 0)
        self.n += 1
        return ("leaf", self.n)

    def tree(self, d, pool=None):
        """a reference AST (no parentheses yet): ("leaf", n) | (kind, entry, sid, kids...)"""
        if d <= 0 or self.r.random() < 0.2:
            return self.atom()
        e = self.r.choice(pool or self.vocab)
        sid = self.r.choice([s for s in e["sids"] if self.T["spell"][s]["name"]] or e["sids"])
        if e["kind"] == "pre":
            return ("pre", e["idx"], sid, self.tree(d - 1, pool))
        if e["kind"] == "bin":
            return ("bin", e["idx"], sid, self.tree(d - 1, pool), self.tree(d - 1, pool))
        return ("tern", e["idx"], sid, self.tree(d - 1, pool), self.tree(d - 1, pool), self.tree(d - 1, pool))


def first_word(T, a):
    """the first token of the rendering of a parenthesised tree"""
    if a[0] == "paren":
        return "("
    if a[0] == "leaf":
        return "<atom>"
    if a[0] == "pre":
        return T["spell"][a[2]]["words"][0]
    return first_word(T, a[3])


def paren(T, t, need, extra_rate, rnd):
    """insert PParen where need(parent kind, parent entry, slot, child entry) says so, plus redundant ones at random"""
    if t[0] == "leaf":
        # a bare NULL is never parenthesised here: `a = (NULL)` is one of the documented literal foldings that parentheses do change
        return ("paren", t) if (t[1] != 0 and rnd.random() < extra_rate / 2) else t
    kind, e, sid = t[0], t[1], t[2]
    kids = []
    for s, c in enumerate(t[3:]):
        pc = paren(T, c, need, extra_rate, rnd)
        glue = (first_word(T, pc) == "not" and T["spell"][sid]["words"][-1] == "is" and s == len(t) - 4)
        # `is` directly followed by a prefix `not` would be read as the operator `is not` (longest match): never generated
        if c[0] != "leaf" and pc[0] != "paren" and (need(kind, e, s, c[1]) or glue):
            pc = ("paren", pc)
        elif pc[0] != "paren" and c != ("leaf", 0) and rnd.random() < extra_rate:
            pc = ("paren", pc)
        kids.append(pc)
    return (kind, e, sid) + tuple(kids)


def exposed_edges(a):
    """unparenthesised (parent entry, slot, child entry) edges of a parenthesised tree"""
    out = []
    if a[0] == "paren":
        return exposed_edges(a[1])
    if a[0] == "leaf":
        return out
    for s, c in enumerate(a[3:]):
        if c[0] not in ("leaf", "paren"):
            out.append((a[1], s, c[1]))
        out += exposed_edges(c)
    return out


def toks(T, a, and_sid):
    if a[0] == "leaf":
        return [(0, a[1])]
    if a[0] == "paren":
        return [(3, 0)] + toks(T, a[1], and_sid) + [(4, 0)]
    if a[0] == "pre":
        return [(1, a[2])] + toks(T, a[3], and_sid)
    if a[0] == "bin":
        return toks(T, a[3], and_sid) + [(2, a[2])] + toks(T, a[4], and_sid)
    return toks(T, a[3], and_sid) + [(2, a[2])] + toks(T, a[4], and_sid) + [(2, and_sid)] + toks(T, a[5], and_sid)


def cpast(a, and_sid):
    if a[0] == "leaf":
        return "(PLeaf jv (JA %d))" % a[1]
    if a[0] == "paren":
        return "(PParen jv %s)" % cpast(a[1], and_sid)
    if a[0] == "pre":
        return "(PPre jv %d (JT %d) %s)" % (a[1], a[2], cpast(a[3], and_sid))
    if a[0] == "bin":
        return "(PBin jv %d (JT %d) %s %s)" % (a[1], a[2], cpast(a[3], and_sid), cpast(a[4], and_sid))
    return "(PTern jv %d (JT %d) (JT %d) %s %s %s)" % (a[1], a[2], and_sid, cpast(a[3], and_sid), cpast(a[4], and_sid), cpast(a[5], and_sid))


HEADER = l1.HEADER.split("(* case:")[0] + """
From MoSql Require Import Proofs.WfBool.
(* case: parenthesised tree, the harness's own token rendering of it, the implementation's tree for that text *)
Definition case1 := (past jv * list (nat * nat) * option jv)%type.
Definition tok_ok (c : case1) : bool := let '(a, toks, r) := c in toks_eqb (show (tokens' a)) toks.
Definition parse_ok (c : case1) : bool :=
  let '(a, toks, r) := c in
  match parse' (2 * length toks + 2) (unshow toks), r with
  | Some (v, []), Some w => jv_eqb v w
  | Some (v, _ :: _), None => true
  | None, None => true
  | _, _ => false
  end.
Definition premise (c : case1) : bool := let '(a, toks, r) := c in pwfb a && wfb (flat' a).
Definition canon_ok (c : case1) : bool := let '(a, toks, r) := c in match r with Some w => jv_eqb (peval' a) w | None => false end.
Fixpoint failing1 (f : case1 -> bool) (i : nat) (l : list case1) : list nat :=
  match l with [] => [] | c :: t => (if f c then [] else [i]) ++ failing1 f (S i) t end.
"""


def run_cases(ctx, name, cases, shard=400):
    import concurrent.futures as cf
    shards = [cases[i:i + shard] for i in range(0, len(cases), shard)]

    def one(i):
        body = HEADER + "Definition cases : list case1 := [\n" + ";\n".join(shards[i]) + "\n].\n"
        for nm, f in (("TOK", "tok_ok"), ("PARSE", "parse_ok"), ("PREM", "premise"), ("CANON", "canon_ok")):
            body += "Definition %s := failing1 %s 0 cases.\nEval vm_compute in %s.\n" % (nm, f, nm)
        ok, out = ctx.coq_eval("%s_%d" % (name, i), body)
        if not ok:
            return i, None, out
        parts = re.findall(r"=\s*\[(.*?)\]\s*:\s*list nat", out, re.S)
        if len(parts) != 4:
            return i, None, out
        return i, [[int(x) for x in b.replace("\n", " ").split(";") if x.strip()] for b in parts], out

    acc = dict(tok=[], parse=[], prem=[], canon=[])
    with cf.ThreadPoolExecutor(max_workers=min(NCPU, 12)) as ex:
        for i, res, out in ex.map(one, range(len(shards))):
            if res is None:
                return None, out
            for key, idx in zip(("tok", "parse", "prem", "canon"), res):
                acc[key].extend(i * shard + j for j in idx)
    ctx.checker_cmds.append("coqc -Q coq MoSql <generated case files> (Eval vm_compute)")
    return acc, ""


# ---------------------------------------------------------------- SQLite: the semantic sentence of the property
SQLITE_OK = {"+", "-", "*", "/", "%", "||", "&", "|", "<", "<=", ">", ">=", "=", "==", "!=", "<>", "and", "or", "not", "~",
             "is", "is not", "like", "not like", "between", "not between", "in", "not in"}
ROWS = [(1, 2, 3, 4, 5, 6), (0, 1, 0, 1, 0, 1), (7, 3, 2, 5, 1, 4), (None, 2, 0, None, 3, 1), (5, 5, 5, 5, 5, 5), (-3, 2, -1, 4, 0, 7), (9, 0, 2, 0, 1, 3), (2, None, 1, 3, None, 0)]


def sql_of_json(j):
    """independent fully parenthesised printer of an implementation tree with the documented meaning of each name (SQLite dialect)"""
    SYM = {"add": "+", "sub": "-", "mul": "*", "div": "/", "mod": "%", "concat": "||", "binary_and": "&", "binary_or": "|", "lt": "<", "lte": "<=", "gt": ">", "gte": ">=",
           "eq": "IS", "neq": "IS NOT", "and": "AND", "or": "OR", "like": "LIKE", "not_like": "NOT LIKE"}
    if isinstance(j, str):
        m = re.fullmatch(r"x(\d+)", j)
        if not m:
            raise ValueError(j)
        return "c%d" % ((int(m.group(1)) - 1) % 6)
    if isinstance(j, dict):
        if j == {"null": {}}:
            return "NULL"
        (k, v), = j.items()
        args = v if isinstance(v, list) else [v]
        a = [sql_of_json(x) for x in args]
        if k in ("eq", "neq"):
            # conservative equality in the documentation; in SQL text '=' : use = / <> so that NULL behaves as SQLite's own operator
            op = "=" if k == "eq" else "<>"
            return "(%s %s %s)" % (a[0], op, a[1])
        if k in SYM:
            out = a[0]
            for x in a[1:]:
                out = "(%s %s %s)" % (out, SYM[k], x)
            return out
        if k == "not":
            return "(NOT %s)" % a[0]
        if k == "binary_not":
            return "(~%s)" % a[0]
        if k == "neg":
            return "(-%s)" % a[0]
        if k == "pos":
            return "(+%s)" % a[0]
        if k == "missing":
            return "(%s IS NULL)" % a[0]
        if k == "exists":
            return "(%s IS NOT NULL)" % a[0]
        if k == "between":
            return "(%s BETWEEN %s AND %s)" % tuple(a)
        if k == "not_between":
            return "(%s NOT BETWEEN %s AND %s)" % tuple(a)
    raise ValueError("outside the SQLite comparison: %r" % (j,))


def sqlite_vector(conn, expr):
    try:
        return [r[0] for r in conn.execute("select %s from env order by rowid" % expr)]
    except sqlite3.Error as e:
        return "ERR %s" % e


def run(ctx):
    T = l1.load_tables()
    ctx.rule = ("expression ASTs over the KNOWN_OPS vocabulary with a reference level (Spec/RefOrder.v) plus a few outside it, depth <= 4, every operator spelling; rendered with parentheses "
                "(a) exactly where the library's edge rule needs them, (b) exactly where the reference order needs them, (c) fully, each with random redundant parentheses; "
                "exhaustive depth-2 (outer entry x slot x inner entry); distinct non-trivial = distinct token strings with at least two operators")
    if l1.STALE:
        ctx.obligation("tables regenerated from /repo (translator harness/regen.py)", False, l1.STALE)
        ctx.violation("obligation", dict(broken="translator harness/regen.py fails closed: " + l1.STALE, theorem="Props.C01 not re-established"), no_input=True)
        return
    ok, out = ctx.prove("Props.C01", THMS)
    lv, bad, log = ref_levels(ctx, T) if ok else (None, None, out)
    if lv is None:
        # names / flatten obligations or the build failed: find out which spelling is misnamed by probing
        ctx.log(log[-1500:])
        for s in T["spell"]:
            pass
        ctx.violation("obligation", dict(broken="Props/C01.v does not build against the regenerated tables (names_ok / flatten_ok / tables_ok)", log=log[-1500:],
                                         names={" ".join(s["words"]): s["name"] for s in T["spell"]}, flatten=T["flatten"]), no_input=True)
        return
    conn = sqlite3.connect(":memory:")
    conn.execute("create table env (c0, c1, c2, c3, c4, c5)")
    conn.executemany("insert into env values (?,?,?,?,?,?)", ROWS)
    known = {}
    for f in ctx.findings:
        for t in f.get("triples", []):
            known[tuple(t)] = f
    lab = lambda e: label(T, e)
    bad_l = [(lab(p), s, lab(c)) for p, s, c in bad]
    new = [t for t in bad_l if t not in known]
    ctx.obligation("every (parent, slot, child) where the reference order omits parentheses but the library's levels need them is a listed finding (%d today)" % len(bad_l), not new, new[:10])
    for f in ctx.findings:
        if any(tuple(t) in set(bad_l) for t in f.get("triples", [])):
            ctx.known(f["key"], "%s e.g. %s" % (f["what"], f.get("witness", "")))
    rnd = ctx.rng("c01")
    g = Gen(T, rnd, lv)
    and_sid = g.and_sid
    lib_need = lambda kind, e, s, c: not rule(kind, s, c, e)
    ref_need = lambda kind, e, s, c: not (e in lv and c in lv and rule(kind, s, lv[c], lv[e]))
    full_need = lambda kind, e, s, c: True
    cases, meta = [], []

    def add(a, style):
        tk = toks(T, a, and_sid)
        text = l1.text_of_tokens(tk)
        st, v = impl.outcome(impl.M.parse, "select " + text)
        r = None
        if st == "ok":
            try:
                r = l1.from_json(v["select"]["value"])
            except Exception:
                r = None
            if r is None:
                r = ("A", 999999)
        elif st == "exc":
            ctx.violation("input", dict(sql="select " + text, observed="parse raised %s" % v, requires="a tree or ParseException"))
            return
        cases.append("(%s, %s, %s)" % (cpast(a, and_sid), l1.ctoks(tk), "None" if r is None else "(Some %s)" % l1.coq_tree(r)))
        meta.append(dict(sql=text, style=style, impl=short(v, 500), edges=[(lab(p), s, lab(c)) for p, s, c in exposed_edges(a)], tree=v if st == "ok" else None,
                         in_vocab=all(p in lv and c in lv for p, s, c in exposed_edges(a))))
        ctx.count(1, text if sum(1 for t in tk if t[0] in (1, 2)) >= 2 else None)

    # exhaustive depth 2 over the vocabulary, in reference-minimal and full style, every spelling of the outer operator
    for P in g.vocab:
        for sidP in P["sids"]:
            nk = {"pre": 1, "bin": 2, "tern": 3}[P["kind"]]
            for s in range(nk):
                for C in g.vocab:
                    kids = [("leaf", 1 + i) for i in range(nk)]
                    nc = {"pre": 1, "bin": 2, "tern": 3}[C["kind"]]
                    kids[s] = (C["kind"], C["idx"], C["sids"][0]) + tuple(("leaf", 10 + i) for i in range(nc))
                    t = (P["kind"], P["idx"], sidP) + tuple(kids)
                    add(paren(T, t, ref_need, 0, rnd), "ref-minimal")
                    if sidP == P["sids"][0]:
                        add(paren(T, t, lib_need, 0, rnd), "lib-minimal")
    for _ in range(ctx.n(1500, 25000)):
        g.n = 0
        t = g.tree(rnd.randint(2, 4))
        style = rnd.choice(["lib", "lib", "ref", "ref", "full", "random"])
        if style == "lib":
            add(paren(T, t, lib_need, rnd.choice([0, 0.15]), rnd), "lib-minimal+redundant")
        elif style == "ref":
            add(paren(T, t, ref_need, rnd.choice([0, 0.15]), rnd), "ref-minimal+redundant")
        elif style == "full":
            add(paren(T, t, full_need, 0, rnd), "full")
        else:
            add(paren(T, t, lambda *a: rnd.random() < 0.5, 0.1, rnd), "random")
    ctx.sample(meta[3] if meta else None)
    ctx.sample(meta[-1] if meta else None)
    res, log = run_cases(ctx, "c01", cases)
    if res is None:
        ctx.obligation("correspondence evaluated", False, log[-2000:])
        ctx.violation("obligation", dict(what="correspondence check could not be evaluated by coqc", log=log[-2000:]), no_input=True)
        return
    ctx.traces = len(cases)
    ctx.obligation("harness rendering of parenthesised trees = model rendering (tokens') on %d cases" % len(cases), not res["tok"])
    ctx.obligation("correspondence: model reader/reducer/to_json_operator = implementation parser on %d token strings (including the garbage both produce)" % len(cases), not res["parse"])
    prem_fail, canon_fail = set(res["prem"]), set(res["canon"])
    ctx.extra["premise_holds_on"] = len(cases) - len(prem_fail)
    ctx.obligation("no case satisfying the theorem's premise (pwfb, wfb) parses to anything but its own tree", not (canon_fail - prem_fail))
    for i in res["parse"][:5]:
        ctx.violation("input", dict(sql="select " + meta[i]["sql"], returned=meta[i]["impl"], broken="correspondence Model/Infix.v+Expr.v+Fmt.v(bbin) with regenerated tables vs implementation parser"),
                      no_input=(i not in canon_fail))
    # the property itself: reference-minimal, redundant and full renderings must give the canonical tree
    sql_checked = 0
    for i, m in enumerate(meta):
        refstyle = m["style"] != "random" and m["in_vocab"] and not m["style"].startswith("lib")
        if i in canon_fail and (refstyle or i not in prem_fail):
            kn = [e for e in m["edges"] if tuple(e) in known]
            if kn and i in prem_fail:
                continue
            ctx.violation("input", dict(sql="select " + m["sql"], style=m["style"], returned=m["impl"], requires="the tree fixed by the reference operator order (Spec/RefOrder.v)",
                                        exposed_edges=m["edges"]))
            continue
        # SQLite: value of the text == value of a fully parenthesised rendering of the returned tree
        if m["tree"] is not None and refstyle and i not in canon_fail and (ctx.thorough or i % 2 == 0):
            words = set(w.lower() for w in re.findall(r"[A-Za-z]+|[^\sA-Za-z0-9()]+", re.sub(r"\bx\d+\b", "", m["sql"])))
            if not words <= SQLITE_OK or words & {"like", "is", "between", "in", "ilike", "rlike"}:
                continue      # IS / IN / LIKE / BETWEEN sit on the library's own levels (the property's refinement): the structural sentence decides there
            try:
                full = sql_of_json(m["tree"]["select"]["value"])
            except Exception:
                continue
            txt = re.sub(r"\bx(\d+)\b", lambda mm: "c%d" % ((int(mm.group(1)) - 1) % 6), m["sql"])
            v1, v2 = sqlite_vector(conn, txt), sqlite_vector(conn, full)
            if isinstance(v1, str) or isinstance(v2, str):
                continue
            sql_checked += 1
            if v1 != v2:
                kn = [e for e in m["edges"] if tuple(e) in known]
                if kn:
                    continue
                ctx.violation("input", dict(sql="select " + m["sql"], returned=m["impl"], sqlite_text=txt, sqlite_tree=full, values_text=v1, values_tree=v2,
                                            requires="evaluating the returned tree gives what SQLite computes for the text on every row"))
    ctx.extra["sqlite_value_vectors_compared"] = sql_checked
    # operands are kept as written: every operator spelling with literal operands of several kinds (wide integers, decimals, strings) in both slots
    big = [9007199254740993, 1234567890123456789, 4611686018427387905, 18446744073709551617, 7]
    lits = [(str(b), b) for b in big] + [("2.5", 2.5), ("'it''s'", {"literal": "it's"}), ("x9", "x9")]
    for sp in T["spell"]:
        e = T["entries"][sp["entry"]]
        if e["kind"] != "bin" or not sp["name"] or sp["words"][0].startswith("#"):
            continue
        opx = " ".join(sp["words"])
        for k, (txt, val) in enumerate(lits):
            if (k + sp["entry"] + ctx.seed) % 3 and not ctx.thorough:
                continue
            for sql, want in (("x1 %s %s" % (opx, txt), ["x1", val]), ("%s %s x1" % (txt, opx), [val, "x1"])):
                st, v = impl.outcome(impl.M.parse, "select " + sql)
                ctx.count(1, ("operand", sql))
                if st != "ok":
                    continue
                got = v["select"]["value"]
                if not (isinstance(got, dict) and len(got) == 1):
                    continue
                (nm, args), = got.items()
                if isinstance(args, list) and len(args) == 2 and canon(args) != canon(want) and not ({"literal": "it's"} in want and nm in ("like", "not_like", "ilike", "not_ilike", "rlike", "not_rlike", "regexp", "not_regexp", "similar_to", "not_similar_to")):
                    ctx.violation("input", dict(sql="select " + sql, returned=short(v, 300), requires="operands %r, in this order, exactly as written" % (want,)))
    # CASE / CAST / :: / calls: the tree of the compound form is assembled from the trees of its parts, nothing folded or reordered on the way
    # (a comparand NULL of a simple CASE stays an eq with NULL: SQL compares with =, which is never true for NULL)
    subs = ["x1", "x2 + 3", "x3 * x4 - 1", "'s'", "x5 and x6", "7", "x7 || x8", "not x9", "(x1 + x2) * 2", "null"]
    def J(e):
        st, v = impl.outcome(impl.M.parse, "select " + e)
        return v["select"]["value"] if st == "ok" else None
    forms = []
    for _ in range(ctx.n(60, 600)):
        e1, e2, e3 = (rnd.choice(subs) for _ in range(3))
        j1, j2, j3 = J(e1), J(e2), J(e3)
        if None in (j1, j2, j3):
            continue
        kind = rnd.randrange(9)
        if kind == 0:
            forms.append(("case when %s then %s else %s end" % (e1, e2, e3), {"case": [{"when": j1, "then": j2}, j3]}))
        elif kind == 1:
            forms.append(("case when %s then %s when %s then %s end" % (e1, e2, e3, e1), {"case": [{"when": j1, "then": j2}, {"when": j3, "then": j1}]}))
        elif kind == 2 and e1 != "null":
            forms.append(("case %s when %s then %s end" % (e1, e2, e3), {"case": {"when": {"eq": [j1, j2]}, "then": j3}}))
        elif kind == 3 and e1 != "null":
            forms.append(("case %s when %s then %s when null then %s else %s end" % (e1, e2, e3, e2, e1),
                          {"case": [{"when": {"eq": [j1, j2]}, "then": j3}, {"when": {"eq": [j1, {"null": {}}]}, "then": j2}, j1]}))
        elif kind == 4 and e1 != "null":
            forms.append(("case %s when (null) then %s else %s end" % (e1, e2, e3), {"case": [{"when": {"eq": [j1, {"null": {}}]}, "then": j2}, j3]}))
        elif kind == 5:
            ty, tj = rnd.choice([("int", {"int": {}}), ("varchar(10)", {"varchar": 10}), ("decimal(8, 2)", {"decimal": [8, 2]}), ("double", {"double": {}})])
            forms.append(("cast(%s as %s)" % (e1, ty), {"cast": [j1, tj]}))
            forms.append(("(%s)::%s" % (e1, ty), {"cast": [j1, tj]}))
        elif kind == 6:
            forms.append(("fn1(%s, %s, %s)" % (e1, e2, e3), {"fn1": [j1, j2, j3]}))
            forms.append(("fn2()", {"fn2": {}}))
        elif kind == 7 and e1 != "null":
            forms.append(("fn3(%s)" % e1, {"fn3": j1}))
        elif kind == 8:
            forms.append(("fn4(%s, %s) + %s" % (e1, e2, "x1"), {"add": [{"fn4": [j1, j2]}, "x1"]}))
    for sql, want in forms:
        st, v = impl.outcome(impl.M.parse, "select " + sql)
        ctx.count(1, ("compound", sql))
        if st == "ok" and canon(v["select"]["value"]) != canon(want):
            ctx.violation("input", dict(sql="select " + sql, returned=short(v, 500), requires="the compound form assembled from the trees of its parts: " + short(want, 500)))
        elif st != "ok":
            ctx.violation("input", dict(sql="select " + sql, returned=[st, str(v)], requires="accepted: " + short(want, 500)))
    # new table triples: concretise
    for (P, s, C) in [t for t in bad if (lab(t[0]), t[1], lab(t[2])) in new][:20]:
        eP, eC = T["entries"][P], T["entries"][C]
        nk = {"pre": 1, "bin": 2, "tern": 3}[eP["kind"]]
        kids = [("leaf", 1 + i) for i in range(nk)]
        nc = {"pre": 1, "bin": 2, "tern": 3}[eC["kind"]]
        kids[s] = (eC["kind"], C, eC["sids"][0]) + tuple(("leaf", 10 + i) for i in range(nc))
        t = (eP["kind"], P, eP["sids"][0]) + tuple(kids)
        text = l1.text_of_tokens(toks(T, t, and_sid))
        st, v = impl.outcome(impl.M.parse, "select " + text)
        ctx.violation("input", dict(sql="select " + text, returned=short(v, 600), triple=[lab(P), s, lab(C)],
                                    requires="reference order (Spec/RefOrder.v): %s binds in slot %d of %s without parentheses; the library's KNOWN_OPS levels group it differently" % (lab(C), s, lab(P))))


def replay(ctx, rep):
    st, v = impl.outcome(impl.M.parse, rep["sql"])
    print(st, v)
    print("requires:", rep.get("requires"))
    print("VIOLATION property=C01 replay=%s" % ctx.replay)
    return 1
