# C16 — concurrent calls from several threads behave as if run one at a time.
import json, os, subprocess
from concurrent.futures import ThreadPoolExecutor
from common import *
import api_calls
from api_calls import CALLS, fresh
from props import c15

THMS = ["C16_all_entry_points_locked", "C16_any_serial_order", "C16_unlocked_refuted"]
PARSE_CALLS = [c for c in CALLS if c[0] != "format"]


def probe(cfg, timeout=200):
    env = dict(os.environ, PYTHONHASHSEED="0", PYTHONPATH="/repo")
    try:
        p = subprocess.run([PY, VERIF + "/harness/conc_probe.py"], input=json.dumps(cfg), capture_output=True, text=True, env=env, timeout=timeout)
    except subprocess.TimeoutExpired:
        return "TIMEOUT"
    try:
        return json.loads(p.stdout.strip().splitlines()[-1])
    except Exception:
        return "ERR " + (p.stderr or p.stdout)[-400:]


def run(ctx):
    ctx.rule = ("stress: fresh interpreters, 2-8 threads released by a barrier, each running a seeded random sequence from the C15 alphabet, switch interval 1e-6, cold and warm start; "
                "replay: for every ordered (victim, intruder) pair of entry points the intruder is scheduled between the victim's grammar match and its scrub (parser proxies), and between its scrub and its NULL substitution (scrub proxy); "
                "every result is compared with the single-call fresh-process result; distinct non-trivial = distinct (thread schedule seed, call) pairs")
    A = c15.shape_or_violation(ctx)
    ok = False
    if A is not None:
        ok, out = ctx.prove("Props.C16", THMS)
    rnd = ctx.rng("c16")
    with ThreadPoolExecutor(NCPU) as ex:
        solo = list(ex.map(lambda c: fresh([c]), CALLS))
    solo1 = {json.dumps(c): (s[0] if isinstance(s, list) else s) for c, s in zip(CALLS, solo)}
    found = 0
    # ---- stress
    cfgs = []
    for k in range(ctx.n(10, 80)):
        nt = rnd.choice([2, 3, 4, 6, 8])
        warm = k % 3 == 2
        seqs = []
        for t in range(nt):
            # neighbouring calls differ in calls= / null= / dialect; the first call of each thread uses a different dialect (cold first-creation race)
            first = [c for c in PARSE_CALLS if c[0] == ["parse", "parse_mysql", "parse_sqlserver", "parse_bigquery"][t % 4] and "all_columns" not in c[2]]
            seqs.append([rnd.choice(first)] + [rnd.choice(CALLS) for _ in range(ctx.n(12, 40))])
        cfgs.append(dict(mode="stress", seqs=seqs, warm=warm, timeout=100))
    with ThreadPoolExecutor(max(2, NCPU // 4)) as ex:
        outs = list(ex.map(probe, cfgs))
    for cfg, o in zip(cfgs, outs):
        if isinstance(o, str):
            ctx.violation("schedule", dict(threads=len(cfg["seqs"]), warm=cfg["warm"], observed=o, requires="all calls complete"))
            found += 1
            continue
        if any(o["alive"]):
            ctx.violation("schedule", dict(threads=len(cfg["seqs"]), warm=cfg["warm"], observed="threads still running after the time limit (deadlock?)", requires="all calls complete"))
            found += 1
            continue
        for i, (seq, res) in enumerate(zip(cfg["seqs"], o["out"])):
            bad = None
            for j, (c, r) in enumerate(zip(seq, res)):
                ctx.count(1, (len(cfgs), i, j) if j < 3 else None)
                if r != solo1[json.dumps(c)]:
                    bad = (j, c, r)
                    break
            if bad:
                j, c, r = bad
                ctx.violation("schedule", dict(threads=len(cfg["seqs"]), warm=cfg["warm"], thread=i, position=j, call=c, returned=short(r, 600), alone=short(solo1[json.dumps(c)], 600),
                                               other_threads_first_calls=[s[0] for k, s in enumerate(cfg["seqs"]) if k != i][:4], requires="every call returns what it returns when run alone",
                                               replay_cfg=cfg if len(json.dumps(cfg)) < 20000 else None))
                found += 1
                break
    ctx.sample(dict(stress_threads=[len(c["seqs"]) for c in cfgs][:6], first_calls=[s[0] for s in cfgs[0]["seqs"]]))
    # ---- deterministic victim / intruder replay
    reps = []
    vic = {"parse": ("parse", "select f(x), g(null) from t", {"calls": "normal_op", "null": 7}),
           "parse_mysql": ("parse_mysql", "select f(x), g(null) from t", {"calls": "normal_op", "null": 7}),
           "parse_sqlserver": ("parse_sqlserver", "select f(x), g(null) from t", {"calls": "normal_op", "null": 7}),
           "parse_bigquery": ("parse_bigquery", "select f(x), g(null) from t", {"calls": "normal_op", "null": 7})}
    intr = {"parse": ("parse", "select h(y), k(null) from u", {"fmap": {"h": "hh"}}),
            "parse_mysql": ("parse_mysql", "select h(y), k(null) from u", {"null": "N"}),
            "parse_sqlserver": ("parse_sqlserver", "select h(y), k(null) from u", {}),
            "parse_bigquery": ("parse_bigquery", "select h(y), k(null) from u", {"null": None})}
    for v in vic:
        for i in intr:
            reps.append(dict(mode="replay", victim=vic[v], intruder=intr[i], wait=0.2))
            reps.append(dict(mode="replay", point="scrub", victim=vic[v], intruder=intr[i], wait=0.2))
    with ThreadPoolExecutor(NCPU) as ex:
        solo_v = {v: fresh([vic[v]]) for v in vic}
        solo_i = {i: fresh([intr[i]]) for i in intr}
        outs = list(ex.map(probe, reps))
    for cfg, o in zip(reps, outs):
        ctx.count(1, ("replay", cfg.get("point", "match"), cfg["victim"][0], cfg["intruder"][0]))
        if isinstance(o, str) or any(o["alive"]):
            ctx.violation("schedule", dict(victim=cfg["victim"], intruder=cfg["intruder"], observed=str(o)[:300], requires="all calls complete"))
            found += 1
            continue
        rv, ri = o["res"].get("victim"), o["res"].get("intruder")
        ev, ei = solo_v[cfg["victim"][0]][0], solo_i[cfg["intruder"][0]][0]
        if rv != ev or ri != ei:
            ctx.violation("schedule", dict(schedule="victim: match | intruder: whole call | victim: scrub, substitute" if cfg.get("point") != "scrub" else "victim: match, scrub | intruder: whole call | victim: substitute", victim=cfg["victim"], intruder=cfg["intruder"],
                                           victim_returned=short(rv, 500), victim_alone=short(ev, 500), intruder_returned=short(ri, 500), intruder_alone=short(ei, 500),
                                           requires="every call returns what it returns when run alone", replay_cfg=cfg))
            found += 1
    if (A is None or not ok) and not found:
        ctx.violation("obligation", dict(broken="Props/C16.v: all_locked / shape_okb no longer check against __init__.py (or the translator failed closed)", shape=A), no_input=True)


def replay(ctx, rep):
    cfg = rep.get("replay_cfg")
    if not cfg:
        print("no replay configuration recorded")
        return 1
    print(probe(cfg))
    print("VIOLATION property=C16 replay=%s" % ctx.replay)
    return 1
