# C04 — format preserves meaning for every well-formed tree, not only parser output.
import json, re, sqlite3
from common import *
import impl, l1

THMS = ["C04_format_then_parse", "C04_tables_ok"]


def known_triples(ctx):
    out = {}
    for f in ctx.findings:
        for p, s, c in f.get("triples", []):
            out[(p, s, c)] = f
    return out


def impl_roundtrip(j, pos="select"):
    """format the tree in a clause position and re-parse; returns (ok, text or error, reparsed)"""
    q = {"select": {"value": j}, "from": "t"}
    if pos == "where":
        q = {"select": {"value": "a"}, "from": "t", "where": j}
    elif pos == "having":
        q = {"select": {"value": "a"}, "from": "t", "groupby": {"value": "a"}, "having": j}
    elif pos == "on":
        q = {"select": {"value": "a"}, "from": ["t", {"join": "u", "on": j}]}
    elif pos == "arg":
        q = {"select": {"value": {"f": [j, "b"]}}, "from": "t"}
    st, txt = impl.outcome(impl.M.format, q)
    if st != "ok":
        return False, "format raised %s" % (txt,), None
    st, back = impl.outcome(impl.M.parse, txt)
    if st != "ok":
        return False, txt, "re-parse rejected: %s" % (back,)
    return canon(back) == canon(q), txt, back


POSITIONS = ["select", "where", "having", "on", "arg"]


def compute_bad(ctx):
    ok, out = ctx.coq_eval("bad", "From Coq Require Import List. Import ListNotations.\nFrom MoSql Require Import Model.L1 Generated.Tables.\nEval vm_compute in bad_triples.\n")
    if not ok:
        return None, out
    T = l1.T
    tr = re.findall(r"\(\s*(\d+),\s*(\d+),\s*(\d+)\)", out)
    res = [(T["names"][int(a)], int(b), T["names"][int(c)]) for a, b, c in tr]
    return [t for t in res if not (t[0] == t[2] and T["info"][t[0]]["kind"] == "KNary")], out


def run(ctx):
    ctx.rule = ("trees in simplified normal form over the formatter's infix vocabulary (regenerated: %s): exhaustive depth 2 (outer x slot x inner), random to depth 5; "
                "each formatted by Formatter.dispatch under every clause-context precedence (unit level) and embedded as select item / WHERE / HAVING / ON / function argument (system level); "
                "distinct non-trivial = distinct (tree, context) with at least one operator-operator edge")
    T = l1.load_tables()
    ctx.rule = ctx.rule % ", ".join(sorted(T["info"]))
    if l1.STALE:
        # the translator failed closed: the theorem is not re-established for this tree; search for a failing input with the implementation alone
        ctx.obligation("tables regenerated from /repo (translator harness/regen.py)", False, l1.STALE)
        rnd = ctx.rng("stale")
        trees = [t for (_, _, _, t) in l1.depth2_trees()] + [l1.gen_tree(rnd, rnd.randint(2, 4), nary_max=4) for _ in range(3000)]
        known = known_triples(ctx)
        found = 0
        for k, t in enumerate(trees):
            es = l1.edges(t)
            if any(tuple(e) in known for e in es):
                continue
            okrt, txt, back = impl_roundtrip(l1.to_json(t), POSITIONS[k % 5])
            ctx.count(1)
            if not okrt:
                found += 1
                ctx.violation("input", dict(tree=l1.to_json(t), position=POSITIONS[k % 5], formatted=txt, reparsed=short(back, 800), requires="parse(format(T)) == T",
                                            note="found while the table translator fails closed: " + l1.STALE))
                if found >= 3:
                    break
        if not found:
            ctx.violation("obligation", dict(broken="translator harness/regen.py fails closed on this tree: " + l1.STALE,
                                             theorem="Props.C04.C04_format_then_parse is not re-established"), no_input=True)
        return
    ok, out = ctx.prove("Props.C04", THMS)
    from mo_sql_parsing.formatting import Formatter
    known = known_triples(ctx)
    # ---- obligation: the table-derived exclusion set is covered by the listed findings
    bad, log = compute_bad(ctx) if ok else (None, "build failed")
    new_triples = []
    if bad is None:
        ctx.obligation("bad_triples computed from the generated tables", False, log[-1500:])
    else:
        new_triples = [t for t in bad if t not in known]
        ctx.obligation("every (parent, slot, child) triple where the formatter omits parentheses the parser needs is a listed finding (%d triples today)" % len(bad), not new_triples, new_triples[:10])
        ctx.extra["bad_triples"] = len(bad)
        gone = sorted(set(known) - set(bad))
        if gone:
            ctx.notes.append("known finding triples that no longer reproduce: %s" % gone[:10])
        for f in ctx.findings:
            if any(tuple(t) in set(bad) for t in f.get("triples", [])):
                ctx.known(f["key"], "%s (%d triples) e.g. %s" % (f["what"], len(f["triples"]), f["triples"][0]))
    # ---- search around new triples: the depth-2 tree, in every clause position, bare and under every one-level context
    for (P, s, C) in new_triples[:40]:
        found = False
        base = l1.make_depth2(P, s, C)
        cands = [base]
        for Q in l1.vocab():
            for qs in range(l1.arity(Q) if not T["info"][Q]["ratom"] else 1):
                args = [("A", 50 + i) for i in range(l1.arity(Q))]
                if T["info"][Q]["ratom"]:
                    args[1] = ("A", l1.LIST_ATOM)
                args[qs] = base
                if not (Q == P and T["info"][Q]["kind"] == "KNary"):
                    cands.append(("C", Q, args))
        for t in cands:
            for pos in POSITIONS:
                okrt, txt, back = impl_roundtrip(l1.to_json(t), pos)
                ctx.count(1)
                if not okrt:
                    ctx.violation("input", dict(tree=l1.to_json(t), position=pos, formatted=txt, reparsed=short(back, 800), triple=[P, s, C],
                                                requires="parse(format(T)) == T", why="formatter omits parentheses around %s in slot %d of %s; the parser's levels need them" % (C, s, P)))
                    found = True
                    break
            if found:
                break
        if not found:
            ctx.violation("obligation", dict(triple=[P, s, C], broken="Oblig: bad_triples (Model/L1.v) not covered by known findings; hypothesis edges_ok' of C04_format_then_parse fails for this edge",
                                             searched="depth-2 tree and all one-level contexts in 5 clause positions"), no_input=True)
    # ---- correspondence + oracle on generated trees
    rnd = ctx.rng("trees")
    trees = [t for (_, _, _, t) in l1.depth2_trees()]
    trees += [l1.gen_tree(rnd, rnd.randint(2, 5)) for _ in range(ctx.n(1200, 20000))]
    cases, meta = [], []
    ctxs = sorted(set(T["ctx"].values()))
    for k, t in enumerate(trees):
        j = l1.to_json(t)
        es = l1.edges(t)
        for pc in (ctxs if (ctx.thorough or k % 4 == 0) else [ctxs[k % len(ctxs)]]):
            prec = (pc - 4) / 2
            try:
                txt = Formatter().dispatch(j, prec)
                toks = l1.tokens_of_text(txt)
            except Exception as e:
                ctx.violation("input", dict(tree=j, prec=prec, observed="format raised or produced untokenisable text: %r" % e, requires="format renders every well-formed tree"))
                continue
            st, v = impl.outcome(impl.M.parse, "select " + txt)
            r = None
            if st == "ok":
                try:
                    r = l1.from_json(v["select"]["value"])
                except Exception:
                    r = None
                if r is None:
                    r = ("A", 999999)   # a tree outside the abstraction: the model must not produce it
            cases.append("(%s, %d, %s, %s)" % (l1.coq_tree(t), pc, l1.ctoks(toks), "None" if r is None else "(Some %s)" % l1.coq_tree(r)))
            meta.append(dict(tree=j, prec=prec, text=txt, reparsed=short(v, 600), edges=es))
            ctx.count(1, (json.dumps(j), pc) if es else None)
    ctx.sample(meta[len(meta) // 3] if meta else None)
    ctx.sample(meta[-1] if meta else None)
    res, log = l1.run_cases(ctx, "c04", cases)
    if res is None:
        ctx.obligation("correspondence evaluated", False, log[-2000:])
        ctx.violation("obligation", dict(what="correspondence check could not be evaluated by coqc", log=log[-2000:]), no_input=True)
        return
    ctx.traces = len(cases)
    ctx.obligation("correspondence: model formatter tokens = implementation formatter tokens on %d (tree, context) pairs" % len(cases), not res["fmt"])
    ctx.obligation("correspondence: model reader/reducer = implementation parser on the same %d token streams" % len(cases), not res["parse"])
    rt_fail, edge_bad = set(res["rt"]), set(res["edge"])
    unexplained = sorted(rt_fail - edge_bad)
    ctx.obligation("no round-trip failure on a tree all of whose edges satisfy edges_ok' (the theorem's premise)", not unexplained)
    ctx.extra["roundtrip_failures_all_with_bad_edges"] = len(rt_fail)
    ctx.extra["trees_with_bad_edges"] = len(edge_bad)
    # classify failures
    for i in sorted(rt_fail):
        m = meta[i]
        kn = [e for e in m["edges"] if tuple(e) in known]
        if i in edge_bad and kn:
            continue        # covered by a listed finding (reported once above)
        ctx.violation("input", dict(tree=m["tree"], context_prec=m["prec"], formatted=m["text"], reparsed=m["reparsed"], requires="parse(format(T)) == T",
                                    edges=m["edges"]))
    for key in ("fmt", "parse"):
        for i in res[key][:5]:
            m = meta[i]
            okrt = canon(l1.to_json(l1.from_json(json.loads(json.dumps(m["tree"])))) if False else m["tree"]) == canon(m["tree"])
            ctx.violation("input", dict(tree=m["tree"], context_prec=m["prec"], formatted=m["text"], reparsed=m["reparsed"],
                                        broken="correspondence (%s): Model/Fmt.v + tables vs implementation; C04_format_then_parse is proved about the model" % key),
                          no_input=(i not in rt_fail))
    # ---- system level: every clause position (sampled)
    sample = trees if ctx.thorough else [trees[i] for i in range(0, len(trees), 5)]
    for k, t in enumerate(sample):
        es = l1.edges(t)
        for pos in (POSITIONS if ctx.thorough else [POSITIONS[k % 5]]):
            okrt, txt, back = impl_roundtrip(l1.to_json(t), pos)
            ctx.count(1)
            if not okrt and not any(tuple(e) in known for e in es):
                ctx.violation("input", dict(tree=l1.to_json(t), position=pos, formatted=txt, reparsed=short(back, 800), requires="parse(format(T)) == T"))


def replay(ctx, rep):
    j = rep.get("tree")
    for pos in POSITIONS:
        okrt, txt, back = impl_roundtrip(j, pos)
        print(pos, okrt, txt)
        if not okrt:
            print("VIOLATION property=C04 replay=%s" % ctx.replay)
            return 1
    return 0
