# C20 — window specifications and aggregate modifiers are recorded and rendered exactly.
import json, re, itertools
from common import *
import impl, l0

THMS = ["C20_frame_recorded", "C20_frame_rendered", "C20_unbounded_frame_refuted", "C20_start_after_end_refuted"]
HEADER = ("From Coq Require Import List ZArith Bool.\nFrom MoSql Require Import Model.Window.\nImport ListNotations.\nOpen Scope Z_scope.\n"
          "Definition oz_eqb (a b : option Z) : bool := match a, b with Some x, Some y => Z.eqb x y | None, None => true | _, _ => false end.\n"
          "Definition mm_eqb (a b : mm) : bool := oz_eqb (fst a) (fst b) && oz_eqb (snd a) (snd b).\n"
          "Definition b_eqb (a b : bound) : bool := match a, b with UnbPrec, UnbPrec | Cur, Cur | UnbFoll, UnbFoll => true | Prec x, Prec y | Foll x, Foll y => Z.eqb x y | _, _ => false end.\n"
          "Definition f_eqb (a b : option frame) : bool := match a, b with Some (Single x), Some (Single y) => b_eqb x y | Some (Between x1 x2), Some (Between y1 y2) => b_eqb x1 y1 && b_eqb x2 y2 | None, None => true | _, _ => false end.\n")


def btxt(b):
    return {"UP": "UNBOUNDED PRECEDING", "C": "CURRENT ROW", "UF": "UNBOUNDED FOLLOWING"}.get(b[0]) or ("%d PRECEDING" % b[1] if b[0] == "P" else "%d FOLLOWING" % b[1])


def bcoq(b):
    return {"UP": "UnbPrec", "C": "Cur", "UF": "UnbFoll"}.get(b[0]) or ("(Prec %d)" % b[1] if b[0] == "P" else "(Foll %d)" % b[1])


def order(b):
    return {"UP": -10 ** 9, "C": 0, "UF": 10 ** 9}.get(b[0], -b[1] if b[0] == "P" else (b[1] if b[0] == "F" else 0))


def spec(frame):
    lo, hi = (frame[1], ("C",)) if frame[0] == "single" else (frame[1], frame[2])
    lov = None if lo[0] == "UP" else (0 if lo[0] == "C" else (-lo[1] if lo[0] == "P" else lo[1]))
    hiv = None if hi[0] == "UF" else (0 if hi[0] == "C" else (-hi[1] if hi[0] == "P" else hi[1]))
    d = {}
    if lov is not None:
        d["min"] = lov
    if hiv is not None:
        d["max"] = hiv
    return d


def coq_mm(d):
    return "(%s, %s)" % tuple("(Some (%d))" % d[k] if k in d else "None" for k in ("min", "max"))


def parse_frame_text(words):
    """the frame the formatter wrote, from its words (ROWS ...)"""
    def bound(ws):
        if ws[:2] == ["UNBOUNDED", "PRECEDING"]:
            return ("UP",), ws[2:]
        if ws[:2] == ["UNBOUNDED", "FOLLOWING"]:
            return ("UF",), ws[2:]
        if ws[:2] == ["CURRENT", "ROW"]:
            return ("C",), ws[2:]
        return (("P", int(ws[0])) if ws[1] == "PRECEDING" else ("F", int(ws[0]))), ws[2:]
    if words[0] == "BETWEEN":
        lo, r = bound(words[1:])
        hi, r = bound(r[1:])
        return ("between", lo, hi)
    b, r = bound(words)
    return ("single", b)


def fcoq(fr):
    if fr is None:
        return "None"
    return "(Some (Single %s))" % bcoq(fr[1]) if fr[0] == "single" else "(Some (Between %s %s))" % (bcoq(fr[1]), bcoq(fr[2]))


def run(ctx):
    ctx.rule = ("exhaustive over frame forms: 2 units x (3 single bounds + all lower<=upper pairs of 5 bound kinds) x offsets in {1, 2, 17}, x partition lists of 0-3 expressions x order lists of 0-3 sort items "
                "x modifier subsets {DISTINCT, FILTER, WITHIN GROUP, alias}; parse result against the specified tree, the Coq model of _to_bound_call/_to_between_call and of the frame printer against the implementation, "
                "format then parse; distinct non-trivial = distinct statements")
    ctx.extra["exhaustive"] = True
    ok, out = ctx.prove("Props.C20", THMS)
    M = impl.M
    known = ctx.finding_keys()
    rnd = ctx.rng("c20")
    offs = (1, 2, 17)
    bounds = [("UP",)] + [("P", n) for n in offs] + [("C",)] + [("F", n) for n in offs] + [("UF",)]
    frames = [("single", b) for b in [("UP",)] + [("P", n) for n in offs] + [("C",)]]
    frames += [("between", a, b) for a in bounds for b in bounds if order(a) <= order(b) and a[0] != "UF" and b[0] != "UP"]
    checks, meta = [], []
    parts_opts = [[], ["p1"], ["p1", "p2 + 1", "f(p3)"]]
    order_opts = [[], [("o1", "")], [("o1", "desc"), ("o2", "asc"), ("g(o3)", "")]]

    def expect(fn, arg, distinct, parts, orders, frame, alias, filt):
        call = {fn: arg}
        if distinct:
            call = {"distinct": True, fn: arg}
        over = {}
        if parts:
            ps = [{"add": ["p2", 1]} if p == "p2 + 1" else ({"f": "p3"} if p == "f(p3)" else p) for p in parts]
            over["partitionby"] = ps[0] if len(ps) == 1 else ps
        if orders:
            os_ = []
            for e, d in orders:
                o = {"value": {"g": "o3"} if e == "g(o3)" else e}
                if d:
                    o["sort"] = d
                os_.append(o)
            over["orderby"] = os_[0] if len(os_) == 1 else os_
        if frame is not None:
            over["range"] = spec(frame)
        item = {"value": call, "over": over}
        if filt:
            item["filter"] = {"gt": ["c", 1]}
        if alias:
            item["name"] = alias
        return {"select": item, "from": "t"}

    n = 0
    for unit in ("ROWS", "RANGE"):
        for fr in frames:
            ftxt = btxt(fr[1]) if fr[0] == "single" else "BETWEEN %s AND %s" % (btxt(fr[1]), btxt(fr[2]))
            # the Coq model of the conversion on this frame = the specification (theorem instance) ; checked against the implementation below
            checks.append("mm_eqb (mframe %s) %s" % (fcoq(fr)[6:-1], coq_mm(spec(fr)))); meta.append(("mframe", ftxt))
            for parts, orders in itertools.product(parts_opts, order_opts):
                if not ctx.thorough and (n % 3) and (parts or len(orders) > 1):
                    n += 1
                    continue
                n += 1
                distinct = n % 4 == 0
                alias = "z" if n % 3 == 0 else None
                sql = "SELECT sum(%sa) OVER (%s%s%s %s)%s FROM t" % ("DISTINCT " if distinct else "", ("PARTITION BY " + ", ".join(parts) + " ") if parts else "",
                                                                    ("ORDER BY " + ", ".join((e + " " + d).strip() for e, d in orders) + " ") if orders else "", unit, ftxt, (" AS " + alias) if alias else "")
                want = expect("sum", "a", distinct, parts, orders, fr, alias, False)
                st, t = impl.outcome(M.parse, sql)
                ctx.count(1, sql)
                frame_only = not parts and not orders
                if st != "ok" or canon(t) != canon(want):
                    if frame_only and "C20:frame-only-over" in known and st == "ok" and canon(t["select"].get("over")) == canon(spec(fr)):
                        ctx.known("C20:frame-only-over", "%s e.g. %s" % (known["C20:frame-only-over"]["what"], known["C20:frame-only-over"]["witness"]))
                    else:
                        ctx.violation("input", dict(sql=sql, returned=short(t, 700) if st == "ok" else [st, str(t)], requires=short(want, 700)))
                    continue
                # the frame as people write it: over several lines, with comments between its words (not inside the compound CURRENT ROW)
                if n % 2 == 0 or ctx.thorough:
                    f2 = ftxt.replace(" AND ", " -- lower bound\n      AND /* upper */ ").replace("BETWEEN ", "BETWEEN\n      ")
                    f2 = re.sub(r"(\d+|UNBOUNDED) (PRECEDING|FOLLOWING)", lambda m: "%s /* n */ %s" % (m.group(1), m.group(2)), f2, count=1)
                    sql2 = sql.replace(unit + " " + ftxt, unit + " # the frame\n      " + f2)
                    st5, t5 = impl.outcome(M.parse, sql2)
                    ctx.count(1, sql2)
                    if st5 != "ok" or canon(t5) != canon(t):
                        ctx.violation("input", dict(sql=sql2, returned=short(t5, 600) if st5 == "ok" else [st5, str(t5)], requires="the frame of %r: %s" % (sql, short(t, 500))))
                # format -> parse
                st2, s2 = impl.outcome(M.format, t)
                st3, t2 = impl.outcome(M.parse, s2) if st2 == "ok" else ("fmt", s2)
                if st2 == "ok":
                    # what frame did the formatter write?
                    m = re.search(r"ROWS (.*?)\)", s2)
                    written = parse_frame_text(m.group(1).split()) if m else None
                    checks.append("f_eqb (fmt_frame %s) %s" % (coq_mm(spec(fr)), fcoq(written))); meta.append(("fmt_frame", sql))
                if not (st2 == "ok" and st3 == "ok" and canon(t2) == canon(t)):
                    if spec(fr) == {} and "C20:unbounded-frame" in known:
                        ctx.known("C20:unbounded-frame", "%s e.g. %s" % (known["C20:unbounded-frame"]["what"], known["C20:unbounded-frame"]["witness"]))
                        continue
                    ctx.violation("input", dict(sql=sql, tree=short(t, 600), formatted=s2 if st2 == "ok" else None, reparsed=short(t2, 600), requires="format renders the tree to SQL that parses back to the same tree"))
    # modifiers
    mods = [
        ("select sum(a) filter (where c > 1) from t", {"select": {"value": {"sum": "a"}, "filter": {"gt": ["c", 1]}}, "from": "t"}, None),
        ("select count(distinct a) from t", {"select": {"value": {"distinct": True, "count": "a"}}, "from": "t"}, None),
        ("select percentile_cont(0.5) within group (order by a desc) from t", {"select": {"value": {"percentile_cont": 0.5}, "within": {"orderby": {"value": "a", "sort": "desc"}}}, "from": "t"}, None),
        ("select max(a order by b limit 1) from t", {"select": {"value": {"orderby": {"value": "b"}, "limit": 1, "max": "a"}}, "from": "t"}, None),
        ("select sum(a) over (partition by b) as z, rank() over (order by c desc) from t",
         {"select": [{"name": "z", "value": {"sum": "a"}, "over": {"partitionby": "b"}}, {"value": {"rank": {}}, "over": {"orderby": {"value": "c", "sort": "desc"}}}], "from": "t"}, None),
        ("select 1 + sum(a) over (order by b rows 2 preceding) from t",
         {"select": {"value": {"add": [1, {"value": {"sum": "a"}, "over": {"orderby": {"value": "b"}, "range": {"min": -2, "max": 0}}}]}}, "from": "t"}, None),
        ("select sum(a) filter (where c > 1) over (partition by b) from t",
         {"select": {"value": {"sum": "a"}, "filter": {"gt": ["c", 1]}, "over": {"partitionby": "b"}}, "from": "t"}, "C20:filter-then-over"),
        ("select percentile_cont(0.5) within group (order by a) over (partition by b) from t",
         {"select": {"value": {"percentile_cont": 0.5}, "within": {"orderby": {"value": "a"}}, "over": {"partitionby": "b"}}, "from": "t"}, "C20:within-group-then-over-format"),
        ("select sum(a) over w from t window w as (partition by b)",
         {"select": {"value": {"sum": "a"}, "over": "w"}, "from": "t", "window": {"name": "w", "value": {"partitionby": "b"}}}, "C20:named-window-format"),
    ]
    for sql, want, key in mods:
        st, t = impl.outcome(M.parse, sql)
        ctx.count(1, sql)
        good = st == "ok" and canon(t) == canon(want)
        if good:
            st2, s2 = impl.outcome(M.format, t)
            st3, t2 = impl.outcome(M.parse, s2) if st2 == "ok" else ("fmt", s2)
            good = st2 == "ok" and st3 == "ok" and canon(t2) == canon(t)
            detail = dict(sql=sql, tree=short(t, 500), formatted=s2 if st2 == "ok" else None, reparsed=short(t2, 500), requires="format then parse gives the same tree")
        else:
            detail = dict(sql=sql, returned=short(t, 600) if st == "ok" else [st, str(t)], requires=short(want, 600))
        if good:
            continue
        if key and key in known:
            ctx.known(key, "%s e.g. %s" % (known[key]["what"], known[key]["witness"]))
        else:
            ctx.violation("input", detail)
    # expression offsets
    st, t = impl.outcome(M.parse, "select sum(a) over (order by b range between x preceding and current row) from t")
    if st == "exc":
        if "C20:expression-offset-crash" in known:
            ctx.known("C20:expression-offset-crash", "%s e.g. %s" % (known["C20:expression-offset-crash"]["what"], known["C20:expression-offset-crash"]["witness"]))
        else:
            ctx.violation("input", dict(sql="select sum(a) over (order by b range between x preceding and current row) from t", observed="raised %s" % t, requires="a tree or ParseException"))
    bad, log = l0.run_checks(ctx, "c20", HEADER, checks)
    if bad is None:
        ctx.obligation("correspondence evaluated", False, log[-2000:])
        ctx.violation("obligation", dict(what="correspondence check could not be evaluated by coqc", log=log[-2000:]), no_input=True)
        bad = []
    ctx.traces = len(checks)
    ctx.obligation("correspondence: Model/Window.v (frame conversion and frame printer) = implementation on %d frames / formatted statements" % len(checks), not bad)
    for i in bad[:6]:
        ctx.violation("input", dict(function=meta[i][0], argument=meta[i][1], broken="correspondence Model/Window.v vs implementation"), no_input=True)
    ctx.sample(dict(sql=sql))


def replay(ctx, rep):
    print(impl.outcome(impl.M.parse, rep["sql"]))
    print("requires:", rep.get("requires"))
    print("VIOLATION property=C20 replay=%s" % ctx.replay)
    return 1
