# CASE expressions (Model/CaseExpr.v): theorems of Props/C05c.v and Props/C03c.v, and the correspondence of the model with
# to_when_call / to_case_call / to_switch_call + scrub (through parse) and with Formatter._case (through format).
import itertools
from common import *
import impl, l0

THMS_C05 = ["C05_case_parse_actions_give_tree", "C05_case_operands_in_order", "C05_case_operands_kept", "C05_case_subject_dropped_refuted"]
THMS_C03 = ["C03_case_parse_format_parse", "C03_case_searched_comes_back", "C03_case_empty_refuted"]
HEADER = ("From Coq Require Import List ZArith String Bool.\nFrom MoSql Require Import Base.Json Model.Scrub Model.CaseExpr.\nImport ListNotations.\n"
          "Open Scope string_scope. Open Scope list_scope.\n"
          "Definition part_eqb (a b : part) : bool := match a, b with PWhen w t, PWhen w' t' => jv_eqb w w' && jv_eqb t t' | PElse e, PElse e' => jv_eqb e e' | _, _ => false end.\n"
          "Fixpoint parts_eqb (a b : list part) : bool := match a, b with [], [] => true | x :: a', y :: b' => part_eqb x y && parts_eqb a' b' | _, _ => false end.\n"
          "Definition reread_is (c : csrc) (t : option jv) : bool := match reread c, t with Some c', Some v => jv_eqb (case_json c') v | None, None => true | _, _ => false end.\n")

POOL = ["xa", "t1.c2", "17", "0", "'s'", "''", "null", "a + 1", "f(x, 2)", "not b", "x is null", "a and b", "x = 3", "case when p then q end",
        "case y when 1 then 2 else 3 end", "-5", "1.5", "a || b", "x in (1, 2)", "coalesce(a, null)", "true", "cast(a as int)"]


def value_of(M, text):
    st, t = impl.outcome(M.parse, "select " + text)
    if st != "ok" or not isinstance(t, dict) or not isinstance(t.get("select"), dict) or set(t["select"]) != {"value"}:
        return None
    return t["select"]["value"]


def ccsrc(s, arms, e):
    return "{| subj := %s; arms := %s; other := %s |}" % (copt(None if s is None else cjson(s)), clist([cpair(cjson(w), cjson(t)) for w, t in arms]), copt(None if e is None else cjson(e)))


def py_parts(checks):
    """twin of Formatter._case's loop (= Model.CaseExpr.fmt_parts)"""
    out = []
    for check in checks if isinstance(checks, list) else [checks]:
        if isinstance(check, dict) and "when" in check and "then" in check:
            out.append(("when", check["when"], check["then"]))
        else:
            out.append(("else", check))
    return out


def sources(ctx):
    rnd = ctx.rng("case")
    out = []
    # exhaustive over the shape (subject?, 0-4 arms, ELSE?) with operands drawn from the pool; then random draws
    for has_s, n, has_e in itertools.product((False, True), range(0, 5), (False, True)):
        for _ in range(ctx.n(3, 40)):
            out.append((rnd.choice(POOL) if has_s else None, [(rnd.choice(POOL), rnd.choice(POOL)) for _ in range(n)], rnd.choice(POOL) if has_e else None))
    # every pool member once in every role
    for p in POOL:
        out += [(p, [("k1", "k2")], None), (None, [(p, "k2")], None), (None, [("k1", p)], "k3"), (None, [("k1", "k2")], p), (None, [], p), ("k0", [(p, p)], p)]
    return out


def text_of(s, arms, e):
    return "case" + (" " + s if s is not None else "") + "".join(" when %s then %s" % a for a in arms) + (" else " + e if e is not None else "") + " end"


def case_stage(ctx, which):
    """which = 'C05': theorems of Props/C05c.v + model tree = parse; which = 'C03': theorems of Props/C03c.v + formatter parts and re-read"""
    M = impl.M
    ctx.prove("Props.C05c" if which == "C05" else "Props.C03c", THMS_C05 if which == "C05" else THMS_C03)
    vals = {p: value_of(M, p) for p in POOL + ["k0", "k1", "k2", "k3"]}
    missing = [p for p, v in vals.items() if v is None]
    ctx.obligation("CASE stage: every operand of the pool parses alone (%d operands)" % len(vals), not missing, str(missing))
    checks, meta = [], []
    n_fmt_diff = 0
    for s, arms, e in sources(ctx):
        if any(vals.get(x) is None for x in ([s] if s is not None else []) + [y for a in arms for y in a] + ([e] if e is not None else [])):
            continue
        sql = "select " + text_of(s, arms, e)
        st, t = impl.outcome(M.parse, sql)
        ctx.count(1, sql)
        src = ccsrc(None if s is None else vals[s], [(vals[w], vals[th]) for w, th in arms], None if e is None else vals[e])
        if which == "C05":
            if st != "ok":
                ctx.violation("input", dict(sql=sql, observed="raised %s" % t, requires="a CASE expression over accepted operands is accepted"))
                continue
            v = t["select"].get("value") if isinstance(t.get("select"), dict) else None
            if v is None:
                ctx.violation("input", dict(sql=sql, returned=short(t, 400), requires="the CASE expression is the select value"))
                continue
            checks.append("jv_eqb (case_json %s) %s" % (src, cjson(v))); meta.append(dict(sql=sql, returned=short(v, 500), what="tree (to_when_call / to_case_call / to_switch_call + scrub)"))
            continue
        # which == "C03": the formatter
        if st != "ok" or not (isinstance(t.get("select"), dict) and isinstance(t["select"].get("value"), dict) and set(t["select"]["value"]) == {"case"}):
            continue
        args = t["select"]["value"]["case"]
        parts = py_parts(args)
        st2, txt = impl.outcome(M.format, t)

        def ftxt(x):
            s2, o = impl.outcome(M.format, {"select": {"value": x}})
            return o[len("SELECT "):] if s2 == "ok" and o.startswith("SELECT ") else None
        want = ["CASE"]
        for p in parts:
            want += (["WHEN", ftxt(p[1]), "THEN", ftxt(p[2])] if p[0] == "when" else ["ELSE", ftxt(p[1])])
        want.append("END")
        if st2 == "ok" and None not in want and txt != "SELECT " + " ".join(want):
            n_fmt_diff += 1
            if n_fmt_diff <= 3:
                ctx.violation("input", dict(sql=sql, tree=short(t, 400), formatted=txt, model="SELECT " + " ".join(want), broken="correspondence Model/CaseExpr.v fmt_parts (twin) vs Formatter._case"), no_input=True)
        checks.append("parts_eqb (fmt_parts %s) %s" % (cjson(args), clist(["(PWhen %s %s)" % (cjson(p[1]), cjson(p[2])) if p[0] == "when" else "(PElse %s)" % cjson(p[1]) for p in parts])))
        meta.append(dict(sql=sql, what="fmt_parts = twin of Formatter._case"))
        # re-read: the model's reread of the source against the real parse of the real formatted text
        if st2 == "ok":
            st3, t3 = impl.outcome(M.parse, txt)
            v3 = t3["select"].get("value") if st3 == "ok" and isinstance(t3.get("select"), dict) else None
            if args == {}:
                continue        # CASE END: listed finding (C14:optional-mandatory-parts); the model witness is C03_case_empty_refuted
            # premise of the theorem: the text written for each operand parses back to the operand's tree (what the operator-level theorems
            # and their exclusion set are about, e.g. `x IS NULL = b`); sources with an operand that does not are left to the C03 / C04 oracles
            if any(value_of(M, ftxt(x)) != x for p in parts for x in p[1:]):
                ctx.extra["case_reread_skipped_operand_premise"] = ctx.extra.get("case_reread_skipped_operand_premise", 0) + 1
                continue
            checks.append("reread_is %s %s" % (src, copt(None if v3 is None else cjson(v3))))
            meta.append(dict(sql=sql, formatted=txt, reparsed=short(t3, 400), what="reread (formatter parts read by the CASE grammar) = parse(format(tree))"))
    bad, log = l0.run_checks(ctx, "case_" + which.lower(), HEADER, checks, shard=400)
    if bad is None:
        ctx.obligation("CASE correspondence evaluated", False, log[-2000:])
        ctx.violation("obligation", dict(what="CASE correspondence could not be evaluated by coqc", log=log[-2000:]), no_input=True)
        return
    ctx.traces += len(checks)
    ctx.obligation("correspondence: Model/CaseExpr.v (%s) = implementation on %d CASE checks" % ("case_json" if which == "C05" else "fmt_parts / reread", len(checks)), not bad and not n_fmt_diff)
    for i in bad[:5]:
        ctx.violation("input", dict(meta[i], broken="correspondence Model/CaseExpr.v vs implementation"), no_input=True)


# ---------------------------------------------------------------------------------------------------------------------------------
# the clause loops of Formatter.unordered_query / ordered_query (Model/QueryFmt.v, Props/C03q.v)
THMS_Q = ["C03_clause_written_with_its_value", "C03_clause_sequence", "C03_clauses_written_once", "C04_key_order_irrelevant", "C03_nodupb_sound"]
THMS_B = ["C03_regular_branch_iff", "C03_setop_tail_written", "C03_setop_tail_value", "C03_setop_tail_complete"]
HEADER_Q = ("From Coq Require Import List ZArith String Bool.\nFrom MoSql Require Import Base.Json Model.QueryFmt Model.QueryBranch.\nImport ListNotations.\n"
            "Open Scope string_scope. Open Scope list_scope.\n"
            "Fixpoint strs_eqb (a b : list string) : bool := match a, b with [], [] => true | x :: a', y :: b' => String.eqb x y && strs_eqb a' b' | _, _ => false end.\n")
QUERIES = [
    "select a from t where x limit 0 offset 0", "select a from t limit 0", "select a from t order by a offset 0 rows fetch first 0 rows only",
    "select a from t union select b from u order by 1", "select a from t union all select b from u limit 0",
    "with x as (select 1) select distinct a, b from t group by a having c fetch first 0 rows only",
    "select a from (select b from u limit 0) t order by a", "select distinct on (a) b from t where 0 order by a limit 5",
    "select * from t pivot (sum(x) for y in (1, 2)) where z", "select a, b from t where c = 0 group by a, b having count(*) > 0 order by a, b desc limit 10 offset 20",
    "select a from t union select b from u limit 0", "select a from t union all select b from u order by 1 offset 0 rows fetch first 0 rows only",
    "select a from t intersect select b from u order by a desc limit 3 offset 0", "select 0", "select a from t where false", "select a from t group by 0", "with q as (select 0) select a from q limit 0",
]


def query_stage(ctx):
    import mo_sql_parsing.formatting as F
    M = impl.M
    ctx.prove("Props.C03q", THMS_Q)
    ctx.prove("Props.C03b", THMS_B)
    uo, oo = list(F.unordered_clauses), list(F.ordered_clauses)
    agg = sorted(F.agg_kwargs)
    rec, top = [], [None]
    took_regular = [False]
    orig_uq = F.Formatter.unordered_query

    def uq(self, json, prec):
        if json is top[0]:
            took_regular[0] = True
        return orig_uq(self, json, prec)
    saved = {}

    def wrap(name):
        orig = getattr(F.Formatter, name)
        saved[name] = orig

        def w(self, json, prec, _o=orig, _n=name):
            r = _o(self, json, prec)
            if json is top[0]:
                rec.append((_n, bool(r)))
            return r
        setattr(F.Formatter, name, w)
    missing = [c for c in uo + oo if not callable(getattr(F.Formatter, c, None))]
    ctx.obligation("every name of unordered_clauses / ordered_clauses is a renderer of Formatter", not missing, str(missing))
    if missing:
        ctx.violation("obligation", dict(broken="clause list names a renderer that does not exist: %s" % missing), no_input=True)
        return
    rnd = ctx.rng("queryfmt")
    checks = ["nodupb (%s ++ %s)" % (clist([cstr(x) for x in uo]), clist([cstr(x) for x in oo]))]
    meta = [dict(what="the live clause lists have no duplicate name", lists=[uo, oo])]
    objs = []
    for sql in QUERIES:
        st, t = impl.outcome(M.parse, sql)
        if st == "ok" and isinstance(t, dict):
            objs.append((sql, t))
            for _ in range(2):           # the same object with its keys in another order
                ks = list(t.keys()); rnd.shuffle(ks)
                objs.append((sql, {k: t[k] for k in ks}))
    for c in uo + oo:
        wrap(c)
    F.Formatter.unordered_query = uq
    try:
        for sql, t in objs:
            top[0] = t; del rec[:]; took_regular[0] = False
            st, s = impl.outcome(M.format, t)
            d0 = clist([cpair(cstr(k), "(JInt 0)") for k in t.keys()])
            if st == "ok":
                # which branch of ordered_query the object takes (Model/QueryBranch.v)
                checks.append("Bool.eqb (is_regular (branch_of %s %s %s)) %s" % (clist([cstr(x) for x in uo]), clist([cstr(x) for x in agg]), d0, cbool(took_regular[0])))
                meta.append(dict(sql=sql, keys=list(t.keys()), unordered_query_called=took_regular[0], what="branch of ordered_query"))
            if not (set(t.keys()) & (set(uo) - {"from"})):
                if st == "ok" and "from" in t:
                    # set operation with a tail: the operand is dispatched directly, then the ordered clauses that are present
                    checks.append("strs_eqb (map fst (emit %s %s)) %s" % (clist([cstr(x) for x in oo]), d0, clist([cstr(n) for n, _ in rec])))
                    meta.append(dict(sql=sql, keys=list(t.keys()), renderers_called=[n for n, _ in rec], formatted=s, what="tail clauses written after a set operation"))
                    if [n for n, ok in rec if not ok]:
                        ctx.violation("input", dict(sql=sql, tree=short(t, 400), formatted=s, observed="a tail clause renderer returned empty text", requires="format writes every clause of the tree"))
                continue
            ctx.count(1, sql + repr(list(t.keys())))
            if st != "ok":
                continue
            empties = [n for n, ok in rec if not ok]
            if empties:
                ctx.violation("input", dict(sql=sql, tree=short(t, 400), formatted=s, observed="renderer(s) %s returned empty text: the clause is in the tree and is not written" % empties,
                                            requires="format writes every clause of the tree"))
            d = clist([cpair(cstr(k), "(JInt 0)") for k in t.keys()])
            checks.append("strs_eqb (map fst (query_clauses %s %s %s)) %s" % (clist([cstr(x) for x in uo]), clist([cstr(x) for x in oo]), d, clist([cstr(n) for n, _ in rec])))
            meta.append(dict(sql=sql, keys=list(t.keys()), renderers_called=[n for n, _ in rec], formatted=s, what="sequence of clause renderers called for the top-level object"))
    finally:
        for c, o in saved.items():
            setattr(F.Formatter, c, o)
        F.Formatter.unordered_query = orig_uq
    bad, log = l0.run_checks(ctx, "queryfmt", HEADER_Q, checks, shard=400)
    if bad is None:
        ctx.obligation("clause-loop correspondence evaluated", False, log[-2000:])
        ctx.violation("obligation", dict(what="clause-loop correspondence could not be evaluated by coqc", log=log[-2000:]), no_input=True)
        return
    ctx.traces += len(checks)
    ctx.obligation("correspondence: Model/QueryFmt.v query_clauses / Model/QueryBranch.v branch_of on the live clause lists = the renderers Formatter calls and the branch ordered_query takes, %d checks on query objects (incl. zero counts, permuted keys, set operations with a tail)" % (len(checks) - 1), not bad)
    for i in bad[:5]:
        ctx.violation("input", dict(meta[i], broken="correspondence Model/QueryFmt.v vs Formatter.unordered_query / ordered_query"), no_input=True)


# ---------------------------------------------------------------------------------------------------------------------------------
# the shape decision of INSERT / REPLACE ... VALUES (Model/InsertShape.v, Props/C19i.v)
THMS_I = ["C19_literal_form_iff", "C19_other_rows_are_a_query", "C19_query_keeps_cells", "C19_values_form_pairs", "C19_values_cell", "C19_values_form_plain",
          "C19_literal_cell_faithful", "C19_one_column_wide_rows_refuted"]
HEADER_I = ("From Coq Require Import List ZArith String Bool.\nFrom MoSql Require Import Base.Json Model.Ddl Model.InsertShape.\nImport ListNotations.\n"
            "Open Scope string_scope. Open Scope list_scope.\n")
CELLS = [("7", "(CInt 7)"), ("0", "(CInt 0)"), ("1.5", '(CFloat "1.5" false)'), ("0.0", '(CFloat "0.0" true)'), ("true", "(CBool true)"), ("false", "(CBool false)"),
         ("'a'", '(CStr "a")'), ("''", '(CStr "")'), ("'it''s'", '(CStr "it\'s")'), ("null", None), ("c9", None), ("a + 1", None), ("-3", None), ("f(1)", None), ("42", "(CInt 42)")]


def insert_stage(ctx):
    M = impl.M
    ctx.prove("Props.C19i", THMS_I)
    rnd = ctx.rng("insertshape")
    other = {t: value_of(M, t) for t, c in CELLS if c is None}
    missing = [t for t, v in other.items() if v is None]
    ctx.obligation("INSERT stage: every non-literal cell of the pool parses alone", not missing, str(missing))
    truthy = [c for c in CELLS if c[1] and c[0] not in ("0", "0.0", "false", "''")]

    def ccell(c):
        return c[1] if c[1] else "(COther %s)" % cjson(other[c[0]])
    checks, meta = [], []
    for verb in ("insert", "replace"):
        for nrows in (1, 2, 3):
            for width in (1, 2, 3):
                for colmode in ("none", "names", "one"):
                    if colmode == "one" and width == 1:
                        continue
                    for variant in range(ctx.n(4, 30)):
                        # half of the draws take truthy literals only, so that both shapes are reached for every (rows, width, columns)
                        pool = truthy if variant % 2 == 0 else CELLS
                        rows = [[rnd.choice(pool) for _ in range(width)] for _ in range(nrows)]
                        if any(other.get(c[0]) is None and c[1] is None for r in rows for c in r):
                            continue
                        if colmode == "none":
                            cols, ccols, ctext = None, "None", ""
                        elif colmode == "names" and width > 1:
                            cols = ["k%d" % i for i in range(width)]; ccols = "(Some (inr %s))" % clist([cstr(x) for x in cols]); ctext = " (" + ", ".join(cols) + ")"
                        elif colmode == "names":
                            cols = "k0"; ccols = '(Some (inl "k0"))'; ctext = " (k0)"
                        else:       # one listed column and wider rows: the bare name is zipped by character (listed finding; the model follows the code)
                            cols = "kq"[:width] if width <= 2 else "kqz"; ccols = "(Some (inl %s))" % cstr(cols); ctext = " (%s)" % cols
                        sql = "%s into t%s values %s" % (verb, ctext, ", ".join("(" + ", ".join(c[0] for c in r) + ")" for r in rows))
                        st, t = impl.outcome(M.parse, sql)
                        ctx.count(1, sql)
                        if st != "ok":
                            ctx.violation("input", dict(sql=sql, observed="raised %s" % t, requires="an INSERT / REPLACE with literal or expression cells is accepted"))
                            continue
                        checks.append("jv_eqb (insert_json %s \"t\" %s %s) %s" % (cstr(verb), ccols, clist([clist([ccell(c) for c in r]) for r in rows]), cjson(t)))
                        meta.append(dict(sql=sql, returned=short(t, 500)))
    bad, log = l0.run_checks(ctx, "insertshape", HEADER_I, checks, shard=400)
    if bad is None:
        ctx.obligation("INSERT shape correspondence evaluated", False, log[-2000:])
        ctx.violation("obligation", dict(what="INSERT shape correspondence could not be evaluated by coqc", log=log[-2000:]), no_input=True)
        return
    ctx.traces += len(checks)
    ctx.obligation("correspondence: Model/InsertShape.v insert_json = parse on %d INSERT / REPLACE statements (1-3 rows x 1-3 cells x column list absent / matching / one name; literal, falsy and non-literal cells)" % len(checks), not bad)
    for i in bad[:5]:
        ctx.violation("input", dict(meta[i], broken="correspondence Model/InsertShape.v vs to_row / to_values / to_insert_call"), no_input=True)


# ---------------------------------------------------------------------------------------------------------------------------------
# TRIM (Model/TrimExpr.v, Props/C03t.v)
THMS_T = ["C03_trim_parse_format_parse", "C05_trim_operands_kept", "C03_trim_zero_characters_refuted"]
HEADER_T = ("From Coq Require Import List ZArith String Bool.\nFrom MoSql Require Import Base.Json Model.TrimExpr.\nImport ListNotations.\n"
            "Open Scope string_scope. Open Scope list_scope.\n"
            "Definition ojv_eqb (a b : option jv) : bool := match a, b with Some x, Some y => jv_eqb x y | None, None => true | _, _ => false end.\n"
            "Definition tparts_eqb (a b : tparts) : bool := ojv_eqb (p_dir a) (p_dir b) && ojv_eqb (p_chars a) (p_chars b) && Bool.eqb (p_from a) (p_from b) && ojv_eqb (p_val a) (p_val b).\n"
            "Definition reread_trim_is (j : jv) (t : option jv) : bool := match reread_trim (fmt_trim j), t with Some s, Some v => jv_eqb (trim_json s) v | None, None => true | _, _ => false end.\n")


def trim_stage(ctx):
    M = impl.M
    ctx.prove("Props.C03t", THMS_T)
    dirs = [None, "both", "leading", "trailing"]
    chars = [None, "'x'", "c1", "7", "0", "''", "a || 'y'"]
    vals = ["b", "'s'", "a || b", "0", "null", "f(x, 1)", "''"]
    pool = {x: value_of(M, x) for x in chars[1:] + vals}
    missing = [k for k, v in pool.items() if v is None]
    ctx.obligation("TRIM stage: every operand of the pool parses alone", not missing, str(missing))
    checks, meta = [], []
    n_fmt_diff = 0

    def ftxt(x):
        s2, o = impl.outcome(M.format, {"select": {"value": x}})
        return o[len("SELECT "):] if s2 == "ok" and o.startswith("SELECT ") else None
    for d in dirs:
        for c in chars:
            for v in vals:
                if pool.get(v) is None or (c is not None and pool.get(c) is None):
                    continue
                forms = []
                if c is not None:
                    forms.append("trim(%s%s from %s)" % (d + " " if d else "", c, v))
                elif d:
                    forms += ["trim(%s from %s)" % (d, v), "trim(%s %s)" % (d, v)]
                else:
                    forms.append("trim(%s)" % v)
                src = "{| dir := %s; chars := %s; val := %s |}" % (copt(None if d is None else cstr(d)), copt(None if c is None else cjson(pool[c])), cjson(pool[v]))
                for f in forms:
                    sql = "select " + f
                    st, t = impl.outcome(M.parse, sql)
                    ctx.count(1, sql)
                    if st != "ok":
                        ctx.violation("input", dict(sql=sql, observed="raised %s" % t, requires="TRIM over accepted operands is accepted"))
                        continue
                    tree = t["select"].get("value") if isinstance(t.get("select"), dict) else None
                    if tree is None:
                        continue
                    checks.append("jv_eqb (trim_json %s) %s" % (src, cjson(tree))); meta.append(dict(sql=sql, returned=short(tree, 300), what="tree (to_trim_call + scrub)"))
                    if not isinstance(tree, dict) or "trim" not in tree:
                        continue
                    # the formatter: twin of _trim, its rendering against format's text, Coq fmt_trim against the twin, re-read against parse(format)
                    cc, dd, vv = tree.get("characters"), tree.get("direction"), tree["trim"]
                    acc = ["TRIM("]
                    if dd:
                        acc += [dd.upper(), " "]
                    if cc:
                        acc += [ftxt(cc), " "]
                    if cc or dd:
                        acc.append("FROM ")
                    acc += [ftxt(vv), ")"]
                    st2, txt = impl.outcome(M.format, t)
                    if st2 == "ok" and None not in acc and txt != "SELECT " + "".join(acc):
                        n_fmt_diff += 1
                        if n_fmt_diff <= 3:
                            ctx.violation("input", dict(sql=sql, tree=short(t, 300), formatted=txt, model="SELECT " + "".join(acc), broken="correspondence Model/TrimExpr.v fmt_trim (twin) vs Formatter._trim"), no_input=True)
                    parts = "{| p_dir := %s; p_chars := %s; p_from := %s; p_val := %s |}" % (copt(cjson(dd) if dd else None), copt(cjson(cc) if cc else None), cbool(bool(cc or dd)), copt(cjson(vv)))
                    checks.append("tparts_eqb (fmt_trim %s) %s" % (cjson(tree), parts)); meta.append(dict(sql=sql, what="fmt_trim = twin of Formatter._trim"))
                    if st2 == "ok" and all(value_of(M, ftxt(x)) == x for x in ([cc] if cc else []) + [vv]):
                        st3, t3 = impl.outcome(M.parse, txt)
                        v3 = t3["select"].get("value") if st3 == "ok" and isinstance(t3.get("select"), dict) else None
                        checks.append("reread_trim_is %s %s" % (cjson(tree), copt(None if v3 is None else cjson(v3))))
                        meta.append(dict(sql=sql, formatted=txt, reparsed=short(t3, 300), what="reread_trim (the parts read by the TRIM grammar) = parse(format(tree))"))
    bad, log = l0.run_checks(ctx, "trim", HEADER_T, checks, shard=400)
    if bad is None:
        ctx.obligation("TRIM correspondence evaluated", False, log[-2000:])
        ctx.violation("obligation", dict(what="TRIM correspondence could not be evaluated by coqc", log=log[-2000:]), no_input=True)
        return
    ctx.traces += len(checks)
    ctx.obligation("correspondence: Model/TrimExpr.v (trim_json / fmt_trim / reread_trim) = implementation on %d TRIM checks" % len(checks), not bad and not n_fmt_diff)
    for i in bad[:5]:
        ctx.violation("input", dict(meta[i], broken="correspondence Model/TrimExpr.v vs implementation"), no_input=True)
