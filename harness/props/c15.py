# C15 — a call's result depends only on its arguments, not on what was called before.
import json, itertools
from concurrent.futures import ThreadPoolExecutor
from common import *
import api_calls
from api_calls import CALLS, fresh

THMS = ["C15_shape_ok", "C15_cache_key", "C15_history_independence", "C15_result_is_function_of_arguments", "C15_stale_reset_refuted"]


def shape_or_violation(ctx):
    import extract_api
    try:
        return extract_api.main()
    except Exception as e:
        ctx.obligation("API shape extracted from the AST of __init__.py (translator harness/extract_api.py)", False, repr(e))
        return None


def history_search(ctx, nhist, maxlen, longlen):
    """fresh-process history differential; returns number of history-dependent results found"""
    rnd = ctx.rng("hist")
    with ThreadPoolExecutor(NCPU) as ex:
        solo = list(ex.map(lambda c: fresh([c]), CALLS))
        for c, s in zip(CALLS, solo):
            if isinstance(s, str):
                ctx.violation("history", dict(call=c, observed=s, requires="a call terminates with a result or an exception"))
        solo1 = [s[0] if isinstance(s, list) else s for s in solo]
        hists = []
        # every ordered pair (first-creation order of the cached parsers included), sampled in quick
        pairs = list(itertools.product(range(len(CALLS)), repeat=2))
        rnd.shuffle(pairs)
        for i, j in pairs[:nhist]:
            hists.append([i, j])
        from api_calls import related_pairs
        for i, j in related_pairs():
            if [i, j] not in hists:
                hists.append([i, j])
        for _ in range(nhist // 2):
            hists.append([rnd.randrange(len(CALLS)) for _ in range(rnd.randint(3, maxlen))])
        for _ in range(2 if not ctx.thorough else 8):
            hists.append([rnd.randrange(len(CALLS)) for _ in range(longlen)])
        outs = list(ex.map(lambda h: fresh([CALLS[k] for k in h]), hists))
    found = 0
    for h, o in zip(hists, outs):
        ctx.count(len(h), tuple(h) if len(h) <= 3 else None)
        if isinstance(o, str):
            ctx.violation("history", dict(history=[CALLS[k] for k in h][:6], observed=o, requires="every call completes"))
            found += 1
            continue
        for pos, (k, got) in enumerate(zip(h, o)):
            if got != solo1[k]:
                # minimise: the shortest prefix ending in this call that still shows it
                hist = [CALLS[x] for x in h[:pos + 1]]
                for start in range(pos, -1, -1):
                    cand = [CALLS[x] for x in h[start:pos + 1]]
                    r = fresh(cand)
                    if isinstance(r, list) and r[-1] != solo1[k]:
                        hist = cand
                        break
                ctx.violation("history", dict(history=hist, call=CALLS[k], returned=short(got, 700), fresh_process_result=short(solo1[k], 700),
                                              requires="the result of a call equals what a fresh process returns for it"))
                found += 1
                break
    ctx.sample(dict(history=[CALLS[k] for k in hists[0]], outcomes=outs[0] if isinstance(outs[0], list) else str(outs[0])))
    return found


ALLKEYS = [[n, a] for a in (None, "*") for n in ("common_parser", "mysql_parser", "sqlserver_parser", "bigquery_parser")]
ENTRY_OF = {"common_parser": "parse", "mysql_parser": "parse_mysql", "sqlserver_parser": "parse_sqlserver", "bigquery_parser": "parse_bigquery"}


def purity(ctx):
    """premise of the theorems (grammar matching is a pure function of dialect, all_columns, text): no grammar node of an already built parser
    is changed by a later build, for several first-creation orders"""
    import subprocess, os, impl
    orders = [ALLKEYS, list(reversed(ALLKEYS))]
    if ctx.thorough:
        orders += [ALLKEYS[i:] + ALLKEYS[:i] for i in range(1, 8)]
    allchanges = []
    for o in orders:
        p = subprocess.run([PY, VERIF + "/harness/purity_probe.py", json.dumps(o)], capture_output=True, text=True, env=dict(os.environ, PYTHONHASHSEED="0", PYTHONPATH="/repo"), timeout=300)
        try:
            r = json.loads(p.stdout.strip().splitlines()[-1])
        except Exception:
            ctx.obligation("purity probe ran", False, p.stderr[-800:])
            return
        allchanges += r["changes"]
        ctx.count(len(o))
    ctx.obligation("grammar objects are immutable after construction: no node of an already built parser changes when another parser is built (%d first-creation orders)" % len(orders),
                   not allchanges, allchanges[:4])
    if not allchanges:
        return
    # search for a history on which a result differs from the fresh-process result
    found = 0
    seen = set()
    for ch in allchanges:
        a, b = tuple(ch["built_first"]), tuple(ch["changed_by_build_of"])
        if (a, b) in seen:
            continue
        seen.add((a, b))
        stm = [c["sql"] for c in impl.corpus() if len(c["sql"]) < 600][:900]
        kwa = {"all_columns": a[1]} if a[1] else {}
        kwb = {"all_columns": b[1]} if b[1] else {}
        probes = [(ENTRY_OF[a[0]], s, kwa) for s in stm]
        first = [(ENTRY_OF[a[0]], "select 1", kwa)]
        r1 = fresh(first + probes, timeout=600)
        r2 = fresh(first + [(ENTRY_OF[b[0]], "select 1", kwb)] + probes, timeout=600)
        if isinstance(r1, list) and isinstance(r2, list):
            for (c, x, y) in zip(probes, r1[1:], r2[2:]):
                if x != y:
                    ctx.violation("history", dict(history=[first[0], (ENTRY_OF[b[0]], "select 1", kwb), c], returned=short(y, 600), fresh_process_result=short(x, 600),
                                                  requires="the result of a call equals what a fresh process returns for it", grammar_node_changed=ch))
                    found += 1
                    break
        if found >= 2:
            break
    if not found:
        ctx.violation("obligation", dict(broken="premise of C15_history_independence: grammar matching is no longer a pure function: building one parser changes the grammar graph of another",
                                         changes=allchanges[:6]), no_input=True)


def run(ctx):
    ctx.rule = ("alphabet of %d representative calls (4 dialects x option settings x accepted / rejected / internally failing inputs x format); histories = sampled ordered pairs, "
                "random sequences of length 3-%s, and long random sequences, each run in a fresh interpreter; every step's outcome (tree, or exception type and position) is compared "
                "with the outcome of the same call alone in a fresh interpreter; distinct non-trivial = distinct histories of length <= 3" % (len(CALLS), "6"))
    A = shape_or_violation(ctx)
    ok = False
    if A is not None:
        ok, out = ctx.prove("Props.C15", THMS)
        ctx.extra["api_shape"] = A
    purity(ctx)
    found = history_search(ctx, ctx.n(48, 600), 6, ctx.n(120, 400)) + len(ctx.violations)
    if (A is None or not ok) and not found:
        ctx.violation("obligation", dict(broken="Props/C15.v: shape_okb parse_shape (or the translator) no longer checks against __init__.py; history_independence is not established for this _parse",
                                         shape=A), no_input=True)


def replay(ctx, rep):
    h = rep.get("history")
    o = fresh(h)
    s = fresh([h[-1]])
    print("history:", o[-1] if isinstance(o, list) else o)
    print("solo   :", s[-1] if isinstance(s, list) else s)
    if not isinstance(o, list) or not isinstance(s, list) or o[-1] != s[-1]:
        print("VIOLATION property=C15 replay=%s" % ctx.replay)
        return 1
    return 0
