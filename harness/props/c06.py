# C06 — string and numeric literals survive parse and format exactly.
import json, re, math, struct
from common import *
import impl, l0

THMS = ["C06_escape_evaluation_refuted", "C06_single_quoted", "C06_double_quoted", "C06_one_token", "C06_int_exact"]
ALPHA = ["'", '"', "\\", "\r", "\n", "\x00", ";", "x", "0", "7", "N", "{", "u", "a", " ", "é", "-", "/", "*", "%", "\t", "中"]
HEADER = ("From Coq Require Import List NArith Bool.\nFrom MoSql Require Import Model.Lit Model.Num.\nImport ListNotations.\nOpen Scope N_scope.\n"
          "Definition seqb (x y : list N) : bool := if list_eq_dec N.eq_dec x y then true else false.\n"
          "Definition res_eqb (a b : res (list N)) : bool := match a, b with Ok x, Ok y => seqb x y | Err, Err => true | _, _ => false end.\n"
          "Definition lex_eqb (a : option (list N * list N)) (b : option (list N * list N)) : bool := match a, b with Some (x, y), Some (u, v) => seqb x u && seqb y v | None, None => true | _, _ => false end.\n"
          "Definition on_eqb (a b : option N) : bool := match a, b with Some x, Some y => N.eqb x y | None, None => true | _, _ => false end.\n")
POSITIONS = {
    "select": (lambda lit: "select %s from t" % lit, lambda t: t["select"]["value"]),
    "where": (lambda lit: "select a from t where b = %s" % lit, lambda t: t["where"]["eq"][1]),
    "in": (lambda lit: "select a from t where b in (%s, c)" % lit, lambda t: t["where"]["in"][1][0]),
    "arg": (lambda lit: "select f(%s, 1) from t" % lit, lambda t: t["select"]["value"]["f"][0]),
    "values": (lambda lit: "insert into t (a, b) values (%s, c)" % lit, lambda t: t["query"]["select"][0]["value"]),
}


RT_POSITIONS = [
    lambda lit: "select a from t where b in (%s, 'z')" % lit,
    lambda lit: "select a from t where b in (%s)" % lit,
    lambda lit: "select * from (values (1, %s), (2, 'z')) as v" % lit,
    lambda lit: "insert into t (a, b) values (%s, 'z'), ('q', %s)" % (lit, lit),
    lambda lit: "select f(%s, 1) as x from t where b = %s and c like %s" % (lit, lit, lit),
    lambda lit: "select case when a = %s then %s else 'z' end from t" % (lit, lit),
]


def klass(s):
    """lexical class of a string that the pinned tree is known to mishandle (each a listed finding), or None"""
    if "\\" in s:
        return "C06:backslash"
    if "\r" in s:
        return "C06:carriage-return"
    if "\x00" in s:
        return "C06:nul"
    return None


def run(ctx):
    ctx.rule = ("strings over a %d-symbol alphabet (quotes, backslash, CR, LF, NUL, ;, comment markers, digits, letters, non-ASCII) exhaustively to length 3 (quick) / 4 (thorough) plus random ones to length 40; "
                "unit level: the implementation's single_literal / double_literal / token regexes / Formatter._literal / parse_int against the Coq model; system level: each literal in 5 positions x 4 entry points, "
                "parse and format->parse; integers to 60 digits, floats over the binary64 range in all notations; distinct non-trivial = distinct literal texts" % len(ALPHA))
    ok, out = ctx.prove("Props.C06", THMS)
    from mo_sql_parsing import utils as U
    from mo_sql_parsing.formatting import Formatter
    known = ctx.finding_keys()
    rnd = ctx.rng("c06")
    # ---------------- unit-level correspondence
    strs = list(l0.strings(ALPHA[:16], ctx.n(3, 4)))
    strs += ["".join(rnd.choice(ALPHA) for _ in range(rnd.randint(4, 40))) for _ in range(ctx.n(600, 6000))]
    checks, meta = [], []
    sq_re = U.ansi_string.regex          # the live token regex (DOTALL)
    dq_re = U.mysql_doublequote_string.regex
    f = Formatter()
    for s in strs:
        tok = "'" + s.replace("'", "''") + "'"
        try:
            real = ("ok", U.single_literal([tok])["literal"])
        except Exception:
            real = ("err",)
        checks.append("res_eqb (single_literal %s) %s" % (l0.cs(tok), l0.cres(real))); meta.append(("single_literal", s))
        tok2 = '"' + s.replace('"', '""') + '"'
        try:
            real2 = ("ok", U.double_literal([tok2])["literal"])
        except Exception:
            real2 = ("err",)
        checks.append("res_eqb (double_literal %s) %s" % (l0.cs(tok2), l0.cres(real2))); meta.append(("double_literal", s))
        # the formatter's rendering of a string literal is the quoting function
        try:
            ft = f._literal({"literal": s})
        except Exception as e:
            ft = None
        if ft is not None:
            checks.append("seqb (quote SQ %s) %s" % (l0.cs(s), l0.cs(ft))); meta.append(("_literal", s))
        # token regex: the quoted text followed by other text
        rest = rnd.choice(["", " from t", ";x", "--c", ")"])
        m = sq_re.match(tok + rest)
        exp = "None" if not m else "(Some (%s, %s))" % (l0.cs(m.group(0)), l0.cs((tok + rest)[m.end():]))
        checks.append("lex_eqb (lex_string SQ %s) %s" % (l0.cs(tok + rest), exp)); meta.append(("ansi_string regex", s + "|" + rest))
        m = dq_re.match(tok2 + rest)
        exp = "None" if not m else "(Some (%s, %s))" % (l0.cs(m.group(0)), l0.cs((tok2 + rest)[m.end():]))
        checks.append("lex_eqb (lex_string DQ %s) %s" % (l0.cs(tok2 + rest), exp)); meta.append(("mysql_doublequote_string regex", s + "|" + rest))
        ctx.count(1, s)
    ints = [0, 1, 9, 10, 99, 100, 2**31, 2**63, 2**64 + 1, 10**40 - 1] + [rnd.randrange(10 ** rnd.randint(1, 60)) for _ in range(ctx.n(200, 2000))]
    for n in ints:
        checks.append("seqb (dec %d) %s" % (n, l0.cs(str(n)))); meta.append(("str(int)", n))
        try:
            v = U.parse_int([str(n)])
        except Exception as e:
            v = None
        checks.append("on_eqb (parse_dec %s) %s" % (l0.cs(str(n)), "None" if v is None else "(Some %d)" % v)); meta.append(("parse_int", n))
    bad, log = l0.run_checks(ctx, "c06", HEADER, checks)
    if bad is None:
        ctx.obligation("correspondence evaluated", False, log[-2000:])
        ctx.violation("obligation", dict(what="correspondence check could not be evaluated by coqc", log=log[-2000:]), no_input=True)
        bad = []
    ctx.traces = len(checks)
    ctx.obligation("correspondence: Model/Lit.v + Model/Num.v = single_literal / double_literal / ansi_string regex / Formatter._literal / str / parse_int on %d cases" % len(checks), not bad)
    unit_bad = [meta[i] for i in bad[:8]]
    # ---------------- system level: the property itself
    lits = [s for s in strs if len(s) <= 3][::ctx.n(9, 1)] + strs[-ctx.n(150, 1500):]
    entries = [("common_parser", False), ("mysql_parser", True), ("sqlserver_parser", False), ("bigquery_parser", True)]
    nsys = 0
    for k, s in enumerate(lits):
        kl = klass(s)
        for ename, dq in entries:
            fn = impl.ENTRY[ename]
            forms = [("'" + s.replace("'", "''") + "'", "single")]
            if dq:
                forms.append(('"' + s.replace('"', '""') + '"', "double"))
            for lit, form in forms:
                pos = list(POSITIONS)[(k + len(lit)) % 5] if not ctx.thorough else None
                for pn, (mk, get) in POSITIONS.items():
                    if pos and pn != pos:
                        continue
                    st, t = impl.outcome(fn, mk(lit))
                    nsys += 1
                    good = False
                    if st == "ok":
                        try:
                            good = get(t) == {"literal": s}
                        except Exception:
                            good = False
                    if good:
                        continue
                    if kl and kl in known:
                        ctx.known(kl, "%s e.g. %s" % (known[kl]["what"], known[kl]["witness"]))
                        continue
                    ctx.violation("input", dict(entry=ename, sql=mk(lit), literal=s, form=form, position=pn, returned=short(t, 500) if st == "ok" else [st, str(t)],
                                                requires="{'literal': %r} at the literal's position" % s))
        # parse -> format -> parse in the positions where the formatter prints literals as members of a list (IN lists, VALUES rows) or as operands
        q1 = "'" + s.replace("'", "''") + "'"
        for mk in RT_POSITIONS:
            sql = mk(q1)
            st0, t0 = impl.outcome(impl.M.parse, sql)
            nsys += 1
            if st0 != "ok":
                continue
            stf, txt = impl.outcome(impl.M.format, t0)
            stb, back = impl.outcome(impl.M.parse, txt) if stf == "ok" else ("fmt", txt)
            if not (stf == "ok" and stb == "ok" and back == t0):
                if kl and kl in known:
                    ctx.known(kl, "%s e.g. %s" % (known[kl]["what"], known[kl]["witness"]))
                else:
                    ctx.violation("input", dict(sql=sql, literal=s, tree=short(t0, 400), formatted=txt if stf == "ok" else [stf, str(txt)], reparsed=short(back, 400),
                                                requires="format then parse returns the same tree (the literal survives)"))
        # format -> parse
        st, txt = impl.outcome(impl.M.format, {"select": {"value": {"literal": s}}})
        st2, back = impl.outcome(impl.M.parse, txt) if st == "ok" else ("fmt", txt)
        nsys += 1
        if not (st == "ok" and st2 == "ok" and back == {"select": {"value": {"literal": s}}}):
            if kl and kl in known:
                ctx.known(kl, "%s e.g. %s" % (known[kl]["what"], known[kl]["witness"]))
            else:
                ctx.violation("input", dict(tree={"select": {"value": {"literal": s}}}, formatted=txt if st == "ok" else None, reparsed=short(back, 400), requires="format then parse returns the same literal"))
    # numbers
    def num_case(text, want, kind):
        nonlocal nsys
        for ename, _ in entries[: (4 if ctx.thorough else 2)]:
            st, t = impl.outcome(impl.ENTRY[ename], "select %s from t" % text)
            nsys += 1
            got = t["select"]["value"] if st == "ok" and isinstance(t, dict) and isinstance(t.get("select"), dict) else None
            if st == "ok" and type(got) is type(want) and (got == want or (isinstance(want, float) and math.isnan(want) and math.isnan(got))):
                continue
            key = {"int-exp": "C06:int-exponent", "float-exp-neg-int": "C06:int-exponent", "float-huge": "C06:float-overflow"}.get(kind)
            if key and key in known:
                ctx.known(key, "%s e.g. %s" % (known[key]["what"], known[key]["witness"]))
                continue
            ctx.violation("input", dict(entry=ename, sql="select %s from t" % text, returned=short(t, 300) if st == "ok" else [st, str(t)], requires="%s %r" % (type(want).__name__, want)))
    for n in ints[: ctx.n(80, 800)]:
        num_case(str(n), n, "int")
        num_case("-%d" % n, -n, "int")
        num_case("- %d" % n, -n, "int") if n else None
    for _ in range(ctx.n(150, 2000)):
        x = struct.unpack("<d", struct.pack("<Q", rnd.getrandbits(64)))[0]
        if math.isnan(x) or math.isinf(x):
            continue
        x = abs(x)
        r = repr(x)
        if "e" not in r:
            num_case(r, x, "float")
            if r.startswith("0."):
                num_case(r[1:], float(r[1:]), "float")
            if r.endswith(".0"):
                num_case(r[:-1], float(r[:-1]), "float")
        mant = "%d.%d" % (rnd.randint(0, 99), rnd.randint(0, 999))
        e = rnd.randint(-300, 300)
        for text in ("%se%d" % (mant, e), "%sE%+d" % (mant, e), ".5e%d" % e, "5.e%d" % e):
            num_case(text, float(text), "float")
        # format of a float / int / bool parses back to the identical value and type
        for v in (x, -x, float(rnd.randint(-10**6, 10**6)), rnd.randint(-10**30, 10**30), True, False):
            st, txt = impl.outcome(impl.M.format, {"select": {"value": v}})
            st2, back = impl.outcome(impl.M.parse, txt) if st == "ok" else ("fmt", txt)
            nsys += 1
            got = back["select"]["value"] if st2 == "ok" and isinstance(back, dict) else None
            if st == "ok" and st2 == "ok" and type(got) is type(v) and got == v:
                continue
            # the listed finding covers exactly the reprs the number grammar reads differently: a negative exponent, or a mantissa without a dot
            # (1e+16 is read as an integer); a repr like 1.5e+17 parses back exactly and is NOT excused
            if isinstance(v, float) and "e" in repr(v) and ("e-" in repr(v) or "." not in repr(v).split("e")[0]) and "C06:float-repr-exponent" in known:
                ctx.known("C06:float-repr-exponent", "%s e.g. %s" % (known["C06:float-repr-exponent"]["what"], known["C06:float-repr-exponent"]["witness"]))
                continue
            ctx.violation("input", dict(tree={"select": {"value": v}}, formatted=txt if st == "ok" else None, reparsed=short(back, 300), requires="%s %r" % (type(v).__name__, v)))
    # integers written with an exponent: exact below 2^53 whatever the spelling of the marker and the sign (only the inexact ones are a listed finding)
    for m in (1, 23, 3631, 907):
        for e in (0, 3, 5, 9):
            for mark in ("e", "E", "e+", "E+"):
                if m * 10 ** e < 2 ** 53:
                    num_case("%d%s%d" % (m, mark, e), m * 10 ** e, "int-exp-exact")
    for text, want, kind in (("1e25", 10**25, "int-exp"), ("1e-3", 0.001, "float-exp-neg-int"), ("1.0e400", None, "float-huge")):
        if want is not None:
            num_case(text, want, kind)
    ctx.count(nsys)
    ctx.extra["system_level_evaluations"] = nsys
    ctx.sample(dict(literal=strs[50], quoted="'" + strs[50].replace("'", "''") + "'"))
    for m in unit_bad:
        ctx.violation("input", dict(function=m[0], argument=m[1], broken="correspondence Model/Lit.v / Model/Num.v vs the implementation's literal functions (C06 theorems are proved about the model)"), no_input=True)


def replay(ctx, rep):
    if "sql" in rep:
        print(impl.outcome(impl.ENTRY.get(rep.get("entry", "common_parser")), rep["sql"]))
    print("requires:", rep.get("requires"))
    print("VIOLATION property=C06 replay=%s" % ctx.replay)
    return 1
